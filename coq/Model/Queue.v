(** Model of cmd/zoekt-sourcegraph-indexserver/queue.go + backoff.go (the indexing queue) with
    container/heap's up/down/Push/Pop/Remove/Fix transcribed, so that the heapIdx bookkeeping done by
    pqueue.Swap/Push/Pop is inside the model.

    Representation choices (see props/C30/NOTES.md):
    - Go shares *queueItem pointers between Queue.items and Queue.pq. Here the heap array holds
      repository ids and every field (including heapIdx) lives in the item table [q_items]; an id in
      the array stands for the pointer to the item with that repoID.
    - IndexOptions is abstracted to (RepoID, tag); reflect.DeepEqual is equality of both.
    - time.Now() is an explicit argument [now] (ns since the Unix epoch) of every operation.
    - dateAddedToQueue (telemetry only), the metrics and the logger are not modelled.
    - int/int64/Duration arithmetic is unbounded (Z): no overflow of seq or of the backoff product. *)
From ZV Require Import Lib.Base.

(** * container/heap, generic over the heap.Interface implementation (Len/Less/Swap) *)
Section ContainerHeap.
  Context {St : Type} (len : St -> nat) (less : St -> nat -> nat -> bool) (swap : St -> nat -> nat -> St).

  (* func up(h, j): for { i := (j-1)/2; if i == j || !h.Less(j, i) { break }; h.Swap(i, j); j = i } *)
  Fixpoint up (fuel : nat) (s : St) (j : nat) : St :=
    match fuel with
    | O => s
    | S f =>
        let i := (j - 1) / 2 in
        if (i =? j) || negb (less s j i) then s else up f (swap s i j) i
    end.

  (* func down(h, i0, n) bool: returns the final state and the final i *)
  Fixpoint down_loop (fuel : nat) (s : St) (i n : nat) : St * nat :=
    match fuel with
    | O => (s, i)
    | S f =>
        let j1 := 2 * i + 1 in
        if n <=? j1 then (s, i) else
        let j := if (j1 + 1 <? n) && less s (j1 + 1) j1 then j1 + 1 else j1 in
        if negb (less s j i) then (s, i) else down_loop f (swap s i j) j n
    end.
  Definition down (fuel : nat) (s : St) (i0 n : nat) : St * bool :=
    let (s', i) := down_loop fuel s i0 n in (s', i0 <? i).

  (* func Fix(h, i) { if !down(h, i, h.Len()) { up(h, i) } } *)
  Definition heap_fix (s : St) (i : nat) : St :=
    let fuel := S (len s) in
    let (s', moved) := down fuel s i (len s) in
    if moved then s' else up fuel s' i.

  (* the part of heap.Remove before h.Pop(): n := h.Len()-1; if n != i { Swap(i,n); if !down(h,i,n) { up(h,i) } } *)
  Definition heap_remove_pre (s : St) (i : nat) : St :=
    let fuel := S (len s) in
    let n := len s - 1 in
    if n =? i then s else
      let s1 := swap s i n in
      let (s2, moved) := down fuel s1 i n in
      if moved then s2 else up fuel s2 i.

  (* the part of heap.Pop before h.Pop(): n := h.Len()-1; Swap(0,n); down(h,0,n) *)
  Definition heap_pop_pre (s : St) : St :=
    let n := len s - 1 in
    fst (down (S (len s)) (swap s 0 n) 0 n).
End ContainerHeap.

(** * queue items *)
Record opts := { o_repo : N; o_ver : N }.
Definition opts_zero : opts := {| o_repo := 0; o_ver := 0 |}.
Definition opts_eqb (a b : opts) : bool := N.eqb (o_repo a) (o_repo b) && N.eqb (o_ver a) (o_ver b).

Definition st_none : N := 0.   (* indexState "" *)
Definition st_fail : N := 1.   (* indexStateFail; every other value = success/success_meta/noop/empty *)

Record item := {
  it_id : N;          (* repoID *)
  it_opts : opts;
  it_indexed : bool;
  it_state : N;       (* indexState *)
  it_hidx : Z;        (* heapIdx *)
  it_seq : Z;
  it_cf : Z;          (* backoff.consecutiveFailures *)
  it_until : Z        (* backoff.backoffUntil *)
}.

Definition set_opts (o : opts) (x : item) := {| it_id := it_id x; it_opts := o; it_indexed := it_indexed x; it_state := it_state x; it_hidx := it_hidx x; it_seq := it_seq x; it_cf := it_cf x; it_until := it_until x |}.
Definition set_indexed (b : bool) (x : item) := {| it_id := it_id x; it_opts := it_opts x; it_indexed := b; it_state := it_state x; it_hidx := it_hidx x; it_seq := it_seq x; it_cf := it_cf x; it_until := it_until x |}.
Definition set_state (s : N) (x : item) := {| it_id := it_id x; it_opts := it_opts x; it_indexed := it_indexed x; it_state := s; it_hidx := it_hidx x; it_seq := it_seq x; it_cf := it_cf x; it_until := it_until x |}.
Definition set_hidx (h : Z) (x : item) := {| it_id := it_id x; it_opts := it_opts x; it_indexed := it_indexed x; it_state := it_state x; it_hidx := h; it_seq := it_seq x; it_cf := it_cf x; it_until := it_until x |}.
Definition set_seq (s : Z) (x : item) := {| it_id := it_id x; it_opts := it_opts x; it_indexed := it_indexed x; it_state := it_state x; it_hidx := it_hidx x; it_seq := s; it_cf := it_cf x; it_until := it_until x |}.
Definition set_backoff (cf until : Z) (x : item) := {| it_id := it_id x; it_opts := it_opts x; it_indexed := it_indexed x; it_state := it_state x; it_hidx := it_hidx x; it_seq := it_seq x; it_cf := cf; it_until := until |}.

(** time.Time{} (year 1) in ns relative to the Unix epoch: the initial backoffUntil *)
Definition time_zero : Z := (-62135596800000000000)%Z.

Definition new_item (id : N) : item :=
  {| it_id := id; it_opts := opts_zero; it_indexed := false; it_state := st_none; it_hidx := (-1)%Z;
     it_seq := 0%Z; it_cf := 0%Z; it_until := time_zero |}.

(** lessQueueItemPriority *)
Definition is_fail (x : item) : bool := N.eqb (it_state x) st_fail.
Definition less_item (x y : item) : bool :=
  if negb (Bool.eqb (it_indexed x) (it_indexed y)) then negb (it_indexed x)
  else if negb (Bool.eqb (is_fail x) (is_fail y)) then negb (is_fail x)
  else (it_seq x <? it_seq y)%Z.

(** * the item table (Go: map[uint32]*queueItem), keyed by it_id *)
Fixpoint get (id : N) (m : list item) : option item :=
  match m with
  | [] => None
  | x :: r => if N.eqb (it_id x) id then Some x else get id r
  end.
Definition modify (id : N) (f : item -> item) (m : list item) : list item :=
  map (fun x => if N.eqb (it_id x) id then f x else x) m.
Definition del (id : N) (m : list item) : list item :=
  filter (fun x => negb (N.eqb (it_id x) id)) m.
Definition keys (m : list item) : list N := map it_id m.
Definition item_of (m : list item) (id : N) : item :=
  match get id m with Some x => x | None => new_item id end.

(** * backoff.go *)
Record cfg := { c_bd : Z; c_max : Z }.
Definition allow (x : item) (now : Z) : bool := (it_until x <? now)%Z.          (* backoffUntil.Before(now) *)
Definition bo_reset (x : item) : item := set_backoff 0%Z 0%Z x.                  (* time.Unix(0,0) *)
Definition bo_fail (c : cfg) (now : Z) (x : item) : item :=
  let d := ((it_cf x + 1) * c_bd c)%Z in
  if (d >? c_max c)%Z then set_backoff (it_cf x) (now + c_max c)%Z x
  else set_backoff (it_cf x + 1)%Z (now + d)%Z x.

(** * the queue *)
Record queue := { q_cfg : cfg; q_items : list item; q_pq : list N; q_seq : Z }.

Definition new_queue (bd mx : Z) : queue :=
  let c := if ((bd <? 0) || (mx <? 0))%Z then {| c_bd := 0%Z; c_max := 0%Z |} else {| c_bd := bd; c_max := mx |} in
  {| q_cfg := c; q_items := []; q_pq := []; q_seq := 0%Z |}.

Definition with_items (q : queue) (m : list item) : queue :=
  {| q_cfg := q_cfg q; q_items := m; q_pq := q_pq q; q_seq := q_seq q |}.
Definition q_modify (q : queue) (id : N) (f : item -> item) : queue := with_items q (modify id f (q_items q)).

(** pqueue: Len / Less / Swap / Push / Pop *)
Fixpoint upd {A} (l : list A) (i : nat) (x : A) : list A :=
  match l, i with
  | [], _ => []
  | _ :: r, O => x :: r
  | y :: r, S k => y :: upd r k x
  end.
Definition pq_len (q : queue) : nat := length (q_pq q).
Definition pq_at (q : queue) (i : nat) : N := nth i (q_pq q) 0%N.
Definition pq_less (q : queue) (i j : nat) : bool :=
  less_item (item_of (q_items q) (pq_at q i)) (item_of (q_items q) (pq_at q j)).
(* pq[i], pq[j] = pq[j], pq[i]; pq[i].heapIdx = i; pq[j].heapIdx = j *)
Definition pq_swap (q : queue) (i j : nat) : queue :=
  let a := pq_at q i in
  let b := pq_at q j in
  {| q_cfg := q_cfg q;
     q_items := modify a (set_hidx (Z.of_nat j)) (modify b (set_hidx (Z.of_nat i)) (q_items q));
     q_pq := upd (upd (q_pq q) i b) j a;
     q_seq := q_seq q |}.
(* item.heapIdx = n; pq = append(pq, item) *)
Definition pq_push (q : queue) (id : N) : queue :=
  {| q_cfg := q_cfg q;
     q_items := modify id (set_hidx (Z.of_nat (pq_len q))) (q_items q);
     q_pq := q_pq q ++ [id];
     q_seq := q_seq q |}.
(* item := old[n-1]; item.heapIdx = -1; pq = old[0:n-1]; return item *)
Definition pq_pop (q : queue) : queue * N :=
  let id := pq_at q (pq_len q - 1) in
  ({| q_cfg := q_cfg q;
      q_items := modify id (set_hidx (-1)%Z) (q_items q);
      q_pq := removelast (q_pq q);
      q_seq := q_seq q |}, id).

Definition h_push (q : queue) (id : N) : queue :=
  let q1 := pq_push q id in up pq_less pq_swap (S (pq_len q1)) q1 (pq_len q1 - 1).
Definition h_pop (q : queue) : queue * N := pq_pop (heap_pop_pre pq_len pq_less pq_swap q).
Definition h_remove (q : queue) (i : nat) : queue * N := pq_pop (heap_remove_pre pq_len pq_less pq_swap q i).
Definition h_fix (q : queue) (i : nat) : queue := heap_fix pq_len pq_less pq_swap q i.

(** getOrAdd *)
Definition get_or_add (q : queue) (id : N) : queue :=
  match get id (q_items q) with
  | Some _ => q
  | None => with_items q (q_items q ++ [new_item id])
  end.

(** q.seq++; item.seq = q.seq; heap.Push(&q.pq, item) *)
Definition enqueue (q : queue) (id : N) : queue :=
  let s := (q_seq q + 1)%Z in
  h_push {| q_cfg := q_cfg q; q_items := modify id (set_seq s) (q_items q); q_pq := q_pq q; q_seq := s |} id.

Definition add_or_update (q : queue) (now : Z) (o : opts) : queue :=
  let id := o_repo o in
  let q1 := get_or_add q id in
  let q2 := if opts_eqb (it_opts (item_of (q_items q1) id)) o then q1
            else q_modify q1 id (fun x => set_opts o (set_indexed false x)) in
  let x := item_of (q_items q2) id in
  if (it_hidx x <? 0)%Z then
    (if allow x now then enqueue q2 id else q2)
  else h_fix q2 (Z.to_nat (it_hidx x)).

Definition pop (q : queue) : queue * option opts :=
  match q_pq q with
  | [] => (q, None)
  | _ => let (q', id) := h_pop q in (q', Some (it_opts (item_of (q_items q') id)))
  end.

Fixpoint bump (q : queue) (now : Z) (ids : list N) : queue * list N :=
  match ids with
  | [] => (q, [])
  | id :: r =>
      match get id (q_items q) with
      | None => let (q', miss) := bump q now r in (q', id :: miss)
      | Some x =>
          if (it_hidx x <? 0)%Z && allow x now then bump (enqueue q id) now r else bump q now r
      end
  end.

Definition set_indexed_op (q : queue) (now : Z) (o : opts) (state : N) : queue :=
  let id := o_repo o in
  let q1 := q_modify (get_or_add q id) id (set_state state) in
  if negb (N.eqb state st_fail) then
    let q2 := q_modify q1 id (fun x => bo_reset (set_indexed (opts_eqb o (it_opts x)) x)) in
    let x := item_of (q_items q2) id in
    if (0 <=? it_hidx x)%Z then h_fix q2 (Z.to_nat (it_hidx x)) else q2
  else
    let q2 := q_modify q1 id (bo_fail (q_cfg q1) now) in
    let x := item_of (q_items q2) id in
    if (0 <=? it_hidx x)%Z then
      q_modify (fst (h_remove q2 (Z.to_nat (it_hidx x)))) id (set_hidx (-1)%Z)
    else q2.

(** MaybeRemoveMissing. The loop ranges over the Go map; the model walks a snapshot of the keys and skips
    keys deleted meanwhile (Go: entries removed before being reached are not produced).
    [keyf] is the field used for the membership test, the delete and the reported id:
    [it_id] in the current (repaired) code, [fun x => o_repo (it_opts x)] before the repair. *)
Definition mem (x : N) (l : list N) : bool := existsb (N.eqb x) l.
Fixpoint rm_loop (keyf : item -> N) (ids : list N) (q : queue) (ks : list N) : queue * list N :=
  match ks with
  | [] => (q, [])
  | k :: r =>
      match get k (q_items q) with
      | None => rm_loop keyf ids q r
      | Some x =>
          if mem (keyf x) ids then rm_loop keyf ids q r else
          let q1 := if (0 <=? it_hidx x)%Z then fst (h_remove q (Z.to_nat (it_hidx x))) else q in
          let q2 := q_modify q1 k (set_state st_none) in
          let q3 := with_items q2 (del (keyf x) (q_items q2)) in
          let (q', rem) := rm_loop keyf ids q3 r in (q', keyf x :: rem)
      end
  end.
Definition remove_missing_gen (keyf : item -> N) (q : queue) (ids : list N) : queue * list N :=
  if length (q_items q) =? length ids then (q, []) else rm_loop keyf ids q (keys (q_items q)).
Definition remove_missing := remove_missing_gen it_id.
Definition remove_missing_prefix := remove_missing_gen (fun x => o_repo (it_opts x)).   (* code before the repair *)

(** * operations and observations (one history = list of timed operations) *)
Inductive op :=
| OAdd (id ver : N)
| OPop
| OBump (ids : list N)
| OSetIndexed (id ver : N) (state : N)
| ORemoveMissing (ids : list N)
| OLen
| OKeys.
Inductive obs :=
| RUnit
| RPop (r : option (N * N))
| RIds (l : list N)
| RLen (n : N).

Fixpoint ins_sortedN (x : N) (l : list N) : list N :=
  match l with
  | [] => [x]
  | y :: r => if (x <=? y)%N then x :: l else y :: ins_sortedN x r
  end.
Definition sortN (l : list N) : list N := fold_right ins_sortedN [] l.

Definition step_gen (keyf : item -> N) (q : queue) (now : Z) (o : op) : queue * obs :=
  match o with
  | OAdd id ver => (add_or_update q now {| o_repo := id; o_ver := ver |}, RUnit)
  | OPop => let (q', r) := pop q in (q', RPop (option_map (fun o => (o_repo o, o_ver o)) r))
  | OBump ids => let (q', miss) := bump q now ids in (q', RIds miss)
  | OSetIndexed id ver st => (set_indexed_op q now {| o_repo := id; o_ver := ver |} st, RUnit)
  | ORemoveMissing ids => let (q', rem) := remove_missing_gen keyf q ids in (q', RIds (sortN rem))
  | OLen => (q, RLen (N.of_nat (pq_len q)))
  | OKeys => (q, RIds (sortN (keys (q_items q))))
  end.
Definition step := step_gen it_id.

Fixpoint run (q : queue) (h : list (Z * op)) : queue :=
  match h with
  | [] => q
  | (now, o) :: r => run (fst (step q now o)) r
  end.

(** * correspondence runner.
    CQueue backoffDuration maxBackoff [(now, op, observation of the Go queue)]
    CBackoff backoffDuration maxBackoff [(op on a bare backoff struct, now, Allow(now), consecutiveFailures, backoffUntil) after the op] *)
Inductive bop := BReset | BFail (now : Z) | BAllow (now : Z).
Inductive c30case :=
| CQueue (bd mx : Z) (h : list (Z * op * obs))
| CBackoff (bd mx : Z) (h : list (bop * Z * bool * Z * Z)).

Definition obs_eqb (a b : obs) : bool :=
  match a, b with
  | RUnit, RUnit => true
  | RPop None, RPop None => true
  | RPop (Some (a1, a2)), RPop (Some (b1, b2)) => N.eqb a1 b1 && N.eqb a2 b2
  | RIds x, RIds y => list_eqb N.eqb x y
  | RLen x, RLen y => N.eqb x y
  | _, _ => false
  end.
Fixpoint replay_ok (keyf : item -> N) (q : queue) (h : list (Z * op * obs)) : bool :=
  match h with
  | [] => true
  | (now, o, r) :: rest =>
      let (q', r') := step_gen keyf q now o in
      obs_eqb r r' && replay_ok keyf q' rest
  end.
Fixpoint backoff_ok (c : cfg) (x : item) (h : list (bop * Z * bool * Z * Z)) : bool :=
  match h with
  | [] => true
  | (o, now, al, cf, un) :: rest =>
      let x' := match o with BReset => bo_reset x | BFail t => bo_fail c t x | BAllow _ => x end in
      Bool.eqb (allow x' now) al && (it_cf x' =? cf)%Z && (it_until x' =? un)%Z && backoff_ok c x' rest
  end.
Definition c30_ok_gen (keyf : item -> N) (c : c30case) : bool :=
  match c with
  | CQueue bd mx h => replay_ok keyf (new_queue bd mx) h
  | CBackoff bd mx h => backoff_ok {| c_bd := bd; c_max := mx |} (new_item 0) h
  end.
Definition c30_ok := c30_ok_gen it_id.
Definition c30_mismatches (cs : list c30case) : list N := bad_indexes c30_ok cs.
(* the same runner for the code before the repair (refutation / re-deriving the finding) *)
Definition c30_ok_prefix := c30_ok_gen (fun x => o_repo (it_opts x)).
Definition c30_mismatches_prefix (cs : list c30case) : list N := bad_indexes c30_ok_prefix cs.
