(** C15 — model of the directory indexer (cmd/zoekt-index/main.go: indexArg, fileAggregator.add,
    newIgnoreMatcher; filepath.Walk's visiting discipline) and of the archive indexer
    (internal/archive/index.go: Index, stripComponents; archive.go: tarArchive.Next / zipArchive.Next's
    "regular members only" filter).

    Boundary (trusted, see props/C15/NOTES.md): tar/zip/gzip decoding, the glob matcher behind
    ignore.Matcher.Match (a verdict function [ig] here), the operating system (lstat/readlink/readfile
    succeed), index.Builder (documents handed to Add are the documents of the shard, with the skip
    rewriting of Builder.Add/DocChecker.Check modelled by [builder_view]; the too-many-trigrams rule is
    out of the generator's reach and not modelled). *)
From ZV Require Import Lib.Base Model.IgnoreFile.

Definition bytes := list N.
Definition bytes_eqb : bytes -> bytes -> bool := list_eqb N.eqb.
Definition mem_name (x : bytes) (l : list bytes) : bool := existsb (bytes_eqb x) l.

(** ---------- what the shard shows for a document handed to index.Builder.Add *)

(* notIndexedMarker ++ SkipReason.explanation() (index/shard_builder.go, index/document.go) *)
Definition marker_too_large : bytes :=  (* "NOT-INDEXED: exceeds the maximum size limit" *)
  [78;79;84;45;73;78;68;69;88;69;68;58;32;101;120;99;101;101;100;115;32;116;104;101;32;109;97;120;105;109;117;109;32;115;105;122;101;32;108;105;109;105;116]%N.
Definition marker_too_small : bytes :=  (* "NOT-INDEXED: contains too few trigrams" *)
  [78;79;84;45;73;78;68;69;88;69;68;58;32;99;111;110;116;97;105;110;115;32;116;111;111;32;102;101;119;32;116;114;105;103;114;97;109;115]%N.
Definition marker_binary : bytes :=     (* "NOT-INDEXED: contains binary content" *)
  [78;79;84;45;73;78;68;69;88;69;68;58;32;99;111;110;116;97;105;110;115;32;98;105;110;97;114;121;32;99;111;110;116;101;110;116]%N.

Definition has_nul (c : bytes) : bool := existsb (N.eqb 0) c.

(** Builder.Add + DocChecker.Check + ShardBuilder.Add on Document{Content: c} (no LargeFiles patterns):
    too large / too small (1-2 bytes) / binary documents keep their name, the content becomes the marker. *)
Definition builder_view (size_max : nat) (c : bytes) : bytes :=
  if size_max <? length c then marker_too_large
  else match c with
       | [] => c
       | _ => if length c <? 3 then marker_too_small
              else if has_nul c then marker_binary
              else c
       end.

(** ---------- directory trees *)

Inductive node :=
| NFile (content : bytes)
| NSymlink (target : bytes)
| NOther                                  (* fifo, socket, device: neither regular nor symlink *)
| NDir (children : list (bytes * node)).  (* in the order filepath.Walk visits them (sorted names) *)

(** join the components of a relative path with '/' *)
Fixpoint join_path (p : list bytes) : bytes :=
  match p with
  | [] => []
  | [x] => x
  | x :: r => x ++ 47%N :: join_path r
  end.

Definition raw := (list bytes * bytes)%type.   (* (relative path as components, bytes handed on) *)

Section Walk.
  Variable ig : list bytes -> bool.   (* a.ignore.Match(rel) *)
  Variable igd : list bytes.          (* a.ignoreDirs *)

  (** filepath.Walk(dir, agg.add) below the root: [path] is the relative path of [n], [base] its last
      component.  A directory whose base name is ignored, or whose path matches the ignore file, is
      skipped with all its descendants (filepath.SkipDir); a matching file is skipped; regular files
      and symlinks are sent to the sink; a symlink is never resolved (Walk uses lstat). *)
  Fixpoint walk (path : list bytes) (base : bytes) (n : node) {struct n} : list raw :=
    match n with
    | NFile c => if ig path then [] else [(path, c)]
    | NSymlink t => if ig path then [] else [(path, t)]
    | NOther => []
    | NDir ch =>
        if mem_name base igd then [] else
        if ig path then [] else
        (fix go (l : list (bytes * node)) : list raw :=
           match l with
           | [] => []
           | (nm, c) :: r => walk (path ++ [nm]) nm c ++ go r
           end) ch
    end.

  Definition walk_children (path : list bytes) (ch : list (bytes * node)) : list raw :=
    flat_map (fun p => walk (path ++ [fst p]) (fst p) (snd p)) ch.

  (** the root itself: only the ignored-directory-name test applies (path == a.root skips the matcher) *)
  Definition walk_root (root_base : bytes) (ch : list (bytes * node)) : list raw :=
    if mem_name root_base igd then [] else walk_children [] ch.
End Walk.

Fixpoint lookup_child (nm : bytes) (ch : list (bytes * node)) : option node :=
  match ch with
  | [] => None
  | (k, n) :: r => if bytes_eqb k nm then Some n else lookup_child nm r
  end.

Definition name_sourcegraph : bytes := [46;115;111;117;114;99;101;103;114;97;112;104]%N. (* ".sourcegraph" *)
Definition name_ignore : bytes := [105;103;110;111;114;101]%N.                             (* "ignore" *)

(** newIgnoreMatcher: the ignore file is honoured only when .sourcegraph is a real directory and
    .sourcegraph/ignore a regular file (neither is resolved through a symlink). *)
Definition ignore_file_of (ch : list (bytes * node)) : option bytes :=
  match lookup_child name_sourcegraph ch with
  | Some (NDir sub) => match lookup_child name_ignore sub with
                       | Some (NFile c) => Some c
                       | _ => None
                       end
  | _ => None
  end.

Definition doc := (bytes * bytes)%type.   (* (name, content as stored in the shard) *)

(** indexArg's consumer loop: display name = path relative to the root; a file or link whose size
    (for a link: the length of its target) exceeds SizeMax becomes a too-large stub, everything else
    goes to Builder.Add with its bytes / its link target. *)
Definition arg_doc (size_max : nat) (r : raw) : doc :=
  (join_path (fst r), builder_view size_max (snd r)).

(** [matcher content] = verdict function of ignore.ParseIgnoreFile(content) (trusted glob library) *)
Definition index_arg (matcher : bytes -> list bytes -> bool) (igd : list bytes) (size_max : nat)
           (root_base : bytes) (ch : list (bytes * node)) : list doc :=
  let ig := match ignore_file_of ch with
            | Some c => matcher c
            | None => fun _ => false
            end in
  map (arg_doc size_max) (walk_root ig igd root_base ch).

(** ---------- archives *)

Inductive mkind := MReg | MDir | MSymlink | MOther.
Record member := { m_kind : mkind; m_name : bytes; m_data : bytes }.
Definition is_reg (m : member) : bool := match m_kind m with MReg => true | _ => false end.

(** rest of the path after its first '/' (strings.Index + slicing) *)
Fixpoint after_slash (p : bytes) : option bytes :=
  match p with
  | [] => None
  | c :: r => if N.eqb c 47 then Some r else after_slash r
  end.

(** stripComponents *)
Fixpoint strip_components (p : bytes) (count : nat) : bytes :=
  match count with
  | 0 => p
  | S k => match p with
           | [] => []
           | _ => match after_slash p with
                  | None => []
                  | Some r => strip_components r k
                  end
           end
  end.

Definition is_nil {A} (l : list A) : bool := match l with [] => true | _ => false end.

(** archive.Index: [b] is the lazily created builder (None = the nil *index.Builder). Next() only
    returns regular members (tarArchive.Next skips other type flags, newZipArchive filters on
    Mode().IsRegular()). *)
Definition add_member (strip size_max : nat) (b : option (list doc)) (m : member) : option (list doc) :=
  let docs := match b with None => [] | Some d => d end in        (* once.Do(NewBuilder) *)
  let name := strip_components (m_name m) strip in
  if is_nil name then Some docs
  else Some (docs ++ [(name, builder_view size_max (m_data m))]).

Fixpoint archive_loop (strip size_max : nat) (b : option (list doc)) (ms : list member) : option (list doc) :=
  match ms with
  | [] => b
  | m :: r => if is_reg m then archive_loop strip size_max (add_member strip size_max b m) r
              else archive_loop strip size_max b r
  end.

Definition panic_nil_builder : N := 1.

(** the code before the repair: builder.Finish() on the builder as the loop left it *)
Definition archive_index_unguarded (strip size_max : nat) (ms : list member) : outcome (list doc) :=
  match archive_loop strip size_max None ms with
  | None => Panic panic_nil_builder          (* Finish on the nil Builder pointer: nil pointer dereference *)
  | Some d => Ok d
  end.

(** the code after the repair (fix: create the builder when no file was seen, then Finish: an empty shard) *)
Definition archive_index (strip size_max : nat) (ms : list member) : outcome (list doc) :=
  match archive_loop strip size_max None ms with
  | None => Ok []
  | Some d => Ok d
  end.

(** ---------- correspondence runners *)

Definition doc_eqb (a b : doc) : bool := bytes_eqb (fst a) (fst b) && bytes_eqb (snd a) (snd b).

Fixpoint remove_first (x : doc) (l : list doc) : option (list doc) :=
  match l with
  | [] => None
  | y :: r => if doc_eqb x y then Some r
              else match remove_first x r with Some r' => Some (y :: r') | None => None end
  end.
(** equality as multisets (the shard orders documents by its own ranking) *)
Fixpoint ms_eqb (a b : list doc) : bool :=
  match a with
  | [] => is_nil b
  | x :: a' => match remove_first x b with Some b' => ms_eqb a' b' | None => false end
  end.

(** directory case: ignored dir names, SizeMax, base name of the root, the root's children, the (pattern, path)
    pairs on which the real glob engine says "match" (patterns: the harness' own reading of the candidate ignore
    content; the MODEL derives the patterns it looks up from the ignore file it finds in the tree, Model/IgnoreFile.v),
    result code (0 ok, 1 error, 2 panic) and the documents read back from the shards. *)
Definition c15dcase := (list bytes * N * bytes * list (bytes * node) * list (bytes * bytes) * N * list doc)%type.

Definition c15d_ok (c : c15dcase) : bool :=
  let '(igd, size_max, root_base, ch, tab, res, docs) := c in
  let matcher := fun (content : bytes) (p : list bytes) => ignore_match (table_glob tab) content (join_path p) in
  N.eqb res 0 && ms_eqb (index_arg matcher igd (N.to_nat size_max) root_base ch) docs.
Definition c15d_mismatches (cs : list c15dcase) : list N := bad_indexes c15d_ok cs.

(** archive case: strip count, SizeMax, members (kind code 0 reg / 1 dir / 2 symlink / 3 other, name,
    data), result code (0 ok, 1 error, 2 panic) and the documents read back. *)
Definition c15acase := (N * N * list (N * bytes * bytes) * N * list doc)%type.

Definition mk_member (t : N * bytes * bytes) : member :=
  let '(k, n, d) := t in
  {| m_kind := match k with 0%N => MReg | 1%N => MDir | 2%N => MSymlink | _ => MOther end;
     m_name := n; m_data := d |}.

Definition c15a_ok (c : c15acase) : bool :=
  let '(strip, size_max, ms, res, docs) := c in
  match archive_index (N.to_nat strip) (N.to_nat size_max) (map mk_member ms) with
  | Ok d => N.eqb res 0 && ms_eqb d docs
  | Err _ => N.eqb res 1
  | Panic _ => N.eqb res 2
  end.
Definition c15a_mismatches (cs : list c15acase) : list N := bad_indexes c15a_ok cs.
