(** Byte-level model of query/parse.go: parseStringLiteral, nextToken, token.setType, parseExpr,
    parseExprList, parseOperators, Parse (followed by stripCaseScopes and Simplify from Model/Query.v).

    Every Go operation that can panic is a checked operation in the outcome monad: [in[1:]], [lft[n:]],
    [b[len(tok.Input):]], [b[n:]], [t.Text[len(pref):]], [in[:len(in)-len(lft)]] (modelled by the checked
    subtraction [csub] followed by [firstn]).  Recursion is on explicit fuel; running out of fuel is the
    distinguished error [E_FUEL], which Proofs/ParserTotal.v shows unreachable for fuel >= 3*|input|+3.

    External engines are Section variables (the theorems quantify over them, the correspondence feeds the
    answers of the real engines): [rq] = classification of query.RegexpQuery's result (regexp/syntax +
    OptimizeRegexp), [rx_auto] = Regexp.setCase("auto") (!r.Equal(LowerRegexp(r)); modelled over the regexp's
    syntax tree in Model/RegexCase.v, which is what the correspondence plugs in here), [rcompile] = does
    grafana regexp.Compile accept, [lang] = languages.GetLanguageByNameOrAlias.

    The token type numbers, the [prefixes] and [reservedWords] tables are GENERATED from the source
    (Generated/ParserTables.v).  This file contains no proofs. *)
From ZV Require Import Lib.Base Model.Query Generated.ParserTables.
From ZV Require Model.Regex Model.RegexCase.
From Coq Require Import String Ascii.
Notation length := List.length (only parsing).
Open Scope N_scope.

(** string literals of the Go source as byte lists *)
Definition bs (s : string) : str := map (fun a => N_of_ascii a) (list_ascii_of_string s).

(** error codes (the harness maps Go's error messages to the same numbers) *)
Definition E_MISSING_CHAR : N := 1.   (* query: missing char after \ *)
Definition E_UNTERMINATED : N := 2.   (* query: unterminated quoted string *)
Definition E_LONE_BACKSLASH : N := 3. (* query: lone \ at end *)
Definition E_EXTRA : N := 4.          (* query: extra tokens found at end input *)
Definition E_CASE_ARG : N := 5.
Definition E_REGEXP : N := 6.         (* error parsing regexp (RegexpQuery, regexp.Compile, meta value) *)
Definition E_ARCHIVED_ARG : N := 7.
Definition E_FORK_ARG : N := 8.
Definition E_PUBLIC_ARG : N := 9.
Definition E_SYM_EMPTY : N := 10.
Definition E_CLOSE_PAREN : N := 11.
Definition E_NEG_ARG : N := 12.       (* '-' operator needs an argument *)
Definition E_TYPE_ARG : N := 13.
Definition E_META_SYNTAX : N := 14.
Definition E_OR_OPERAND : N := 15.
Definition E_NEG_DIRECTIVE : N := 16. (* '-' cannot be applied to case: or type: *)
Definition E_FUEL : N := 99.          (* model artefact: fuel exhausted (proved unreachable) *)

(** checked slice operations *)
Definition drop {A} (n : nat) (l : list A) : outcome (list A) :=      (* l[n:] *)
  if (n <=? length l)%nat then Ok (skipn n l) else Panic 2.
Definition csub (a b : nat) : outcome nat :=                          (* a - b used as a slice bound / count *)
  if (b <=? a)%nat then Ok (a - b)%nat else Panic 3.

Definition isSpace (c : N) : bool := (c =? 32) || (c =? 9).
Fixpoint skipSpaces (b : str) : str :=
  match b with
  | c :: r => if isSpace c then skipSpaces r else b
  | [] => []
  end.

(** ------------------------------------------------------------------ parseStringLiteral *)

(** the loop over [lft]; returns the literal and the remaining input after the closing quote *)
Fixpoint strlit_loop (lft lit : str) : outcome (str * str) :=
  match lft with
  | [] => Err E_UNTERMINATED
  | c :: l1 =>
      if c =? 34 then Ok (lit, l1)
      else if c =? 92 then
        match l1 with
        | [] => Err E_MISSING_CHAR
        | c2 :: l2 => strlit_loop l2 (lit ++ [c2])
        end
      else strlit_loop l1 (lit ++ [c])
  end.

Definition parseStringLiteral (inp : str) : outcome (str * nat) :=
  match inp with
  | [] => Panic 1                                   (* in[1:] on an empty slice *)
  | _ :: lft =>
      do (lit, rest) <- strlit_loop lft [];
      do n <- csub (length inp) (length rest);
      Ok (lit, n)
  end.

(** ------------------------------------------------------------------ nextToken / setType *)

Record token := { ttype : N; ttext : str; tinput : str }.

Definition with_type (t : token) (ty : N) : token := {| ttype := ty; ttext := ttext t; tinput := tinput t |}.

(** Go iterates the maps in random order and stops at the first hit; the model takes the first hit in
    key order.  Proofs/ParserTotal.v ([prefixes_unambiguous]) shows at most one entry can hit. *)
Definition setType (t : token) : outcome token :=
  let t1 := if str_eqb (ttext t) [40] then with_type t tokParenOpen else t in
  let t2 := if str_eqb (ttext t1) [41] then with_type t1 tokParenClose else t1 in
  let t3 := match find (fun w => str_eqb (ttext t2) (fst w) && str_eqb (tinput t2) (fst w)) reservedWords with
            | Some w => with_type t2 (snd w)
            | None => t2
            end in
  match find (fun p => prefixb (fst p) (tinput t3)) prefixes with
  | Some p =>
      do tx <- drop (length (fst p)) (ttext t3);      (* t.Text = t.Text[len(pref):] *)
      Ok {| ttype := snd p; ttext := tx; tinput := tinput t3 |}
  | None => Ok t3
  end.

(** the scanning loop: (lft, parenCount, cur.Text) -> (cur.Text, lft, foundSpace) *)
Fixpoint tok_loop (fuel : nat) (lft : str) (pc : nat) (text : str) : outcome (str * str * bool) :=
  match fuel with
  | O => Err E_FUEL
  | S f =>
      match lft with
      | [] => Ok (text, lft, false)
      | c :: l1 =>
          if c =? 40 then tok_loop f l1 (S pc) (text ++ [c])
          else if c =? 41 then
            match pc with
            | O => match text with
                   | [] => Ok ([41], l1, false)
                   | _ => Ok (text, lft, false)
                   end
            | S pc' => tok_loop f l1 pc' (text ++ [c])
            end
          else if c =? 34 then
            do (lit, n) <- parseStringLiteral lft;
            do lft' <- drop n lft;
            tok_loop f lft' pc (text ++ lit)
          else if c =? 92 then
            match l1 with
            | [] => Err E_LONE_BACKSLASH
            | c2 :: l2 => tok_loop f l2 pc (text ++ [92; c2])
            end
          else if (c =? 32) || (c =? 10) || (c =? 9) then Ok (text, lft, (0 <? pc)%nat)
          else tok_loop f l1 pc (text ++ [c])
      end
  end.

Definition nextToken (inp : str) : outcome (option token) :=
  match inp with
  | [] => Ok None
  | c0 :: _ =>
      if c0 =? 45 then Ok (Some {| ttype := tokNegate; ttext := [45]; tinput := firstn 1 inp |})
      else
        do (text, lft, fs) <- tok_loop (S (length inp)) inp 0 [];
        match text with
        | [] => Ok None
        | t0 :: _ =>
            if fs && (t0 =? 40) then
              do t <- setType {| ttype := 0; ttext := firstn 1 text; tinput := firstn 1 inp |};
              Ok (Some t)
            else
              do k <- csub (length inp) (length lft);
              do t <- setType {| ttype := 0; ttext := text; tinput := firstn k inp |};
              Ok (Some t)
        end
  end.

(** ------------------------------------------------------------------ expressions *)

(** what parseExpr can return besides nil: a query, or the bare `&Type{Type: t, Child: nil}` of a
    type: token (only ever lifted by parseExprList or rejected under '-') *)
Inductive pexpr := PQ (q : Q) | PType (t : N).
(** the elements of parseExprList's working list / of parseOperators' input *)
Inductive raw := RQ (q : Q) | ROr | RType (t : N).
Inductive item := IQ (q : Q) | IOrOp.

Definition raw_of (e : pexpr) : raw := match e with PQ q => RQ q | PType t => RType t end.

(** parseOperators *)
Fixpoint parseOps_loop (l : list item) (top cur : list Q) (seenOr : bool) : outcome Q :=
  match l with
  | [] => if seenOr && is_nil cur then Err E_OR_OPERAND else Ok (QOr (top ++ [QAnd cur]))
  | IOrOp :: r => if is_nil cur then Err E_OR_OPERAND else parseOps_loop r (top ++ [QAnd cur]) [] true
  | IQ q :: r => parseOps_loop r top (cur ++ [q]) seenOr
  end.
Definition parseOperators (l : list item) : outcome Q := parseOps_loop l [] [] false.

(** bytes.SplitN(text, ":", 2) *)
Fixpoint split_colon (t acc : str) : option (str * str) :=
  match t with
  | [] => None
  | c :: r => if c =? 58 then Some (acc, r) else split_colon r (acc ++ [c])
  end.

Definition toLower (p : str) : str := map (fun c => if (65 <=? c) && (c <=? 90) then c + 32 else c) p.

Inductive rqres := RQErr | RQLit (pat : str) | RQRx (re : rx).

Definition RcOnlyPublic : N := 1.
Definition RcOnlyPrivate : N := 2.
Definition RcOnlyForks : N := 4.
Definition RcNoForks : N := 8.
Definition RcOnlyArchived : N := 16.
Definition RcNoArchived : N := 32.

Section Parser.
  Variable rq : str -> rqres.          (* query.RegexpQuery: error / Substring{Pattern} / Regexp{r} *)
  Variable rx_auto : str -> bool.      (* by rx_src: Regexp.setCase("auto") *)
  Variable rcompile : str -> bool.     (* regexp.Compile(text) succeeds *)
  Variable lang : str -> option str.   (* languages.GetLanguageByNameOrAlias *)

  Definition regexpQuery (text : str) (content file : bool) : outcome Q :=
    match rq text with
    | RQErr => Err E_REGEXP
    | RQLit p => Ok (QSubstring p false file content)
    | RQRx re => Ok (QRegexp re false file content)
    end.

  (** setCaser: Substring.setCase, Regexp.setCase, Symbol.setCase *)
  Fixpoint setCase (k : str) (q : Q) : Q :=
    match q with
    | QSubstring p cs f c =>
        if str_eqb k (bs "yes") then QSubstring p true f c
        else if str_eqb k (bs "no") then QSubstring p false f c
        else if str_eqb k (bs "auto") then QSubstring p (negb (str_eqb p (toLower p))) f c
        else q
    | QRegexp re cs f c =>
        if str_eqb k (bs "yes") then QRegexp re true f c
        else if str_eqb k (bs "no") then QRegexp re false f c
        else if str_eqb k (bs "auto") then QRegexp re (rx_auto (rx_src re)) f c
        else q
    | QSymbol e => QSymbol (setCase k e)
    | _ => q
    end.

  (** second half of parseExprList: case / type lifting *)
  Fixpoint scan_directives (qs : list raw) (k : str) (has : bool) (typeT : N) (acc : list item)
    : str * bool * N * list item :=
    match qs with
    | [] => (k, has, typeT, acc)
    | RQ (QCase f) :: r => scan_directives r f true typeT acc
    | RType t :: r => scan_directives r k has (if t <? typeT then t else typeT) acc
    | RQ q :: r => scan_directives r k has typeT (acc ++ [IQ q])
    | ROr :: r => scan_directives r k has typeT (acc ++ [IOrOp])
    end.

  Definition map_item (f : Q -> Q) (i : item) : item := match i with IQ q => IQ (f q) | IOrOp => IOrOp end.

  Definition finish_list (qs : list raw) : outcome (list item) :=
    let '(k, has, typeT, newQS) := scan_directives qs (bs "auto") false 100 [] in
    let qs1 := map (map_item (qmap (setCase k))) newQS in
    do qs2 <- (if typeT =? 100 then Ok qs1
               else do typedQ <- parseOperators qs1; Ok [IQ (QType typeT typedQ)]);
    Ok (if has then map (map_item QCaseScope) qs2 else qs2).

  (** the atom cases of parseExpr's switch (everything except '(' and '-'); None = expr stays nil *)
  Definition atom_expr (ty : N) (text : str) : outcome (option pexpr) :=
    if ty =? tokCase then
      if str_eqb text (bs "yes") || str_eqb text (bs "no") || str_eqb text (bs "auto")
      then Ok (Some (PQ (QCase text))) else Err E_CASE_ARG
    else if ty =? tokRepo then
      if rcompile text then Ok (Some (PQ (QRepo text))) else Err E_REGEXP
    else if ty =? tokArchived then
      if str_eqb text (bs "yes") then Ok (Some (PQ (QRawConfig RcOnlyArchived)))
      else if str_eqb text (bs "no") then Ok (Some (PQ (QRawConfig RcNoArchived)))
      else Err E_ARCHIVED_ARG
    else if ty =? tokFork then
      if str_eqb text (bs "yes") then Ok (Some (PQ (QRawConfig RcOnlyForks)))
      else if str_eqb text (bs "no") then Ok (Some (PQ (QRawConfig RcNoForks)))
      else Err E_FORK_ARG
    else if ty =? tokPublic then
      if str_eqb text (bs "yes") then Ok (Some (PQ (QRawConfig RcOnlyPublic)))
      else if str_eqb text (bs "no") then Ok (Some (PQ (QRawConfig RcOnlyPrivate)))
      else Err E_PUBLIC_ARG
    else if ty =? tokBranch then Ok (Some (PQ (QBranch text false)))
    else if (ty =? tokText) || (ty =? tokRegex) then
      do q <- regexpQuery text false false; Ok (Some (PQ q))
    else if ty =? tokFile then
      do q <- regexpQuery text false true; Ok (Some (PQ q))
    else if ty =? tokContent then
      do q <- regexpQuery text true false; Ok (Some (PQ q))
    else if ty =? tokLang then
      match lang text with
      | None => Ok (Some (PQ (QConst false)))
      | Some c => Ok (Some (PQ (QLanguage c)))
      end
    else if ty =? tokSym then
      if is_nil text then Err E_SYM_EMPTY
      else do q <- regexpQuery text false false; Ok (Some (PQ (QSymbol q)))
    else if ty =? tokType then
      if str_eqb text (bs "filematch") then Ok (Some (PType 0))
      else if str_eqb text (bs "filename") || str_eqb text (bs "file") then Ok (Some (PType 1))
      else if str_eqb text (bs "repo") then Ok (Some (PType 2))
      else Err E_TYPE_ARG
    else if ty =? tokMeta then
      match split_colon text [] with
      | None => Err E_META_SYNTAX
      | Some (field, value) => if rcompile value then Ok (Some (PQ (QMeta field value))) else Err E_REGEXP
      end
    else Ok None.   (* tokParenClose, tokOr, tokError: no case, expr stays nil *)

  (** parseExpr / parseExprList / the loop of parseExprList, mutually recursive on fuel.
      parseExpr returns (expr, n); parseExprList returns (qs, n). *)
  Fixpoint parseExpr (fuel : nat) (inp : str) {struct fuel} : outcome (option pexpr * nat) :=
    match fuel with
    | O => Err E_FUEL
    | S f =>
        let b := skipSpaces inp in
        do otok <- nextToken b;
        match otok with
        | None => Ok (None, 0%nat)
        | Some tok =>
            do b1 <- drop (length (tinput tok)) b;
            if ttype tok =? tokParenOpen then
              do (qs, n) <- parseExprList f b1;
              do b2 <- drop n b1;
              do op <- nextToken b2;
              match op with
              | None => Err E_CLOSE_PAREN
              | Some ptok =>
                  if ttype ptok =? tokParenClose then
                    do b3 <- drop (length (tinput ptok)) b2;
                    do e <- parseOperators qs;
                    do n' <- csub (length inp) (length b3);
                    Ok (Some (PQ e), n')
                  else Err E_CLOSE_PAREN
              end
            else if ttype tok =? tokNegate then
              do (sub, n) <- parseExpr f b1;
              match sub with
              | None => Err E_NEG_ARG
              | Some (PType _) => Err E_NEG_DIRECTIVE
              | Some (PQ (QCase _)) => Err E_NEG_DIRECTIVE
              | Some (PQ q) =>
                  do b2 <- drop n b1;
                  do n' <- csub (length inp) (length b2);
                  Ok (Some (PQ (QNot q)), n')
              end
            else
              do e <- atom_expr (ttype tok) (ttext tok);
              do n' <- csub (length inp) (length b1);
              Ok (e, n')
        end
    end
  with parseExprList (fuel : nat) (inp : str) {struct fuel} : outcome (list item * nat) :=
    match fuel with
    | O => Err E_FUEL
    | S f =>
        do (qs, b) <- exprList_loop f inp [];
        do items <- finish_list qs;
        do n <- csub (length inp) (length b);
        Ok (items, n)
    end
  with exprList_loop (fuel : nat) (b : str) (qs : list raw) {struct fuel} : outcome (list raw * str) :=
    match fuel with
    | O => Err E_FUEL
    | S f =>
        match b with
        | [] => Ok (qs, b)
        | _ :: _ =>
            let b1 := skipSpaces b in
            let continue :=
              do (q, n) <- parseExpr f b1;
              match q with
              | None => Ok (qs, b1)                     (* eof or ')' *)
              | Some e => do b2 <- drop n b1; exprList_loop f b2 (qs ++ [raw_of e])
              end in
            match nextToken b1 with                     (* tok, _ := nextToken(b): the error is dropped *)
            | Panic w => Panic w
            | Ok (Some tok) =>
                if ttype tok =? tokParenClose then Ok (qs, b1)
                else if ttype tok =? tokOr then
                  do b2 <- drop (length (tinput tok)) b1;
                  exprList_loop f b2 (qs ++ [ROr])
                else continue
            | _ => continue
            end
        end
    end.

  Definition parse_fuel (s : str) : nat := (3 * length s + 3)%nat.

  Definition parse_with (fuel : nat) (s : str) : outcome Q :=
    do (qs, n) <- parseExprList fuel s;
    if (n =? length s)%nat then
      do q <- parseOperators qs;
      Ok (Simplify (stripCaseScopes q))
    else
      do _ <- drop n s;                                (* %q of b[n:] in the error message *)
      Err E_EXTRA.

  (** query.Parse *)
  Definition parse (s : str) : outcome Q := parse_with (parse_fuel s) s.

  (** the linear token scan used by the correspondence (what the parser sees, without the tree):
      (type, text, |input|) of every token, then 0 = end of input / nil token, or the error code,
      or 98 = panic *)
  Fixpoint scan_tokens (fuel : nat) (b : str) (acc : list (N * str * nat)) : list (N * str * nat) * N :=
    match fuel with
    | O => (acc, E_FUEL)
    | S f =>
        let b1 := skipSpaces b in
        match nextToken b1 with
        | Panic _ => (acc, 98)
        | Err e => (acc, e)
        | Ok None => (acc, 0)
        | Ok (Some t) =>
            match drop (length (tinput t)) b1 with
            | Ok b2 => scan_tokens f b2 (acc ++ [(ttype t, ttext t, length (tinput t))])
            | _ => (acc, 98)
            end
        end
    end.
End Parser.

(** ------------------------------------------------------------------ wire conversion / printing / search kinds *)

Definition kind_of (q : Q) : qkind :=
  match q with
  | QConst _ => K_Const | QSubstring _ _ _ _ => K_Substring | QRegexp _ _ _ _ => K_Regexp
  | QSymbol _ => K_Symbol | QCase _ => K_caseQ | QCaseScope _ => K_caseScopeQ | QLanguage _ => K_Language
  | QRepo _ => K_Repo | QRepoRegexp _ => K_RepoRegexp | QBranchesRepos _ => K_BranchesRepos
  | QRepoIDs _ => K_RepoIDs | QRepoSet _ => K_RepoSet | QFileNameSet _ => K_FileNameSet
  | QType _ _ => K_Type | QBoost _ _ => K_Boost | QBranch _ _ => K_Branch | QMeta _ _ => K_Meta
  | QRawConfig _ => K_RawConfig | QAnd _ => K_And | QOr _ => K_Or | QNot _ => K_Not
  end.

Definition qkind_eqb (a b : qkind) : bool := N.eqb (qkind_code a) (qkind_code b).
Definition kind_in (k : qkind) (l : list qkind) : bool := existsb (qkind_eqb k) l.

(** QToProto: the type switch (case list GENERATED: qtoproto_kinds) and the recursion of the ToProto
    methods into children (And/Or/Not/Type/Boost children, Symbol.Expr).  Panic 10 = the default branch
    `panic("unknown query node %T")`.  The message contents are not modelled, only whether conversion
    reaches the panic. *)
Fixpoint to_proto (q : Q) : outcome unit :=
  if kind_in (kind_of q) qtoproto_kinds then
    match q with
    | QAnd cs | QOr cs =>
        (fix go (l : list Q) : outcome unit :=
           match l with [] => Ok tt | c :: r => do _ <- to_proto c; go r end) cs
    | QNot c | QType _ c | QBoost _ c | QSymbol c => to_proto c
    | _ => Ok tt
    end
  else Panic 10.

(** indexData.newMatchTree's type switch (case list GENERATED: matchtree_kinds; a clause with a
    conditional `break` falls through to log.Panicf and is treated as not handling the kind).
    Panic 11 = log.Panicf("type %T").  Only the kind dispatch is modelled (which is where the panic is);
    the construction of the match trees themselves is C01's model. *)
Definition mt_handles (k : qkind) : bool :=
  existsb (fun e => qkind_eqb k (fst e) && negb (snd e)) matchtree_kinds.

Fixpoint mt_kinds (q : Q) : outcome unit :=
  if mt_handles (kind_of q) then
    match q with
    | QAnd cs | QOr cs =>
        (fix go (l : list Q) : outcome unit :=
           match l with [] => Ok tt | c :: r => do _ <- mt_kinds c; go r end) cs
    | QNot c | QType _ c | QBoost _ c | QSymbol c => mt_kinds c
    | _ => Ok tt
    end
  else Panic 11.

(** ------------------------------------------------------------------ correspondence runner *)

(** byte strings of the generated case files are written as hex digits in one Coq string token *)
Definition hexval (a : ascii) : N :=
  let n := N_of_ascii a in if n <? 58 then n - 48 else n - 87.
Fixpoint hx (s : string) : str :=
  match s with
  | String a (String b r) => (16 * hexval a + hexval b) :: hx r
  | _ => []
  end.

Fixpoint lookup {A} (k : str) (t : list (str * A)) : option A :=
  match t with
  | [] => None
  | (k', v) :: r => if str_eqb k k' then Some v else lookup k r
  end.

Definition oracle_table := list (str * (rqres * bool * option str)).

(** a text that the table does not know is answered with a poison value, so that a model that asks
    about texts the implementation never produced cannot agree by accident *)
Definition t_rq (t : oracle_table) (k : str) : rqres :=
  match lookup k t with Some (r, _, _) => r | None => RQLit (bs "<<unknown text>>") end.
Definition t_compile (t : oracle_table) (k : str) : bool :=
  match lookup k t with Some (_, c, _) => c | None => false end.
Definition t_lang (t : oracle_table) (k : str) : option str :=
  match lookup k t with Some (_, _, l) => l | None => Some (bs "<<unknown text>>") end.
(** Regexp.setCase("auto") is NOT fed from the implementation: the table maps the source of each proper regexp
    to its syntax tree (dumped from the *syntax.Regexp the parser produced) and the model of LowerRegexp /
    Regexp.Equal (Model/RegexCase.v) decides. *)
Definition t_auto (t : list (str * Regex.re)) (k : str) : bool :=
  match lookup k t with Some a => RegexCase.re_auto a | None => false end.

Definition outcome_q_eqb (a b : outcome Q) : bool :=
  match a, b with
  | Ok x, Ok y => q_eqb x y
  | Err x, Err y => N.eqb x y
  | Panic _, Panic _ => true
  | _, _ => false
  end.

Definition tok_eqb (a b : N * str * nat) : bool :=
  let '(t, x, n) := a in let '(t', x', n') := b in N.eqb t t' && str_eqb x x' && Nat.eqb n n'.

(** case = (input, engine answers, syntax trees of the proper regexps, Go's token scan, Go's Parse outcome) *)
Definition c07case := (str * oracle_table * list (str * Regex.re) * (list (N * str * nat) * N) * outcome Q)%type.

Definition c07_ok (c : c07case) : bool :=
  let '(s, tab, autos, (gtoks, gend), gres) := c in
  let '(mtoks, mend) := scan_tokens (S (length s)) s [] in
  list_eqb tok_eqb mtoks gtoks && N.eqb mend gend &&
  outcome_q_eqb (parse (t_rq tab) (t_auto autos) (t_compile tab) (t_lang tab) s) gres.

Definition c07_mismatches (cs : list c07case) : list N := bad_indexes c07_ok cs.
