(** Types of the "hash program" that translator/hashfields reads from Options.GetHash() (property C38).
    Only data types: Generated/HashFields.v imports this file and defines [hash_prog : list hitem];
    the evaluator is in Model/Incremental.v.

    One [hitem] = one place where GetHash feeds the value of an Options field into the hasher:
      hi_field   the Options field
      hi_fmt     the format string of the write ("raw" for `hasher.Write([]byte(h.f))`)
      hi_guard   the `if` condition under which the write happens
      hi_form    HOW the value is written. Anything the translator does not recognise as writing the value
                 itself (a transformation before the write: sorting, de-duplication, lower-casing, len(), a range over
                 a map in Go's random order, an in-place mutation earlier in the function, ...) is [FUnknown] and
                 fails the proof obligation [prog_ok] in Props/C38.v. *)
From Coq Require Import List String ZArith.
Import ListNotations.

Inductive hguard :=
| GNone                                   (* unconditional *)
| GIntNotZeroNotConst (d : Z)             (* if h.f != 0 && h.f != <integer constant d> *)
| GStrNonEmpty                            (* if h.f != "" *)
| GLenPositive                            (* if len(h.f) > 0 *)
| GUnknown (src : string).                (* any other condition, a condition on another field, nested conditions *)

Inductive hform :=
| FValue                                  (* the field value itself is the single argument of the write:
                                             fmt.Appendf(nil, fmt, h.f) / fmt.Fprintf(hasher, fmt, h.f) / []byte(h.f).
                                             For a slice this is "every element, in slice order". *)
| FSortedEntries                          (* keys := slices.Sorted(maps.Keys(h.f)); for _, k := range keys { write(fmt, k, h.f[k]) }
                                             : one write per map entry, in ascending key order *)
| FUnknown (src : string).

Record hitem := mkItem { hi_field : string; hi_fmt : string; hi_guard : hguard; hi_form : hform }.
