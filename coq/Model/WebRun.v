(** C36 — the correspondence runner over both halves of the model: Model/Web.v (formatting, escapers, tokenizer) and
    Model/WebResp.v (response classes; evaluated with net/http's signature table as generated from $GOROOT). *)
From Coq Require Import String.
From ZV Require Import Lib.Base Model.Web Model.WebResp Model.WebUrl Model.WebFuncs Generated.WebRoutes.
Open Scope N_scope.

Inductive c36xcase :=
| COld (c : c36case)
| CNew (c : c36rcase)
| CUrl (s : bytes) (rejected : bool)      (* html/template's urlFilter on a plain string at the start of an href: replaced by #ZgotmplZ? *)
| CFunc (name : string) (args : list fval) (obs : option fval).   (* a Funcmap entry called through reflection; None = it panicked *)

Definition c36x_ok (c : c36xcase) : bool :=
  match c with
  | COld c => c36_ok c
  | CNew c => c36r_ok sniff_sigs c
  | CUrl s rejected => Bool.eqb (negb (is_safe_url s)) rejected
  | CFunc name args obs => c36f_ok name args obs
  end.
Definition c36x_mismatches (cs : list c36xcase) : list N := bad_indexes c36x_ok cs.
