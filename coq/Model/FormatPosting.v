(** C11 — the posting-list iterator of a search (index/hititer.go: compressedPostingIterator) over ARBITRARY bytes,
    in the outcome monad with a step counter, and the generator of TARGETED corruptions of a shard's posting lists.

    A corrupt shard that still LOADS (posting lists are not verified at load time) hands the iterator whatever bytes
    the postings index points at.  The iterator must terminate on them: a non-terminating loop in a search cannot be
    contained by searchOneShard's recover ([Panic P_DIVERGE]).

      func newCompressedPostingIterator(b []byte, w ngram) *compressedPostingIterator {
          d, sz := binary.Uvarint(b)
          if sz < 0 { d, sz, b = 0, 0, nil }                      // overflowing varint: empty list
          return &compressedPostingIterator{_first: uint32(d), blob: b[sz:], indexBytesLoaded: sz, what: w}
      }
      func (i *compressedPostingIterator) next(limit uint32) {
          if limit == math.MaxUint32 { i.blob = nil; i._first = math.MaxUint32; return }
          for i._first <= limit && len(i.blob) > 0 {
              delta, sz := binary.Uvarint(i.blob)
              if sz <= 0 { i.blob = nil; break }                  // truncated or overflowing varint: the list ends here
              i._first += uint32(delta); i.indexBytesLoaded += sz; i.blob = i.blob[sz:]
          }
          if i._first <= limit && len(i.blob) == 0 { i._first = math.MaxUint32 }
      }

    The GUARDS are not hand-copied: translator/c11guard reads index/hititer.go (go/ast) and regenerates
    Generated/PostingGuard.v on every run: for which of sz = 0 (truncated varint) / sz < 0 (overflowing varint) the `if`
    in next's loop leaves the loop, and whether the constructor tests sz < 0.  The model is parametric in the guard
    [g] = (stops on 0, stops on negative): g_le0 = `sz <= 0` (the code of /repo after cd2bd2d), g_lt0 = `sz < 0` (only
    catches the overflow: a TRUNCATED varint gives sz = 0, nothing is consumed, the loop spins forever); [g_repo] is
    what the translator found.  Slice expressions are checked operations.  Proofs: Proofs/FormatPosting.v. *)
From ZV Require Import Lib.Base Lib.Varint Generated.FormatConsts Generated.PostingGuard Model.Format Model.Btree Model.FormatRobust Model.FormatStats.
Open Scope N_scope.

Definition MaxU32 : N := 4294967295.

Record cpi := mkCpi { cpi_first : N; cpi_blob : list N; cpi_loaded : N }.

Definition blob_nil (l : list N) : bool := match l with [] => true | _ => false end.

(** b[m:] for an int m: panics for m < 0 and for m > len(b) *)
Definition slice_from_z (m : Z) (l : list N) : outcome (list N) :=
  if (m <? 0)%Z || (Z.of_nat (length l) <? m)%Z then Panic P_SLICE else Ok (skipn (Z.to_nat m) l).

Definition guard := (bool * bool)%type.
Definition guard_fires (g : guard) (sz : Z) : bool := (fst g && (sz =? 0)%Z) || (snd g && (sz <? 0)%Z).
Definition g_le0 : guard := (true, true).
Definition g_lt0 : guard := (false, true).
Definition g_repo : guard := (cpi_next_stops_on_zero, cpi_next_stops_on_negative).
Definition chk_repo : bool := cpi_new_checks_negative.

Definition cpi_new (chk : bool) (b : list N) : outcome cpi :=
  let '(d, sz) := uvarint b in
  if chk && (sz <? 0)%Z then Ok (mkCpi 0 [] 0)
  else do rest <- slice_from_z sz b; Ok (mkCpi (d mod W32) rest (Z.to_N sz)).

(** the for loop of next; [steps] counts its iterations.  fuel = |blob| suffices when every iteration consumes a byte;
    running out of fuel with the loop condition still true is the divergence marker. *)
Fixpoint cpi_loop (le0 : guard) (fuel : nat) (limit : N) (it : cpi) (steps : N) : outcome (cpi * N) :=
  if (cpi_first it <=? limit) && negb (blob_nil (cpi_blob it)) then
    match fuel with
    | O => Panic P_DIVERGE
    | S f =>
      let '(delta, sz) := uvarint (cpi_blob it) in
      if guard_fires le0 sz then Ok (mkCpi (cpi_first it) [] (cpi_loaded it), steps + 1)
      else
        do rest <- slice_from_z sz (cpi_blob it);
        cpi_loop le0 f limit (mkCpi ((cpi_first it + delta mod W32) mod W32) rest (cpi_loaded it + Z.to_N sz)) (steps + 1)
    end
  else Ok (it, steps).

Definition cpi_next (le0 : guard) (limit : N) (it : cpi) : outcome (cpi * N) :=
  if limit =? MaxU32 then Ok (mkCpi MaxU32 [] (cpi_loaded it), 0)
  else
    do r <- cpi_loop le0 (length (cpi_blob it)) limit it 0;
    let it' := fst r in
    if (cpi_first it' <=? limit) && blob_nil (cpi_blob it')
    then Ok (mkCpi MaxU32 [] (cpi_loaded it'), snd r) else Ok r.

(** any sequence of next(limit) calls (what the match iterators of a search do with the iterator); the loop
    iterations of all calls are summed up *)
Fixpoint cpi_run (le0 : guard) (limits : list N) (it : cpi) (steps : N) : outcome (cpi * N) :=
  match limits with
  | [] => Ok (it, steps)
  | l :: r => do x <- cpi_next le0 l it; cpi_run le0 r (fst x) (steps + snd x)
  end.

(** a complete walk: first(), next(first()), ... until the iterator is exhausted (first() = MaxUint32); the decoded
    postings.  |blob| + 1 rounds suffice (Proofs: every round consumes a byte or ends the walk). *)
Fixpoint cpi_walk (le0 : guard) (fuel : nat) (it : cpi) : outcome (list N) :=
  if cpi_first it =? MaxU32 then Ok []
  else match fuel with
       | O => Panic P_DIVERGE
       | S f => do x <- cpi_next le0 (cpi_first it) it; do tl <- cpi_walk le0 f (fst x); Ok (cpi_first it :: tl)
       end.
Definition postings_of (le0 : guard) (chk : bool) (b : list N) : outcome (list N) :=
  do it <- cpi_new chk b; cpi_walk le0 (S (length (cpi_blob it))) it.

(** what a search does with the posting list of ngram g of a loaded shard: locate it (btreeIndex.Get), read it
    (readSectionBlob: [shard_ngram_search]), build the iterator, advance it with any sequence of limits *)
Definition posting_walk_g (gd : guard) (chk : bool) (d : idata) (g : N) (limits : list N) : outcome (cpi * N) :=
  do blob <- shard_ngram_search d g;
  do it <- cpi_new chk blob;
  cpi_run gd limits it 0.
Definition posting_walk := posting_walk_g g_repo chk_repo.

(** the same for the file-name ngrams *)
Definition shard_name_ngram_search (d : idata) (g : N) : outcome (list N) :=
  do text <- blob_of (i_file d) (i_nameNgramSec d);
  let bt := new_btree_index btreeBucketSize btreeV text (i_nameNgramSec d) (i_namePostingIndex d) in
  let s := btree_get (i_file d) bt g in
  file_read (i_file d) (fst s) (snd s).
Definition name_posting_walk_g (gd : guard) (chk : bool) (d : idata) (g : N) (limits : list N) : outcome (cpi * N) :=
  do blob <- shard_name_ngram_search d g;
  do it <- cpi_new chk blob;
  cpi_run gd limits it 0.
Definition name_posting_walk := name_posting_walk_g g_repo chk_repo.

(* ------------------------------------------------------------------ witnesses for the iterator *)
(** postings 8, 22 and a third varint whose continuation bit promises a byte that is not there *)
Definition wit_posting_trunc : list N := [8; 14; 142].
(** an 11-byte varint after the first posting *)
Definition wit_posting_overflow : list N := [8; 255; 255; 255; 255; 255; 255; 255; 255; 255; 255; 1; 3].

(* ------------------------------------------------------------------ targeted corruptions of a real shard *)
(** Every posting list of a loaded shard: (ngram, (off, sz)) in the order of the ngram text section. *)
Definition posting_lists (f : ifile) (sec pidx : N * N) : list (N * (N * N)) :=
  match blob_of f sec with
  | Ok text =>
    let bt := new_btree_index btreeBucketSize btreeV text sec pidx in
    map (fun g => (g, btree_get f bt g)) (words 8 text)
  | _ => []
  end.

Definition ngram_runes (g : N) : list N := [g / 4398046511104; (g / 2097152) mod 2097152; g mod 2097152].

(** a corruption = a list of (position, new byte) *)
Definition byte_at (l : list N) (p : N) : N := nth (N.to_nat p) l 0.
Definition nseq (lo n : N) : list N := map N.of_nat (seq (N.to_nat lo) (N.to_nat n)).
(** tkind 0: continuation bit of the LAST byte set (the list ends in the middle of a varint)
    tkind 1: continuation bit of EVERY byte set (one truncated — or, from 11 bytes on, overflowing — varint)
    tkind 2: the list starts with an overflowing varint (needs 10 bytes)
    tkind 3: an overflowing varint after the first byte (needs 11 bytes)
    tkind 4: continuation bit of the FIRST byte set (postings merged / shifted; truncated when the list has one byte) *)
Definition corruption (l : list N) (tkind off sz : N) : list (N * N) :=
  let cont p := (p, N.lor (byte_at l p) 128) in
  if tkind =? 0 then [cont (off + sz - 1)]
  else if tkind =? 1 then map cont (nseq off sz)
  else if tkind =? 2 then (if 10 <=? sz then map (fun p => (p, 255)) (nseq off 9) ++ [(off + 9, 127)] else [])
  else if tkind =? 3 then (if 11 <=? sz then map (fun p => (p, 255)) (nseq (off + 1) 9) ++ [(off + 10, 127)] else [])
  else [cont off].

Fixpoint patch_from (l : list N) (pos : N) (ps : list (N * N)) : list N :=
  match l with
  | [] => []
  | x :: r =>
    (match List.find (fun pv => fst pv =? pos) ps with Some pv => snd pv | None => x end) :: patch_from r (pos + 1) ps
  end.
Definition patch (l : list N) (ps : list (N * N)) : list N := patch_from l 0 ps.

(** a handful of lists: long ones (room for an overflowing varint), short multi-byte ones, a one-byte one *)
Definition pick_lists (ls : list (N * (N * N))) (nlong nmid nshort : nat) : list (N * (N * N)) :=
  firstn nlong (filter (fun x => 11 <=? snd (snd x)) ls)
  ++ firstn nmid (filter (fun x => (2 <=? snd (snd x)) && (snd (snd x) <? 11)) ls)
  ++ firstn nshort (filter (fun x => snd (snd x) =? 1) ls).

(** model's view of one targeted file: does it load (1) and does the walk of the corrupted list end (2)?
    3 = both (what the theorems say for every file that loads) *)
Definition target_pred (bytes : list N) (isname : bool) (g : N) : N :=
  match load_shard_stats_served (mmap_file bytes) false 1 with
  | Ok d =>
    match (if isname then shard_name_ngram_search d g else shard_ngram_search d g) with
    | Ok blob => if is_ok (postings_of g_repo chk_repo blob) then 3 else 1
    | _ => 1
    end
  | _ => 0
  end.

(** one record per targeted file: [tkind; isname; r0; r1; r2; off; sz; pred; p1; v1; p2; v2; ...] *)
Definition target_records (base : list N) (isname : bool) (ls : list (N * (N * N))) : list (list N) :=
  flat_map (fun x =>
    let '(g, (off, sz)) := x in
    flat_map (fun tkind =>
      match corruption base tkind off sz with
      | [] => []
      | ps => [[tkind; (if isname then 1 else 0)] ++ ngram_runes g ++ [off; sz; target_pred (patch base ps) isname g]
               ++ flat_map (fun pv => [fst pv; snd pv]) ps]
      end) [0; 1; 2; 3; 4]) ls.

Definition targets (base : list N) : list (list N) :=
  match load_shard (mmap_file base) false with
  | Ok d =>
    target_records base false (pick_lists (posting_lists (i_file d) (i_ngramSec d) (i_postingIndex d)) 2 3 1)
    ++ target_records base true (pick_lists (posting_lists (i_file d) (i_nameNgramSec d) (i_namePostingIndex d)) 1 1 0)
  | _ => []
  end.

(* ------------------------------------------------------------------ correspondence runner for the iterator *)
(** one case: the list's bytes, the limits passed to next one after the other, and what the implementation showed:
    first() after the constructor and after every call, len(blob) at the end, indexBytesLoaded at the end *)
Inductive c11icase := C11I (blob : list N) (limits : list N) (firsts : list N) (rest loaded : N).

Fixpoint cpi_trace (limits : list N) (it : cpi) : outcome (list N * cpi) :=
  match limits with
  | [] => Ok ([], it)
  | l :: r => do x <- cpi_next g_repo l it; do tl <- cpi_trace r (fst x); Ok (cpi_first (fst x) :: fst tl, snd tl)
  end.
Definition c11i_check (c : c11icase) : bool :=
  let '(C11I blob limits firsts rest loaded) := c in
  match (do it <- cpi_new chk_repo blob; do t <- cpi_trace limits it; Ok (cpi_first it :: fst t, snd t)) with
  | Ok (fs, it) => list_eqb N.eqb fs firsts && (nlen (cpi_blob it) =? rest) && (cpi_loaded it =? loaded)
  | _ => false
  end.
Definition c11i_mismatches (cs : list c11icase) : list N := bad_indexes c11i_check cs.
