(** C28 — internal/hybridre2: engine dispatch by input size.

    [threshold] is read once from ZOEKT_RE2_THRESHOLD_BYTES (strconv.ParseInt; unset or unparsable = -1 = disabled).
    Compile builds the RE2 program only when threshold >= 0; FindAllIndex uses RE2 iff it was built and
    len(input) >= threshold, the grafana engine otherwise.  The engines themselves (a Go package and a WebAssembly
    build of RE2) are external: they are parameters of the model.

    Two layers:
    * the hand model ([parse_threshold], [re2_compiled], [use_re2], [find_all]): the specification of the dispatch;
    * the source-level dispatch ([find_all_src]): an interpreter of what translator/hybridre2 reads from the Go source
      on every run (Generated/HybridRe2.v): the conditions of Compile and useRE2 as Z expressions and the body of
      Regexp.FindAllIndex as a decision tree whose leaves record which engine is called and whether it receives the
      method's own parameters or something derived from them (pre-processing of the input on a branch).
    Proofs/HybridRe.v shows that the second equals the first (this fails when a branch pre-processes its input). *)
From Coq Require Import String List ZArith Bool.
From ZV Require Import Lib.Base Model.HybridReSyntax Generated.HybridRe2.
Import ListNotations.
Open Scope Z_scope.

(** env: None = unset or not an integer *)
Definition parse_threshold (env : option Z) : Z := match env with Some n => n | None => -1 end.
Definition re2_compiled (thr : Z) : bool := 0 <=? thr.
Definition use_re2 (thr : Z) (len : nat) : bool := (0 <=? thr) && (thr <=? Z.of_nat len).

(** the same with the constants / conditions read from the source *)
Definition parse_threshold_src (env : option Z) : Z := match env with Some n => n | None => disabled_src end.

(** ---- threshold() as read from the source.  The environment: variable unset, set to a text strconv.ParseInt(_, 10, 64)
    rejects (syntax or range), or set to the decimal text of an int64. *)
Inductive env3 := EnvUnset | EnvBad | EnvInt (n : Z).
Definition env3_opt (e : env3) : option Z := match e with EnvInt n => Some n | _ => None end.
Definition env_set (e : env3) : bool := match e with EnvUnset => false | _ => true end.
Definition env_parsed (e : env3) : bool := match e with EnvInt _ => true | _ => false end.

Section Threshold.
  Variable opq : nat -> bool.   (* value of the conditions the translator does not interpret *)
  Fixpoint eval_tcond (e : env3) (c : tcond) : bool :=
    match c with
    | TTrue => true
    | TFalse => false
    | TSet => env_set e
    | TParsedOk => env_parsed e
    | TNot c1 => negb (eval_tcond e c1)
    | TAnd c1 c2 => eval_tcond e c1 && eval_tcond e c2
    | TOr c1 c2 => eval_tcond e c1 || eval_tcond e c2
    | TOpaque k => opq k
    end.
  (** None: the function returns something the model cannot name — in particular the first result of a ParseInt that failed *)
  Fixpoint eval_ttree (t : ttree) (e : env3) : option Z :=
    match t with
    | TRet VParsed => env3_opt e
    | TRet (VConst z) => Some z
    | TIf c t1 t2 => if eval_tcond e c then eval_ttree t1 e else eval_ttree t2 e
    | TOther => None
    end.
  Definition threshold_src (e : env3) : option Z := eval_ttree threshold_tree e.
End Threshold.

Definition tcond3 (set parsed : bool) : tcond -> option bool :=
  fix go (c : tcond) : option bool :=
    match c with
    | TTrue => Some true
    | TFalse => Some false
    | TSet => Some set
    | TParsedOk => Some parsed
    | TNot c1 => option_map negb (go c1)
    | TAnd c1 c2 => match go c1, go c2 with
                    | Some false, _ | _, Some false => Some false
                    | Some true, Some true => Some true
                    | _, _ => None
                    end
    | TOr c1 c2 => match go c1, go c2 with
                   | Some true, _ | _, Some true => Some true
                   | Some false, Some false => Some false
                   | _, _ => None
                   end
    | TOpaque _ => None
    end.

Definition tval_eqb (a b : tval) : bool :=
  match a, b with VParsed, VParsed => true | VConst x, VConst y => Z.eqb x y | _, _ => false end.

Fixpoint tleaves_ok (want : tval) (set parsed : bool) (t : ttree) : bool :=
  match t with
  | TRet v => tval_eqb v want
  | TOther => false
  | TIf c t1 t2 => match tcond3 set parsed c with
                   | Some true => tleaves_ok want set parsed t1
                   | Some false => tleaves_ok want set parsed t2
                   | None => tleaves_ok want set parsed t1 && tleaves_ok want set parsed t2
                   end
  end.

(** unset => -1, unparsable => -1, a number => that number: on every path possible in the respective situation *)
Definition ttree_ok (t : ttree) : bool :=
  tleaves_ok (VConst (-1)) false false t && tleaves_ok (VConst (-1)) true false t && tleaves_ok VParsed true true t.

Section Dispatch.
  Variables R T L O : Type.             (* regexps, inputs, match limits (the n of FindAllIndex), results *)
  Variable len : T -> nat.
  Variables grafana re2 : R -> T -> L -> O.  (* the two engines' FindAllIndex *)

  (** hand model: both engines get the SAME input and limit, whatever the setting *)
  Definition find_all (thr : Z) (r : R) (b : T) (n : L) : O :=
    if re2_compiled thr && use_re2 thr (len b) then re2 r b n else grafana r b n.

  (** source-level dispatch.  What a branch does to its arguments before the engine sees them is unknown to the model:
      [xf] / [xl] stand for ANY transformation of the input / limit, [opq] for the value of the uninterpreted conditions. *)
  Variable xf : T -> T.
  Variable xl : L -> L.
  Variable opq : nat -> T -> bool.

  Fixpoint eval_cond (compiled used : bool) (b : T) (c : dcond) : bool :=
    match c with
    | CTrue => true
    | CFalse => false
    | CCompiled => compiled
    | CUsed => used
    | CNot c1 => negb (eval_cond compiled used b c1)
    | CAnd c1 c2 => eval_cond compiled used b c1 && eval_cond compiled used b c2
    | COr c1 c2 => eval_cond compiled used b c1 || eval_cond compiled used b c2
    | COpaque k => opq k b
    end.

  Fixpoint run_tree (t : dtree) (compiled used : bool) (b : T) : option (engine * argsrc * argsrc) :=
    match t with
    | DRet e i l => Some (e, i, l)
    | DIf c t1 t2 => if eval_cond compiled used b c then run_tree t1 compiled used b else run_tree t2 compiled used b
    | DOther => None
    end.

  Definition apply_leaf (lf : engine * argsrc * argsrc) (r : R) (b : T) (n : L) : O :=
    let '(e, i, l) := lf in
    let b' := match i with ArgParam => b | ArgDerived => xf b end in
    let n' := match l with ArgParam => n | ArgDerived => xl n end in
    match e with Grafana => grafana r b' n' | RE2 => re2 r b' n' end.

  (** None: the function leaves by something that is not an engine call *)
  Definition find_all_src (thr : Z) (r : R) (b : T) (n : L) : option O :=
    option_map (fun lf => apply_leaf lf r b n)
               (run_tree find_all_index_tree (re2_compiled_src thr) (use_re2_src thr (Z.of_nat (len b))) b).
End Dispatch.

(** ---- the checker evaluated (vm_compute) on the generated tree: on every path that is possible for a given
    (compiled, used) — taking BOTH sides of an uninterpreted condition — the leaf calls the wanted engine on the
    untouched parameters *)
Definition cond3 (compiled used : bool) : dcond -> option bool :=
  fix go (c : dcond) : option bool :=
    match c with
    | CTrue => Some true
    | CFalse => Some false
    | CCompiled => Some compiled
    | CUsed => Some used
    | CNot c1 => option_map negb (go c1)
    | CAnd c1 c2 => match go c1, go c2 with
                    | Some false, _ | _, Some false => Some false
                    | Some true, Some true => Some true
                    | _, _ => None
                    end
    | COr c1 c2 => match go c1, go c2 with
                   | Some true, _ | _, Some true => Some true
                   | Some false, Some false => Some false
                   | _, _ => None
                   end
    | COpaque _ => None
    end.

Definition engine_eqb (a b : engine) : bool :=
  match a, b with Grafana, Grafana | RE2, RE2 => true | _, _ => false end.
Definition is_param (a : argsrc) : bool := match a with ArgParam => true | ArgDerived => false end.

Fixpoint leaves_ok (want : engine) (compiled used : bool) (t : dtree) : bool :=
  match t with
  | DRet e i l => engine_eqb e want && is_param i && is_param l
  | DOther => false
  | DIf c t1 t2 => match cond3 compiled used c with
                   | Some true => leaves_ok want compiled used t1
                   | Some false => leaves_ok want compiled used t2
                   | None => leaves_ok want compiled used t1 && leaves_ok want compiled used t2
                   end
  end.

Definition want_engine (compiled used : bool) : engine := if compiled && used then RE2 else Grafana.

(** (compiled, used) = (false, true) cannot happen (used implies compiled), so it is not required of the tree *)
Definition tree_ok (t : dtree) : bool :=
  leaves_ok (want_engine false false) false false t &&
  leaves_ok (want_engine true false) true false t &&
  leaves_ok (want_engine true true) true true t.

(** the library functions the model's two engine parameters stand for *)
Definition expected_compile_callees : list String.string :=
  ["Grafana:github.com/grafana/regexp.Compile:ArgParam"; "RE2:github.com/wasilibs/go-re2.Compile:ArgParam"]%string.
Definition expected_engine_packages : list String.string :=
  ["Grafana:github.com/grafana/regexp"; "RE2:github.com/wasilibs/go-re2"]%string.

(** ---- runner: the dispatch decisions observed in the implementation, against the hand model AND the generated conditions *)
Definition c28case := (env3 * nat * bool * bool)%type.   (* environment, input length, re.re2 != nil, useRE2(len) *)
Definition c28_ok (c : c28case) : bool :=
  let '(e, n, compiled, used) := c in
  let env := env3_opt e in
  let thr := parse_threshold env in
  let thr' := match threshold_src (fun _ => false) e with Some z => z | None => parse_threshold_src env end in
  Bool.eqb (re2_compiled thr) compiled && Bool.eqb (use_re2 thr n) used &&
  Bool.eqb (re2_compiled_src thr') compiled && Bool.eqb (use_re2_src thr' (Z.of_nat n)) used &&
  String.eqb threshold_env_name "ZOEKT_RE2_THRESHOLD_BYTES".
Definition c28_mismatches (l : list c28case) : list N := bad_indexes c28_ok l.
