(** C28 — internal/hybridre2: engine dispatch by input size.

    [threshold] is read once from ZOEKT_RE2_THRESHOLD_BYTES (strconv.ParseInt; unset or unparsable = -1 = disabled).
    Compile builds the RE2 program only when threshold >= 0; FindAllIndex uses RE2 iff it was built and
    len(input) >= threshold, the grafana engine otherwise.  The engines themselves (a Go package and a WebAssembly
    build of RE2) are external: they are parameters of the model.

    Two layers:
    * the hand model ([parse_threshold], [re2_compiled], [use_re2], [find_all]): the specification of the dispatch;
    * the source-level dispatch ([find_all_src]): an interpreter of what translator/hybridre2 reads from the Go source
      on every run (Generated/HybridRe2.v): the conditions of Compile and useRE2 as Z expressions and the body of
      Regexp.FindAllIndex as a decision tree whose leaves record which engine is called and whether it receives the
      method's own parameters or something derived from them (pre-processing of the input on a branch).
    Proofs/HybridRe.v shows that the second equals the first (this fails when a branch pre-processes its input). *)
From Coq Require Import String List ZArith Bool.
From ZV Require Import Lib.Base Model.HybridReSyntax Generated.HybridRe2.
Import ListNotations.
Open Scope Z_scope.

(** env: None = unset or not an integer *)
Definition parse_threshold (env : option Z) : Z := match env with Some n => n | None => -1 end.
Definition re2_compiled (thr : Z) : bool := 0 <=? thr.
Definition use_re2 (thr : Z) (len : nat) : bool := (0 <=? thr) && (thr <=? Z.of_nat len).

(** the same with the constants / conditions read from the source *)
Definition parse_threshold_src (env : option Z) : Z := match env with Some n => n | None => disabled_src end.

Section Dispatch.
  Variables R T L O : Type.             (* regexps, inputs, match limits (the n of FindAllIndex), results *)
  Variable len : T -> nat.
  Variables grafana re2 : R -> T -> L -> O.  (* the two engines' FindAllIndex *)

  (** hand model: both engines get the SAME input and limit, whatever the setting *)
  Definition find_all (thr : Z) (r : R) (b : T) (n : L) : O :=
    if re2_compiled thr && use_re2 thr (len b) then re2 r b n else grafana r b n.

  (** source-level dispatch.  What a branch does to its arguments before the engine sees them is unknown to the model:
      [xf] / [xl] stand for ANY transformation of the input / limit, [opq] for the value of the uninterpreted conditions. *)
  Variable xf : T -> T.
  Variable xl : L -> L.
  Variable opq : nat -> T -> bool.

  Fixpoint eval_cond (compiled used : bool) (b : T) (c : dcond) : bool :=
    match c with
    | CTrue => true
    | CFalse => false
    | CCompiled => compiled
    | CUsed => used
    | CNot c1 => negb (eval_cond compiled used b c1)
    | CAnd c1 c2 => eval_cond compiled used b c1 && eval_cond compiled used b c2
    | COr c1 c2 => eval_cond compiled used b c1 || eval_cond compiled used b c2
    | COpaque k => opq k b
    end.

  Fixpoint run_tree (t : dtree) (compiled used : bool) (b : T) : option (engine * argsrc * argsrc) :=
    match t with
    | DRet e i l => Some (e, i, l)
    | DIf c t1 t2 => if eval_cond compiled used b c then run_tree t1 compiled used b else run_tree t2 compiled used b
    | DOther => None
    end.

  Definition apply_leaf (lf : engine * argsrc * argsrc) (r : R) (b : T) (n : L) : O :=
    let '(e, i, l) := lf in
    let b' := match i with ArgParam => b | ArgDerived => xf b end in
    let n' := match l with ArgParam => n | ArgDerived => xl n end in
    match e with Grafana => grafana r b' n' | RE2 => re2 r b' n' end.

  (** None: the function leaves by something that is not an engine call *)
  Definition find_all_src (thr : Z) (r : R) (b : T) (n : L) : option O :=
    option_map (fun lf => apply_leaf lf r b n)
               (run_tree find_all_index_tree (re2_compiled_src thr) (use_re2_src thr (Z.of_nat (len b))) b).
End Dispatch.

(** ---- the checker evaluated (vm_compute) on the generated tree: on every path that is possible for a given
    (compiled, used) — taking BOTH sides of an uninterpreted condition — the leaf calls the wanted engine on the
    untouched parameters *)
Definition cond3 (compiled used : bool) : dcond -> option bool :=
  fix go (c : dcond) : option bool :=
    match c with
    | CTrue => Some true
    | CFalse => Some false
    | CCompiled => Some compiled
    | CUsed => Some used
    | CNot c1 => option_map negb (go c1)
    | CAnd c1 c2 => match go c1, go c2 with
                    | Some false, _ | _, Some false => Some false
                    | Some true, Some true => Some true
                    | _, _ => None
                    end
    | COr c1 c2 => match go c1, go c2 with
                   | Some true, _ | _, Some true => Some true
                   | Some false, Some false => Some false
                   | _, _ => None
                   end
    | COpaque _ => None
    end.

Definition engine_eqb (a b : engine) : bool :=
  match a, b with Grafana, Grafana | RE2, RE2 => true | _, _ => false end.
Definition is_param (a : argsrc) : bool := match a with ArgParam => true | ArgDerived => false end.

Fixpoint leaves_ok (want : engine) (compiled used : bool) (t : dtree) : bool :=
  match t with
  | DRet e i l => engine_eqb e want && is_param i && is_param l
  | DOther => false
  | DIf c t1 t2 => match cond3 compiled used c with
                   | Some true => leaves_ok want compiled used t1
                   | Some false => leaves_ok want compiled used t2
                   | None => leaves_ok want compiled used t1 && leaves_ok want compiled used t2
                   end
  end.

Definition want_engine (compiled used : bool) : engine := if compiled && used then RE2 else Grafana.

(** (compiled, used) = (false, true) cannot happen (used implies compiled), so it is not required of the tree *)
Definition tree_ok (t : dtree) : bool :=
  leaves_ok (want_engine false false) false false t &&
  leaves_ok (want_engine true false) true false t &&
  leaves_ok (want_engine true true) true true t.

(** the library functions the model's two engine parameters stand for *)
Definition expected_compile_callees : list String.string :=
  ["Grafana:github.com/grafana/regexp.Compile:ArgParam"; "RE2:github.com/wasilibs/go-re2.Compile:ArgParam"]%string.
Definition expected_engine_packages : list String.string :=
  ["Grafana:github.com/grafana/regexp"; "RE2:github.com/wasilibs/go-re2"]%string.

(** ---- runner: the dispatch decisions observed in the implementation, against the hand model AND the generated conditions *)
Definition c28case := (option Z * nat * bool * bool)%type.   (* env value, input length, re.re2 != nil, useRE2(len) *)
Definition c28_ok (c : c28case) : bool :=
  let '(env, n, compiled, used) := c in
  let thr := parse_threshold env in
  let thr' := parse_threshold_src env in
  Bool.eqb (re2_compiled thr) compiled && Bool.eqb (use_re2 thr n) used &&
  Bool.eqb (re2_compiled_src thr') compiled && Bool.eqb (use_re2_src thr' (Z.of_nat n)) used.
Definition c28_mismatches (l : list c28case) : list N := bad_indexes c28_ok l.
