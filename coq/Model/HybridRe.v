(** C28 — internal/hybridre2: engine dispatch by input size.

    [threshold] is read once from ZOEKT_RE2_THRESHOLD_BYTES (strconv.ParseInt; unset or unparsable = -1 = disabled).
    Compile builds the RE2 program only when threshold >= 0; FindAllIndex uses RE2 iff it was built and
    len(input) >= threshold, the grafana engine otherwise.  The engines themselves (a Go package and a WebAssembly
    build of RE2) are external: they are parameters of the model. *)
From Coq Require Import List ZArith Bool.
From ZV Require Import Lib.Base.
Import ListNotations.
Open Scope Z_scope.

(** env: None = unset or not an integer *)
Definition parse_threshold (env : option Z) : Z := match env with Some n => n | None => -1 end.
Definition re2_compiled (thr : Z) : bool := 0 <=? thr.
Definition use_re2 (thr : Z) (len : nat) : bool := (0 <=? thr) && (thr <=? Z.of_nat len).

Section Dispatch.
  Variables R T O : Type.               (* regexps, inputs, results *)
  Variable len : T -> nat.
  Variables grafana re2 : R -> T -> O.  (* the two engines' FindAllIndex *)

  Definition find_all (thr : Z) (r : R) (b : T) : O :=
    if re2_compiled thr && use_re2 thr (len b) then re2 r b else grafana r b.
End Dispatch.

(** ---- runner: the dispatch decisions observed in the implementation *)
Definition c28case := (option Z * nat * bool * bool)%type.   (* env value, input length, re.re2 != nil, useRE2(len) *)
Definition c28_ok (c : c28case) : bool :=
  let '(env, n, compiled, used) := c in
  let thr := parse_threshold env in
  Bool.eqb (re2_compiled thr) compiled && Bool.eqb (use_re2 thr n) used.
Definition c28_mismatches (l : list c28case) : list N := bad_indexes c28_ok l.
