(** Model of the notification loop of search/watcher.go: how directory changes lead to calls of scan().

    newDirectoryWatcher:   go func() { scan(); watch() }         -- the initial scan runs BEFORE the watch is installed
    watch():               watcher.Add(dir); signal := make(chan struct{}, 1)
      goroutine 1:         for { select { case ev := <-watcher.Events: if *.zoekt or *.meta { notify() }
                                          case <-ticker.C (1 min):     notify() ... } }
                           notify = select { case signal <- struct{}{}: default: }      (token kept if already there)
      goroutine 2:         for range signal { scan() }

    A transition system over: is the watch installed, how many relevant events wait in watcher.Events, does `signal`
    hold its token, is a scan running.  Directory changes, fsnotify queue overflow (events dropped:
    fsnotify.ErrEventOverflow is ignored by the code) and ticks are events of the environment.
    [step] returns None when the event is not executable in the state.  No proofs here (Proofs/WatchLoop.v). *)
From ZV Require Import Lib.Base.

Inductive levent :=
| EChange (extra : nat)   (* a change of a *.zoekt / *.meta file in the directory; produces 1+extra fsnotify events when watched *)
| EInitScanEnd            (* the initial scan() of newDirectoryWatcher returns *)
| EWatchAdd               (* watch(): watcher.Add(dir) done, goroutines 1 and 2 and the ticker started *)
| EDeliver                (* goroutine 1 receives a relevant event and calls notify() *)
| EDrop                   (* the kernel/fsnotify queue overflows: one pending event is lost *)
| ETick                   (* ticker.C fires: notify() *)
| EScanStart              (* goroutine 2 receives the token and calls scan() *)
| EScanEnd.               (* that scan() returns *)

Record lstate := mkL {
  l_watching : bool;     (* watcher.Add(dir) has been done *)
  l_queue : nat;         (* relevant events in watcher.Events not yet received by goroutine 1 *)
  l_sig : bool;          (* the capacity-1 channel `signal` holds a token *)
  l_scanning : bool;     (* a scan() is running (the initial one, or one started by goroutine 2) *)
  l_init_done : bool     (* the initial scan has returned *)
}.

(** newDirectoryWatcher has just started its goroutine: the initial scan is running, nothing is watched yet *)
Definition l_init : lstate := mkL false 0 false true false.

Definition lstep (s : lstate) (e : levent) : option lstate :=
  match e with
  | EChange extra =>
      Some (if l_watching s then mkL true (l_queue s + S extra) (l_sig s) (l_scanning s) (l_init_done s) else s)
  | EInitScanEnd =>
      if l_scanning s && negb (l_init_done s) then Some (mkL (l_watching s) (l_queue s) (l_sig s) false true) else None
  | EWatchAdd =>
      if l_init_done s && negb (l_watching s) then Some (mkL true (l_queue s) (l_sig s) (l_scanning s) true) else None
  | EDeliver =>
      if l_watching s && (0 <? l_queue s) then Some (mkL true (l_queue s - 1) true (l_scanning s) (l_init_done s)) else None
  | EDrop =>
      if (0 <? l_queue s) then Some (mkL (l_watching s) (l_queue s - 1) (l_sig s) (l_scanning s) (l_init_done s)) else None
  | ETick =>
      if l_watching s then Some (mkL true (l_queue s) true (l_scanning s) (l_init_done s)) else None
  | EScanStart =>
      if l_watching s && l_sig s && negb (l_scanning s) then Some (mkL true (l_queue s) false true (l_init_done s)) else None
  | EScanEnd =>
      if l_scanning s && l_init_done s then Some (mkL (l_watching s) (l_queue s) (l_sig s) false true) else None
  end.

Fixpoint lrun (s : lstate) (es : list levent) : option lstate :=
  match es with
  | [] => Some s
  | e :: r => match lstep s e with Some s' => lrun s' r | None => None end
  end.

(** nothing left to do for the watcher: no pending event, no token, no scan running *)
Definition quiescent (s : lstate) : bool := (l_queue s =? 0) && negb (l_sig s) && negb (l_scanning s).

(** trace predicate: the most recent scan STARTED after the last directory change (so every read it made of the
    directory saw the final contents).  The initial scan has started before the first event of a trace. *)
Definition scanned_after_last_change (es : list levent) : bool :=
  fold_left (fun acc e => match e with EChange _ => false | EScanStart => true | _ => acc end) es true.

Definition is_change (e : levent) : bool := match e with EChange _ => true | _ => false end.
Definition is_drop (e : levent) : bool := match e with EDrop => true | _ => false end.
Definition is_watch_add (e : levent) : bool := match e with EWatchAdd => true | _ => false end.
Definition is_scan_start (e : levent) : bool := match e with EScanStart => true | _ => false end.
