(** Shared regexp layer (L2): an AST mirroring Go's regexp/syntax.Regexp, an executable
    end-position-set semantics [ends], the declarative semantics [m] it is proved equal to
    (Proofs/Regex.v), and the AST normaliser [norm] used by the C27 translation validator
    (soundness in Proofs/RegexNorm.v).

    Text = list of runes (N) — what Go's engines see after UTF-8 decoding (an invalid byte is the
    rune U+FFFD of width 1); positions are rune indexes (nat).

    The simple-fold orbit of a rune ([orbit c] = the OTHER members of unicode.SimpleFold's cycle through c)
    is a parameter of everything here; checks instantiate it with Generated/UnicodeTables.v, which is
    dumped from the Go toolchain in use.

    NonGreedy is not part of the AST: it does not influence which strings match (the set of end
    positions), only which match a leftmost-first engine reports. *)
From Coq Require Import List NArith Arith Bool Lia.
Import ListNotations.

Inductive re : Type :=
| RNoMatch                                   (* OpNoMatch *)
| REmpty                                     (* OpEmptyMatch *)
| RLit (fold : bool) (rs : list N)           (* OpLiteral, Flags&FoldCase *)
| RClass (rg : list (N * N))                 (* OpCharClass: Rune = lo0,hi0,lo1,hi1,... *)
| RAny                                       (* OpAnyChar *)
| RAnyNotNL                                  (* OpAnyCharNotNL *)
| RBeginLine | REndLine | RBeginText | REndText
| RWordB | RNoWordB
| RCapture (r : re)
| RStar (r : re) | RPlus (r : re) | RQuest (r : re)
| RRepeat (mn : nat) (mx : option nat) (r : re)   (* Max = -1  ~  None *)
| RConcat (rs : list re)
| RAlt (rs : list re).

Definition in_class (rg : list (N * N)) (c : N) : bool :=
  existsb (fun p => (fst p <=? c)%N && (c <=? snd p)%N) rg.

(** ASCII word characters, as regexp/syntax.IsWordChar *)
Definition is_word (c : N) : bool :=
  ((48 <=? c) && (c <=? 57) || (65 <=? c) && (c <=? 90) || (97 <=? c) && (c <=? 122) || (c =? 95))%N.
Definition word_at (t : list N) (i : nat) : bool :=
  match nth_error t i with Some c => is_word c | None => false end.
Definition word_before (t : list N) (i : nat) : bool :=
  match i with 0 => false | S k => word_at t k end.
Definition nl_at (t : list N) (i : nat) : bool :=
  match nth_error t i with Some c => (c =? 10)%N | None => false end.
Definition begin_line (t : list N) (i : nat) : bool :=
  match i with 0 => true | S k => nl_at t k end.
Definition end_line (t : list N) (i : nat) : bool := (i =? length t) || nl_at t i.

(** Go strings decode to runes in [0, 0x10FFFF] only; "any character" is that range (so that it is
    the same thing as the class the parser sometimes uses for it). *)
Definition max_rune : N := 1114111.
Definition any_rune (c : N) : bool := (c <=? max_rune)%N.
Definition any_rune_not_nl (c : N) : bool := (c <=? max_rune)%N && negb (c =? 10)%N.

Definition dedup (l : list nat) : list nat := nodup Nat.eq_dec l.

Section WithOrbit.
Variable orbit : N -> list N.

Definition fold_eq (f : bool) (r c : N) : bool :=
  (r =? c)%N || (f && existsb (N.eqb c) (orbit r)).

Definition step1 (t : list N) (i : nat) (p : N -> bool) : list nat :=
  match nth_error t i with Some c => if p c then [S i] else [] | None => [] end.

Fixpoint lit_ends (f : bool) (rs : list N) (t : list N) (i : nat) : list nat :=
  match rs with
  | [] => [i]
  | r :: rs' => match nth_error t i with
                | Some c => if fold_eq f r c then lit_ends f rs' t (S i) else []
                | None => []
                end
  end.

(** all positions reachable from [i] by >= 0 steps of [f]; only strictly advancing steps are followed
    (a non-advancing step adds nothing new), so [fuel] = number of positions suffices *)
Fixpoint star_ends (f : nat -> list nat) (fuel : nat) (i : nat) : list nat :=
  match fuel with
  | 0 => [i]
  | S fu => dedup (i :: flat_map (fun k => if i <? k then star_ends f fu k else []) (f i))
  end.

Fixpoint pow_ends (f : nat -> list nat) (n : nat) (l : list nat) : list nat :=
  match n with 0 => l | S n' => pow_ends f n' (dedup (flat_map f l)) end.

(** 0..n further steps *)
Fixpoint upto_ends (f : nat -> list nat) (n : nat) (l : list nat) : list nat :=
  match n with 0 => l | S n' => dedup (l ++ upto_ends f n' (dedup (flat_map f l))) end.

Definition star_fuel (t : list N) (i : nat) : nat := S (length t - i).

Fixpoint ends (r : re) (t : list N) (i : nat) {struct r} : list nat :=
  match r with
  | RNoMatch => []
  | REmpty => [i]
  | RLit f rs => lit_ends f rs t i
  | RClass rg => step1 t i (in_class rg)
  | RAny => step1 t i any_rune
  | RAnyNotNL => step1 t i any_rune_not_nl
  | RBeginLine => if begin_line t i then [i] else []
  | REndLine => if end_line t i then [i] else []
  | RBeginText => if i =? 0 then [i] else []
  | REndText => if i =? length t then [i] else []
  | RWordB => if negb (Bool.eqb (word_before t i) (word_at t i)) then [i] else []
  | RNoWordB => if Bool.eqb (word_before t i) (word_at t i) then [i] else []
  | RCapture r' => ends r' t i
  | RStar r' => star_ends (ends r' t) (star_fuel t i) i
  | RPlus r' => dedup (flat_map (fun k => star_ends (ends r' t) (star_fuel t k) k) (ends r' t i))
  | RQuest r' => dedup (i :: ends r' t i)
  | RRepeat mn mx r' =>
      let base := pow_ends (ends r' t) mn [i] in
      match mx with
      | None => dedup (flat_map (fun k => star_ends (ends r' t) (star_fuel t k) k) base)
      | Some x => upto_ends (ends r' t) (x - mn) (if mn <=? x then base else [])
      end
  | RConcat rs =>
      (fix go (rs : list re) (l : list nat) : list nat :=
         match rs with [] => l | r' :: rs' => go rs' (dedup (flat_map (ends r' t) l)) end) rs [i]
  | RAlt rs =>
      (fix go (rs : list re) : list nat :=
         match rs with [] => [] | r' :: rs' => ends r' t i ++ go rs' end) rs
  end.

Definition matches_at (r : re) (t : list N) (i : nat) : bool :=
  match ends r t i with [] => false | _ => true end.

(** leftmost-longest match (Go: Regexp.Longest(); FindIndex): the first start position that has an end,
    and the largest end from there.  [None] = no match. *)
Fixpoint leftmost_longest_from (r : re) (t : list N) (i : nat) (fuel : nat) : option (nat * nat) :=
  match ends r t i with
  | e :: es => Some (i, fold_left Nat.max es e)
  | [] => match fuel with 0 => None | S fu => leftmost_longest_from r t (S i) fu end
  end.
Definition leftmost_longest (r : re) (t : list N) : option (nat * nat) :=
  leftmost_longest_from r t 0 (length t).

(** ------------------------------------------------------------------ declarative semantics *)

Fixpoint pow (P : nat -> nat -> Prop) (n : nat) (i j : nat) : Prop :=
  match n with 0 => i = j | S n' => exists k, P i k /\ pow P n' k j end.

Fixpoint lit_m (f : bool) (rs : list N) (t : list N) (i j : nat) : Prop :=
  match rs with
  | [] => i = j
  | r :: rs' => exists c, nth_error t i = Some c /\ fold_eq f r c = true /\ lit_m f rs' t (S i) j
  end.

Definition step_m (t : list N) (p : N -> bool) (i j : nat) : Prop :=
  exists c, nth_error t i = Some c /\ p c = true /\ j = S i.

Fixpoint m (r : re) (t : list N) (i j : nat) {struct r} : Prop :=
  match r with
  | RNoMatch => False
  | REmpty => i = j
  | RLit f rs => lit_m f rs t i j
  | RClass rg => step_m t (in_class rg) i j
  | RAny => step_m t any_rune i j
  | RAnyNotNL => step_m t any_rune_not_nl i j
  | RBeginLine => begin_line t i = true /\ i = j
  | REndLine => end_line t i = true /\ i = j
  | RBeginText => i = 0 /\ i = j
  | REndText => i = length t /\ i = j
  | RWordB => word_before t i <> word_at t i /\ i = j
  | RNoWordB => word_before t i = word_at t i /\ i = j
  | RCapture r' => m r' t i j
  | RStar r' => exists n, pow (m r' t) n i j
  | RPlus r' => exists n, 1 <= n /\ pow (m r' t) n i j
  | RQuest r' => i = j \/ m r' t i j
  | RRepeat mn mx r' =>
      exists n, mn <= n /\ match mx with Some x => n <= x | None => True end /\ pow (m r' t) n i j
  | RConcat rs =>
      (fix mc (rs : list re) (i : nat) : Prop :=
         match rs with [] => i = j | r' :: rs' => exists k, m r' t i k /\ mc rs' k end) rs i
  | RAlt rs =>
      (fix ma (rs : list re) : Prop :=
         match rs with [] => False | r' :: rs' => m r' t i j \/ ma rs' end) rs
  end.

(** [a] and [b] match exactly the same (text, start, end) triples *)
Definition lang_eq (a b : re) : Prop := forall t i j, m a t i j <-> m b t i j.

(** ------------------------------------------------------------------ normaliser (C27) *)

(** insertion of a non-empty range into a sorted list of non-adjacent ranges, merging what touches *)
Fixpoint ins_range (lo hi : N) (l : list (N * N)) : list (N * N) :=
  match l with
  | [] => [(lo, hi)]
  | (a, b) :: l' =>
      if (hi + 1 <? a)%N then (lo, hi) :: l
      else if (b + 1 <? lo)%N then (a, b) :: ins_range lo hi l'
      else ins_range (N.min lo a) (N.max hi b) l'
  end.
Definition canon_class (rg : list (N * N)) : list (N * N) :=
  fold_right (fun p acc => if (fst p <=? snd p)%N then ins_range (fst p) (snd p) acc else acc) [] rg.

Definition mk_concat (l : list re) : re :=
  let l' := flat_map (fun x => match x with RConcat ys => ys | REmpty => [] | _ => [x] end) l in
  match l' with [] => REmpty | [x] => x | _ => RConcat l' end.
Definition mk_alt_plain (l : list re) : re :=
  match l with [] => RClass [] | [x] => x | _ => RAlt l end.
(** parser squashing and syntax.simplify1: stacked star/plus/quest collapse; a repeated empty match is
    the empty match *)
Definition mk_star (x : re) : re :=
  match x with REmpty => REmpty | RStar _ => x | RPlus y => RStar y | RQuest y => RStar y | _ => RStar x end.
Definition mk_plus (x : re) : re :=
  match x with REmpty => REmpty | RPlus _ => x | RStar _ => x | RQuest y => RStar y | _ => RPlus x end.
Definition mk_quest (x : re) : re :=
  match x with REmpty => REmpty | RQuest _ => x | RStar _ => x | RPlus y => RStar y | _ => RQuest x end.

(** x{0,k+1} as Simplify nests it: x followed by an optional (x followed by an optional ...) *)
Fixpoint opt_suffix (x : re) (k : nat) : re :=
  match k with 0 => mk_quest x | S k' => mk_quest (mk_concat [x; opt_suffix x k']) end.

(** Regexp.Simplify on OpRepeat, on an already normalised operand *)
Definition expand (mn : nat) (mx : option nat) (x : re) : re :=
  match mx with
  | None => match mn with
            | 0 => mk_star x
            | 1 => mk_plus x
            | S n' => mk_concat (repeat x n' ++ [mk_plus x])
            end
  | Some mxv =>
      if (mn =? 0) && (mxv =? 0) then REmpty
      else if mxv <? mn then RClass []
      else match mxv - mn with
           | 0 => mk_concat (repeat x mn)
           | S k => mk_concat (repeat x mn ++ [opt_suffix x k])
           end
  end.

End WithOrbit.

(** decidable equality of ASTs, for [norm a =? norm b] *)
Definition opt_nat_eqb (a b : option nat) : bool :=
  match a, b with Some x, Some y => x =? y | None, None => true | _, _ => false end.
Fixpoint list_beq {A} (eqb : A -> A -> bool) (a b : list A) : bool :=
  match a, b with
  | [], [] => true
  | x :: a', y :: b' => eqb x y && list_beq eqb a' b'
  | _, _ => false
  end.
Fixpoint re_eqb (a b : re) {struct a} : bool :=
  match a, b with
  | RNoMatch, RNoMatch | REmpty, REmpty | RAny, RAny | RAnyNotNL, RAnyNotNL
  | RBeginLine, RBeginLine | REndLine, REndLine | RBeginText, RBeginText | REndText, REndText
  | RWordB, RWordB | RNoWordB, RNoWordB => true
  | RLit f rs, RLit g ss => Bool.eqb f g && list_beq N.eqb rs ss
  | RClass x, RClass y => list_beq (fun p q => (fst p =? fst q)%N && (snd p =? snd q)%N) x y
  | RCapture x, RCapture y | RStar x, RStar y | RPlus x, RPlus y | RQuest x, RQuest y => re_eqb x y
  | RRepeat n1 x1 r1, RRepeat n2 x2 r2 => (n1 =? n2) && opt_nat_eqb x1 x2 && re_eqb r1 r2
  | RConcat xs, RConcat ys | RAlt xs, RAlt ys =>
      (fix go (xs ys : list re) : bool :=
         match xs, ys with
         | [], [] => true
         | x :: xs', y :: ys' => re_eqb x y && go xs' ys'
         | _, _ => false
         end) xs ys
  | _, _ => false
  end.

(** ------------------------------------------------------------------ alternation normal form

    The parser rewrites alternations (common-prefix factoring, merging of adjacent one-rune alternatives
    into a class) depending on what is adjacent, so a capture that is removed exposes new rewrites.  The
    normal form is insensitive to them: an alternation is made deterministic on its first element
    (class heads are split along all range boundaries occurring among the heads, alternatives are sorted
    and grouped by head, the suffixes of a group are normalised recursively, groups with equal suffix
    are merged back into one class) and sorted. *)

(** a prefix code for ASTs, used only to ORDER alternatives (no property of it is needed for soundness) *)
Fixpoint ser (r : re) : list N :=
  match r with
  | RNoMatch => [0]
  | REmpty => [1]
  | RLit f rs => 2 :: (if f then 1 else 0) :: N.of_nat (length rs) :: rs
  | RClass rg => 3 :: N.of_nat (length rg) :: flat_map (fun p => [fst p; snd p]) rg
  | RAny => [4] | RAnyNotNL => [5] | RBeginLine => [6] | REndLine => [7] | RBeginText => [8]
  | REndText => [9] | RWordB => [10] | RNoWordB => [11]
  | RCapture x => 12 :: ser x
  | RStar x => 13 :: ser x
  | RPlus x => 14 :: ser x
  | RQuest x => 15 :: ser x
  | RRepeat mn mx x => 16 :: N.of_nat mn :: (match mx with Some v => N.succ (N.of_nat v) | None => 0 end) :: ser x
  | RConcat xs => 17 :: N.of_nat (length xs) :: (fix go (xs : list re) : list N := match xs with [] => [] | x :: xs' => ser x ++ go xs' end) xs
  | RAlt xs => 18 :: N.of_nat (length xs) :: (fix go (xs : list re) : list N := match xs with [] => [] | x :: xs' => ser x ++ go xs' end) xs
  end%N.
Fixpoint lex_leb (a b : list N) : bool :=
  match a, b with
  | [], _ => true
  | _ :: _, [] => false
  | x :: a', y :: b' => if (x <? y)%N then true else if (y <? x)%N then false else lex_leb a' b'
  end.
Definition re_leb (a b : re) : bool := lex_leb (ser a) (ser b).
Definition seq_ser (s : list re) : list N := flat_map ser s.
Definition seq_leb (a b : list re) : bool := lex_leb (seq_ser a) (seq_ser b).

Fixpoint insert_by {A} (leb : A -> A -> bool) (x : A) (l : list A) : list A :=
  match l with [] => [x] | y :: l' => if leb x y then x :: l else y :: insert_by leb x l' end.
Definition sort_by {A} (leb : A -> A -> bool) (l : list A) : list A := fold_right (insert_by leb) [] l.

Definition as_alts (x : re) : list re := match x with RAlt ys => ys | _ => [x] end.
Definition as_seq (x : re) : list re := match x with RConcat ys => ys | REmpty => [] | _ => [x] end.

Definition ranges_eqb (a b : list (N * N)) : bool :=
  list_beq (fun p q => (fst p =? fst q)%N && (snd p =? snd q)%N) a b.

(** sorted duplicate-free insertion *)
Fixpoint ins_cut (c : N) (l : list N) : list N :=
  match l with
  | [] => [c]
  | d :: l' => if (c <? d)%N then c :: l else if (c =? d)%N then l else d :: ins_cut c l'
  end.
Definition cuts_of (seqs : list (list re)) : list N :=
  fold_right (fun s acc => match s with
                           | RClass rg :: _ => fold_right (fun p a => ins_cut (fst p) (ins_cut (snd p + 1)%N a)) acc rg
                           | _ => acc
                           end) [] seqs.
Fixpoint split_range (cuts : list N) (lo hi : N) : list (N * N) :=
  match cuts with
  | [] => [(lo, hi)]
  | c :: cs => if (lo <? c)%N && (c <=? hi)%N then (lo, c - 1)%N :: split_range cs c hi else split_range cs lo hi
  end.
(** the pieces of a class along the cuts; the result is VALIDATED (same canonical class), otherwise the
    class is left whole — the splitting code itself need not be trusted *)
Definition split_class (cuts : list N) (rg : list (N * N)) : list (list (N * N)) :=
  let pieces := flat_map (fun p => split_range cuts (fst p) (snd p)) rg in
  if ranges_eqb (canon_class pieces) (canon_class rg) then map (fun p => [p]) pieces else [rg].
Definition split_head (cuts : list N) (s : list re) : list (list re) :=
  match s with
  | RClass rg :: tl => map (fun piece => RClass piece :: tl) (split_class cuts rg)
  | _ => [s]
  end.

(** maximal runs of sequences with the same first element (the input is sorted) *)
Fixpoint group (l : list (list re)) : list (option re * list (list re)) :=
  match l with
  | [] => []
  | s :: l' =>
      let g := group l' in
      match s with
      | [] => match g with
              | (None, sf) :: g' => (None, [] :: sf) :: g'
              | _ => (None, [[]]) :: g
              end
      | h :: tl => match g with
                   | (Some h', sf) :: g' => if re_eqb h h' then (Some h, tl :: sf) :: g' else (Some h, [tl]) :: g
                   | _ => (Some h, [tl]) :: g
                   end
      end
  end.

Definition item := (option re * re)%type.   (* (head, normalised suffix);  None = the empty alternative *)
Definition item_key (it : item) : list N :=
  ser (snd it) ++ match fst it with Some (RClass _) => [0%N] | Some h => 1%N :: ser h | None => [2%N] end.
Definition item_leb (a b : item) : bool := lex_leb (item_key a) (item_key b).
Fixpoint merge_items (l : list item) : list item :=
  match l with
  | [] => []
  | (Some (RClass r1), s1) :: l' =>
      match merge_items l' with
      | (Some (RClass r2), s2) :: l'' =>
          if re_eqb s1 s2 then (Some (RClass (canon_class (r1 ++ r2))), s1) :: l''
          else (Some (RClass r1), s1) :: (Some (RClass r2), s2) :: l''
      | ml => (Some (RClass r1), s1) :: ml
      end
  | x :: l' => x :: merge_items l'
  end.
Definition item_re (it : item) : re :=
  match it with (None, _) => REmpty | (Some h, s) => mk_concat [h; s] end.

Fixpoint nalt (fuel : nat) (alts : list re) : re :=
  match fuel with
  | 0 => mk_alt_plain alts
  | S fu =>
      let seqs0 := map as_seq (flat_map as_alts alts) in
      let cuts := cuts_of seqs0 in
      let seqs := sort_by seq_leb (flat_map (split_head cuts) seqs0) in
      let items := map (fun g : option re * list (list re) =>
                          match g with
                          | (None, _) => (None, REmpty)
                          | (Some h, [s]) => (Some h, mk_concat s)
                          | (Some h, sfx) => (Some h, nalt fu (map mk_concat sfx))
                          end) (group seqs) in
      mk_alt_plain (sort_by re_leb (map item_re (merge_items (sort_by item_leb items))))
  end.

Fixpoint re_size (r : re) : nat :=
  match r with
  | RCapture x | RStar x | RPlus x | RQuest x | RRepeat _ _ x => S (re_size x)
  | RConcat xs | RAlt xs => S ((fix go (xs : list re) : nat := match xs with [] => 0 | x :: xs' => re_size x + go xs' end) xs)
  | _ => 1
  end.
Definition mk_alt (l : list re) : re := nalt (S (fold_right (fun x a => re_size x + a) 0 l)) l.

Section Norm.
Variable orbit : N -> list N.

Definition lit_class (f : bool) (r : N) : list (N * N) :=
  canon_class ((r, r) :: if f then map (fun x => (x, x)) (orbit r) else []).

Fixpoint norm (r : re) : re :=
  match r with
  | RNoMatch => RClass []
  | RLit f rs => mk_concat (map (fun c => RClass (lit_class f c)) rs)
  | RClass rg => RClass (canon_class rg)
  | RAny => RClass [(0, max_rune)%N]
  | RAnyNotNL => RClass [(0, 9); (11, max_rune)]%N
  | RCapture r' => norm r'
  | RStar r' => mk_star (norm r')
  | RPlus r' => mk_plus (norm r')
  | RQuest r' => mk_quest (norm r')
  | RRepeat mn mx r' => expand mn mx (norm r')
  | RConcat rs => mk_concat (map norm rs)
  | RAlt rs => mk_alt (map norm rs)
  | x => x
  end.
End Norm.
