(** C09 — DocChecker.Check (index/shard_builder.go) and the skip decision of Builder.Add (index/builder.go).
    The checker is STATEFUL in the Go code (one DocChecker per Builder, its trigram map is reused across documents);
    the model threads that state explicitly, so "the verdict of a document is a function of that document and the
    options only" is a theorem (Proofs below), not an artefact of the model. *)
From ZV Require Import Lib.Base Lib.Varint Model.Format.
Open Scope N_scope.

Definition SKIP_NONE : N := 0.
Definition SKIP_TOO_LARGE : N := 1.
Definition SKIP_TOO_SMALL : N := 2.
(* SKIP_BINARY = 3 is defined in Model/Format.v *)
Definition SKIP_TOO_MANY : N := 4.

(** t.trigrams[ng] = struct{}{} *)
Definition set_add (g : N) (s : list N) : list N := if existsb (N.eqb g) s then s else g :: s.

(** the counting loop:  r := DecodeRune; cur = (cur1, cur2, r); if cur[0] == 0 { continue } (start of file);
    insert; if len(trigrams) > max { return TooManyTrigrams } *)
Fixpoint count_loop (fuel : nat) (content : list N) (c1 c2 : N) (set : list N) (max : N) : N * list N :=
  match fuel with
  | O => (SKIP_NONE, set)
  | S f =>
    match content with
    | [] => (SKIP_NONE, set)
    | _ =>
      let '(r, sz) := decode_rune content in
      let rest := skipn sz content in
      if c1 =? 0 then count_loop f rest c2 r set max
      else
        let set' := set_add (ngram_of c1 c2 r) set in
        if max <? nlen set' then (SKIP_TOO_MANY, set')
        else count_loop f rest c2 r set' max
    end
  end.

(** DocChecker.Check with the checker's map [st] as explicit state: (verdict, state afterwards).
    The map is cleared (clearTrigrams) before counting. *)
Definition check_st (st : list N) (content : list N) (max : N) (allow : bool) : N * list N :=
  match content with
  | [] => (SKIP_NONE, st)
  | _ =>
    if nlen content <? 3 then (SKIP_TOO_SMALL, st)
    else if has_nul content then (SKIP_BINARY, st)
    else if (nlen content - 3 + 1 <=? max) || allow then (SKIP_NONE, st)
    else count_loop (length content) content 0 0 [] max
  end.

(** the verdict as a function of the document and the options only *)
Definition doc_check (content : list N) (max : N) (allow : bool) : N := fst (check_st [] content max allow).

(** Builder.Add: size limit first (unless the name is allow-listed by LargeFiles), then the checker *)
Definition builder_skip_st (st : list N) (sizeMax max : N) (content : list N) (allow : bool) : N * list N :=
  if (sizeMax <? nlen content) && negb allow then (SKIP_TOO_LARGE, st) else check_st st content max allow.
Definition builder_skip (sizeMax max : N) (content : list N) (allow : bool) : N :=
  fst (builder_skip_st [] sizeMax max content allow).

(** a sequence of documents through ONE checker *)
Fixpoint check_seq (st : list N) (sizeMax max : N) (docs : list (list N * bool)) : list N :=
  match docs with
  | [] => []
  | (c, allow) :: r =>
    let '(v, st') := builder_skip_st st sizeMax max c allow in
    v :: check_seq st' sizeMax max r
  end.

