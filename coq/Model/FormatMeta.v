(** C09 — index metadata that ShardBuilder.Write DERIVES from the builder state (write.go: the IndexMetadata literal).
    PlainASCII = contentPostings.isPlainASCII && namePostings.isPlainASCII, where postingsBuilder.isPlainASCII starts
    true (reset) and the rune loop of newSearchableString clears it whenever the byte at a rune start is >= utf8.RuneSelf.
    The reader trusts the flag: contentProvider.findOffset treats rune offsets as byte offsets when it is set
    (for contents AND file names).  The other metadata fields are constants or copied inputs (opaque JSON). *)
From ZV Require Import Lib.Base Lib.Varint Generated.FormatConsts Model.Format.
Open Scope N_scope.

(** the flag after one newSearchableString(data): AND over the rune starts of (data[0] < RuneSelf) *)
Fixpoint rune_plain (fuel : nat) (data : list N) : bool :=
  match fuel with
  | O => true
  | S f =>
    match data with
    | [] => true
    | b0 :: _ =>
      let sz := if b0 <? 128 then 1%nat else snd (decode_rune data) in
      (b0 <? 128) && rune_plain f (skipn sz data)
    end
  end.
Definition string_plain (s : list N) : bool := rune_plain (length s) s.

(** postingsBuilder.isPlainASCII after the strings [l] (in any order: a conjunction) *)
Definition builder_plain (l : list (list N)) : bool := forallb string_plain l.

(** IndexMetadata.PlainASCII as written *)
Definition meta_plain_ascii (b : bstate) : bool := builder_plain (b_contents b) && builder_plain (b_names b).
