(** query/parse.go RegexpQuery's literal detection ("patterns that contain no regular expression operations
    are optimized as substring matches", doc/query_syntax.md), over the regexp AST of Model/Regex.v:

      r, err := syntax.Parse(text, regexpFlags)
      r = OptimizeRegexp(r, regexpFlags)
      if r.Op == syntax.OpLiteral && r.Flags&syntax.FoldCase == 0 {      // since /repo efa35e5
          expr = &Substring{Pattern: string(r.Rune), ...}
      } else {
          expr = &Regexp{Regexp: r, ...} }

    [rq_shape_of] is that decision on the optimized tree (regexp/syntax's parser and Simplify stay external: the
    trees are dumped from the implementation); [rq_shape_old] is the decision before the repair (every literal,
    also one carrying FoldCase, became a Substring).  [string(r.Rune)] is the UTF-8 encoding of the runes.
    This file contains no proofs. *)
From Coq Require Import List NArith Bool.
From ZV Require Import Model.Regex.
Import ListNotations.
Open Scope N_scope.

(** string(rune) for a valid rune (the parser only produces valid runes) *)
Definition utf8_enc (c : N) : list N :=
  if c <? 128 then [c]
  else if c <? 2048 then [192 + c / 64; 128 + c mod 64]
  else if c <? 65536 then [224 + c / 4096; 128 + (c / 64) mod 64; 128 + c mod 64]
  else [240 + c / 262144; 128 + (c / 4096) mod 64; 128 + (c / 64) mod 64; 128 + c mod 64].

Inductive rq_shape := ShLit (runes : list N) | ShRx.

Definition rq_shape_of (r : re) : rq_shape :=
  match r with RLit false rs => ShLit rs | _ => ShRx end.

(** before the repair: r.Op == syntax.OpLiteral alone *)
Definition rq_shape_old (r : re) : rq_shape :=
  match r with RLit _ rs => ShLit rs | _ => ShRx end.

Definition shape_pattern (s : rq_shape) : option (list N) :=
  match s with ShLit rs => Some (flat_map utf8_enc rs) | ShRx => None end.

(** what a Substring atom means: the runes of the pattern occur in the text at rune position [i] (exact case:
    that is what case:yes asks of it) *)
Definition occurs_at (rs t : list N) (i : nat) : Prop := firstn (length rs) (skipn i t) = rs.
