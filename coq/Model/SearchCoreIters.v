(** Operational model of the hit iterators of index/hititer.go over sorted position lists (the compressed posting
    iterator after delta-varint decoding, which is C09): inMemoryIterator / compressedPostingIterator (first, next),
    mergingIterator, distanceHitIterator (findNext, first, next) and the consuming loop of ngramDocIterator.candidates.
    Proofs/SearchCoreIters.v shows that they denote the list functions used by Model/SearchCore.v (post / dist_hits /
    take_while / drop_while).  MaxUint32 is modelled by None. *)
From ZV Require Import Lib.Base Model.SearchCore.

Definition hfirst (l : list nat) : option nat := hd_error l.
Definition hnext (limit : nat) (l : list nat) : list nat := drop_while (fun p => p <=? limit) l.

(** mergingIterator *)
Definition omin (a b : option nat) : option nat :=
  match a, b with Some x, Some y => Some (Nat.min x y) | Some x, None => Some x | None, b' => b' end.
Definition mfirst (ls : list (list nat)) : option nat := fold_right (fun l a => omin (hfirst l) a) None ls.
Definition mnext (limit : nat) (ls : list (list nat)) : list (list nat) := map (hnext limit) ls.

(** distanceHitIterator.findNext *)
Fixpoint find_next (fuel d : nat) (l1 l2 : list nat) : list nat * list nat :=
  match fuel with
  | 0 => (l1, l2)
  | S f =>
      match l1, l2 with
      | p1 :: _, p2 :: _ =>
          if p1 + d <? p2 then find_next f d (hnext (p2 - d - 1) l1) l2
          else if p2 <? p1 + d then find_next f d l1 (hnext (p1 + d - 1) l2)
          else (l1, l2)
      | _, _ => ([], l2)                                   (* i.i1.next(math.MaxUint32) *)
      end
  end.
Definition dfuel (l1 l2 : list nat) : nat := S (length l1 + length l2).
Definition dmake (d : nat) (l1 l2 : list nat) : list nat * list nat := find_next (dfuel l1 l2) d l1 l2.
Definition dfirst (st : list nat * list nat) : option nat := hfirst (fst st).
Definition dnext (d limit : nat) (st : list nat * list nat) : list nat * list nat :=
  let l1 := hnext limit (fst st) in let l2 := hnext (limit + d) (snd st) in
  find_next (dfuel l1 l2) d l1 l2.

(** the loop of ngramDocIterator.candidates: take hits while they lie before the end of the file *)
Fixpoint cand_loop (fuel d fend : nat) (st : list nat * list nat) : list nat * (list nat * list nat) :=
  match fuel with
  | 0 => ([], st)
  | S f =>
      match dfirst st with
      | None => ([], st)
      | Some p1 => if fend <=? p1 then ([], st)
                   else let '(r, st') := cand_loop f d fend (dnext d p1 st) in (p1 :: r, st')
      end
  end.

(* ------------------------------------------------------------------ andLineMatchTree.matches, operationally *)
(** The loop of matchtree.go:734-763 at the level of line numbers: [lines] are the distinct line numbers of the
    candidates of the child with the fewest candidates (ascending), [children] the line numbers of the candidates of
    every other child (ascending).  Comparing a candidate's byte offset with lines[i].start / lines[i].end is comparing
    its line number with the line number i (newline index arithmetic is C03).
    outcome of scanning one child for line L: it has a candidate on L / it is exhausted / its next candidate is on a
    later line x (then the Go code jumps to the first line >= x and starts over). *)
Inductive al_out := AlHit | AlMiss | AlBeyond (x : nat).
Fixpoint al_child (L : nat) (c : list nat) : list nat * al_out :=
  match c with
  | [] => ([], AlMiss)
  | x :: r => if x <? L then al_child L r else if x =? L then (c, AlHit) else (c, AlBeyond x)
  end.
(** all children in order: (updated candidate lists, number of hits, Some x = jump requested by some child) *)
Fixpoint al_children (L : nat) (cs : list (list nat)) : list (list nat) * nat * option nat :=
  match cs with
  | [] => ([], 0, None)
  | c :: r =>
      match al_child L c with
      | (c', AlBeyond x) => (c' :: r, 0, Some x)
      | (c', AlHit) => let '(r', h, j) := al_children L r in (c' :: r', S h, j)
      | (c', AlMiss) => let '(r', h, j) := al_children L r in (c' :: r', h, j)
      end
  end.
Fixpoint al_lines (fuel : nat) (lines : list nat) (cs : list (list nat)) : bool :=
  match fuel with
  | 0 => false
  | S f =>
      match lines with
      | [] => false
      | L :: rest =>
          match al_children L cs with
          | (cs', _, Some x) => al_lines f (drop_while (fun l => l <? x) rest) cs'
          | (cs', h, None) => if h =? length cs then true else al_lines f rest cs'
          end
      end
  end.

(** lines of the base child: consecutive duplicates removed (matchtree.go:713-723) *)
Fixpoint dedup_adj (l : list nat) : list nat :=
  match l with
  | x :: ((y :: _) as r) => if x =? y then dedup_adj r else x :: dedup_adj r
  | _ => l
  end.
(** the whole same-line test of andLineMatchTree.matches for children with candidate offsets [vs] (each ascending),
    [f] = index of the child with the fewest candidates, [line] = newline index lookup (atOffset) *)
Definition remove_nth {A} (f : nat) (l : list A) : list A := firstn f l ++ skipn (S f) l.
Definition andline_alg (line : nat -> nat) (vs : list (list nat)) (f : nat) : bool :=
  let base := dedup_adj (map line (nth f vs [])) in
  al_lines (S (length base)) base (map (map line) (remove_nth f vs)).

(* ------------------------------------------------------------------ nextFileIndex (matchiter.go:131), with its galloping *)
Fixpoint gallop (fuel : nat) (off f d : nat) (ends : list nat) : nat :=
  match fuel with
  | 0 => f
  | S fu =>
      if (f <? length ends) && (nth f ends 0 <=? off) then
        if (f + d <? length ends) && (nth (f + d) ends 0 <=? off) then gallop fu off (f + d) (d * 2) ends
        else if 1 <? d then gallop fu off f (d / 4 + 1) ends
        else gallop fu off (S f) d ends
      else f
  end.
Definition next_file_index (off f : nat) (ends : list nat) : nat := gallop (2 * length ends + 3) off f 1 ends.
