(** Operational model of the hit iterators of index/hititer.go over sorted position lists (the compressed posting
    iterator after delta-varint decoding, which is C09): inMemoryIterator / compressedPostingIterator (first, next),
    mergingIterator, distanceHitIterator (findNext, first, next) and the consuming loop of ngramDocIterator.candidates.
    Proofs/SearchCoreIters.v shows that they denote the list functions used by Model/SearchCore.v (post / dist_hits /
    take_while / drop_while).  MaxUint32 is modelled by None. *)
From ZV Require Import Lib.Base Model.SearchCore.

Definition hfirst (l : list nat) : option nat := hd_error l.
Definition hnext (limit : nat) (l : list nat) : list nat := drop_while (fun p => p <=? limit) l.

(** mergingIterator *)
Definition omin (a b : option nat) : option nat :=
  match a, b with Some x, Some y => Some (Nat.min x y) | Some x, None => Some x | None, b' => b' end.
Definition mfirst (ls : list (list nat)) : option nat := fold_right (fun l a => omin (hfirst l) a) None ls.
Definition mnext (limit : nat) (ls : list (list nat)) : list (list nat) := map (hnext limit) ls.

(** distanceHitIterator.findNext *)
Fixpoint find_next (fuel d : nat) (l1 l2 : list nat) : list nat * list nat :=
  match fuel with
  | 0 => (l1, l2)
  | S f =>
      match l1, l2 with
      | p1 :: _, p2 :: _ =>
          if p1 + d <? p2 then find_next f d (hnext (p2 - d - 1) l1) l2
          else if p2 <? p1 + d then find_next f d l1 (hnext (p1 + d - 1) l2)
          else (l1, l2)
      | _, _ => ([], l2)                                   (* i.i1.next(math.MaxUint32) *)
      end
  end.
Definition dfuel (l1 l2 : list nat) : nat := S (length l1 + length l2).
Definition dmake (d : nat) (l1 l2 : list nat) : list nat * list nat := find_next (dfuel l1 l2) d l1 l2.
Definition dfirst (st : list nat * list nat) : option nat := hfirst (fst st).
Definition dnext (d limit : nat) (st : list nat * list nat) : list nat * list nat :=
  let l1 := hnext limit (fst st) in let l2 := hnext (limit + d) (snd st) in
  find_next (dfuel l1 l2) d l1 l2.

(** the loop of ngramDocIterator.candidates: take hits while they lie before the end of the file *)
Fixpoint cand_loop (fuel d fend : nat) (st : list nat * list nat) : list nat * (list nat * list nat) :=
  match fuel with
  | 0 => ([], st)
  | S f =>
      match dfirst st with
      | None => ([], st)
      | Some p1 => if fend <=? p1 then ([], st)
                   else let '(r, st') := cand_loop f d fend (dnext d p1 st) in (p1 :: r, st')
      end
  end.
