(** C21, second sentence ("a cancelled or timed-out search finishes promptly"): the context wiring of
    search/shards.go:streamSearch and an abstract-time model of its worker pool.

    A context is represented by the instant at which its Done() fires (None = never): a deadline and a cancellation
    by the caller are both such an instant.  streamSearch derives `ctx, cancel = context.WithTimeout(ctx,
    opts.MaxWallTime)` (WithCancel when MaxWallTime is 0) and its workers call `searchOneShard(ctx, ...)`: WHICH
    context reaches the shard searches is an explicit step of the model ([wiring], [repo_wiring]); the harness reads
    it off the context a fake shard receives (deadline present? the caller's or the MaxWallTime one?).

    Shards are cooperative (indexData.Search polls ctx.Done() once per document: C21's limit model): a shard search
    that would run for [w] ticks (None = for ever) under a context firing at [dl] ends at min(start + w, max(start, dl)).
    The pool: each worker takes the next shard when it becomes free; which worker takes which shard is arbitrary
    ([sched]), so the theorems hold for every schedule. *)
From ZV Require Import Lib.Base.

Definition ctxd := option N.
Definition ctx_min (a b : ctxd) : ctxd :=
  match a, b with
  | None, x => x
  | x, None => x
  | Some x, Some y => Some (N.min x y)
  end.
(** context.WithTimeout(parent, d) at time [now] *)
Definition with_timeout (parent : ctxd) (now d : N) : ctxd := ctx_min parent (Some (now + d)%N).

(** streamSearch's own context *)
Definition stream_ctx (caller : ctxd) (now mwt : N) : ctxd :=
  if N.eqb mwt 0 then caller (* WithCancel: fires when the caller's does *) else with_timeout caller now mwt.

Inductive wiring := WDerived | WCaller.
(** the context the workers hand to searchOneShard *)
Definition shard_ctx (w : wiring) (caller : ctxd) (now mwt : N) : ctxd :=
  match w with WDerived => stream_ctx caller now mwt | WCaller => caller end.
(** search/shards.go: the derived context is assigned to the variable the worker closures use *)
Definition repo_wiring : wiring := WDerived.

Definition shard_end (c : ctxd) (t : N) (w : option N) : option N :=   (* None = never *)
  match w, c with
  | Some d, None => Some (t + d)%N
  | Some d, Some dl => Some (N.min (t + d) (N.max t dl))
  | None, Some dl => Some (N.max t dl)
  | None, None => None
  end.

Fixpoint set_at {B} (n : nat) (x : B) (l : list B) : list B :=
  match l, n with
  | [], _ => []
  | _ :: r, O => x :: r
  | y :: r, S n' => y :: set_at n' x r
  end.

(** free-at instants of the workers after dispatching the shards [ws]; [sched] = which worker takes the i-th shard
    (an index outside the pool, or a missing entry, leaves the shard to worker 0) *)
Fixpoint pool (c : ctxd) (free : list (option N)) (ws : list (option N)) (sched : list nat) : list (option N) :=
  match ws with
  | [] => free
  | w :: r =>
      let i := match sched with j :: _ => if j <? length free then j else 0 | [] => 0 end in
      let free' := match nth_error free i with
                   | Some (Some t) => set_at i (shard_end c t w) free
                   | Some None => free                    (* that worker never comes back: the shard is never searched *)
                   | None => free                         (* no workers *)
                   end in
      pool c free' r (tl sched)
  end.

(** ---- correspondence: which context a shard search received, as classified by the harness from the deadline of
    the context handed to a fake shard: 0 = no deadline, 1 = the caller's deadline, 2 = MaxWallTime after the start of
    the search, 3 = something else.  [caller] / [mwt] in milliseconds relative to the start (the harness keeps the
    caller's deadline and MaxWallTime a factor 4 apart so that the minimum is unambiguous). *)
Definition c21dcase := (N * option N * N)%type.
Definition ctx_class (caller : ctxd) (mwt : N) (c : ctxd) : N :=
  match c with
  | None => 0
  | Some d => match caller with
              | Some cd => if N.eqb d cd then 1 else if N.eqb d mwt then 2 else 3
              | None => if N.eqb d mwt then 2 else 3
              end
  end%N.
Definition c21d_ok (cs : c21dcase) : bool :=
  let '(mwt, caller, observed) := cs in
  N.eqb (ctx_class caller mwt (shard_ctx repo_wiring caller 0 mwt)) observed.
Definition c21d_mismatches (cs : list c21dcase) : list N := bad_indexes c21d_ok cs.
