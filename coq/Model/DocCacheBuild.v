(** C04 — newMatchTree's Meta case at the granularity of its two cache operations (extends Model/DocCache.v).
    docMatchTreeCache.Get takes the read lock, returns, and only on a miss the node is built and
    docMatchTreeCache.Add takes the write lock: other searches run before the Get AND between the miss and the
    Add (they may add the same key, evict, allocate nodes, move their own cursors).  [build_split] is [build_env]
    with that additional interference point. *)
From ZV Require Import Lib.Base Model.DocCache.

Fixpoint build_split (env : nat -> state -> state) (cf : config) (s : shard) (q : Q) (st : state) (k : nat)
  : mt * state * nat :=
  match q with
  | QAnd a b => let '(ta, st1, k1) := build_split env cf s a st k in
                let '(tb, st2, k2) := build_split env cf s b st1 k1 in (MAnd ta tb, st2, k2)
  | QOr a b => let '(ta, st1, k1) := build_split env cf s a st k in
               let '(tb, st2, k2) := build_split env cf s b st1 k1 in (MOr ta tb, st2, k2)
  | QNot a => let '(ta, st1, k1) := build_split env cf s a st k in (MNot ta, st1, k1)
  | QMeta key =>
      let st0 := env k st in                                   (* others run, then Get *)
      match cache_get key (st_cache st0) with
      | Some (_, p) =>
          (MDoc (length (st_heap st0)) p,
           {| st_heap := st_heap st0 ++ [(false, 0)]; st_cache := st_cache st0; st_step := st_step st0 |}, S (S k))
      | None =>
          let st1 := env (S k) st0 in                          (* miss; others run; then the node is built and Added *)
          let addr := length (st_heap st1) in
          (MDoc addr (meta s key),
           {| st_heap := st_heap st1 ++ [(false, 0)];
              st_cache := cache_add cf (st_step st1) key (addr, meta s key) (st_cache st1);
              st_step := S (st_step st1) |}, S (S k))
      end
  | atom => let '(t, st1) := build true cf s atom (env k st) in (t, st1, S k)
  end.
