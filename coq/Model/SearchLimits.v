(** Model of the limits and the cancellation of indexData.Search (index/eval.go:196-356) on top of Model/SearchCore.v (C21):
    ShardMaxMatchCount (after SearchOptions.SetDefaults), ShardRepoMaxMatchCount, the cancellation flag sampled once per
    iteration of the document loop, and the TotalMaxMatchCount stop rule of search/shards.go:streamSearch.
    The number of matches a returned file contributes (len(LineMatches) + ranges of ChunkMatches) is a function
    [weight] of the document and of the candidates of the evaluated tree ([payload]); it is an arbitrary parameter of the
    theorems (what it is exactly belongs to C02). *)
From ZV Require Import Lib.Base Model.SearchCore.

Section Limits.
Variable re_match : N -> list N -> bool.
Variable tolower : N -> N.
Variable c : corpus.

(** what the FileMatch of the prepared document is built from: the verified candidates of every substring atom, in
    tree order (gatherMatches / gatherBranches read nothing else that varies with the history of the search) *)
Fixpoint payload (k : nat) (t : mt) : list (list nat) :=
  match t with
  | MTand cs => flat_map (payload k) cs
  | MTor cs => flat_map (payload k) cs
  | MTandLine cs => flat_map (payload k) cs
  | MTnot c' => payload k c'
  | MTwrap c' => payload k c'
  | MTsubstr s => [verified tolower c k s]
  | _ => []
  end.

Variable weight : nat -> list (list nat) -> nat.

Record limits := { shard_max : nat;     (* ShardMaxMatchCount after SetDefaults; 0 = none *)
                   repo_max : nat }.    (* ShardRepoMaxMatchCount; 0 = none *)
Record lstate := { ls_last : option nat; ls_repo : nat; ls_rcount : nat; ls_count : nat; ls_iter : nat }.
Definition lstate0 : lstate := {| ls_last := None; ls_repo := 0; ls_rcount := 0; ls_count := 0; ls_iter := 0 |}.

(** ctx.Done() observed closed from the [j]-th iteration of the loop on (None = never) *)
Definition canceled (cancel_at : option nat) (iter : nat) : bool :=
  match cancel_at with Some j => j <=? iter | None => false end.

Definition repo_skip (lim : limits) (st : lstate) (k : nat) : bool :=
  (0 <? repo_max lim) && (repo_max lim <=? ls_rcount st) && (repo_idx c k =? ls_repo st).

Fixpoint lloop (fuel : nat) (lim : limits) (cancel_at : option nat) (t : mt) (st : lstate) : list nat :=
  match fuel with
  | 0 => []
  | S f =>
      let cancel := canceled cancel_at (ls_iter st) in
      let nd1 := Nat.max (nextDoc c t) (cursor_next (ls_last st)) in
      let nd := first_from (fun k => live_at c k && negb (repo_skip lim st k)) nd1 (ndocs c) in
      if ndocs c <=? nd then [] else
      let same := repo_idx c nd =? ls_repo st in
      let repo := if same then ls_repo st else repo_idx c nd in
      let rcount := if same then ls_rcount st else 0 in
      if cancel || ((0 <? shard_max lim) && (shard_max lim <=? ls_count st)) then [] else
      let t' := prepare c nd t in
      if accept re_match tolower c nd t' then
        let w := weight nd (payload nd t') in
        nd :: lloop f lim cancel_at t' {| ls_last := Some nd; ls_repo := repo; ls_rcount := rcount + w;
                                          ls_count := ls_count st + w; ls_iter := S (ls_iter st) |}
      else lloop f lim cancel_at t' {| ls_last := Some nd; ls_repo := repo; ls_rcount := rcount;
                                       ls_count := ls_count st; ls_iter := S (ls_iter st) |}
  end.
End Limits.

(** indexData.Search with limits and cancellation: ids of the returned files *)
Definition search_limited (re_match : N -> list N -> bool) (tolower : N -> N) (orbit : N -> list N) (c : corpus)
    (freq : bool -> bool -> tri -> N) (weight : nat -> list (list nat) -> nat)
    (lim : limits) (cancel_at : option nat) (q : Q) : list nat :=
  match simp c q with
  | QConst false => []
  | q1 =>
      match prune (build orbit c freq (expand q1)) with
      | None => []
      | Some t => lloop re_match tolower c weight (S (ndocs c)) lim cancel_at t lstate0
      end
  end.

(** search/shards.go:streamSearch, TotalMaxMatchCount: shard results (match count, files) arrive in some order; once
    the running sum of the match counts exceeds the limit, stop() ends the dispatch of further shards; the [inflight]
    results that were already dispatched still arrive; every result that arrives is sent whole (sendByRepository). *)
Fixpoint total_stream (A : Type) (limit inflight : nat) (total : nat) (left : option nat)
    (rs : list (nat * list A)) : list (list A) :=
  match rs with
  | [] => []
  | (cnt, files) :: rest =>
      match left with
      | Some 0 => []
      | Some (S m) => files :: total_stream A limit inflight (total + cnt) (Some m) rest
      | None =>
          let total' := total + cnt in
          files :: total_stream A limit inflight total' (if (0 <? limit) && (limit <? total') then Some inflight else None) rest
      end
  end.

(* ------------------------------------------------------------------ correspondence runner *)
Definition c21case := (list repo_row * list sdoc_row * list (list N * N) * list (N * N * list N) *
                       list (N * list (bool * bool)) *
                       list (N * list (list bool)) *   (* engine verdicts on the section texts, per symbol regexp atom (as in c01case) *)
                       Q *
                       list nat *                 (* matches per document in the unlimited run (0 = not returned) *)
                       nat * nat * option nat *    (* ShardMaxMatchCount (defaulted), ShardRepoMaxMatchCount, cancel_at *)
                       list (nat * list N))%type.  (* observed (repo, file) rows *)
Definition c21_ok (cs : c21case) : bool :=
  let '(repos, docs, langs, folds, retbl, symtbl, q, wtbl, smax, rmax, cancel_at, observed) := cs in
  let c := {| c_repos := map mk_repo repos; c_docs := map mk_sdoc docs; c_langs := langs |} in
  let tl := tbl_lower folds in let ob := tbl_orbit folds in let re := tbl_re_sym (c_docs c) retbl symtbl in
  let res := search_limited re tl ob c (count_freq ob c) (fun k _ => nth k wtbl 0)
                            {| shard_max := smax; repo_max := rmax |} cancel_at q in
  let row k := let d := nth k (c_docs c) dflt_doc in (d_repo d, d_name d) in
  list_eqb row_eqb (map row res) observed.
Definition c21_mismatches (cs : list c21case) : list N := bad_indexes c21_ok cs.

(** total limit: (TotalMaxMatchCount, per-shard (match count, file ids) of the unlimited run in dispatch order,
    observed arrival sequence under the limit). With one worker and a channel buffer of one, at most 2 shards are in
    flight when stop() is called; the model must reproduce the arrival sequence for some in-flight count <= 3. *)
Definition c21tcase := (nat * list (nat * list nat) * list (list nat))%type.
Definition c21t_ok (cs : c21tcase) : bool :=
  let '(limit, rs, observed) := cs in
  existsb (fun inflight => list_eqb (list_eqb Nat.eqb) (total_stream nat limit inflight 0 None rs) observed) [0; 1; 2; 3].
Definition c21t_mismatches (cs : list c21tcase) : list N := bad_indexes c21t_ok cs.
