(** C36 — a small Go subset (integers, strings, booleans; if / for / return; index, slice, len, fmt.Sprintf %d %s, a few
    library calls) with an interpreter in the outcome monad: every index / slice is checked, integer arithmetic wraps.
    Generated/WebFuncBodies.v holds the BODIES of the functions registered in web.Funcmap translated into this subset from
    the source (go/ast + go/types, regenerated at every run). The hand model Model/WebFuncs.v (about which the theorems are
    proved) is compared with the interpreted bodies on a bounded-exhaustive set of arguments by computation. *)
From Coq Require Import String.
From ZV Require Import Lib.Base Model.Web Model.WebFuncs.
Local Open Scope Z_scope.

Inductive gbin := BAdd | BSub | BMul | BQuo | BLt | BGt | BLe | BGe | BEq | BNe | BAnd | BOr.

Inductive gexp :=
| EVar (x : string)
| EInt (z : Z)
| EStr (s : bytes)
| EBool (b : bool)
| EBin (op : gbin) (a b : gexp)
| ENot (a : gexp)
| ELen (a : gexp)
| EIndex (a i : gexp)                          (* s[i]: a byte, as an integer *)
| ESlice (a : gexp) (lo hi : option gexp)      (* s[lo:hi] *)
| ESprintf (f : bytes) (args : list gexp)      (* fmt.Sprintf with a literal format *)
| ECall (f : string) (args : list gexp).       (* library functions by their full name *)

Inductive gstmt :=
| SSet (x : string) (e : gexp)                 (* x := e, x = e, x++, x += e, var x T *)
| SIf (c : gexp) (t e : list gstmt)
| SFor (c : gexp) (body : list gstmt)          (* for c { body } (init hoisted, post appended by the translator) *)
| SReturn (e : gexp).

(** [gf_body = None]: the function lies outside the subset ([gf_why] says which construct); it is then tied to the hand
    model by the differential correspondence only *)
Record gfunc := { gf_name : string; gf_params : list string; gf_body : option (list gstmt); gf_why : string }.

Definition genv := list (string * fval).
Fixpoint glookup (x : string) (e : genv) : option fval :=
  match e with
  | [] => None
  | (y, v) :: r => if String.eqb x y then Some v else glookup x r
  end.

(** interpreter errors (not Go behaviour): 90 = ill-typed / unsupported, 91 = out of fuel, 92 = fell off the end *)
Definition stuck {A} : outcome A := Err 90.

Definition has_suffix (s suf : bytes) : bool := prefixb (rev suf) (rev s).

(** fmt.Sprintf for the verbs %d (integers), %s (strings), %% *)
Fixpoint sprintf (f : bytes) (args : list fval) : outcome bytes :=
  match f with
  | [] => match args with [] => Ok [] | _ => stuck end
  | 37%N :: 100%N :: r => match args with VInt z :: a => do t <- sprintf r a; Ok (dec_Z z ++ t) | _ => stuck end
  | 37%N :: 115%N :: r => match args with VStr s :: a => do t <- sprintf r a; Ok (s ++ t) | _ => stuck end
  | 37%N :: 37%N :: r => do t <- sprintf r args; Ok (37%N :: t)
  | 37%N :: _ => stuck
  | c :: r => do t <- sprintf r args; Ok (c :: t)
  end.

Local Open Scope string_scope.
Definition lib_call (f : string) (args : list fval) : outcome fval :=
  if String.eqb f "strings.TrimSuffix" then
    match args with
    | [VStr s; VStr suf] => Ok (VStr (if has_suffix s suf then firstn (length s - length suf) s else s))
    | _ => stuck
    end
  else if String.eqb f "strings.HasSuffix" then
    match args with [VStr s; VStr suf] => Ok (VBool (has_suffix s suf)) | _ => stuck end
  else if String.eqb f "strings.HasPrefix" then
    match args with [VStr s; VStr p] => Ok (VBool (prefixb p s)) | _ => stuck end
  else if String.eqb f "unicode/utf8.RuneStart" then
    match args with [VInt b] => Ok (VBool (negb (Z.land b 192 =? 128)%Z)) | _ => stuck end
  else if String.eqb f "strconv.Itoa" then
    match args with [VInt z] => Ok (VStr (dec_Z z)) | _ => stuck end
  else stuck.
Local Close Scope string_scope.

Definition bin_op (op : gbin) (a b : fval) : outcome fval :=
  match op, a, b with
  | BAdd, VInt x, VInt y => Ok (VInt (wrap64 (x + y)))
  | BSub, VInt x, VInt y => Ok (VInt (wrap64 (x - y)))
  | BMul, VInt x, VInt y => Ok (VInt (wrap64 (x * y)))
  | BQuo, VInt x, VInt y => if y =? 0 then Panic 3 else Ok (VInt (wrap64 (Z.quot x y)))
  | BAdd, VStr x, VStr y => Ok (VStr (x ++ y))
  | BLt, VInt x, VInt y => Ok (VBool (x <? y))
  | BGt, VInt x, VInt y => Ok (VBool (y <? x))
  | BLe, VInt x, VInt y => Ok (VBool (x <=? y))
  | BGe, VInt x, VInt y => Ok (VBool (y <=? x))
  | BEq, VInt x, VInt y => Ok (VBool (x =? y))
  | BNe, VInt x, VInt y => Ok (VBool (negb (x =? y)))
  | BEq, VStr x, VStr y => Ok (VBool (beqb x y))
  | BNe, VStr x, VStr y => Ok (VBool (negb (beqb x y)))
  | BEq, VBool x, VBool y => Ok (VBool (Bool.eqb x y))
  | BNe, VBool x, VBool y => Ok (VBool (negb (Bool.eqb x y)))
  | _, _, _ => stuck
  end.

Fixpoint omap {A B} (f : A -> outcome B) (l : list A) : outcome (list B) :=
  match l with
  | [] => Ok []
  | x :: r => do y <- f x; do ys <- omap f r; Ok (y :: ys)
  end.

Fixpoint eval (env : genv) (e : gexp) {struct e} : outcome fval :=
  match e with
  | EVar x => match glookup x env with Some v => Ok v | None => stuck end
  | EInt z => Ok (VInt z)
  | EStr s => Ok (VStr s)
  | EBool b => Ok (VBool b)
  | EBin BAnd a b =>
      do va <- eval env a;
      match va with VBool false => Ok (VBool false) | VBool true => eval env b | _ => stuck end
  | EBin BOr a b =>
      do va <- eval env a;
      match va with VBool true => Ok (VBool true) | VBool false => eval env b | _ => stuck end
  | EBin op a b => do va <- eval env a; do vb <- eval env b; bin_op op va vb
  | ENot a => do va <- eval env a; match va with VBool b => Ok (VBool (negb b)) | _ => stuck end
  | ELen a => do va <- eval env a; match va with VStr s => Ok (VInt (blen s)) | _ => stuck end
  | EIndex a i =>
      do va <- eval env a; do vi <- eval env i;
      match va, vi with VStr s, VInt k => do b <- sindex s k; Ok (VInt (Z.of_N b)) | _, _ => stuck end
  | ESlice a lo hi =>
      do va <- eval env a;
      match va with
      | VStr s =>
          do vlo <- match lo with Some l => eval env l | None => Ok (VInt 0) end;
          do vhi <- match hi with Some h => eval env h | None => Ok (VInt (blen s)) end;
          match vlo, vhi with VInt l, VInt h => do r <- sslice s l h; Ok (VStr r) | _, _ => stuck end
      | _ => stuck
      end
  | ESprintf f args => do vs <- ((fix go (l : list gexp) : outcome (list fval) :=
                            match l with [] => Ok [] | x :: r => do y <- eval env x; do ys <- go r; Ok (y :: ys) end) args); do r <- sprintf f vs; Ok (VStr r)
  | ECall f args => do vs <- ((fix go (l : list gexp) : outcome (list fval) :=
                            match l with [] => Ok [] | x :: r => do y <- eval env x; do ys <- go r; Ok (y :: ys) end) args); lib_call f vs
  end.

Inductive gres := RNext (env : genv) | RRet (v : fval).

Fixpoint exec (fuel : nat) (env : genv) (ss : list gstmt) : outcome gres :=
  match fuel with
  | O => Err 91
  | S f =>
      match ss with
      | [] => Ok (RNext env)
      | s :: rest =>
          match s with
          | SSet x e => do v <- eval env e; exec f ((x, v) :: env) rest
          | SReturn e => do v <- eval env e; Ok (RRet v)
          | SIf c t e =>
              do vc <- eval env c;
              match vc with
              | VBool b =>
                  do r <- exec f env (if b then t else e);
                  match r with RRet v => Ok (RRet v) | RNext env' => exec f env' rest end
              | _ => stuck
              end
          | SFor c body =>
              do vc <- eval env c;
              match vc with
              | VBool true =>
                  do r <- exec f env body;
                  match r with RRet v => Ok (RRet v) | RNext env' => exec f env' (s :: rest) end
              | VBool false => exec f env rest
              | _ => stuck
              end
          end
      end
  end.

Definition run_body (fuel : nat) (params : list string) (body : list gstmt) (args : list fval) : outcome fval :=
  if negb (length params =? length args)%nat then stuck else
  do r <- exec fuel (combine params args) body;
  match r with RRet v => Ok v | RNext _ => Err 92 end.

(* ------------------------------------------------------------------ bounded-exhaustive comparison with the hand model *)
Definition agree1 (name : string) (params : list string) (body : list gstmt) (args : list fval) : bool :=
  match apply_func name args, run_body 4000 params body args with
  | Some (Ok v), Ok w => fval_eqb v w
  | Some (Panic _), Panic _ => true
  | _, _ => false
  end.

(** all strings over [sigma] of length <= n *)
Fixpoint strings_upto (sigma : bytes) (n : nat) : list bytes :=
  match n with
  | O => [[]]
  | S k => let r := strings_upto sigma k in [] :: flat_map (fun s => map (fun c => c :: s) sigma) r
  end.
(** ASCII letter, newline, a UTF-8 continuation byte, a UTF-8 lead byte *)
Definition sigma4 : bytes := [65; 10; 128; 195]%N.
Definition small_strings : list bytes := nodup (list_eq_dec N.eq_dec) (strings_upto sigma4 5).

(** two runs around a limit: a^n b^m, n and m in {0, 1, 2, L-1, L, L+1} *)
Definition run_strings (L : nat) : list bytes :=
  let ns := [0; 1; 2; L - 1; L; L + 1]%nat in
  flat_map (fun a => flat_map (fun b => flat_map (fun n => map (fun m => (repeat a n ++ repeat b m)%list) ns) ns) sigma4) sigma4.

Definition int_samples : list Z :=
  let around (c : Z) := [c - 1; c; c + 1] in
  ([-3; -2; 5; 99; 100; 101; 12345] ++ around 0 ++ around (10 * 2 ^ 10) ++ around (10 * 2 ^ 20) ++ around (10 * 2 ^ 30)
   ++ around (2 ^ 40) ++ around (10 * 2 ^ 40) ++ around (2 ^ 62) ++ [int64_max - 1; int64_max; int64_min; int64_min + 1]
   ++ around (int64_max / 3) ++ around (- (2 ^ 33)))%list.

(** the literal limits with which the templates call [name] *)
Definition site_limits (sites : list fsite) (name : string) : list Z :=
  flat_map (fun s => if String.eqb (fs_func s) name then
                       match fs_args s with AConst z :: _ => [z] | _ => [] end else []) sites.

Definition samples (sites : list fsite) (name : string) : list (list fval) :=
  match func_sig name with
  | Some ([TyInt], _) | Some ([TyInt64], _) => map (fun z => [VInt z]) int_samples
  | Some ([TyStr], _) => map (fun s => [VStr s]) (small_strings ++ run_strings 100)
  | Some ([TyInt; TyStr], _) =>
      (flat_map (fun l => map (fun s => [VInt l; VStr s]) small_strings) [-1; 0; 1; 2; 3; 4]
       ++ flat_map (fun l => map (fun s => [VInt l; VStr s]) (run_strings (Z.to_nat l))) (site_limits sites name))%list
  | _ => []
  end.

(** a translated body agrees with the hand model on every sample (and there ARE samples); a function outside the
    subset passes (correspondence only); a function without hand model fails *)
Definition body_ok (sites : list fsite) (g : gfunc) : bool :=
  match func_sig (gf_name g), gf_body g with
  | None, _ => false
  | Some _, None => true
  | Some _, Some body =>
      let ss := samples sites (gf_name g) in
      negb (match ss with [] => true | _ => false end) && forallb (agree1 (gf_name g) (gf_params g) body) ss
  end.

(** the first disagreeing sample (for the check's message) *)
Definition body_counterexample (sites : list fsite) (g : gfunc) : option (list fval) :=
  match gf_body g with
  | None => None
  | Some body => find (fun a => negb (agree1 (gf_name g) (gf_params g) body a)) (samples sites (gf_name g))
  end.

Definition translated (gs : list gfunc) : list string :=
  flat_map (fun g => match gf_body g with Some _ => [gf_name g] | None => [] end) gs.
