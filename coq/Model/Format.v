(** C09/C11 — executable model of zoekt's shard file format (index/write.go, read.go, section.go, toc.go, bits.go,
    shard_builder.go).  Executable definitions only (proofs: Proofs/Format*.v).

    Writer:  documents --add_doc--> builder state --write_shard--> bytes        (ShardBuilder.Add / Write)
    Reader:  bytes --read_toc--> section table --read_index--> shard view       (readTOCSections / readIndexData)

    Opaque (inputs of the model, copied through): JSON metadata blobs, crc64 checksums, language codes,
    categories, the roaring bitmap of repo ids.  Offsets kept in uint32 by the Go code are N; the wrap is explicit
    in the delta coding and in mmapedIndexFile.Read's bounds test; the writer's running offset is not wrapped
    (statements about written files assume |file| < 2^32, which NewIndexFile enforces on load). *)
From Coq Require Import String Ascii.
From ZV Require Import Lib.Base Lib.Varint Generated.FormatConsts.
Open Scope N_scope.
Open Scope list_scope.

(* ------------------------------------------------------------------ delta coding (bits.go) *)

(** toSizedDeltas / toSizedDeltas16: uvarint count, then uvarint of (p - last) in W-bit wrap-around arithmetic *)
Fixpoint deltas_enc (W : N) (last : N) (l : list N) : list N :=
  match l with
  | [] => []
  | p :: r => put_uvarint ((p + W - last) mod W) ++ deltas_enc W p r
  end.
Definition to_sized_deltas_w (W : N) (l : list N) : list N := put_uvarint (nlen l) ++ deltas_enc W 0 l.
Definition to_sized_deltas := to_sized_deltas_w W32.
Definition to_sized_deltas16 := to_sized_deltas_w W16.

(** data[m:] for the int m returned by Uvarint: panics for m < 0 *)
Definition skip_z {A} (m : Z) (l : list A) : outcome (list A) :=
  if (m <? 0)%Z then Panic P_SLICE else Ok (skipn (Z.to_nat m) l).

(** the decoding loop (after fix: "stop at a malformed varint")
      for len(data) > 0 { delta, m := Uvarint(data); if m <= 0 { break }; last += uintW(delta); data = data[m:]; append }
    Every round consumes m >= 1 bytes, so fuel = |data| is never exhausted (deltas_dec_total); the [Panic P_DIVERGE]
    branch marks "the loop would not terminate" and is shown unreachable.  The code before the fix (m = 0 looped
    forever, m < 0 panicked) is kept as [deltas_dec_unfixed] in Model/FormatRobust.v. *)
Fixpoint deltas_dec (fuel : nat) (W : N) (data : list N) (last : N) : outcome (list N) :=
  match data with
  | [] => Ok []
  | _ =>
    match fuel with
    | O => Panic P_DIVERGE
    | S f =>
      let '(delta, m) := uvarint data in
      if (m <=? 0)%Z then Ok [] else
      let off := (last + delta mod W) mod W in
      do tl <- deltas_dec f W (skipn (Z.to_nat m) data) off;
      Ok (off :: tl)
    end
  end.

(** runtime.makeslice panics when cap*elemsize exceeds maxAlloc = 2^48 (linux/amd64) *)
Definition MAXALLOC : N := 281474976710656.

(** fromSizedDeltas / fromSizedDeltas16 on ARBITRARY bytes: result and the number of bytes requested from make().
    After the fix the size prefix is clamped to the number of remaining bytes and a malformed prefix decodes to
    the empty list. *)
Definition from_sized_deltas_w (W elem : N) (data : list N) : outcome (list N) * N :=
  let '(sz, m) := uvarint data in
  if (m <=? 0)%Z then (Ok [], 0) else
  let rest := skipn (Z.to_nat m) data in
  let req := N.min sz (nlen rest) in
  if MAXALLOC <? req * elem then (Panic P_MAKESLICE, 0)
  else (deltas_dec (length rest) W rest 0, req * elem).
Definition from_sized_deltas (data : list N) : outcome (list N) := fst (from_sized_deltas_w W32 4 data).
Definition from_sized_deltas16 (data : list N) : outcome (list N) := fst (from_sized_deltas_w W16 2 data).

Fixpoint flatten_secs (l : list (N * N)) : list N :=
  match l with [] => [] | (s, e) :: r => s :: e :: flatten_secs r end.
Definition marshal_doc_sections (l : list (N * N)) : list N := to_sized_deltas (flatten_secs l).

(** unmarshalDocSections (after the fix): two Uvarint reads per round, the loop stops at the first malformed one *)
Fixpoint docsecs_dec (fuel : nat) (data : list N) (last : N) : outcome (list (N * N)) :=
  match data with
  | [] => Ok []
  | _ =>
    match fuel with
    | O => Panic P_DIVERGE
    | S f =>
      let '(d1, m1) := uvarint data in
      if (m1 <=? 0)%Z then Ok [] else
      let rest1 := skipn (Z.to_nat m1) data in
      let s := (last + d1 mod W32) mod W32 in
      let '(d2, m2) := uvarint rest1 in
      if (m2 <=? 0)%Z then Ok [] else
      let rest2 := skipn (Z.to_nat m2) rest1 in
      let e := (s + d2 mod W32) mod W32 in
      do tl <- docsecs_dec f rest2 e;
      Ok ((s, e) :: tl)
    end
  end.
Definition unmarshal_doc_sections_a (data : list N) : outcome (list (N * N)) * N :=
  let '(sz, m) := uvarint data in
  if (m <=? 0)%Z then (Ok [], 0) else
  let rest := skipn (Z.to_nat m) data in
  let req := N.min sz (nlen rest) / 2 in       (* int(sz)/2 elements of 8 bytes *)
  if MAXALLOC <? req * 8 then (Panic P_MAKESLICE, 0)
  else (docsecs_dec (length rest) rest 0, req * 8).
Definition unmarshal_doc_sections (data : list N) : outcome (list (N * N)) := fst (unmarshal_doc_sections_a data).

(* ------------------------------------------------------------------ sections and layout (section.go, write.go) *)

Inductive sec_body :=
| SimpleB (data : list N)
| CompoundB (items : list (list N)).

(** what the TOC stores for a section: simple (off,sz) | compound data (off,sz) + index (off,sz) *)
Inductive sec_rec :=
| RSimple (off sz : N)
| RCompound (doff dsz ioff isz : N).

(** compoundSection.addItem: absolute file offset of every item *)
Fixpoint item_offsets (off : N) (items : list (list N)) : list N :=
  match items with
  | [] => []
  | it :: r => off :: item_offsets (off + nlen it) r
  end.

Definition body_bytes (off : N) (b : sec_body) : list N :=
  match b with
  | SimpleB d => d
  | CompoundB items => concat items ++ concat (map be32 (item_offsets off items))
  end.
Definition body_rec (off : N) (b : sec_body) : sec_rec :=
  match b with
  | SimpleB d => RSimple off (nlen d)
  | CompoundB items =>
    let dsz := nlen (concat items) in
    RCompound off dsz (off + dsz) (4 * nlen items)
  end.

Definition tag := list N.

(** sections are laid out one after the other in the order in which Write emits them *)
Fixpoint layout (off : N) (secs : list (tag * sec_body)) : list N * list (tag * sec_rec) :=
  match secs with
  | [] => ([], [])
  | (t, b) :: r =>
    let bytes := body_bytes off b in
    let '(rb, rt) := layout (off + nlen bytes) r in
    (bytes ++ rb, (t, body_rec off b) :: rt)
  end.

Fixpoint lookup_tag {A} (t : tag) (l : list (tag * A)) : option A :=
  match l with
  | [] => None
  | (t', a) :: r => if bytes_eqb t t' then Some a else lookup_tag t r
  end.

Definition rec_bytes (r : sec_rec) : list N :=
  match r with
  | RSimple off sz => be32 off ++ be32 sz
  | RCompound a b c d => be32 a ++ be32 b ++ be32 c ++ be32 d
  end.
Definition zero_rec (kind : N) : sec_rec := if kind =? 0 then RSimple 0 0 else RCompound 0 0 0 0.

(** writer.String: Varint(len) ++ bytes *)
Definition put_string (s : list N) : list N := put_uvarint (nlen s) ++ s.

(** writeTOC: U32(0) then for every entry of sectionsTaggedList (Generated.toc_tags): tag, kind, section record;
    sections never written stay zero. *)
Definition toc_entry (tbl : list (tag * sec_rec)) (tk : tag * N) : list N :=
  let '(t, k) := tk in
  put_string t ++ put_uvarint k ++
  rec_bytes (match lookup_tag t tbl with Some r => r | None => zero_rec k end).
Definition toc_bytes (tbl : list (tag * sec_rec)) : list N :=
  be32 0 ++ concat (map (toc_entry tbl) toc_tags).

Definition write_file (secs : list (tag * sec_body)) : list N :=
  let '(body, tbl) := layout 0 secs in
  let toc := toc_bytes tbl in
  body ++ toc ++ be32 (nlen body) ++ be32 (nlen toc).

(* ------------------------------------------------------------------ ShardBuilder.Add (shard_builder.go) *)

Definition str (s : string) : list N := map (fun a => N.of_nat (Ascii.nat_of_ascii a)) (String.list_ascii_of_string s).
Arguments str s%string.

(** postingsBuilder: ngram -> offsets (reverse order), kept sorted by ngram (writePostings sorts; the ASCII array
    and the map of the Go code are one finite map here) *)
Fixpoint pl_add (g off : N) (m : list (N * list N)) : list (N * list N) :=
  match m with
  | [] => [(g, [off])]
  | (g', offs) :: r =>
    if g <? g' then (g, [off]) :: m
    else if g =? g' then (g', off :: offs) :: r
    else (g', offs) :: pl_add g off r
  end.

Record pstate := mkP {
  ps_post : list (N * list N);
  ps_runeOffsets : list N;      (* reverse order *)
  ps_runeCount : N;
  ps_endRunes : list N;         (* reverse order *)
  ps_endByte : N }.
Definition p_empty : pstate := mkP [] [] 0 [] 0.

Definition ngram_of (a b c : N) : N := a * 4398046511104 + b * 2097152 + c.

(** state of the rune loop of newSearchableString *)
Record lstate := mkL {
  l_post : list (N * list N);
  l_roffs : list N;
  l_bounds : list N;            (* remaining byte section boundaries *)
  l_rbounds : list N;           (* rune boundaries found, reverse order *)
  l_g1 : N; l_g2 : N }.         (* the two previous runes *)

Fixpoint take_bounds (bc : N) (v : N) (bounds rb : list N) : list N * list N :=
  match bounds with
  | b :: r => if b =? bc then take_bounds bc v r (v :: rb) else (bounds, rb)
  | [] => ([], rb)
  end.

Fixpoint ss_loop (fuel : nat) (data : list N) (runeCount endByte : N) (ri bc : N) (st : lstate) : lstate * N * N :=
  match fuel with
  | O => (st, ri, bc)
  | S f =>
    match data with
    | [] => (st, ri, bc)
    | _ =>
      let '(c, sz) := decode_rune data in
      let roffs := if ((runeCount + ri) mod runeOffsetFrequency =? 0) then (endByte + bc) :: l_roffs st else l_roffs st in
      let '(bounds, rb) := take_bounds bc (runeCount + ri) (l_bounds st) (l_rbounds st) in
      let post := if ri <? 2 then l_post st
                  else pl_add (ngram_of (l_g1 st) (l_g2 st) c) ((runeCount + ri - 2) mod W32) (l_post st) in
      ss_loop f (skipn sz data) runeCount endByte (ri + 1) (bc + N.of_nat sz)
              (mkL post roffs bounds rb (l_g2 st) c)
    end
  end.

Fixpoint pair_up (l : list N) : list (N * N) :=
  match l with a :: b :: r => (a, b) :: pair_up r | _ => [] end.

(** newSearchableString: Err 1 = "no rune for section boundary" (the Go builder is unusable afterwards) *)
Definition new_searchable_string (ps : pstate) (data : list N) (secs : list (N * N)) : outcome (pstate * list (N * N)) :=
  let '(st, ri, bc) := ss_loop (length data) data (ps_runeCount ps) (ps_endByte ps) 0 0
                         (mkL (ps_post ps) (ps_runeOffsets ps) (flatten_secs secs) [] 0 0) in
  match l_bounds st with
  | b :: _ => if b <? bc then Err 1 else
      let '(_, rb) := take_bounds bc (ps_runeCount ps + ri) (l_bounds st) (l_rbounds st) in
      Ok (mkP (l_post st) (l_roffs st) (ps_runeCount ps + ri) ((ps_runeCount ps + ri) :: ps_endRunes ps) (ps_endByte ps + nlen data),
          pair_up (rev rb))
  | [] =>
      Ok (mkP (l_post st) (l_roffs st) (ps_runeCount ps + ri) ((ps_runeCount ps + ri) :: ps_endRunes ps) (ps_endByte ps + nlen data),
          pair_up (rev (l_rbounds st)))
  end.

Record doc_in := mkDocIn {
  di_name : list N; di_content : list N; di_skip : N; di_catmissing : bool;
  di_syms : list (N * N); di_meta : list (list N * list N * list N);
  di_branches : list (list N); di_subidx : N }.

(** builder state (the fields Write serialises) *)
Record bstate := mkB {
  b_contents : list (list N);
  b_names : list (list N);
  b_docSections : list (list (N * N));
  b_runeDocSections : list (N * N);
  b_symtab : list (list N);        (* symIndex in id order *)
  b_kindtab : list (list N);       (* symKindIndex in id order *)
  b_symMeta : list N;
  b_fileEndSymbol : list N;
  b_masks : list N;
  b_subRepos : list N;
  b_repos : list N;
  b_cp : pstate;
  b_np : pstate }.
Definition b_empty : bstate := mkB [] [] [] [] [] [] [] [0] [] [] [] p_empty p_empty.

Fixpoint index_of (s : list N) (l : list (list N)) (i : N) : option N :=
  match l with
  | [] => None
  | x :: r => if bytes_eqb s x then Some i else index_of s r (i + 1)
  end.
(** symbolID / symbolKindID: first-come ids *)
Definition intern (s : list N) (tab : list (list N)) : N * list (list N) :=
  match index_of s tab 0 with
  | Some i => (i, tab)
  | None => (nlen tab, tab ++ [s])
  end.

Fixpoint add_symbols (metas : list (list N * list N * list N)) (symtab kindtab : list (list N)) (acc : list N)
  : list (list N) * list (list N) * list N :=
  match metas with
  | [] => (symtab, kindtab, acc)
  | (kind, parent, pkind) :: r =>
    let '(k, kt1) := intern kind kindtab in
    let '(p, st1) := intern parent symtab in
    let '(pk, kt2) := intern pkind kt1 in
    add_symbols r st1 kt2 (acc ++ [0; k; p; pk])
  end.

(** sort.Sort(symbolSlice) as a stable insertion sort on Start (generated inputs have distinct starts) *)
Definition symrow := ((N * N) * (list N * list N * list N))%type.
Fixpoint ins_sym (x : symrow) (l : list symrow) : list symrow :=
  match l with
  | [] => [x]
  | y :: r => if fst (fst x) <? fst (fst y) then x :: l else y :: ins_sym x r
  end.
Definition sort_syms (l : list symrow) : list symrow := fold_left (fun acc x => ins_sym x acc) l [].

Fixpoint overlaps (last_end : N) (first : bool) (l : list (N * N)) : bool :=
  match l with
  | [] => false
  | (s, e) :: r => (negb first && (s <? last_end)) || overlaps e false r
  end.
Definition last_end (l : list (N * N)) : N := match rev l with (_, e) :: _ => e | [] => 0 end.

Fixpoint zip_default {A B} (a : list A) (b : list B) (d : B) : list (A * B) :=
  match a with
  | [] => []
  | x :: r => (x, match b with y :: _ => y | [] => d end) :: zip_default r (tl b) d
  end.

Definition has_nul (c : list N) : bool := existsb (N.eqb 0) c.
Definition SKIP_BINARY : N := 3.

(** branchMask: index of the first repository branch with that name *)
Fixpoint branch_mask (branches : list (list N)) (doc_branches : list (list N)) : option N :=
  match doc_branches with
  | [] => Some 0
  | br :: r =>
    match index_of br branches 0, branch_mask branches r with
    | Some i, Some m => Some (N.lor (2 ^ i) m)
    | _, _ => None
    end
  end.

(** normalised content of a document: the NOT-INDEXED marker replaces skipped content *)
Definition doc_skip (d : doc_in) : N :=
  if di_catmissing d && has_nul (di_content d) then SKIP_BINARY else di_skip d.
Definition doc_content (d : doc_in) : list N :=
  if doc_skip d =? 0 then di_content d
  else notIndexedMarker ++ nth (N.to_nat (doc_skip d)) skip_explanations (str "unknown skip reason").
Definition doc_symrows (d : doc_in) : list symrow :=
  if doc_skip d =? 0 then sort_syms (zip_default (di_syms d) (di_meta d) ([], [], [])) else [].

(** ShardBuilder.Add.  Err 2 sections overlap; 3 section past end; 1 boundary not on a rune; 4 unknown branch.
    (After Err 1 / Err 4 the Go builder has already been mutated; such inputs are outside the generator.) *)
Definition add_doc (branches : list (list N)) (repoIdx : N) (b : bstate) (d : doc_in) : outcome bstate :=
  let content := doc_content d in
  let rows := doc_symrows d in
  let syms := map fst rows in
  if overlaps 0 true syms then Err 2 else
  if nlen content <? last_end syms then Err 3 else
  do r1 <- new_searchable_string (b_cp b) content syms;
  let '(cp, runeSecs) := r1 in
  do r2 <- new_searchable_string (b_np b) (di_name d) [];
  let '(np, _) := r2 in
  let '(st, kt, sm) := add_symbols (map snd rows) (b_symtab b) (b_kindtab b) (b_symMeta b) in
  match branch_mask branches (di_branches d) with
  | None => Err 4
  | Some mask =>
    let rds := b_runeDocSections b ++ runeSecs in
    Ok (mkB (b_contents b ++ [content]) (b_names b ++ [di_name d]) (b_docSections b ++ [syms]) rds
            st kt sm (b_fileEndSymbol b ++ [nlen rds]) (b_masks b ++ [mask]) (b_subRepos b ++ [di_subidx d])
            (b_repos b ++ [repoIdx]) cp np)
  end.

(** documents whose Add fails are dropped (the harness does the same) *)
Fixpoint add_docs (branches : list (list N)) (repoIdx : N) (b : bstate) (ds : list doc_in) : bstate * list bool :=
  match ds with
  | [] => (b, [])
  | d :: r =>
    match add_doc branches repoIdx b d with
    | Ok b' => let '(bf, oks) := add_docs branches repoIdx b' r in (bf, true :: oks)
    | _ => let '(bf, oks) := add_docs branches repoIdx b r in (bf, false :: oks)
    end
  end.

Fixpoint add_repos (repos : list (list (list N) * list doc_in)) (idx : N) (b : bstate) : bstate :=
  match repos with
  | [] => b
  | (brs, ds) :: r => add_repos r (idx + 1) (fst (add_docs brs idx b ds))
  end.

(* ------------------------------------------------------------------ ShardBuilder.Write (write.go) *)

Record opaque := mkOpaque {
  o_checksums : list N; o_langs : list N; o_cats : list N;
  o_rid : option (list N); o_meta : list N; o_repometa : list N }.

Fixpoint newlines_from (l : list N) (i : N) : list N :=
  match l with
  | [] => []
  | c :: r => if c =? 10 then i :: newlines_from r (i + 1) else newlines_from r (i + 1)
  end.
Definition newlines_indices (c : list N) : list N := newlines_from c 0.

(** a posting list's bytes: uvarint deltas (uint32 wrap) of the offsets, first delta from 0 *)
Definition posting_data (rev_offs : list N) : list N := deltas_enc W32 0 (rev rev_offs).

Definition postings_secs (ps : pstate) (t_ngram t_post t_roff t_end : list N) : list (tag * sec_body) :=
  [ (t_ngram, SimpleB (concat (map (fun p => be64 (fst p)) (ps_post ps))));
    (t_post, CompoundB (map (fun p => posting_data (snd p)) (ps_post ps)));
    (t_roff, SimpleB (to_sized_deltas (rev (ps_runeOffsets ps))));
    (t_end, SimpleB (to_sized_deltas (rev (ps_endRunes ps)))) ].

(** the sections in the order Write emits them *)
Definition shard_sections (next : bool) (b : bstate) (o : opaque) : list (tag * sec_body) :=
  [ (str "fileContents", CompoundB (b_contents b));
    (str "newlines", CompoundB (map (fun c => to_sized_deltas (newlines_indices c)) (b_contents b)));
    (str "fileEndSymbol", SimpleB (concat (map be32 (b_fileEndSymbol b))));
    (str "symbolMap", CompoundB (b_symtab b));
    (str "symbolKindMap", CompoundB (b_kindtab b));
    (str "symbolMetaData", SimpleB (concat (map be32 (b_symMeta b))));
    (str "branchMasks", SimpleB (concat (map be64 (b_masks b))));
    (str "fileSections", CompoundB (map marshal_doc_sections (b_docSections b))) ]
  ++ postings_secs (b_cp b) (str "ngramText") (str "postings") (str "runeOffsets") (str "fileEndRunes")
  ++ [ (str "fileNames", CompoundB (b_names b)) ]
  ++ postings_secs (b_np b) (str "nameNgramText") (str "namePostings") (str "nameRuneOffsets") (str "nameEndRunes")
  ++ [ (str "subRepos", SimpleB (to_sized_deltas (b_subRepos b)));
       (str "contentChecksums", SimpleB (o_checksums o));
       (str "languages", SimpleB (o_langs o));
       (str "categories", SimpleB (o_cats o));
       (str "runeDocSections", SimpleB (marshal_doc_sections (b_runeDocSections b))) ]
  ++ (if next then [ (str "repos", SimpleB (to_sized_deltas16 (b_repos b))) ] else [])
  ++ (match o_rid o with Some blob => if next then [ (str "reposIDsBitmap", SimpleB blob) ] else [] | None => [] end)
  ++ [ (str "metaData", SimpleB (o_meta o));
       (str "repoMetaData", SimpleB (o_repometa o)) ].

Definition write_shard (next : bool) (b : bstate) (o : opaque) : list N := write_file (shard_sections next b o).

(* ------------------------------------------------------------------ reader (read.go, indexfile.go) *)

(** an index file: the mapped bytes (for an mmap: padded with zeros to the page size) and Size() *)
Record ifile := mkFile { f_data : list N; f_size : N; f_len : N }.   (* f_len = len(f.data), the mapping length *)
Definition mem_file (bytes : list N) : ifile := let n := nlen bytes in mkFile bytes n n.
Definition wf_file (f : ifile) : Prop := f_len f = nlen (f_data f).

Definition E_OOB : N := 10.       (* "out of bounds" from IndexFile.Read *)
Definition E_FORMAT : N := 11.    (* any other error return of the reader *)

(** mmapedIndexFile.Read:  if off > off+sz || off+sz > uint32(len(data)) { error }  — uint32 arithmetic *)
Definition file_read (f : ifile) (off sz : N) : outcome (list N) :=
  let e := (off + sz) mod W32 in
  if (e <? off) || (f_len f mod W32 <? e) then Err E_OOB
  else Ok (firstn (N.to_nat sz) (skipn (N.to_nat off) (f_data f))).

Definition read_u32 (f : ifile) (off : N) : outcome (N * N) :=
  do b <- file_read f off 4; Ok (be_get b, (off + 4) mod W32).

(** binary.ReadUvarint over reader.ReadByte (r.off advances by one per byte, also on a failed read) *)
Fixpoint read_uvarint_from (f : ifile) (fuel : nat) (off x s : N) : outcome (N * N) :=
  match fuel with
  | O => Err E_FORMAT    (* overflow: more than 10 bytes *)
  | S k =>
    do b <- file_read f off 1;
    match b with
    | [b0] =>
      let off' := (off + 1) mod W32 in
      if b0 <? 128 then
        if Nat.eqb k 0 && (1 <? b0) then Err E_FORMAT else Ok ((x + b0 * 2 ^ s) mod W64, off')
      else read_uvarint_from f k off' (x + (b0 mod 128) * 2 ^ s) (s + 7)
    | _ => Err E_OOB
    end
  end.
Definition read_uvarint (f : ifile) (off : N) : outcome (N * N) := read_uvarint_from f 10 off 0 0.

(** reader.Str *)
Definition read_str (f : ifile) (off : N) : outcome (list N * N) :=
  do r <- read_uvarint f off;
  let '(slen, off1) := r in
  do b <- file_read f off1 (slen mod W32);
  Ok (b, (off1 + slen mod W32) mod W32).

Definition read_simple (f : ifile) (off : N) : outcome (N * N * N) :=
  do a <- read_u32 f off; let '(o, off1) := a in
  do b <- read_u32 f off1; let '(s, off2) := b in
  Ok (o, s, off2).

(** readSectionU32 / readSectionU64 *)
Definition read_section_words (k : N) (f : ifile) (off sz : N) : outcome (list N) :=
  if sz mod k =? 0 then do b <- file_read f off sz; Ok (words (N.to_nat k) b) else Err E_FORMAT.

(** a section as the reader holds it: compound sections carry their offsets (lazy ones do not) *)
Inductive rsec :=
| SSimple (off sz : N)
| SCompound (doff dsz ioff isz : N) (offsets : list N).

(** section.read for kind 0 simple / 1 compound / 2 lazy compound; [skip] = section.skip *)
Definition read_section (f : ifile) (kind : N) (skip : bool) (off : N) : outcome (rsec * N) :=
  if kind =? 0 then
    do r <- read_simple f off; let '(o, s, off1) := r in Ok (SSimple o s, off1)
  else
    do r1 <- read_simple f off; let '(o, s, off1) := r1 in
    do r2 <- read_simple f off1; let '(io, is_, off2) := r2 in
    if skip then
      (* compoundSection.skip reads (and discards) the index blob; the lazy variant inherits it *)
      do _ <- file_read f io is_; Ok (SCompound o s io is_ [], off2)
    else if kind =? 1 then
      do offs <- read_section_words 4 f io is_; Ok (SCompound o s io is_ offs, off2)
    else Ok (SCompound o s io is_ [], off2).

Definition toc := list (tag * rsec).

(** the loop of readTOCSections over tagged sections; [wanted] = the tags argument (empty = all).
    Unknown tags and kind mismatches are skipped; an unknown kind is an error.  Each round consumes >= 1 byte and
    the offset is bounded by the end of the TOC section and by the end of the mapping (see read_toc for the fuel). *)
Fixpoint read_tagged (f : ifile) (fuel : nat) (off tocend : N) (wanted : list tag) (acc : toc) : outcome toc :=
  if tocend <=? off then Ok acc else
  match fuel with
  | O => Panic P_DIVERGE
  | S k =>
    do r1 <- read_str f off; let '(t, off1) := r1 in
    do r2 <- read_uvarint f off1; let '(kind, off2) := r2 in
    let known := match lookup_tag t toc_tags with Some k0 => k0 =? kind | None => false end in
    if negb known && negb (kind <=? 2) then Err E_FORMAT else
    let skip := negb known || (negb (match wanted with [] => true | _ => false end) && negb (existsb (bytes_eqb t) wanted)) in
    do r3 <- read_section f kind skip off2; let '(sec, off3) := r3 in
    read_tagged f k off3 tocend wanted (if skip then acc else (t, sec) :: acc)
  end.

(** readHeader + the tagged branch of readTOCSections.  Err E_FORMAT for the legacy (sectionCount <> 0) layout,
    which the current writer never produces: it is outside this model. *)
Definition read_toc (f : ifile) (wanted : list tag) : outcome toc :=
  do h <- read_simple f ((f_size f + W32 - 8) mod W32); let '(toff, tsz, _) := h in
  do c <- read_u32 f toff; let '(count, off) := c in
  (* fuel: a round that does not fail consumes >= 1 byte below both the end of the TOC section and the end of the
     mapping (IndexFile.Read fails beyond it), so min(tocend, len) + 1 rounds suffice.  (Not N.to_nat tocend: a
     corrupt trailer makes tocend any 32-bit number, and a unary fuel of 2^32 cannot be evaluated.) *)
  if count =? 0 then read_tagged f (S (N.to_nat (N.min ((toff + tsz) mod W32) (f_len f mod W32)))) off ((toff + tsz) mod W32) wanted []
  else Err E_FORMAT.

Definition toc_simple (t : toc) (name : list N) : N * N :=
  match lookup_tag name t with Some (SSimple o s) => (o, s) | _ => (0, 0) end.
Definition toc_compound (t : toc) (name : list N) : (N * N) * (N * N) * list N :=
  match lookup_tag name t with Some (SCompound a b c d offs) => ((a, b), (c, d), offs) | _ => ((0, 0), (0, 0), []) end.

(** compoundSection.relativeIndex *)
Definition relative_index (offsets : list N) (dsz : N) : list N :=
  match offsets with
  | [] => []
  | o0 :: _ => map (fun o => (o + W32 - o0) mod W32) offsets ++ [dsz]
  end.

Definition nth_chk {A} (l : list A) (i : N) : outcome A :=
  match nth_error l (N.to_nat i) with Some a => Ok a | None => Panic P_INDEX end.
(** a[lo:hi] on a slice of length (= capacity) |a| *)
Definition slice_chk {A} (l : list A) (lo hi : N) : outcome (list A) :=
  if (hi <? lo) || (nlen l <? hi) then Panic P_SLICE else Ok (firstn (N.to_nat (hi - lo)) (skipn (N.to_nat lo) l)).

(** item i of a compound section read through its relative index (readContents, readNewlines, readDocSections) *)
Definition read_item (f : ifile) (start : N) (ri : list N) (i : N) : outcome (list N) :=
  do a <- nth_chk ri i;
  do b <- nth_chk ri (i + 1);
  file_read f ((start + a) mod W32) ((b + W32 - a) mod W32).

(** makeRuneOffsetMap (bits.go) *)
Fixpoint rune_offset_map (offs : list N) (i expected : N) : list (N * N) :=
  match offs with
  | [] => []
  | bo :: r =>
    if bo =? expected then rune_offset_map r (i + 1) ((expected + runeOffsetFrequency) mod W32)
    else ((i * runeOffsetFrequency) mod W32, bo) :: rune_offset_map r (i + 1) ((bo + runeOffsetFrequency) mod W32)
  end.

(** the loaded shard (indexData), restricted to the modelled fields *)
Record idata := mkI {
  i_file : ifile;
  i_boundariesStart : N; i_boundaries : list N;
  i_newlinesStart : N; i_newlinesIndex : list N;
  i_docSectionsStart : N; i_docSectionsIndex : list N;
  i_fileEndSymbol : list N;
  i_symIndex : list N; i_symContent : list N; i_symKindIndex : list N; i_symKindContent : list N; i_symMeta : list N;
  i_checksums : list N; i_languages : list N; i_categories : list N;
  i_ngramSec : N * N; i_postingIndex : N * N;
  i_masks : list N;
  i_fileNameContent : list N; i_fileNameIndex : list N;
  i_nameNgramSec : N * N; i_namePostingIndex : N * N;
  i_runeDocSections : list (N * N);
  i_subRepos : list N; i_runeOffsets : list (N * N); i_nameRuneOffsets : list (N * N);
  i_nameEndRunes : list N; i_fileEndRunes : list N;
  i_repos : list N;
  i_alloc : N }.          (* bytes requested from make() with sizes taken from the file *)

Definition blob_of (f : ifile) (s : N * N) : outcome (list N) := file_read f (fst s) (snd s).

(** indexData.verify *)
Definition verify_ok (nameIdx boundaries masks dsi nli : list N) : bool :=
  match length nameIdx with
  | O => true
  | S n => Nat.eqb (length boundaries) (S n) && Nat.eqb (length masks) n
           && Nat.eqb (length dsi) (S n) && Nat.eqb (length nli) (S n)
  end.

Definition ngram_text_ok (f : ifile) (sec : N * N) (text : list N) : bool :=
  ((nlen text + 7) / 8) * 8 <=? f_len f - fst sec.

Definition lift_a {A} (r : outcome A * N) (k : A -> N -> outcome idata) : outcome idata :=
  match fst r with Ok a => k a (snd r) | Err e => Err e | Panic w => Panic w end.

(** readIndexData for the modelled sections.  [next] = IndexFormatVersion >= 17 (from the opaque JSON metadata).
    The ngram b-tree built at load time is modelled in Model/Btree.v from i_ngramSec. *)
Definition read_index_with (dsz : N -> N -> list N -> outcome (list N) * N) (dsec : list N -> outcome (list (N * N)) * N)
                           (f : ifile) (t : toc) (next : bool) : outcome idata :=
  let '(fc_d, _, fc_offs) := toc_compound t (str "fileContents") in
  let '(nl_d, _, nl_offs) := toc_compound t (str "newlines") in
  let '(fs_d, _, fs_offs) := toc_compound t (str "fileSections") in
  let '(skm_d, _, skm_offs) := toc_compound t (str "symbolKindMap") in
  let '(sm_d, sm_i, _) := toc_compound t (str "symbolMap") in
  let '(fn_d, _, fn_offs) := toc_compound t (str "fileNames") in
  let '(_, po_i, _) := toc_compound t (str "postings") in
  let '(_, npo_i, _) := toc_compound t (str "namePostings") in
  do fes <- (let s := toc_simple t (str "fileEndSymbol") in read_section_words 4 f (fst s) (snd s));
  do symIndex <- blob_of f sm_i;
  do symContent <- blob_of f sm_d;
  do symKindContent <- blob_of f skm_d;
  do symMeta <- blob_of f (toc_simple t (str "symbolMetaData"));
  do checksums <- blob_of f (toc_simple t (str "contentChecksums"));
  do languages <- blob_of f (toc_simple t (str "languages"));
  do categories <- blob_of f (toc_simple t (str "categories"));
  do ngramText <- blob_of f (toc_simple t (str "ngramText"));
  (* newBtreeIndex: textContent[i:i+8] for i = 0, 8, .. < len.  A Go slice may be re-sliced past its length up to its
     capacity (here: the end of the mapping), so a length that is not a multiple of 8 reads the following bytes and
     panics only when the last 8-byte window crosses the end of the mapping. *)
  if negb (ngram_text_ok f (toc_simple t (str "ngramText")) ngramText) then Panic P_SLICE else
  do masks <- (let s := toc_simple t (str "branchMasks") in read_section_words 8 f (fst s) (snd s));
  do fileNameContent <- blob_of f fn_d;
  do nameNgramText <- blob_of f (toc_simple t (str "nameNgramText"));
  if negb (ngram_text_ok f (toc_simple t (str "nameNgramText")) nameNgramText) then Panic P_SLICE else
  do rdsBlob <- blob_of f (toc_simple t (str "runeDocSections"));
  lift_a (dsec rdsBlob) (fun rds a1 =>
  do b1 <- blob_of f (toc_simple t (str "subRepos"));
  do b2 <- blob_of f (toc_simple t (str "runeOffsets"));
  do b3 <- blob_of f (toc_simple t (str "nameRuneOffsets"));
  do b4 <- blob_of f (toc_simple t (str "nameEndRunes"));
  do b5 <- blob_of f (toc_simple t (str "fileEndRunes"));
  lift_a (dsz W32 4 b1) (fun subRepos a2 =>
  lift_a (dsz W32 4 b2) (fun runeOffsets a3 =>
  lift_a (dsz W32 4 b3) (fun nameRuneOffsets a4 =>
  lift_a (dsz W32 4 b4) (fun nameEndRunes a5 =>
  lift_a (dsz W32 4 b5) (fun fileEndRunes a6 =>
  let boundaries := relative_index fc_offs (snd fc_d) in
  let nli := relative_index nl_offs (snd nl_d) in
  let dsi := relative_index fs_offs (snd fs_d) in
  let fni := relative_index fn_offs (snd fn_d) in
  if negb (verify_ok fni boundaries masks dsi nli) then Err E_FORMAT else
  let finish (repos : list N) (a7 : N) :=
    Ok (mkI f (fst fc_d) boundaries (fst nl_d) nli (fst fs_d) dsi fes
            symIndex symContent (relative_index skm_offs (snd skm_d)) symKindContent symMeta
            checksums languages categories (toc_simple t (str "ngramText")) po_i masks fileNameContent fni
            (toc_simple t (str "nameNgramText")) npo_i rds subRepos
            (rune_offset_map runeOffsets 0 0) (rune_offset_map nameRuneOffsets 0 0) nameEndRunes fileEndRunes repos
            (a1 + a2 + a3 + a4 + a5 + a6 + a7)) in
  if next then
    do b6 <- blob_of f (toc_simple t (str "repos"));
    lift_a (dsz W16 2 b6) finish
  else finish (map (fun _ => 0) masks) 0)))))).

Definition read_index := read_index_with from_sized_deltas_w unmarshal_doc_sections_a.

(** NewSearcher restricted to the modelled part *)
Definition load_shard (f : ifile) (next : bool) : outcome idata :=
  do t <- read_toc f []; read_index f t next.

(* ---- accessors used by search/list (indexdata.go, read.go) *)
Definition file_name (d : idata) (i : N) : outcome (list N) :=
  do a <- nth_chk (i_fileNameIndex d) i; do b <- nth_chk (i_fileNameIndex d) (i + 1);
  slice_chk (i_fileNameContent d) a b.
Definition read_contents (d : idata) (i : N) : outcome (list N) :=
  read_item (i_file d) (i_boundariesStart d) (i_boundaries d) i.
Definition read_newlines (d : idata) (i : N) : outcome (list N) :=
  do b <- read_item (i_file d) (i_newlinesStart d) (i_newlinesIndex d) i; from_sized_deltas b.
Definition read_doc_sections (d : idata) (i : N) : outcome (list (N * N)) :=
  do b <- read_item (i_file d) (i_docSectionsStart d) (i_docSectionsIndex d) i; unmarshal_doc_sections b.

(** symbolData.data(i): kind / parent / parentKind strings of symbol i *)
Definition u32_at (a : list N) (n : N) : outcome N :=
  do b <- slice_chk a (4 * n) (4 * n + 4); Ok (be_get b).
Definition sym_kind (d : idata) (k : N) : outcome (list N) :=
  do a <- nth_chk (i_symKindIndex d) k; do b <- nth_chk (i_symKindIndex d) (k + 1);
  slice_chk (i_symKindContent d) a b.
Definition sym_parent (d : idata) (p : N) : outcome (list N) :=
  (* symbolData.parent: delta of symIndex[p], symIndex[p+1] (or the end of symContent for the last one) *)
  do o0 <- u32_at (i_symIndex d) 0;
  do a <- u32_at (i_symIndex d) p;
  if (p + 1) mod W32 =? nlen (i_symIndex d) / 4 then
    slice_chk (i_symContent d) ((a + W32 - o0) mod W32) (nlen (i_symContent d))
  else
    do b <- u32_at (i_symIndex d) ((p + 1) mod W32); slice_chk (i_symContent d) ((a + W32 - o0) mod W32) ((b + W32 - o0) mod W32).
(** symbolData.data(i): (kind, parent, parentKind); None when i is past the metadata *)
Definition sym_data (d : idata) (i : N) : outcome (option (list N * list N * list N)) :=
  if nlen (i_symMeta d) <=? i * 16 then Ok None else
  do md <- slice_chk (i_symMeta d) (i * 16) (i * 16 + 16);
  do k <- u32_at md 1; do kind <- sym_kind d k;
  do p <- u32_at md 2; do parent <- sym_parent d p;
  do pk <- u32_at md 3; do pkind <- sym_kind d pk;
  Ok (Some (kind, parent, pkind)).
