(** Search beyond newMatchTree's kind dispatch (C07): the cost-level evaluation of a match tree in
    indexData.Search and its `log.Panicf("did not decide ...")`.

      for cost := costMin; cost <= costMax; cost++ {
        switch evalMatchTree(cp, cost, known, mt) {
        case matchesRequiresHigherCost: if cost == costMax { log.Panicf("did not decide. ...") }
        case matchesFound:
        case matchesNone: continue nextFileMatch } }

    Every matchTree node answers matchesFound / matchesNone / matchesRequiresHigherCost at a cost level.
    Leaves defer (RequiresHigherCost) only inside `if cost < X` guards - the constants X per node kind are
    GENERATED (Generated/MatchCost.v: matches_info, from the bodies of all `matches` methods), as are the cost
    constants, the loop bounds and the set of node kinds.  The combinators of the composite nodes (and, andLine, or,
    not, the pass-through wrappers fileName / boost / noVisit) are modelled by hand below and tied by the
    correspondence: the harness records, for real match trees on real documents, every node's state at every cost
    level, and [obs_ok] must accept them.  This file contains no proofs. *)
From ZV Require Import Lib.Base Generated.MatchCost.
Open Scope N_scope.

Inductive mstate := SFound | SNone | SHigher.
Definition mstate_eqb (a b : mstate) : bool :=
  match a, b with SFound, SFound | SNone, SNone | SHigher, SHigher => true | _, _ => false end.

(** a node of a match tree with its state at one cost level, and its children *)
Inductive obs := ONode (k : mtkind) (s : mstate) (cs : list obs).
Definition root_state (o : obs) : mstate := match o with ONode _ s _ => s end.

(** andMatchTree.matches: state := found; none => return none; higher => state = higher *)
Fixpoint and_loop (l : list mstate) (st : mstate) : mstate :=
  match l with
  | [] => st
  | SNone :: _ => SNone
  | SHigher :: r => and_loop r SHigher
  | SFound :: r => and_loop r st
  end.
(** orMatchTree.matches: state := none; higher => higher; found => found unless already higher *)
Fixpoint or_loop (l : list mstate) (st : mstate) : mstate :=
  match l with
  | [] => st
  | SHigher :: r => or_loop r SHigher
  | SFound :: r => or_loop r (match st with SHigher => SHigher | _ => SFound end)
  | SNone :: r => or_loop r st
  end.
Definition not_state (s : mstate) : mstate :=
  match s with SHigher => SHigher | SFound => SNone | SNone => SFound end.

Inductive comb := CAnd | CAndLine | COr | CNot | CWrap | CLeaf.
Definition comb_of (k : mtkind) : comb :=
  match k with
  | MT_andMatchTree => CAnd
  | MT_andLineMatchTree => CAndLine
  | MT_orMatchTree => COr
  | MT_notMatchTree => CNot
  | MT_fileNameMatchTree | MT_boostMatchTree | MT_noVisitMatchTree => CWrap
  | _ => CLeaf
  end.

Definition mtkind_eqb (a b : mtkind) : bool := N.eqb (mtkind_code a) (mtkind_code b).
Definition own_info (k : mtkind) : option (list N * bool * bool) :=
  match find (fun e => mtkind_eqb k (fst e)) matches_info with Some e => Some (snd e) | None => None end.
Definition promoted_to (k : mtkind) : option (option mtkind) :=
  match find (fun e => mtkind_eqb k (fst e)) matches_promoted with Some e => Some (snd e) | None => None end.

(** the guards `cost < X` of the matches method that runs for a node of kind k (own, or promoted from the embedded kind) *)
Definition thresholds (k : mtkind) : list N :=
  match own_info k with
  | Some (th, _, _) => th
  | None => match promoted_to k with
            | Some (Some k') => match own_info k' with Some (th, _, _) => th | None => [] end
            | _ => []
            end
  end.
Definition may_defer (k : mtkind) (cost : N) : bool := existsb (fun th => cost <? th) (thresholds k).

(** is the generated description of kind k the one the hand-written combinators assume?
    composite (calls evalMatchTree) <-> modelled as a combinator; a wrapper promoted from the matchTree interface is
    a pass-through; a leaf has no `matchesRequiresHigherCost` outside a cost guard *)
Definition kind_ok (k : mtkind) : bool :=
  match own_info k, promoted_to k with
  | Some (_, composite, unguarded), _ =>
      match comb_of k with
      | CLeaf => negb composite && negb unguarded
      | _ => composite
      end
  | None, Some None => match comb_of k with CWrap => true | _ => false end
  | None, Some (Some k') =>
      match comb_of k, own_info k' with
      | CLeaf, Some (_, false, false) => true
      | _, _ => false
      end
  | None, None => false
  end.
Definition kinds_ok : bool := forallb kind_ok all_mtkinds.
(** no guard constant exceeds the level at which the loop panics, and the loop reaches that level last *)
Definition thresholds_ok : bool :=
  forallb (fun k => forallb (fun th => th <=? loop_panic_at) (thresholds k)) all_mtkinds &&
  (loop_panic_at =? loop_hi) && (loop_lo <=? loop_hi).

(** consistency of an annotated tree at cost level [cost] with the combinators and the leaf rule *)
Fixpoint obs_ok (cost : N) (o : obs) {struct o} : bool :=
  match o with
  | ONode k s cs =>
      let sts := map root_state cs in
      (fix all (l : list obs) : bool := match l with [] => true | c :: r => obs_ok cost c && all r end) cs &&
      match comb_of k with
      | CAnd => mstate_eqb s (and_loop sts SFound)
      | CAndLine =>                     (* the and of the children; if that is found, the line check decides found / none *)
          match and_loop sts SFound with
          | SFound => negb (mstate_eqb s SHigher)
          | a => mstate_eqb s a
          end
      | COr => mstate_eqb s (or_loop sts SNone)
      | CNot => match sts with [c] => mstate_eqb s (not_state c) | _ => false end
      | CWrap => match sts with [c] => mstate_eqb s c | _ => false end
      | CLeaf => match s with SHigher => may_defer k cost | _ => true end
      end
  end.

(** the loop of indexData.Search over the cost levels of one document; Panic 12 = log.Panicf("did not decide") *)
Fixpoint cost_loop (levels : list (N * obs)) : outcome bool :=
  match levels with
  | [] => Ok true
  | (c, o) :: r =>
      match root_state o with
      | SHigher => if c =? loop_panic_at then Panic 12 else cost_loop r
      | SFound => cost_loop r
      | SNone => Ok false
      end
  end.

(** ------------------------------------------------------------------ correspondence runner *)
(** case = the annotated tree at the cost levels the loop visited for one (query, document), in order, and whether
    the implementation's loop ended with a match *)
Definition mccase := (list (N * obs) * bool)%type.
Fixpoint levels_from (c : N) (l : list (N * obs)) : bool :=
  match l with [] => true | (c', _) :: r => (c' =? c) && levels_from (c + 1) r end.
Definition mccase_ok (c : mccase) : bool :=
  let '(levels, matched) := c in
  levels_from loop_lo levels &&
  forallb (fun p => obs_ok (fst p) (snd p)) levels &&
  match cost_loop levels with Ok b => Bool.eqb b matched | _ => false end.
Definition mc_mismatches (cs : list mccase) : list N := bad_indexes mccase_ok cs.
