(** C16 — executable model of how index/merge.go copies documents: merge / explode / addDocument over an
    ENCODED shard (what indexData holds: per document a repo index, a branch mask relative to its repo's
    branch list, a language code relative to the shard's language table, a sub-repo index relative to the
    repo's sorted sub-repo paths) via the DECODED zoekt.Document that addDocument rebuilds and
    ShardBuilder.Add re-encodes against the destination builder.

    Strings (file names, contents, branch names, languages, sub-repo paths) are abstract identifiers (N);
    0 is the empty string. A branch mask is its bit list (bit i = branch i of the repo). Symbols/sections and
    the category byte are carried as opaque payload (their validation is C37). Trigram postings are not
    modelled (C01/C09). *)
From ZV Require Import Lib.Base.

Record sdoc := {
  sd_name : N; sd_content : N;
  sd_repo : nat;              (* d.repos[doc] *)
  sd_mask : list bool;        (* d.fileBranchMasks[doc], least significant bit first *)
  sd_lang : nat;              (* d.getLanguage(doc) *)
  sd_sub : nat;               (* d.subRepos[doc] *)
  sd_syms : list (N * N * N); (* sections (start, end) with symbol metadata id *)
  sd_cat : N }.

Record srepo := {
  sr_id : N; sr_prio : N; sr_tomb : bool;
  sr_branches : list N;       (* repo.Branches names, in order *)
  sr_subs : list N }.         (* mkSubRepoIndices: sorted paths of SubRepoMap plus the root "" *)

Record shard := { sh_repos : list srepo; sh_langs : list N; sh_docs : list sdoc }.

(** zoekt.Document as rebuilt by addDocument *)
Record ddoc := {
  dd_name : N; dd_content : N; dd_branches : list N; dd_lang : N; dd_sub : N;
  dd_syms : list (N * N * N); dd_cat : N }.

Fixpoint index_of (x : N) (l : list N) : option nat :=
  match l with
  | [] => None
  | y :: r => if N.eqb y x then Some 0 else option_map S (index_of x r)
  end.

(** "calculate branches": names of the set bits in increasing bit order; a set bit without a branch gives ""
    (Go map lookup of a missing key) *)
Fixpoint select (mask : list bool) (names : list N) : list N :=
  match mask with
  | [] => []
  | b :: m' =>
      match names with
      | n :: ns' => if b then n :: select m' ns' else select m' ns'
      | [] => if b then 0%N :: select m' [] else select m' []
      end
  end.

(** symbol metadata ids (third component of a section): 0 = the shard stores NO metadata for the section
    (symbolData.data returns nil: Document.Symbols was given without SymbolsMetaData), [empty_meta] = metadata present
    with Kind = Parent = ParentKind = "". addDocument (after the repair, /repo "fix: index: merging ... symbols without
    metadata") copies a missing entry as the empty zoekt.Symbol, so that every section of the destination has an entry and
    later documents' metadata stay aligned (ShardBuilder indexes metadata by the global section number). Before the repair
    the nil entry was dereferenced by ShardBuilder.addSymbols: Panic. *)
Definition empty_meta : N := 1%N.
Definition norm_sym (s : N * N * N) : N * N * N :=
  let '(a, e, m) := s in (a, e, if N.eqb m 0 then empty_meta else m).

(** addDocument's reads (the branch walk idealised: every bit of the mask is resolved; the walk as coded, with the
    width of its bit counter explicit, is [decode_w] below) *)
Definition decode (sh : shard) (d : sdoc) : outcome ddoc :=
  match nth_error (sh_repos sh) (sd_repo d) with
  | None => Panic 1                                   (* d.repoMetaData[repoID] out of range *)
  | Some r =>
      match nth_error (sr_subs r) (sd_sub d) with
      | None => Panic 2                               (* d.subRepoPaths[repoID][idx] out of range *)
      | Some sub =>
          Ok {| dd_name := sd_name d; dd_content := sd_content d;
                dd_branches := select (sd_mask d) (sr_branches r);
                dd_lang := nth (sd_lang d) (sh_langs sh) 0%N;       (* map lookup: "" when missing *)
                dd_sub := sub; dd_syms := map norm_sym (sd_syms d); dd_cat := sd_cat d |}
      end
  end.

(** ---- the branch walk as coded: `mask := d.fileBranchMasks[docID] (uint64); id := uintW(1);
    for mask != 0 { if mask&1 != 0 { append(d.branchNames[repoID][uint(id)]) }; id <<= 1; mask >>= 1 }`.
    branchNames has the keys 1<<j (j < 64, one per branch). With a W-bit counter `id` is 1<<i for i < W and 0 from
    then on (no such key for a repository with <= 64 branches): bits >= W of the mask resolve to "" like a bit
    without a branch. W was 32 (`uint32`) although a repository may have 64 branches and the mask has 64 bits; the
    repaired code walks with a uint64. *)
Definition select_w (w : nat) (mask : list bool) (names : list N) : list N := select mask (firstn w names).
Definition walk_width : nat := 64.
Definition decode_w (w : nat) (sh : shard) (d : sdoc) : outcome ddoc :=
  match nth_error (sh_repos sh) (sd_repo d) with
  | None => Panic 1
  | Some r =>
      match nth_error (sr_subs r) (sd_sub d) with
      | None => Panic 2
      | Some sub =>
          Ok {| dd_name := sd_name d; dd_content := sd_content d;
                dd_branches := select_w w (sd_mask d) (sr_branches r);
                dd_lang := nth (sd_lang d) (sh_langs sh) 0%N;
                dd_sub := sub; dd_syms := map norm_sym (sd_syms d); dd_cat := sd_cat d |}
      end
  end.

(** ShardBuilder.Add's mask loop: every branch must be one of the current repo's (branchMask(br) != 0);
    `mask |= 1 << (first i with Branches[i].Name == br)`: bit i is set when branch i is named by the document
    and no earlier branch of the repo carries the same name *)
Definition memN (x : N) (l : list N) : bool := existsb (N.eqb x) l.
Fixpoint enc_bits (brs seen names : list N) : list bool :=
  match brs with
  | [] => []
  | b :: r => (negb (memN b seen) && memN b names) :: enc_bits r (b :: seen) names
  end.
Definition enc_mask (brs : list N) (names : list N) : option (list bool) :=
  if forallb (fun n => memN n brs) names then Some (enc_bits brs [] names) else None.

Definition last_opt {A} (l : list A) : option A := match rev l with x :: _ => Some x | [] => None end.

(** ShardBuilder.Add (the parts that place a document) *)
Definition add_doc (b : shard) (dd : ddoc) : outcome shard :=
  match last_opt (sh_repos b) with
  | None => Panic 3
  | Some r =>
      match index_of (dd_sub dd) (sr_subs r) with
      | None => Err 1                                 (* unknown subrepo path *)
      | Some si =>
          match enc_mask (sr_branches r) (dd_branches dd) with
          | None => Err 2                             (* no branch found *)
          | Some m =>
              let lc := match index_of (dd_lang dd) (sh_langs b) with
                        | Some c => (sh_langs b, c)
                        | None => (sh_langs b ++ [dd_lang dd], length (sh_langs b))
                        end in
              Ok {| sh_repos := sh_repos b; sh_langs := fst lc;
                    sh_docs := sh_docs b ++
                      [{| sd_name := dd_name dd; sd_content := dd_content dd;
                          sd_repo := length (sh_repos b) - 1; sd_mask := m; sd_lang := snd lc; sd_sub := si;
                          sd_syms := dd_syms dd; sd_cat := dd_cat dd |}] |}
          end
      end
  end.

(** ShardBuilder.setRepository *)
Definition set_repo (b : shard) (r : srepo) : outcome shard :=
  if (64 <? length (sr_branches r))%nat then Err 3
  else Ok {| sh_repos := sh_repos b ++ [r]; sh_langs := sh_langs b; sh_docs := sh_docs b |}.

Definition empty_builder : shard := {| sh_repos := []; sh_langs := []; sh_docs := [] |}.

(** the document loop of merge for one input shard (lastRepoID = last) *)
Fixpoint copy_docs (sh : shard) (docs : list sdoc) (b : shard) (last : option nat) : outcome shard :=
  match docs with
  | [] => Ok b
  | d :: rest =>
      match nth_error (sh_repos sh) (sd_repo d) with
      | None => Panic 1
      | Some r =>
          if sr_tomb r then copy_docs sh rest b last
          else
            do b1 <- (match last with
                      | Some l => if Nat.eqb l (sd_repo d) then Ok b
                                  else if (sd_repo d <? l)%nat then Err 4   (* non-contiguous repo ids *)
                                  else set_repo b r
                      | None => set_repo b r
                      end);
            do dd <- decode sh d;
            do b2 <- add_doc b1 dd;
            copy_docs sh rest b2 (Some (sd_repo d))
      end
  end.

Definition shard_prio (sh : shard) : N := match sh_repos sh with r :: _ => sr_prio r | [] => 0%N end.
Fixpoint ins_prio (x : shard) (l : list shard) : list shard :=
  match l with
  | [] => [x]
  | y :: r => if (shard_prio y <? shard_prio x)%N then x :: l else y :: ins_prio x r
  end.
Definition sort_prio (l : list shard) : list shard := fold_right ins_prio [] l.

Fixpoint merge_loop (shards : list shard) (b : shard) : outcome shard :=
  match shards with
  | [] => Ok b
  | sh :: rest => do b' <- copy_docs sh (sh_docs sh) b None; merge_loop rest b'
  end.

(** index/merge.go:merge *)
Definition merge (shards : list shard) : outcome shard :=
  match shards with
  | [] => Err 5
  | _ => merge_loop (sort_prio shards) empty_builder
  end.

(** index/merge.go:explode — one builder per live repository that has documents *)
Definition opt_list {A} (o : option A) : list A := match o with Some x => [x] | None => [] end.
Fixpoint explode_docs (sh : shard) (docs : list sdoc) (cur : option shard) (last : option nat) (done : list shard)
  : outcome (list shard) :=
  match docs with
  | [] => Ok (done ++ opt_list cur)
  | d :: rest =>
      match nth_error (sh_repos sh) (sd_repo d) with
      | None => Panic 1
      | Some r =>
          if sr_tomb r then explode_docs sh rest cur last done
          else
            let same := match last with Some l => Nat.eqb l (sd_repo d) | None => false end in
            let bad := match last with Some l => (sd_repo d <? l)%nat | None => false end in
            if same then
              match cur with
              | None => Panic 4
              | Some b =>
                  do dd <- decode sh d; do b2 <- add_doc b dd;
                  explode_docs sh rest (Some b2) (Some (sd_repo d)) done
              end
            else if bad then Err 4
            else
              do b1 <- set_repo empty_builder r;
              do dd <- decode sh d; do b2 <- add_doc b1 dd;
              explode_docs sh rest (Some b2) (Some (sd_repo d)) (done ++ opt_list cur)
      end
  end.
Definition explode (sh : shard) : outcome (list shard) := explode_docs sh (sh_docs sh) None None [].

(** ---- merge / explode exactly as coded: the same loops over [decode_w w] (w = width of addDocument's bit counter).
    [merge_impl] / [explode_impl] (w = walk_width = 64) are what the correspondence runner compares with the
    implementation; Proofs/MergeDocsWidth.v proves them equal to [merge] / [explode] on well-formed shards, and that a
    32-bit walk is NOT (C16_walk32_refuted). *)
Fixpoint copy_docs_w (w : nat) (sh : shard) (docs : list sdoc) (b : shard) (last : option nat) : outcome shard :=
  match docs with
  | [] => Ok b
  | d :: rest =>
      match nth_error (sh_repos sh) (sd_repo d) with
      | None => Panic 1
      | Some r =>
          if sr_tomb r then copy_docs_w w sh rest b last
          else
            do b1 <- (match last with
                      | Some l => if Nat.eqb l (sd_repo d) then Ok b
                                  else if (sd_repo d <? l)%nat then Err 4
                                  else set_repo b r
                      | None => set_repo b r
                      end);
            do dd <- decode_w w sh d;
            do b2 <- add_doc b1 dd;
            copy_docs_w w sh rest b2 (Some (sd_repo d))
      end
  end.
Fixpoint merge_loop_w (w : nat) (shards : list shard) (b : shard) : outcome shard :=
  match shards with
  | [] => Ok b
  | sh :: rest => do b' <- copy_docs_w w sh (sh_docs sh) b None; merge_loop_w w rest b'
  end.
Definition merge_w (w : nat) (shards : list shard) : outcome shard :=
  match shards with
  | [] => Err 5
  | _ => merge_loop_w w (sort_prio shards) empty_builder
  end.
Fixpoint explode_docs_w (w : nat) (sh : shard) (docs : list sdoc) (cur : option shard) (last : option nat) (done : list shard)
  : outcome (list shard) :=
  match docs with
  | [] => Ok (done ++ opt_list cur)
  | d :: rest =>
      match nth_error (sh_repos sh) (sd_repo d) with
      | None => Panic 1
      | Some r =>
          if sr_tomb r then explode_docs_w w sh rest cur last done
          else
            let same := match last with Some l => Nat.eqb l (sd_repo d) | None => false end in
            let bad := match last with Some l => (sd_repo d <? l)%nat | None => false end in
            if same then
              match cur with
              | None => Panic 4
              | Some b =>
                  do dd <- decode_w w sh d; do b2 <- add_doc b dd;
                  explode_docs_w w sh rest (Some b2) (Some (sd_repo d)) done
              end
            else if bad then Err 4
            else
              do b1 <- set_repo empty_builder r;
              do dd <- decode_w w sh d; do b2 <- add_doc b1 dd;
              explode_docs_w w sh rest (Some b2) (Some (sd_repo d)) (done ++ opt_list cur)
      end
  end.
Definition explode_w (w : nat) (sh : shard) : outcome (list shard) := explode_docs_w w sh (sh_docs sh) None None [].
Definition merge_impl : list shard -> outcome shard := merge_w walk_width.
Definition explode_impl : shard -> outcome (list shard) := explode_w walk_width.

(** ---- what a search / List can see of a shard: per document of a live repo, the repo id and the decoded
    document (name, content, branches, language, sub-repo path, symbols, category) *)
Definition view_doc (sh : shard) (d : sdoc) : list (N * ddoc) :=
  match nth_error (sh_repos sh) (sd_repo d), decode sh d with
  | Some r, Ok dd => if sr_tomb r then [] else [(sr_id r, dd)]
  | _, _ => []
  end.
Definition view (sh : shard) : list (N * ddoc) := flat_map (view_doc sh) (sh_docs sh).
(** the same with the whole repository record instead of its id: what List reports of a repository and what
    Search reads of it (id, priority, tombstone flag, branch names in order -- bit 0 is HEAD --, sub-repository
    paths) *)
Definition viewr_doc (sh : shard) (d : sdoc) : list (srepo * ddoc) :=
  match nth_error (sh_repos sh) (sd_repo d), decode sh d with
  | Some r, Ok dd => if sr_tomb r then [] else [(r, dd)]
  | _, _ => []
  end.
Definition viewr (sh : shard) : list (srepo * ddoc) := flat_map (viewr_doc sh) (sh_docs sh).
Definition id_entry (e : srepo * ddoc) : N * ddoc := (sr_id (fst e), snd e).

(** ---- decidable preconditions of the totality theorems (Proofs/MergeDocsTotal.v proves that they reflect
    [wf_shard] and [mergeable]); evaluated by the runner on every generated input *)
Fixpoint nodupb (l : list N) : bool :=
  match l with [] => true | x :: r => negb (memN x r) && nodupb r end.
Definition wf_docb (sh : shard) (d : sdoc) : bool :=
  match nth_error (sh_repos sh) (sd_repo d) with
  | Some r => Nat.eqb (length (sd_mask d)) (length (sr_branches r)) && nodupb (sr_branches r) &&
              (sd_sub d <? length (sr_subs r))%nat && nodupb (sr_subs r)
  | None => false
  end.
Definition wf_shardb (sh : shard) : bool := forallb (wf_docb sh) (sh_docs sh).
(** repo index of a document of a live repository (what merge / explode compare with lastRepoID) *)
Definition live_id (sh : shard) (d : sdoc) : list nat :=
  match nth_error (sh_repos sh) (sd_repo d) with
  | Some r => if sr_tomb r then [] else [sd_repo d]
  | None => []
  end.
Definition live_ids (sh : shard) (docs : list sdoc) : list nat := flat_map (live_id sh) docs.
Fixpoint nondecb (lo : nat) (l : list nat) : bool :=
  match l with [] => true | x :: r => (lo <=? x)%nat && nondecb x r end.
Definition br64b (sh : shard) (d : sdoc) : bool :=
  match nth_error (sh_repos sh) (sd_repo d) with
  | Some r => sr_tomb r || (length (sr_branches r) <=? 64)%nat
  | None => true
  end.
Definition mergeableb (sh : shard) : bool :=
  nondecb 0 (live_ids sh (sh_docs sh)) && forallb (br64b sh) (sh_docs sh).

(** ======================= correspondence runner ======================= *)
Definition sym_eqb (a b : N * N * N) : bool :=
  let '(a1, a2, a3) := a in let '(b1, b2, b3) := b in N.eqb a1 b1 && N.eqb a2 b2 && N.eqb a3 b3.
Definition ddoc_eqb (a b : ddoc) : bool :=
  N.eqb (dd_name a) (dd_name b) && N.eqb (dd_content a) (dd_content b) &&
  list_eqb N.eqb (dd_branches a) (dd_branches b) && N.eqb (dd_lang a) (dd_lang b) &&
  N.eqb (dd_sub a) (dd_sub b) && list_eqb sym_eqb (dd_syms a) (dd_syms b) && N.eqb (dd_cat a) (dd_cat b).
Definition entry_eqb (a b : N * ddoc) : bool := N.eqb (fst a) (fst b) && ddoc_eqb (snd a) (snd b).
Definition srepo_eqb (a b : srepo) : bool :=
  N.eqb (sr_id a) (sr_id b) && N.eqb (sr_prio a) (sr_prio b) && Bool.eqb (sr_tomb a) (sr_tomb b) &&
  list_eqb N.eqb (sr_branches a) (sr_branches b) && list_eqb N.eqb (sr_subs a) (sr_subs b).

(** observed output shard: its repo list (List) and its view (decoded by the real accessors) *)
Definition oshard := (list srepo * list (N * ddoc))%type.
Definition oshard_ok (sh : shard) (o : oshard) : bool :=
  list_eqb srepo_eqb (sh_repos sh) (fst o) && list_eqb entry_eqb (view sh) (snd o).

(** case = (mode 0: merge inputs -> one output | mode 1: explode the single input -> outputs,
            inputs (encoded), error observed?, observed outputs) *)
Definition c16case := (N * list shard * bool * list oshard)%type.
Definition c16_ok_out (c : c16case) : bool :=
  let '(mode, inputs, failed, outs) := c in
  match mode with
  | 0%N =>
      match merge_impl inputs, outs with
      | Ok b, [o] => negb failed && oshard_ok b o
      | Err _, _ => failed
      | _, _ => false
      end
  | _ =>
      match inputs with
      | [sh] =>
          match explode_impl sh with
          | Ok bs => negb failed && Nat.eqb (length bs) (length outs) &&
                     forallb (fun p => oshard_ok (fst p) (snd p)) (combine bs outs)
          | Err _ => failed
          | Panic _ => false
          end
      | _ => false
      end
  end.
(** every generated input must satisfy the hypotheses of the theorems (well-formed, mergeable); then the totality
    theorems apply and a failure of the real Merge / explode can never be accepted ([Err _ => failed] is
    unreachable: Proofs/MergeDocsTotal.v c16_ok_no_failure) *)
Definition c16_pre (sh : shard) : bool := wf_shardb sh && mergeableb sh.
Definition c16_ok (c : c16case) : bool :=
  let '(mode, inputs, failed, outs) := c in forallb c16_pre inputs && c16_ok_out c.
Definition c16_mismatches (cs : list c16case) : list N := bad_indexes c16_ok cs.
