(** C08 — the two case-insensitive evaluations of a literal pattern, on one document.

    Substring path (index/indexdata.go:iterateNgrams, hititer.go, matchiter.go, bits.go):
      * every trigram of the pattern must occur somewhere in the corpus in some case variant
        (generateCaseNgrams = product of the SimpleFold orbits of its three runes), else "freq=0": no match;
      * candidates come from the two selective trigrams [sel] (first, last) in case variants at the right distance;
      * a candidate is verified by caseFoldingEqualsRunes(toLower(pattern), content): rune by rune
        ToLower(pattern rune) = ToLower(content rune)  (the ASCII fast path computes the same thing);
        the match size is the byte size of the content runes consumed.
    Regexp path ((?i) + the literal, through the engine): content rune in the SimpleFold orbit of the pattern rune.
    Both: gatherMatches keeps the leftmost matches that do not overlap.
    Text = list of runes (valid UTF-8 documents); ranges = (byte offset, byte size). *)
From Coq Require Import List NArith Arith Bool.
From ZV Require Import Lib.Base Generated.UnicodeTables Model.Regex Model.CaseFold.
Import ListNotations.

Definition utf8_len (c : N) : nat :=
  if (c <? 128)%N then 1 else if (c <? 2048)%N then 2 else if (c <? 65536)%N then 3 else 4.
Fixpoint byte_len (t : list N) : nat := match t with [] => 0 | c :: t' => utf8_len c + byte_len t' end.

Fixpoint match_preds (ps : list (N -> bool)) (t : list N) : bool :=
  match ps, t with
  | [], _ => true
  | _ :: _, [] => false
  | f :: ps', c :: t' => f c && match_preds ps' t'
  end.

(** every position where all predicates hold, as (byte offset, byte size) *)
Fixpoint scan (ps : list (N -> bool)) (t : list N) (off : nat) : list (nat * nat) :=
  match t with
  | [] => []
  | c :: t' => (if match_preds ps t then [(off, byte_len (firstn (length ps) t))] else [])
               ++ scan ps t' (off + utf8_len c)
  end.
Fixpoint nonoverlap (l : list (nat * nat)) (last_end : nat) : list (nat * nat) :=
  match l with
  | [] => []
  | (o, s) :: l' => if Nat.leb last_end o then (o, s) :: nonoverlap l' (o + s) else nonoverlap l' last_end
  end.

(** unicode.ToLower equality (the verification of the substring path) *)
Definition lower_eq (pc c : N) : bool := (tolower pc =? tolower c)%N.
(** membership in the SimpleFold orbit (case variants of the prefilter; (?i) literal of the engine) *)
Definition orbit_eq (pc c : N) : bool := fold_eq orbit true pc c.

Definition covered (sel : list nat) (k : nat) : bool := existsb (fun f => Nat.leb f k && Nat.ltb k (f + 3)) sel.
Fixpoint sub_preds_from (sel : list nat) (p : list N) (k : nat) : list (N -> bool) :=
  match p with
  | [] => []
  | pc :: p' => (fun c => lower_eq pc c && (if covered sel k then orbit_eq pc c else true)) :: sub_preds_from sel p' (S k)
  end.
Definition sub_preds (sel : list nat) (p : list N) := sub_preds_from sel p 0.
Definition re_preds (p : list N) : list (N -> bool) := map orbit_eq p.

(** some position of the text carries a case variant of the trigram at pattern offset o *)
Fixpoint occurs (ps : list (N -> bool)) (t : list N) : bool :=
  match t with [] => false | _ :: t' => match_preds ps t || occurs ps t' end.
Definition trigram_preds (p : list N) (o : nat) : list (N -> bool) := map orbit_eq (firstn 3 (skipn o p)).
Definition all_trigrams_occur (p t : list N) : bool :=
  forallb (fun o => occurs (trigram_preds p o) t) (seq 0 (length p - 2)).

Definition substr_ci (sel : list nat) (p t : list N) : list (nat * nat) :=
  if all_trigrams_occur p t then nonoverlap (scan (sub_preds sel p) t 0) 0 else [].
Definition regex_ci (p t : list N) : list (nat * nat) := nonoverlap (scan (re_preds p) t 0) 0.

(** the runes on which lower-casing equality and orbit membership coincide (decidable: everything off the
    generated table is a fixed point of both maps) *)
Definition tolower_fold_agree (c : N) : bool :=
  let oc := orbit c in
  let lc := tolower c in
  forallb (fun row : N * N * N =>
             let '(r, lo, _) := row in
             Bool.eqb (lo =? lc)%N ((c =? r)%N || existsb (N.eqb r) oc)) utab.
Definition disagree_runes : list N := filter (fun c => negb (tolower_fold_agree c)) utab_runes.

(** ---- runner *)
Definition c08case := (list N * list N * list nat * list (nat * nat) * list (nat * nat))%type.
Definition ranges_beq (a b : list (nat * nat)) : bool :=
  list_eqb (fun x y => Nat.eqb (fst x) (fst y) && Nat.eqb (snd x) (snd y)) a b.
Definition c08_sub_ok (c : c08case) : bool := let '(p, t, sel, so, _) := c in ranges_beq (substr_ci sel p t) so.
Definition c08_re_ok (c : c08case) : bool := let '(p, t, _, _, ro) := c in ranges_beq (regex_ci p t) ro.
Fixpoint c08_codes (l : list c08case) (i : N) : list N :=
  match l with
  | [] => []
  | c :: l' =>
      let code := ((if c08_sub_ok c then 0 else 1) + (if c08_re_ok c then 0 else 2))%N in
      if (code =? 0)%N then c08_codes l' (N.succ i) else (4 * i + code)%N :: c08_codes l' (N.succ i)
  end.
Definition c08_mismatches (l : list c08case) : list N := c08_codes l 0%N.

(** ---- generateCaseNgrams as the product of the three fold orbits (second runner: the real function's output on
    sampled trigrams is compared, as a duplicate-free set, with [variants3]) *)
Definition orbit_full (c : N) : list N := c :: orbit c.
Definition variants3 (a b c : N) : list (N * N * N) :=
  flat_map (fun x => flat_map (fun y => map (fun z => (x, y, z)) (orbit_full c)) (orbit_full b)) (orbit_full a).
Definition tri_eqb (u v : N * N * N) : bool :=
  let '(a, b, c) := u in let '(x, y, z) := v in (a =? x)%N && (b =? y)%N && (c =? z)%N.
Definition c08vcase := (N * N * N * list (N * N * N))%type.
Definition c08v_ok (cs : c08vcase) : bool :=
  let '(a, b, c, out) := cs in
  let vs := variants3 a b c in
  Nat.eqb (length vs) (length out) &&
  forallb (fun v => existsb (tri_eqb v) out) vs && forallb (fun o => existsb (tri_eqb o) vs) out.
Definition c08v_mismatches (l : list c08vcase) : list N := bad_indexes c08v_ok l.
