(** Model of index/limit.go (NewDisplayTruncator, limitMatches, limitLineMatches,
    limitChunkMatches, SortAndTruncateFiles), of SortFiles/boostNovelExtension
    (index/contentprovider.go) on abstract scores, and of search/aggregate.go's collectSender
    (Send = append, sort, truncate when a display limit is set; Done) and limitSender (the stateful
    truncator applied to a stream of batches).

    Abstractions: a line match is an identifier plus the list of its fragment identifiers; a chunk
    match is its Content (bytes), its Ranges as (identifier, End.LineNumber) and whether SymbolInfo
    is non-nil.  File scores are integers (the correspondence generates integral float64 scores,
    for which the float comparison [s < s0*0.9] coincides with [10 s < 9 s0]; see NOTES.md).
    sort.Sort (unstable) is modelled as a stable insertion sort: statements about order are "up to
    ties" exactly as the property says; the correspondence uses distinct scores. *)
From ZV Require Import Lib.Base.

Record lmatch := { lm_id : N; lm_frags : list N }.
Record cmatch := { cm_content : list N; cm_ranges : list (N * N); cm_sym : bool }.
Record file := { f_id : N; f_score : Z; f_ext : N; f_lines : list lmatch; f_chunks : list cmatch }.

Definition set_frags (l : lmatch) (fr : list N) : lmatch := {| lm_id := lm_id l; lm_frags := fr |}.
Definition set_lines (f : file) (ls : list lmatch) : file :=
  {| f_id := f_id f; f_score := f_score f; f_ext := f_ext f; f_lines := ls; f_chunks := f_chunks f |}.
Definition set_chunks (f : file) (cs : list cmatch) : file :=
  {| f_id := f_id f; f_score := f_score f; f_ext := f_ext f; f_lines := f_lines f; f_chunks := cs |}.

(** ---- limitLineMatches: returns the kept line matches and the remaining limit *)
Fixpoint limit_lines (ls : list lmatch) (limit : nat) : list lmatch * nat :=
  match ls with
  | [] => ([], limit)
  | l :: r =>
      if limit <=? length (lm_frags l)
      then ([set_frags l (firstn limit (lm_frags l))], 0)
      else let '(r', lim') := limit_lines r (limit - length (lm_frags l)) in (l :: r', lim')
  end.

(** ---- limitChunkMatches.
    Content trimming: remove the last [n] (n > 0) lines.  [trim_scan rc n keep]: [rc] is the
    reversed content still to scan (from the end towards the start), returns the reversed kept
    content; [keep] = the terminator found is kept (true only when Content ended in a newline).
    None = "Failed to find enough newlines" (log.Panicf). *)
Fixpoint trim_scan (rc : list N) (n : nat) (keep : bool) : option (list N) :=
  match rc with
  | [] => None
  | c :: r =>
      let n' := if N.eqb c 10 then n - 1 else n in
      if n' =? 0 then Some (if keep then c :: r else r) else trim_scan r n' keep
  end.

(** the code before the repair (fix: commit recorded in props/C22/known-findings.json): the scan
    starts at the last byte and assumes Content has no trailing newline *)
Definition trim_content_old (content : list N) (n : nat) : option (list N) :=
  option_map (@rev N) (trim_scan (rev content) n false).

(** the repaired code: one trailing newline terminates the last line; it is skipped by the scan and
    the terminator of the new last line is kept in that case *)
Definition trim_content (content : list N) (n : nat) : option (list N) :=
  match rev content with
  | c :: r => if N.eqb c 10
              then option_map (@rev N) (trim_scan r n true)
              else option_map (@rev N) (trim_scan (c :: r) n false)
  | [] => None
  end.

Definition last_end (rs : list (N * N)) : N := snd (last rs (0%N, 0%N)).

(** cut one chunk that has more than [limit] ranges down to [limit] (limit >= 1 at every call site;
    limit = 0 indexes Ranges[-1]: panic 1).  uint32 subtraction of the End.LineNumbers: a negative
    difference wraps to >= 2^31 newlines to remove, which no Content has: panic 2 as well. *)
Definition cut_chunk (c : cmatch) (limit : nat) : outcome cmatch :=
  match limit with
  | O => Panic 1
  | S k =>
      match nth_error (cm_ranges c) k with
      | None => Panic 1
      | Some (_, e_new) =>
          let e_old := last_end (cm_ranges c) in
          if (e_old <? e_new)%N then Panic 2 else
          let n := N.to_nat (e_old - e_new) in
          let rs := firstn limit (cm_ranges c) in
          match n with
          | O => Ok {| cm_content := cm_content c; cm_ranges := rs; cm_sym := cm_sym c |}
          | _ => match trim_content (cm_content c) n with
                 | None => Panic 2
                 | Some ct => Ok {| cm_content := ct; cm_ranges := rs; cm_sym := cm_sym c |}
                 end
          end
      end
  end.

Fixpoint limit_chunks (cs : list cmatch) (limit : nat) : outcome (list cmatch * nat) :=
  match cs with
  | [] => Ok ([], limit)
  | c :: r =>
      if limit <? length (cm_ranges c)
      then do c' <- cut_chunk c limit; Ok ([c'], 0)
      else if limit =? length (cm_ranges c) then Ok ([c], 0)
      else do p <- limit_chunks r (limit - length (cm_ranges c)); Ok (c :: fst p, snd p)
  end.

(** ---- limitMatches *)
Definition limit_file (chunk_mode : bool) (f : file) (limit : nat) : outcome (file * nat) :=
  if chunk_mode
  then do p <- limit_chunks (f_chunks f) limit; Ok (set_chunks f (fst p), snd p)
  else let '(ls, lim) := limit_lines (f_lines f) limit in Ok (set_lines f ls, lim).

Fixpoint limit_matches (chunk_mode : bool) (fs : list file) (limit : nat) : outcome (list file * nat) :=
  match fs with
  | [] => Ok ([], limit)
  | f :: r =>
      do p <- limit_file chunk_mode f limit;
      if snd p =? 0 then Ok ([fst p], 0)
      else do q <- limit_matches chunk_mode r (snd p); Ok (fst p :: fst q, snd q)
  end.

(** ---- NewDisplayTruncator: options and the closure's state *)
Record topts := { o_doc : Z; o_match : Z; o_chunk : bool }.
Record tstate := { t_doc : nat; t_match : nat; t_done : bool }.
Definition doc_limited (o : topts) : bool := (0 <? o_doc o)%Z.
Definition match_limited (o : topts) : bool := (0 <? o_match o)%Z.
Definition has_limits (o : topts) : bool := doc_limited o || match_limited o.
Definition init_state (o : topts) : tstate :=
  {| t_doc := Z.to_nat (o_doc o); t_match := Z.to_nat (o_match o); t_done := false |}.

(** one call of the DisplayTruncator: new state, returned files, hasMore *)
Definition trunc_step (o : topts) (st : tstate) (fm : list file) : outcome (tstate * list file * bool) :=
  if negb (has_limits o) then Ok (st, fm, true) else
  if t_done st then Ok (st, [], false) else
  let '(done1, fm1, doc1) :=
    if doc_limited o then
      if t_doc st <=? length fm
      then (true, firstn (t_doc st) fm, t_doc st - length (firstn (t_doc st) fm))
      else (false, fm, t_doc st - length fm)
    else (false, fm, t_doc st) in
  if match_limited o then
    do p <- limit_matches (o_chunk o) fm1 (t_match st);
    let done2 := done1 || (snd p =? 0) in
    Ok ({| t_doc := doc1; t_match := snd p; t_done := done2 |}, fst p, negb done2)
  else Ok ({| t_doc := doc1; t_match := t_match st; t_done := done1 |}, fm1, negb done1).

(** a fresh truncator applied once *)
Definition truncate (o : topts) (fm : list file) : outcome (list file) :=
  do r <- trunc_step o (init_state o) fm; Ok (snd (fst r)).

(** limitSender: the same truncator applied to every batch of the stream *)
Fixpoint trunc_stream (o : topts) (st : tstate) (bs : list (list file)) : outcome (list (list file * bool)) :=
  match bs with
  | [] => Ok []
  | b :: r =>
      do x <- trunc_step o st b;
      do rest <- trunc_stream o (fst (fst x)) r;
      Ok ((snd (fst x), snd x) :: rest)
  end.

(** ---- SortFiles: sort by decreasing score, then boostNovelExtension(ms, 2, 0.9) *)
Fixpoint ins_desc (x : file) (l : list file) : list file :=
  match l with
  | [] => [x]
  | y :: r => if (f_score y <? f_score x)%Z then x :: l else y :: ins_desc x r
  end.
Definition sort_desc (l : list file) : list file := fold_right ins_desc [] l.

Definition ext_in (e : N) (top : list file) : bool := existsb (fun t => N.eqb (f_ext t) e) top.

(** first candidate (index, file) whose score is not below 0.9 x the first candidate's and whose
    extension does not occur in [top] *)
Fixpoint find_novel (top : list file) (s0 : Z) (cands : list file) (i : nat) : option (nat * file) :=
  match cands with
  | [] => None
  | c :: r =>
      if (10 * f_score c <? 9 * s0)%Z then find_novel top s0 r (S i)
      else if ext_in (f_ext c) top then find_novel top s0 r (S i)
      else Some (i, c)
  end.

Definition boost_offset : nat := 2.
Definition boost (ms : list file) : list file :=
  if length ms <=? boost_offset + 1 then ms else
  let top := firstn boost_offset ms in
  let cands := skipn boost_offset ms in
  match cands with
  | [] => ms
  | c0 :: _ =>
      match find_novel top (f_score c0) cands 0 with
      | None => ms
      | Some (i, c) => top ++ c :: firstn i cands ++ skipn (S i) cands
      end
  end.

Definition sort_files (ms : list file) : list file := boost (sort_desc ms).
Definition sort_and_truncate (o : topts) (ms : list file) : outcome (list file) :=
  truncate o (sort_files ms).

(** ---- collectSender: Send for every batch, then Done *)
Definition collect_send (o : topts) (agg : list file) (b : list file) : outcome (list file) :=
  match b with
  | [] => Ok agg
  | _ => if has_limits o then sort_and_truncate o (agg ++ b) else Ok (agg ++ b)
  end.
Fixpoint collect_sends (o : topts) (agg : list file) (bs : list (list file)) : outcome (list file) :=
  match bs with
  | [] => Ok agg
  | b :: r => do agg' <- collect_send o agg b; collect_sends o agg' r
  end.
Definition collect (o : topts) (bs : list (list file)) : outcome (list file) :=
  do agg <- collect_sends o [] bs;
  if has_limits o then Ok agg else sort_and_truncate o agg.

(** the batch reference: rank everything once, truncate once *)
Definition batch (o : topts) (bs : list (list file)) : outcome (list file) :=
  sort_and_truncate o (concat bs).

(** ---- correspondence runner.
    case = (mode, (docLimit, matchLimit, chunkMode), batches, observed) with
    mode 0 = SortAndTruncateFiles on the first batch, 1 = one DisplayTruncator over the batches
    (limitSender), 2 = collectSender Send* / Done; observed = None when the Go code panicked. *)
Definition rline := (N * list N)%type.
Definition rchunk := (list N * list (N * N) * bool)%type.
Definition rfile := (N * Z * N * list rline * list rchunk)%type.
Definition c22case := (N * (Z * Z * bool) * list (list rfile) * option (list (list rfile * bool)))%type.

Definition mk_line (l : rline) : lmatch := {| lm_id := fst l; lm_frags := snd l |}.
Definition mk_chunk (c : rchunk) : cmatch :=
  let '(ct, rs, sy) := c in {| cm_content := ct; cm_ranges := rs; cm_sym := sy |}.
Definition mk_file (f : rfile) : file :=
  let '(i, s, e, ls, cs) := f in
  {| f_id := i; f_score := s; f_ext := e; f_lines := map mk_line ls; f_chunks := map mk_chunk cs |}.
Definition un_line (l : lmatch) : rline := (lm_id l, lm_frags l).
Definition un_chunk (c : cmatch) : rchunk := (cm_content c, cm_ranges c, cm_sym c).
Definition un_file (f : file) : rfile :=
  (f_id f, f_score f, f_ext f, map un_line (f_lines f), map un_chunk (f_chunks f)).

Definition pairN_eqb (a b : N * N) : bool := N.eqb (fst a) (fst b) && N.eqb (snd a) (snd b).
Definition rline_eqb (a b : rline) : bool := N.eqb (fst a) (fst b) && list_eqb N.eqb (snd a) (snd b).
Definition rchunk_eqb (a b : rchunk) : bool :=
  let '(a1, a2, a3) := a in let '(b1, b2, b3) := b in
  list_eqb N.eqb a1 b1 && list_eqb pairN_eqb a2 b2 && Bool.eqb a3 b3.
Definition rfile_eqb (a b : rfile) : bool :=
  let '(a1, a2, a3, a4, a5) := a in let '(b1, b2, b3, b4, b5) := b in
  N.eqb a1 b1 && Z.eqb a2 b2 && N.eqb a3 b3 && list_eqb rline_eqb a4 b4 && list_eqb rchunk_eqb a5 b5.
Definition rout_eqb (a b : list rfile * bool) : bool :=
  list_eqb rfile_eqb (fst a) (fst b) && Bool.eqb (snd a) (snd b).

Definition c22_model (mode : N) (o : topts) (bs : list (list file)) : outcome (list (list file * bool)) :=
  match mode with
  | 0%N => do r <- sort_and_truncate o (hd [] bs); Ok [(r, true)]
  | 1%N => trunc_stream o (init_state o) bs
  | _ => do r <- collect o bs; Ok [(r, true)]
  end.

Definition c22_ok (c : c22case) : bool :=
  let '(mode, (d, m, ch), bs, obs) := c in
  let o := {| o_doc := d; o_match := m; o_chunk := ch |} in
  match c22_model mode o (map (map mk_file) bs), obs with
  | Ok r, Some g => list_eqb rout_eqb (map (fun p => (map un_file (fst p), snd p)) r) g
  | Panic _, None => true
  | _, _ => false
  end.
Definition c22_mismatches (cs : list c22case) : list N := bad_indexes c22_ok cs.
