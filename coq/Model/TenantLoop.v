(** C23 / C17 — the document loop of indexData.Search (index/eval.go, label nextFileMatch) with its
    per-document guard sequence in the ORDER and CONTROL FLOW of the code, for every SearchOptions setting.

      nextFileMatch:
      for {
          canceled := ctx.Done() ?
          nextDoc := mt.nextDoc(); if int(nextDoc) <= lastDoc { nextDoc = lastDoc + 1 }
          for ; nextDoc < docCount; nextDoc++ {                       (* the SKIP loop: [skip_loop] *)
              repoID := d.repos[nextDoc]; md := &d.repoMetaData[repoID]
              if md.Tombstone { continue }                                              (* guard 1 *)
              if !tenant.HasAccess(ctx, md.TenantID) { continue }                       (* guard 2 *)
              if fileName(nextDoc) in md.FileTombstones { continue }                    (* guard 3 *)
              if opts.ShardRepoMaxMatchCount > 0 &&
                 repoMatchCount >= opts.ShardRepoMaxMatchCount && repoID == lastRepoID {
                  FilesSkipped++; continue }                                            (* guard 4 *)
              break                                                   (* = the document is ACCEPTED *)
          }
          if nextDoc >= docCount { break }
          lastDoc = nextDoc
          if lastRepoID != d.repos[nextDoc] { lastRepoID = d.repos[nextDoc]; repoMatchCount = 0 }
          if canceled || (Stats.MatchCount >= opts.ShardMaxMatchCount && opts.ShardMaxMatchCount > 0) { break }
          evaluate the match tree on nextDoc;  matchesNone => continue nextFileMatch
          build the FileMatch; repoMatchCount += #line matches + #chunk ranges; MatchCount += the same
      }

    Abstract (universally quantified in the theorems):
      [m r d]    does document d of repository r satisfy the query,
      [w r d]    the number of line matches + chunk-match ranges of the file match built for d (any Z),
      [nd p]     what mt.nextDoc() answers when the loop is at position p = lastDoc + 1 (ANY function; the
                 code takes the maximum with lastDoc + 1),
      [cancel p] whether ctx.Done() fires in the iteration that starts at position p,
      [o]        SearchOptions after SetDefaults: ShardRepoMaxMatchCount, ShardMaxMatchCount (any Z).
    The flat document array is derived from the shard: documents of a repository are contiguous, the i-th
    repository has repoID i. *)
From ZV Require Import Lib.Base Model.Tenant.
Open Scope Z_scope.

Record sopts := { o_repomax : Z; o_shardmax : Z }.

(** d.repos[doc], d.repoMetaData[d.repos[doc]], the document *)
Definition fdoc := (nat * repo * doc)%type.

Fixpoint flatten_from (i : nat) (s : shard) : list fdoc :=
  match s with
  | [] => []
  | (r, ds) :: t => map (fun d => (i, r, d)) ds ++ flatten_from (S i) t
  end.
Definition flatten (s : shard) : list fdoc := flatten_from 0 s.

(** loop-carried state: lastRepoID, repoMatchCount, res.Stats.MatchCount *)
Record lstate := { ls_lastrepo : nat; ls_rmc : Z; ls_mc : Z }.
Definition lstate0 : lstate := {| ls_lastrepo := 0; ls_rmc := 0; ls_mc := 0 |}.

(** the guard sequence of one pass through the body of the skip loop; [true] = reaches [break] *)
Definition guards_pass (strict : bool) (c : tctx) (o : sopts) (st : lstate) (x : fdoc) : bool :=
  let '(rid, r, d) := x in
  if r_tomb r then false                                             (* Skip tombstoned repositories *)
  else if negb (has_access strict c (r_tenant r)) then false         (* SECURITY: tenant *)
  else if d_ftomb d then false                                       (* Skip documents that are tombstoned *)
  else if (0 <? o_repomax o) && ((o_repomax o <=? ls_rmc st) && Nat.eqb rid (ls_lastrepo st)) then false
  else true.

(** for ; nextDoc < docCount; nextDoc++ { ... }  — returns the accepted document and what follows it *)
Fixpoint skip_loop (strict : bool) (c : tctx) (o : sopts) (st : lstate) (rest : list fdoc)
  : option (fdoc * list fdoc) :=
  match rest with
  | [] => None
  | x :: t => if guards_pass strict c o st x then Some (x, t) else skip_loop strict c o st t
  end.

Section Loop.
  Variables (strict : bool) (c : tctx) (o : sopts).
  Variables (nd : nat -> nat) (cancel : nat -> bool).
  Variables (m : repo -> doc -> bool) (w : repo -> doc -> Z).
  Variable total : nat.   (* docCount *)

  (** the outer loop; [rest] = the documents after lastDoc, so lastDoc + 1 = total - length rest.
      [fuel]: one unit per iteration; every iteration consumes at least one document, so
      [S (length rest)] units always suffice ([doc_loop_fuel] in Proofs/TenantLoop.v). *)
  Fixpoint doc_loop (fuel : nat) (rest : list fdoc) (st : lstate) : list fmatch :=
    match fuel with
    | O => []
    | S fuel' =>
        let pos := (total - length rest)%nat in
        let cand := skipn (nd pos - pos)%nat rest in      (* max (mt.nextDoc()) (lastDoc + 1) *)
        match skip_loop strict c o st cand with
        | None => []                                       (* nextDoc >= docCount *)
        | Some ((rid, r, d), rest') =>
            let st1 := if Nat.eqb (ls_lastrepo st) rid then st
                       else {| ls_lastrepo := rid; ls_rmc := 0; ls_mc := ls_mc st |} in
            if cancel pos || ((o_shardmax o <=? ls_mc st1) && (0 <? o_shardmax o)) then []
            else if m r d then
              mk_fm r d :: doc_loop fuel' rest'
                             {| ls_lastrepo := ls_lastrepo st1; ls_rmc := ls_rmc st1 + w r d; ls_mc := ls_mc st1 + w r d |}
            else doc_loop fuel' rest' st1
        end
    end.
End Loop.

(** indexData.Search with options: early exits, the document loop, the final addRepo loop *)
Definition search_opts (strict : bool) (c : tctx) (s : shard) (scan : bool) (o : sopts)
           (nd : nat -> nat) (cancel : nat -> bool) (m : repo -> doc -> bool) (w : repo -> doc -> Z) : sresult :=
  if negb scan then empty_sresult
  else
    let uf := fold_left (repo_urls true strict c) (map fst s) ([], []) in
    let fl := flatten s in
    {| sr_files := doc_loop strict c o nd cancel m w (length fl) (S (length fl)) fl lstate0;
       sr_urls := fst uf; sr_frags := snd uf |}.

(** the iterator that never jumps, no cancellation *)
Definition nd_id (p : nat) : nat := p.
Definition no_cancel (_ : nat) : bool := false.

(** ---- correspondence runner (shard level, limited searches) --------------------------------------- *)
(** (ShardRepoMaxMatchCount, ShardMaxMatchCount after SetDefaults, [(file id, #matches of its file match)],
     observed files of the limited search) *)
Definition c23lim := (Z * Z * list (N * Z) * list (N * N * N * N))%type.
Fixpoint lookupZ (k : N) (l : list (N * Z)) : Z :=
  match l with
  | [] => 1
  | (k', v) :: t => if N.eqb k k' then v else lookupZ k t
  end.
Definition c23l_case := (c23case * c23lim)%type.

Definition c23l_ok (cl : c23l_case) : bool :=
  let '(cs, (rmax, smax, ws, ofiles_lim)) := cl in
  c23_ok cs &&
  let '(strict, cz, sh, scan, _, _, _, _) := cs in
  let c := mk_ctx cz in
  let s := mk_shard sh in
  let mf := matching_files sh in
  let m := fun (_ : repo) (d : doc) => memN (d_file d) mf in
  let w := fun (_ : repo) (d : doc) => lookupZ (d_file d) ws in
  let sr := search_opts strict c s scan {| o_repomax := rmax; o_shardmax := smax |} nd_id no_cancel m w in
  list_eqb row4_eqb (map fm_row (sr_files sr)) ofiles_lim.
Definition c23l_mismatches (cs : list c23l_case) : list N := bad_indexes c23l_ok cs.
