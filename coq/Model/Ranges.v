(** Model for property C02 (match ranges are real, ordered and complete):

      index/eval.go:gatherMatches (sort.Sort(sortByOffsetSlice) + overlap filter,
                                   synthetic file-name range when no atom contributed)      gather
      index/shard_builder.go:newSearchableString (rune offset sampling every
                                   runeOffsetFrequency runes, endRunes, endByte)             sample_corpus
      index/bits.go:makeRuneOffsetMap / runeOffsetMap.lookup (sort.Search as in Go)           make_map / lookup
      index/contentprovider.go:findOffset (PlainASCII shortcut, sample lookup, restart at the
                                   document start when the sample precedes the document,
                                   read window clipped to the document, utf8.DecodeRune loop) find_offset

    Candidates / Less / insertion sort / breakMatchesOnNewlines are shared with Model/Lines.v.
    The constants runeOffsetFrequency and the read-window factor come from the source
    (Generated/RangesConsts.v, regenerated on every run).  No proofs in this file. *)
From ZV Require Import Lib.Base Lib.GoSearch Lib.RuneCount Model.Lines Generated.RangesConsts.

(** ---- gatherMatches *)
Fixpoint overlap_aux (last : cand) (l : list cand) : list cand :=
  match l with
  | [] => []
  | x :: r =>
      if negb (Bool.eqb (c_fn last) (c_fn x)) then x :: overlap_aux x r      (* never compare filename and content *)
      else if c_end last <=? c_off x then x :: overlap_aux x r
      else overlap_aux last r
  end.
Definition overlap_filter (l : list cand) : list cand :=
  match l with [] => [] | x :: r => x :: overlap_aux x r end.

Definition gather (name_len : nat) (cands : list cand) : list cand :=
  match cands with
  | [] => [{| c_fn := true; c_off := 0; c_sz := name_len |}]
  | _ => overlap_filter (sort_cands cands)
  end.

(** ---- rune offset sampling of the builder: one postingsBuilder walks the documents in order *)
Fixpoint sample_doc (freq : nat) (data : list N) (skip idx off : nat) : list nat * nat :=
  match data with
  | [] => ([], idx)
  | b0 :: r =>
      match skip with
      | S k => sample_doc freq r k idx (S off)
      | 0 => let '(l, n) := sample_doc freq r (rune_width b0 r - 1) (S idx) (S off) in
             ((if idx mod freq =? 0 then [off] else []) ++ l, n)
      end
  end.

Record corpus := { k_samples : list nat; k_end_runes : list nat; k_bounds : list nat }.

Fixpoint sample_corpus (freq : nat) (docs : list (list N)) (rc eb : nat) : corpus :=
  match docs with
  | [] => {| k_samples := []; k_end_runes := []; k_bounds := [eb] |}
  | d :: r =>
      let '(l, n) := sample_doc freq d 0 rc eb in
      let k := sample_corpus freq r n (eb + length d) in
      {| k_samples := l ++ k_samples k; k_end_runes := n :: k_end_runes k; k_bounds := eb :: k_bounds k |}
  end.

(** ---- makeRuneOffsetMap / lookup *)
Fixpoint make_map_aux (freq : nat) (off : list nat) (i expected : nat) : list (nat * nat) :=
  match off with
  | [] => []
  | b :: r => if b =? expected then make_map_aux freq r (S i) (expected + freq)
              else (i * freq, b) :: make_map_aux freq r (S i) (b + freq)
  end.
Definition make_map (freq : nat) (off : list nat) : list (nat * nat) := make_map_aux freq off 0 0.

Definition lookup (freq : nat) (m : list (nat * nat)) (r : nat) : nat * nat :=
  let left := r mod freq in
  let r' := r - left in
  let slen := length m in
  match slen with
  | 0 => (r', left)
  | _ =>
      let i := go_search slen (fun i => match nth_error m (slen - 1 - i) with
                                        | Some p => fst p <=? r'
                                        | None => true end) in
      (* idx = slen - 1 - i; idx = -1 (i = slen) means "before the first correction" *)
      if i <? slen
      then match nth_error m (slen - 1 - i) with
           | Some p => (snd p + r' - fst p, left)
           | None => (r', left)
           end
      else (r', left)
  end.

(** ---- findOffset.  [all] = the bytes of the file from the start of the content section on (all
    documents concatenated, followed by whatever the file holds next); [window] = bytes read by
    readContentSlice (None for file names, whose blob is in memory).  Err 1 = read past the end of file. *)
Definition find_offset (freq : nat) (window : option nat) (plain : bool) (m : list (nat * nat))
    (k : corpus) (all : list N) (idx r : nat) : outcome nat :=
  if plain then Ok r else
  do base <- (match idx with
              | 0 => Ok 0
              | S j => match nth_error (k_end_runes k) j with Some x => Ok x | None => Panic 3%N end
              end);
  do start <- (match nth_error (k_bounds k) idx with Some x => Ok x | None => Panic 4%N end);
  do fend <- (match nth_error (k_bounds k) (S idx) with Some x => Ok x | None => Panic 6%N end);
  let '(byte_off0, nleft0) := lookup freq m (r + base) in
  (* a sample that lies in an earlier document is not used: decode from the document start *)
  let '(byte_off, nleft) := if r <? nleft0 then (start, r) else (byte_off0, nleft0) in
  do data <- (match window with
              | Some w =>
                  (* min(w, fileEndByte-byteOff) in uint32: the difference wraps when byteOff > fileEndByte *)
                  let sz := if fend <? byte_off then w else Nat.min w (fend - byte_off) in
                  if byte_off + sz <=? length all then Ok (slice all byte_off (byte_off + sz)) else Err 1%N
              | None => go_slice all byte_off fend
              end);
  Ok (byte_off + runes_bytes data nleft - start).

Definition is_plain (docs : list (list N)) : bool :=
  forallb (fun d => forallb (fun b => (b <? 128)%N) d) docs.

(** the whole pipeline for one corpus: build the samples, compress, translate *)
Definition find_offset_corpus (freq : nat) (window : option nat) (plain : bool)
    (docs : list (list N)) (tail : list N) (idx r : nat) : outcome nat :=
  let k := sample_corpus freq docs 0 0 in
  find_offset freq window plain (make_map freq (k_samples k)) k (concat docs ++ tail) idx r.

Definition content_window : option nat := Some (find_offset_window_factor * rune_offset_frequency).

(** ---- wordMatchTree.matches (matchtree.go): the fast path that evaluates a case-sensitive regexp \bLIT\b without the regexp
    engine, on the BYTES of the document (or of the file name).  bits.go characterClass; isWord(i) = 0 <= i < len(data) &&
    characterClass(data[i]); an occurrence found by bytes.Index(data[offset:], word) at s is accepted when both of its ends
    are word/non-word transitions.  Resume offsets as repaired by /repo 260937d and d7a2c44: behind an ACCEPTED occurrence
    (offset = relEndOffset: the next occurrence may start exactly there), one byte past the start of a REJECTED one.
    fuel: every round advances the offset (the word is a non-empty OpLiteral), |data| + 1 rounds suffice. *)
Definition is_word_byte (c : N) : bool :=
  ((97 <=? c) && (c <=? 122) || (65 <=? c) && (c <=? 90) || (48 <=? c) && (c <=? 57) || (c =? 95))%N.
Definition word_at (data : list N) (i : nat) : bool :=
  match nth_error data i with Some c => is_word_byte c | None => false end.
Definition wboundary (data : list N) (i : nat) : bool :=
  negb (Bool.eqb (match i with 0 => false | S j => word_at data j end) (word_at data i)).
Fixpoint word_scan (w data : list N) (off fuel : nat) : list nat :=
  match fuel with
  | 0 => []
  | S f =>
      match index_sub w (skipn off data) with
      | None => []
      | Some idx =>
          let s := off + idx in
          let e := s + length w in
          if wboundary data s && wboundary data e then s :: word_scan w data e f
          else word_scan w data (S s) f
      end
  end.
Definition word_offsets (w data : list N) : list nat := word_scan w data 0 (S (length data)).
Definition word_cands (fn : bool) (w data : list N) : list cand :=
  map (fun s => {| c_fn := fn; c_off := s; c_sz := length w |}) (word_offsets w data).

(** ================= correspondence runner ================= *)
Definition pair_eqb (a b : N * N) : bool := N.eqb (fst a) (fst b) && N.eqb (snd a) (snd b).
Definition outN_eqb (a : outcome nat) (b : option N) : bool :=
  match a, b with
  | Ok x, Some y => N.eqb (N.of_nat x) y
  | Err _, None => true
  | Panic _, None => true
  | _, _ => false
  end.

Inductive c02case :=
| G_gather (name_len : N) (cands : list (bool * N * N)) (res : list (bool * N * N))   (* gatherMatches *)
| G_map (offs : list N) (m : list (N * N))                                             (* makeRuneOffsetMap *)
| G_lookup (m : list (N * N)) (r : N) (byte_off left : N)                               (* runeOffsetMap.lookup *)
| G_samples (docs : list (list N)) (samples end_runes : list N)                         (* builder sampling, read back from the shard *)
| G_brk (text : list N) (ms : list (bool * N * N)) (res : option (list (bool * N * N)))  (* breakMatchesOnNewlines; None = panic *)
| G_find (filename plain : bool) (docs : list (list N)) (tail : list N) (qs : list (N * N * option N))
    (* findOffset(filename, r) for (document, r) pairs; None = error / panic *)
| G_word (w data : list N) (offs : list N)
    (* wordMatchTree{word}.matches on a document with these bytes: byteOffset of the candidates, in order *)
| G_wordsearch (fn : bool) (w data : list N) (name_len : N) (res : list (bool * N * N))
    (* END TO END: the ranges Search reports in chunk mode for the case-sensitive query \bLIT\b on this document (content or
       file name) = gatherMatches over the word atom's candidates *).

Definition mk_map (m : list (N * N)) : list (nat * nat) := map (fun p => (N.to_nat (fst p), N.to_nat (snd p))) m.

Definition c02_ok (c : c02case) : bool :=
  match c with
  | G_gather nl cands res =>
      list_eqb cand_row_eqb (map cand_out (gather (N.to_nat nl) (map mk_cand cands))) res
  | G_map offs m =>
      list_eqb pair_eqb (map (fun p => (N.of_nat (fst p), N.of_nat (snd p)))
                             (make_map rune_offset_frequency (map N.to_nat offs))) m
  | G_lookup m r b l =>
      let '(b', l') := lookup rune_offset_frequency (mk_map m) (N.to_nat r) in
      N.eqb (N.of_nat b') b && N.eqb (N.of_nat l') l
  | G_samples docs samples end_runes =>
      let k := sample_corpus rune_offset_frequency docs 0 0 in
      nlist_eqb (map N.of_nat (k_samples k)) samples && nlist_eqb (map N.of_nat (k_end_runes k)) end_runes
  | G_brk text ms res =>
      opt_eqb (list_eqb cand_row_eqb) (do r <- break_matches text (map mk_cand ms); Ok (map cand_out r)) res
  | G_find filename plain docs tail qs =>
      forallb (fun q => let '(idx, r, res) := q in
                        outN_eqb (find_offset_corpus rune_offset_frequency
                                    (if filename then None else content_window) plain docs tail
                                    (N.to_nat idx) (N.to_nat r)) res) qs
  | G_word w data offs => nlist_eqb (map N.of_nat (word_offsets w data)) offs
  | G_wordsearch fn w data nl res =>
      list_eqb cand_row_eqb (map cand_out (gather (N.to_nat nl) (word_cands fn w data))) res
  end.
Definition c02_mismatches (cs : list c02case) : list N := bad_indexes c02_ok cs.
