(** An independent reading of doc/query_syntax.md: the documented grammar as an inductive type [dexpr],
    its documented meaning [den] (a query tree of Model/Query.v, whose [eval] is the reference
    semantics), and a printer [render] into concrete query strings.

    Grammar (EBNF of the document):
      query = conjunction {"or" conjunction};  conjunction = expression {expression};
      expression = ["-"] (grouping | text | field);  grouping = "(" query ")";  text = quoted | unquoted.
    Documented meaning: a field prefix (or its alias) selects the documented filter; "-" negates;
    parentheses group; juxtaposition is conjunction; "or" is a lower-precedence disjunction; case: and
    type: are directives of their enclosing group (type: wraps the whole group including its or-clauses,
    case: sets the case mode of every pattern in the group, nested groups included unless they carry
    their own case:); a quoted value stands for its unescaped contents; case:auto (the default) is
    case-sensitive exactly when the pattern has an upper-case letter; a pattern without regexp
    operators is a literal (the regexp engine, [rq], decides that - it is external here as in the
    parser model).  This file contains no proofs and does not mention the parser. *)
From ZV Require Import Lib.Base Model.Query.
From Coq Require Import String Ascii.
Notation length := List.length (only parsing).
Open Scope N_scope.

Definition dbs (s : string) : str := map (fun a => N_of_ascii a) (list_ascii_of_string s).

Inductive word := WPlain (v : str) | WQuoted (v : str).
Definition wvalue (w : word) : str := match w with WPlain v | WQuoted v => v end.

Inductive tfield := FContent | FFile | FRegex | FRepo | FSym | FBranch | FLang | FMeta (name : str).
Inductive bfield := BArchived | BFork | BPublic.
Inductive cflavor := CYes | CNo | CAuto.
Inductive rtype := TFileMatch | TFileName | TFile | TRepo.

Inductive dexpr :=
| DText (w : word)                                (* a bare search pattern *)
| DField (f : tfield) (alias : bool) (w : word)   (* content: file: regex: repo: sym: branch: lang: meta.<name>: *)
| DBool (f : bfield) (v : bool)                   (* archived: fork: public: *)
| DCase (k : cflavor)                             (* directive of the enclosing group *)
| DType (alias : bool) (t : rtype)                (* directive of the enclosing group *)
| DNeg (e : dexpr)
| DGroup (q : list (list dexpr)).                 (* "(" conjunction {"or" conjunction} ")" *)
Definition dquery := list (list dexpr).

(** ------------------------------------------------------------------ printer *)

Fixpoint esc (v : str) : str :=
  match v with
  | [] => []
  | c :: r => if (c =? 34) || (c =? 92) then 92 :: c :: esc r else c :: esc r
  end.
Definition render_word (w : word) : str :=
  match w with WPlain v => v | WQuoted v => 34 :: esc v ++ [34] end.

Definition field_prefix (f : tfield) (alias : bool) : str :=
  match f with
  | FContent => if alias then dbs "c:" else dbs "content:"
  | FFile => if alias then dbs "f:" else dbs "file:"
  | FRegex => dbs "regex:"
  | FRepo => if alias then dbs "r:" else dbs "repo:"
  | FSym => dbs "sym:"
  | FBranch => if alias then dbs "b:" else dbs "branch:"
  | FLang => dbs "lang:"
  | FMeta name => dbs "meta." ++ name ++ [58]
  end.
Definition bfield_prefix (f : bfield) : str :=
  match f with BArchived => dbs "archived:" | BFork => dbs "fork:" | BPublic => dbs "public:" end.
Definition flavor_text (k : cflavor) : str :=
  match k with CYes => dbs "yes" | CNo => dbs "no" | CAuto => dbs "auto" end.
Definition rtype_text (t : rtype) : str :=
  match t with TFileMatch => dbs "filematch" | TFileName => dbs "filename" | TFile => dbs "file" | TRepo => dbs "repo" end.

Fixpoint join (sep : str) (l : list str) : str :=
  match l with
  | [] => []
  | [x] => x
  | x :: r => x ++ sep ++ join sep r
  end.

(** [sp] = what is printed after an opening parenthesis.  The document writes groups as "(a b)"; the
    printer of the main theorem puts a blank there ("( a b)") - see C06_compact_group_refuted for why. *)
Section Render.
  Variable sp : str.
  Fixpoint render_expr (e : dexpr) : str :=
    match e with
    | DText w => render_word w
    | DField f alias w => field_prefix f alias ++ render_word w
    | DBool f v => bfield_prefix f ++ (if v then dbs "yes" else dbs "no")
    | DCase k => dbs "case:" ++ flavor_text k
    | DType alias t => (if alias then dbs "t:" else dbs "type:") ++ rtype_text t
    | DNeg e => 45 :: render_expr e
    | DGroup q => 40 :: sp ++ join (dbs " or ") (map (fun c => join [32] (map render_expr c)) q) ++ [41]
    end.
  Definition render_conj (c : list dexpr) : str := join [32] (map render_expr c).
  Definition render_query (q : dquery) : str := join (dbs " or ") (map render_conj q).
End Render.

Definition render : dquery -> str := render_query [32].
Definition render_compact : dquery -> str := render_query [].

(** ------------------------------------------------------------------ documented meaning *)

Inductive rqres_d := DErr | DLit (pat : str) | DRx (re : rx).

Definition is_upper (c : N) : bool := (65 <=? c) && (c <=? 90).

Definition rtype_code (t : rtype) : N :=
  match t with TFileMatch => 0 | TFileName | TFile => 1 | TRepo => 2 end.

Section Den.
  Variable rq : str -> rqres_d.        (* the regexp engine: error / literal / proper regexp *)
  Variable rx_auto : str -> bool.      (* does a proper regexp (by source) contain an upper-case letter *)
  Variable lang : str -> option str.   (* canonical language name *)

  Definition case_of (k : cflavor) (auto : bool) : bool :=
    match k with CYes => true | CNo => false | CAuto => auto end.

  (** a pattern: literal substring or regexp, restricted to file names / content or not, case mode k *)
  Definition pattern (k : cflavor) (v : str) (content file : bool) : Q :=
    match rq v with
    | DLit p => QSubstring p (case_of k (existsb is_upper p)) file content
    | DRx re => QRegexp re (case_of k (rx_auto (rx_src re))) file content
    | DErr => QConst false     (* excluded by well-formedness *)
    end.

  Definition den_field (k : cflavor) (f : tfield) (v : str) : Q :=
    match f with
    | FContent => pattern k v true false
    | FFile => pattern k v false true
    | FRegex => pattern k v true false        (* "Matches content using a regular expression" *)
    | FRepo => QRepo v
    | FSym => QSymbol (pattern k v false false)
    | FBranch => QBranch v false
    | FLang => match lang v with Some c => QLanguage c | None => QConst false end
    | FMeta name => QMeta name v
    end.

  Definition den_bool (f : bfield) (v : bool) : Q :=
    match f with
    | BArchived => QRawConfig (if v then 16 else 32)
    | BFork => QRawConfig (if v then 4 else 8)
    | BPublic => QRawConfig (if v then 1 else 2)
    end.

  Definition is_directive (e : dexpr) : bool := match e with DCase _ | DType _ _ => true | _ => false end.

  (** the directives of a group: its case mode (if any) and its result type (if any); both range over
      all conjunctions of the group.  Well-formed groups have at most one of each. *)
  Fixpoint find_case (es : list dexpr) : option cflavor :=
    match es with
    | [] => None
    | DCase k :: r => match find_case r with Some k' => Some k' | None => Some k end
    | _ :: r => find_case r
    end.
  Fixpoint find_type (es : list dexpr) : option N :=
    match es with
    | [] => None
    | DType _ t :: r => match find_type r with
                        | Some t' => Some (if rtype_code t <? t' then rtype_code t else t')
                        | None => Some (rtype_code t)
                        end
    | _ :: r => find_type r
    end.

  (** meaning of an expression inside a group whose case mode is [k] *)
  Fixpoint den_expr (k : cflavor) (e : dexpr) {struct e} : Q :=
    match e with
    | DText w => pattern k (wvalue w) false false
    | DField f _ w => den_field k f (wvalue w)
    | DBool f v => den_bool f v
    | DCase _ | DType _ _ => QConst true        (* directives are not conjuncts; filtered out below *)
    | DNeg e => QNot (den_expr k e)
    | DGroup q =>
        let k' := match find_case (List.concat q) with Some k0 => k0 | None => k end in
        let body := QOr (map (fun c => QAnd (flat_map (fun e => if is_directive e then [] else [den_expr k' e]) c)) q) in
        match find_type (List.concat q) with
        | Some t => QOr [QAnd [QType t body]]   (* = QType t body up to singleton and/or wrappers, which Simplify removes *)
        | None => body
        end
    end.

  (** a whole query is an implicit group with default case mode auto *)
  Definition den (q : dquery) : Q :=
    let k' := match find_case (List.concat q) with Some k0 => k0 | None => CAuto end in
    let body := QOr (map (fun c => QAnd (flat_map (fun e => if is_directive e then [] else [den_expr k' e]) c)) q) in
    match find_type (List.concat q) with
    | Some t => QOr [QAnd [QType t body]]
    | None => body
    end.
End Den.
