(** Model of query/query.go (query tree [Q], evalConstants, flatten, Simplify, Map,
    ExpandFileContent), query/parse.go:stripCaseScopes and index/eval.go:indexData.simplify /
    simplifyMultiRepo, together with a reference evaluator of query trees.

    The inductive [Q] mirrors every node kind of package query (one constructor per Go type that
    implements query.Q, including the parse-time kinds caseQ and caseScopeQ).  It is shared with
    Model/Parser.v; keep it stable.

    Representation choices (all documented in props/C05/NOTES.md):
    - strings are byte lists [str = list N];
    - a *syntax.Regexp is [rx]: its String() source plus the syntax.Op code of its root node
      (OpEmptyMatch = 2, OpLiteral = 3, ...) - the only structural fact the rewrites inspect;
    - a grafana *regexp.Regexp (Repo, RepoRegexp, Meta) is its source string;
    - roaring bitmaps are lists of N; RepoSet is the list of (key, value) pairs of the Go map
      (sorted by key in the correspondence), FileNameSet the list of keys;
    - Boost's float64 weight is an opaque N (its IEEE bit pattern). *)
From ZV Require Import Lib.Base.

Definition str := list N.

Record rx := { rx_src : str; rx_op : N }.
Definition OpEmptyMatch : N := 2.
Definition OpLiteral : N := 3.

Inductive Q : Type :=
| QConst (v : bool)
| QSubstring (pat : str) (cs fname content : bool)        (* Pattern CaseSensitive FileName Content *)
| QRegexp (re : rx) (cs fname content : bool)
| QSymbol (e : Q)
| QCase (flavor : str)                                     (* caseQ (parse time only) *)
| QCaseScope (c : Q)                                       (* caseScopeQ (parse time only) *)
| QLanguage (l : str)
| QRepo (re : str)
| QRepoRegexp (re : str)
| QBranchesRepos (l : list (str * list N))                 (* (Branch, Repos bitmap) *)
| QRepoIDs (ids : list N)
| QRepoSet (set : list (str * bool))
| QFileNameSet (names : list str)
| QType (t : N) (c : Q)
| QBoost (w : N) (c : Q)
| QBranch (pat : str) (exact : bool)
| QMeta (field : str) (re : str)
| QRawConfig (mask : N)
| QAnd (cs : list Q)
| QOr (cs : list Q)
| QNot (c : Q).

Definition str_eqb (a b : str) : bool := list_eqb N.eqb a b.
Definition rx_eqb (a b : rx) : bool := str_eqb (rx_src a) (rx_src b) && N.eqb (rx_op a) (rx_op b).
Definition pair_eqb {A B} (ea : A -> A -> bool) (eb : B -> B -> bool) (x y : A * B) : bool :=
  ea (fst x) (fst y) && eb (snd x) (snd y).

(** structural equality of query trees (used by the correspondence runner) *)
Fixpoint q_eqb (a b : Q) {struct a} : bool :=
  match a, b with
  | QConst x, QConst y => Bool.eqb x y
  | QSubstring p c f t, QSubstring p' c' f' t' => str_eqb p p' && Bool.eqb c c' && Bool.eqb f f' && Bool.eqb t t'
  | QRegexp p c f t, QRegexp p' c' f' t' => rx_eqb p p' && Bool.eqb c c' && Bool.eqb f f' && Bool.eqb t t'
  | QSymbol x, QSymbol y => q_eqb x y
  | QCase x, QCase y => str_eqb x y
  | QCaseScope x, QCaseScope y => q_eqb x y
  | QLanguage x, QLanguage y => str_eqb x y
  | QRepo x, QRepo y => str_eqb x y
  | QRepoRegexp x, QRepoRegexp y => str_eqb x y
  | QBranchesRepos x, QBranchesRepos y => list_eqb (pair_eqb str_eqb (list_eqb N.eqb)) x y
  | QRepoIDs x, QRepoIDs y => list_eqb N.eqb x y
  | QRepoSet x, QRepoSet y => list_eqb (pair_eqb str_eqb Bool.eqb) x y
  | QFileNameSet x, QFileNameSet y => list_eqb str_eqb x y
  | QType t x, QType t' y => N.eqb t t' && q_eqb x y
  | QBoost w x, QBoost w' y => N.eqb w w' && q_eqb x y
  | QBranch p e, QBranch p' e' => str_eqb p p' && Bool.eqb e e'
  | QMeta f r, QMeta f' r' => str_eqb f f' && str_eqb r r'
  | QRawConfig m, QRawConfig m' => N.eqb m m'
  | QAnd x, QAnd y =>
      (fix go (l l' : list Q) : bool :=
         match l, l' with
         | [], [] => true
         | u :: r, v :: r' => q_eqb u v && go r r'
         | _, _ => false
         end) x y
  | QOr x, QOr y =>
      (fix go (l l' : list Q) : bool :=
         match l, l' with
         | [], [] => true
         | u :: r, v :: r' => q_eqb u v && go r r'
         | _, _ => false
         end) x y
  | QNot x, QNot y => q_eqb x y
  | _, _ => false
  end.

(** ------------------------------------------------------------------ query.go: flatten *)

(** flattenAndOr(children, typ): flatten every child, splice the children of a child of the same
    kind; changed = some child changed or some child was spliced. *)
Definition flattenAndOr (isAnd : bool) (fl : Q -> Q * bool) : list Q -> list Q * bool :=
  fix go (l : list Q) : list Q * bool :=
    match l with
    | [] => ([], false)
    | ch :: r =>
        let (ch', sub) := fl ch in
        let (rest, chg) := go r in
        match ch', isAnd with
        | QAnd sc, true => (sc ++ rest, true)
        | QOr sc, false => (sc ++ rest, true)
        | _, _ => (ch' :: rest, sub || chg)
        end
    end.

Fixpoint flatten (q : Q) : Q * bool :=
  match q with
  | QAnd cs =>
      match cs with
      | [c] => (c, true)
      | _ => let (f, chg) := flattenAndOr true flatten cs in (QAnd f, chg)
      end
  | QOr cs =>
      match cs with
      | [c] => (c, true)
      | _ => let (f, chg) := flattenAndOr false flatten cs in (QOr f, chg)
      end
  | QNot c => let (c', chg) := flatten c in (QNot c', chg)
  | QType t c => let (c', chg) := flatten c in (QType t c', chg)
  | QBoost w c => let (c', chg) := flatten c in (QBoost w c', chg)
  | _ => (q, false)
  end.

(** ------------------------------------------------------------------ query.go: evalConstants *)

(** the loop of evalAndOrConstants over the already-evaluated children: inl c = early return of the
    short-circuiting constant, inr l = the children that are kept *)
Fixpoint andor_scan (isAnd : bool) (l : list Q) : Q + list Q :=
  match l with
  | [] => inr []
  | ch :: r =>
      match ch with
      | QConst v => if Bool.eqb v isAnd then andor_scan isAnd r else inl ch
      | _ => match andor_scan isAnd r with
             | inl c => inl c
             | inr r' => inr (ch :: r')
             end
      end
  end.

Definition evalAndOrConstants (isAnd : bool) (children : list Q) : Q :=
  match andor_scan isAnd children with
  | inl c => c
  | inr [] => QConst isAnd
  | inr l => if isAnd then QAnd l else QOr l
  end.

Definition is_nil {A} (l : list A) : bool := match l with [] => true | _ => false end.

Fixpoint evalConstants (q : Q) : Q :=
  match q with
  | QAnd cs => evalAndOrConstants true (map evalConstants cs)
  | QOr cs => evalAndOrConstants false (map evalConstants cs)
  | QNot c =>
      let ch := evalConstants c in
      match ch with QConst v => QConst (negb v) | _ => QNot ch end
  | QType t c =>
      let ch := evalConstants c in
      match ch with QConst _ => ch | _ => QType t ch end
  | QBoost w c =>
      let ch := evalConstants c in
      match ch with QConst _ => ch | _ => QBoost w ch end
  | QSubstring p _ _ _ => if is_nil p then QConst true else q
  | QRegexp re _ _ _ => if N.eqb (rx_op re) OpEmptyMatch then QConst true else q
  | QBranch p ex => if is_nil p && negb ex then QConst true else q
  | QBranchesRepos l => if forallb (fun br => is_nil (snd br)) l then QConst false else q
  | QRepoIDs ids => if is_nil ids then QConst false else q
  | QRepoSet s => if is_nil s then QConst false else q
  | QFileNameSet s => if is_nil s then QConst false else q
  | _ => q
  end.

(** ------------------------------------------------------------------ query.go: Simplify *)

(** size of a tree; the fuel of the flatten loop *)
Fixpoint qsize (q : Q) : nat :=
  match q with
  | QAnd cs | QOr cs => S (fold_right (fun c n => qsize c + n) 0 cs)
  | QNot c | QType _ c | QBoost _ c | QSymbol c | QCaseScope c => S (qsize c)
  | _ => 1
  end.

(** `for { q, changed = flatten(q); if !changed { break } }` with explicit fuel *)
Fixpoint flatten_loop (fuel : nat) (q : Q) : Q :=
  match fuel with
  | O => q
  | S k => let (q', chg) := flatten q in if chg then flatten_loop k q' else q'
  end.

(** Go's loop has no bound; the model runs it with fuel 2*size+2, which Proofs/QueryTerm.v shows
    to be enough (the loop reaches changed=false before the fuel runs out). *)
Definition simplify_fuel (q : Q) : nat := 2 * qsize q + 2.
Definition Simplify (q : Q) : Q :=
  let q1 := evalConstants q in flatten_loop (simplify_fuel q1) q1.

(** ------------------------------------------------------------------ query.go: Map, ExpandFileContent *)

Fixpoint qmap (f : Q -> Q) (q : Q) : Q :=
  f (match q with
     | QAnd cs => QAnd (map (qmap f) cs)
     | QOr cs => QOr (map (qmap f) cs)
     | QNot c => QNot (qmap f c)
     | QType t c => QType t (qmap f c)
     | QBoost w c => QBoost w (qmap f c)
     | _ => q
     end).

Definition ExpandFileContent (q : Q) : Q :=
  match q with
  | QSubstring p cs fn ct =>
      if Bool.eqb fn ct then QOr [QSubstring p cs true false; QSubstring p cs false true] else q
  | QRegexp re cs fn ct =>
      if Bool.eqb fn ct then QOr [QRegexp re cs true false; QRegexp re cs false true] else q
  | _ => q
  end.

(** ------------------------------------------------------------------ parse.go: stripCaseScopes *)

Fixpoint stripCaseScopes (q : Q) : Q :=
  match q with
  | QAnd cs => QAnd (map stripCaseScopes cs)
  | QOr cs => QOr (map stripCaseScopes cs)
  | QNot c => QNot (stripCaseScopes c)
  | QType t c => QType t (stripCaseScopes c)
  | QBoost w c => QBoost w (stripCaseScopes c)
  | QCaseScope c => stripCaseScopes c
  | _ => q
  end.

(** ------------------------------------------------------------------ reference evaluator *)

(** Atom predicates.  [D] is the type of documents.  Content/name matching, regexp engines,
    symbol search and language detection are external to the rewrites: they are abstract functions,
    and the theorems quantify over them (subject to [atoms_ok] below).  The repository-level atoms
    are seen through the document's repository. *)
Record atoms (D : Type) := {
  a_substr : str -> bool -> bool -> D -> bool;     (* pattern, caseSensitive, true=file name / false=content *)
  a_regexp : rx -> bool -> bool -> D -> bool;
  a_symbol : Q -> D -> bool;
  a_case : str -> D -> bool;
  a_lang : str -> D -> bool;
  a_filename : str -> D -> bool;                   (* the document's file name is exactly this *)
  a_branch : str -> bool -> D -> bool;             (* Branch{Pattern, Exact} *)
  a_onbranch : str -> D -> bool;                   (* the document is on the branch with exactly this name *)
  a_repo_re : str -> D -> bool;                    (* regexp matches the name of the document's repository *)
  a_repo_name : str -> D -> bool;
  a_repo_id : N -> D -> bool;
  a_repo_meta : str -> str -> D -> bool;           (* metadata field present and its value matches *)
  a_repo_rc : D -> N;                              (* encodeRawConfig of the document's repository *)
}.
Arguments a_substr {D}. Arguments a_regexp {D}. Arguments a_symbol {D}. Arguments a_case {D}.
Arguments a_lang {D}. Arguments a_filename {D}. Arguments a_branch {D}. Arguments a_onbranch {D}.
Arguments a_repo_re {D}. Arguments a_repo_name {D}. Arguments a_repo_id {D}. Arguments a_repo_meta {D}.
Arguments a_repo_rc {D}.

(** uint8(r)&mask == uint8(r): the RawConfig query is truncated to 8 bits at both of its use sites *)
Definition rc_match (m rc : N) : bool := let m8 := N.land m 255 in N.eqb (N.land m8 rc) m8.

Definition sel_fc {D} (f : bool -> D -> bool) (fn ct : bool) (d : D) : bool :=
  if Bool.eqb fn ct then f true d || f false d else if fn then f true d else f false d.

Fixpoint eval {D} (e : atoms D) (q : Q) (d : D) : bool :=
  match q with
  | QConst v => v
  | QSubstring p cs fn ct => sel_fc (a_substr e p cs) fn ct d
  | QRegexp re cs fn ct => sel_fc (a_regexp e re cs) fn ct d
  | QSymbol x => a_symbol e x d
  | QCase f => a_case e f d
  | QCaseScope c => eval e c d
  | QLanguage l => a_lang e l d
  | QRepo re => a_repo_re e re d
  | QRepoRegexp re => a_repo_re e re d
  | QBranchesRepos l =>
      existsb (fun br => a_onbranch e (fst br) d && existsb (fun id => a_repo_id e id d) (snd br)) l
  | QRepoIDs ids => existsb (fun id => a_repo_id e id d) ids
  | QRepoSet s => existsb (fun nb => snd nb && a_repo_name e (fst nb) d) s
  | QFileNameSet s => existsb (fun n => a_filename e n d) s
  | QType _ c => eval e c d
  | QBoost _ c => eval e c d
  | QBranch p ex => a_branch e p ex d
  | QMeta f re => a_repo_meta e f re d
  | QRawConfig m => rc_match m (a_repo_rc e d)
  | QAnd cs => forallb (fun c => eval e c d) cs
  | QOr cs => existsb (fun c => eval e c d) cs
  | QNot c => negb (eval e c d)
  end.

(** What evalConstants relies on: the empty pattern occurs everywhere, an OpEmptyMatch regexp
    matches everything, the empty branch pattern is contained (non-exact match) in every branch
    name (and every document is on some branch). *)
Record atoms_ok {D} (e : atoms D) : Prop := {
  ok_substr_empty : forall cs nm d, a_substr e [] cs nm d = true;
  ok_regexp_empty : forall re cs nm d, rx_op re = OpEmptyMatch -> a_regexp e re cs nm d = true;
  ok_branch_empty : forall d, a_branch e [] false d = true;
}.

(** ------------------------------------------------------------------ index/eval.go: indexData.simplify *)

(** The part of a shard that simplify reads: the repository metadata (live and tombstoned) and the
    keys of metaData.LanguageMap.  (IndexFeatureVersion >= 12 is assumed: the < 12 language
    fallback is not modelled; this code base only writes version 12.) *)
Record repo := {
  r_tomb : bool;
  r_id : N;
  r_name : str;
  r_rawconfig : list (str * str);  (* RawConfig map (nil = empty; keys unique) *)
  r_meta : list (str * str);       (* Metadata map (nil = empty) *)
}.
Record shard := { sh_repos : list repo; sh_langs : list str }.

Fixpoint meta_lookup (m : list (str * str)) (k : str) : option str :=
  match m with
  | [] => None
  | (k', v) :: r => if str_eqb k' k then Some v else meta_lookup r k
  end.

(** index/indexdata.go: encodeRawConfig.  For the i-th of the fields "public", "fork", "archived":
    bits 2i..2i+1 are rawConfigYes (1) when the map has the value "1" for it, rawConfigNo (2)
    otherwise (absent, or any other value).  6 bits: the uint8 never overflows.
    (Field list and constants are compared with the ones extracted from /repo: Generated/C05RawConfig.v,
    Props/C05.v C05_rawconfig_tables_generated.) *)
Definition rawConfigYes : N := 1.
Definition rawConfigNo : N := 2.
Definition rc_fields : list str :=
  [ [112;117;98;108;105;99]%N (* public *); [102;111;114;107]%N (* fork *); [97;114;99;104;105;118;101;100]%N (* archived *) ].
Definition rc_one : str := [49%N].     (* "1" *)
Fixpoint encode_rc_from (fs : list str) (i : N) (cfg : list (str * str)) : N :=
  match fs with
  | [] => 0%N
  | f :: t =>
      let e := match meta_lookup cfg f with
               | Some v => if str_eqb v rc_one then rawConfigYes else rawConfigNo
               | None => rawConfigNo
               end in
      N.lor (N.shiftl e (2 * i)) (encode_rc_from t (i + 1) cfg)
  end.
Definition encodeRawConfig (cfg : list (str * str)) : N := encode_rc_from rc_fields 0 cfg.
Definition r_rc (r : repo) : N := encodeRawConfig (r_rawconfig r).

Definition mem_str (x : str) (l : list str) : bool := existsb (str_eqb x) l.
Definition mem_N (x : N) (l : list N) : bool := existsb (N.eqb x) l.
(** Go map[string]bool lookup on the pair-list representation (keys are unique in a Go map) *)
Definition set_lookup (s : list (str * bool)) (k : str) : bool :=
  existsb (fun nb => snd nb && str_eqb (fst nb) k) s.
Section Shard.
  (** the regexp engine (grafana/regexp MatchString) is external: source -> subject -> bool *)
  Variable re_match : str -> str -> bool.

  Definition simplifyMultiRepo (sh : shard) (q : Q) (pred : repo -> bool) : Q :=
    let alive := filter (fun r => negb (r_tomb r)) (sh_repos sh) in
    let count := length (filter pred alive) in
    if Nat.eqb count (length alive) then QConst true
    else if Nat.ltb 0 count then q
    else QConst false.

  Definition meta_pred (f re : str) (r : repo) : bool :=
    match meta_lookup (r_meta r) f with Some v => re_match re v | None => false end.

  Definition shard_simplify_atom (sh : shard) (q : Q) : Q :=
    match q with
    | QRepo re => simplifyMultiRepo sh q (fun r => re_match re (r_name r))
    | QRepoRegexp re => simplifyMultiRepo sh q (fun r => re_match re (r_name r))
    | QBranchesRepos l =>
        if existsb (fun r => existsb (fun br => mem_N (r_id r) (snd br)) l) (sh_repos sh)
        then q else QConst false
    | QRepoSet s => simplifyMultiRepo sh q (fun r => set_lookup s (r_name r))
    | QRawConfig m => simplifyMultiRepo sh q (fun r => rc_match m (r_rc r))
    | QRepoIDs ids => simplifyMultiRepo sh q (fun r => mem_N (r_id r) ids)
    | QLanguage l => if mem_str l (sh_langs sh) then q else QConst false
    | QMeta f re => simplifyMultiRepo sh q (meta_pred f re)
    | _ => q
    end.

  Definition shard_simplify (sh : shard) (q : Q) : Q := Simplify (qmap (shard_simplify_atom sh) q).

  (** atoms of the documents of a shard: the repository-level predicates are computed from the
      metadata of the document's repository ([repo_of d] = index into sh_repos); everything else
      comes from [base]. *)
  Definition on_repo {D} (sh : shard) (repo_of : D -> nat) (p : repo -> bool) (d : D) : bool :=
    match nth_error (sh_repos sh) (repo_of d) with Some r => p r | None => false end.

  Definition shard_atoms {D} (base : atoms D) (sh : shard) (repo_of : D -> nat) : atoms D :=
    {| a_substr := a_substr base; a_regexp := a_regexp base; a_symbol := a_symbol base;
       a_case := a_case base; a_lang := a_lang base; a_filename := a_filename base;
       a_branch := a_branch base; a_onbranch := a_onbranch base;
       a_repo_re := fun re => on_repo sh repo_of (fun r => re_match re (r_name r));
       a_repo_name := fun n => on_repo sh repo_of (fun r => str_eqb n (r_name r));
       a_repo_id := fun id => on_repo sh repo_of (fun r => N.eqb id (r_id r));
       a_repo_meta := fun f re => on_repo sh repo_of (meta_pred f re);
       a_repo_rc := fun d => match nth_error (sh_repos sh) (repo_of d) with Some r => r_rc r | None => 0%N end |}.

  (** Search only evaluates the query on documents of repositories that are not tombstoned *)
  Definition live {D} (sh : shard) (repo_of : D -> nat) (d : D) : Prop :=
    exists r, nth_error (sh_repos sh) (repo_of d) = Some r /\ r_tomb r = false.
  (** shard invariant, for the document at hand: LanguageMap has a key for its language *)
  Definition langs_closed {D} (base : atoms D) (sh : shard) (d : D) : Prop :=
    forall l, a_lang base l d = true -> mem_str l (sh_langs sh) = true.
End Shard.
