(** C19 — OWNERSHIP of search results (search/shards.go copyFiles / copySlice, search/aggregate.go copyFileSender).

    A shard is an mmap'd file; index.Searcher returns FileMatch values whose []byte fields are VIEWS of that mapping.
    shardedSearcher.Search / StreamSearch call copyFiles before the result leaves the sharded searcher, because after
    the search returned nothing keeps the shard alive: when the watcher replaces or removes it, the finalizer of the
    rankedShard munmaps the file.  A view that escaped then faults (or shows the bytes of whatever is mapped there next).

    Three layers:
    (1) [gty]: descriptor of a Go type; [bytes_paths]: the type-level paths ("Files[].ChunkMatches[].Content") of all
        []byte fields below it.  The descriptor of zoekt.SearchResult is GENERATED (Generated/ResultFields.v).
    (2) [stmt]: the statements copyFiles is made of; [copied_paths]: which result fields a program replaces by fresh
        copies.  The difference between `for i := range xs { copySlice(&xs[i].F) }` and
        `for _, x := range xs { copySlice(&x.F) }` is explicit: a range VALUE variable is a per-iteration copy of the
        element ([BLocal]), a write to its field never reaches the result.  copyFiles' program is GENERATED as well.
    (3) memory: byte slices are (region, offset, length) headers; a region is a shard mapping (which can be unmapped or
        overwritten) or a heap allocation; reads are checked (reading an unmapped region is a fault = Panic).
        [copy_result] = what executing a program with the given set of copied fields does to a result. *)
From Coq Require Import String.
From ZV Require Import Lib.Base.

(** ---- (1) type descriptors *)
Inductive gty :=
| GBytes                                   (* []byte, or a named type whose underlying type is []byte / []uint8 *)
| GString
| GBasic (name : string)
| GExternal (what : string)                (* a type the translator could not resolve (another package, interface) *)
| GSlice (t : gty)
| GArray (t : gty)
| GPtr (t : gty)
| GMap (k v : gty)
| GStruct (name : string) (fields : list (string * gty)).

Definition path := string.
Definition pfield (p : path) (f : string) : path := if String.eqb p EmptyString then f else String.append p (String.append "."%string f).
Definition pelem (p : path) : path := String.append p "[]"%string.
Definition pmapk (p : path) : path := String.append p "{key}"%string.
Definition pmapv (p : path) : path := String.append p "{}"%string.

(** type-level paths of the components selected by [sel]; pointers are transparent (Go selectors dereference) *)
Fixpoint paths_of (sel : gty -> bool) (p : path) (t : gty) {struct t} : list path :=
  (if sel t then [p] else []) ++
  match t with
  | GSlice e => paths_of sel (pelem p) e
  | GArray e => paths_of sel (pelem p) e
  | GPtr e => paths_of sel p e
  | GMap k v => paths_of sel (pmapk p) k ++ paths_of sel (pmapv p) v
  | GStruct _ fs =>
      (fix go (l : list (string * gty)) : list path :=
         match l with
         | [] => []
         | (f, ft) :: r => paths_of sel (pfield p f) ft ++ go r
         end) fs
  | _ => []
  end.

Definition is_bytes (t : gty) : bool := match t with GBytes => true | _ => false end.
Definition is_string (t : gty) : bool := match t with GString => true | _ => false end.
Definition is_external (t : gty) : bool := match t with GExternal _ => true | _ => false end.
Definition bytes_paths (t : gty) : list path := paths_of is_bytes EmptyString t.
Definition string_paths (t : gty) : list path := paths_of is_string EmptyString t.
Definition external_paths (t : gty) : list path := paths_of is_external EmptyString t.

Definition mem_path (p : path) (l : list path) : bool := existsb (String.eqb p) l.
Definition subset_p (a b : list path) : bool := forallb (fun x => mem_path x b) a.
Definition same_set_p (a b : list path) : bool := subset_p a b && subset_p b a.
Definition has_prefix (pre p : path) : bool := String.prefix pre p.

(** ---- (2) the statements of copyFiles *)
Inductive pexpr :=
| EVar (x : string)                        (* a variable; a pointer variable stands for what it points to *)
| EField (e : pexpr) (f : string)          (* e.f *)
| EIndex (e : pexpr) (i : string).         (* e[i], i a variable *)

Inductive stmt :=
| SRangeIdx (i : string) (over : pexpr) (body : list stmt)     (* for i := range over { body }   (also the classic for) *)
| SRangeVal (i v : string) (over : pexpr) (body : list stmt)   (* for i, v := range over { body }: v is a COPY of over[i] *)
| SAddr (x : string) (e : pexpr)                               (* x := &e *)
| SVal (x : string) (e : pexpr)                                (* x := e        — a copy of the value *)
| SCopySlice (e : pexpr)                                       (* copySlice(&e)   resp. copySlice(x) for a pointer x *)
| SBlock (body : list stmt)
| SOther (what : string).                                      (* anything the translator does not recognise *)

Inductive binding :=
| BRef (p : path)      (* the variable IS (points to) the result component at p: writes reach the result *)
| BLocal (p : path)    (* the variable is a local COPY of the value at p: writes to its fields stay local *)
| BIdx (over : path).  (* an index variable walking ALL elements of the slice at [over] *)
Definition env := list (string * binding).
Fixpoint lookup_b (x : string) (en : env) : option binding :=
  match en with
  | [] => None
  | (y, b) :: r => if String.eqb x y then Some b else lookup_b x r
  end.

(** [resolve en e = Some (shared, p)]: e denotes a component at type-level path p; shared = writing it writes the result.
    An element reached by INDEXING is shared even through a local copy of the slice header (the backing array is). *)
Fixpoint resolve (en : env) (e : pexpr) : option (bool * path) :=
  match e with
  | EVar x => match lookup_b x en with
              | Some (BRef p) => Some (true, p)
              | Some (BLocal p) => Some (false, p)
              | _ => None
              end
  | EField e' f => match resolve en e' with Some (sh, p) => Some (sh, pfield p f) | None => None end
  | EIndex e' i => match resolve en e', lookup_b i en with
                   | Some (_, p), Some (BIdx q) => if String.eqb p q then Some (true, pelem p) else None
                   | _, _ => None
                   end
  end.

Record absres := mkAbs {
  a_copied : list path;      (* result fields replaced by fresh copies, for ALL elements (loops are full walks) *)
  a_local : list path;       (* copySlice applied to a local copy only: no effect on the result *)
  a_unknown : list string    (* statements / expressions not understood *)
}.
Definition abs_nil := mkAbs [] [] [].
Definition abs_app (a b : absres) := mkAbs (a_copied a ++ a_copied b) (a_local a ++ a_local b) (a_unknown a ++ a_unknown b).

Fixpoint exec (en : env) (s : stmt) {struct s} : env * absres :=
  let block := fix block (en : env) (ss : list stmt) {struct ss} : env * absres :=
    match ss with
    | [] => (en, abs_nil)
    | s1 :: r => let '(en1, a1) := exec en s1 in let '(en2, a2) := block en1 r in (en2, abs_app a1 a2)
    end in
  match s with
  | SRangeIdx i over body =>
      match resolve en over with
      | Some (_, p) => (en, snd (block ((i, BIdx p) :: en) body))
      | None => (en, mkAbs [] [] ["range over an unresolved expression"%string])
      end
  | SRangeVal i v over body =>
      match resolve en over with
      | Some (_, p) => (en, snd (block ((v, BLocal (pelem p)) :: (i, BIdx p) :: en) body))
      | None => (en, mkAbs [] [] ["range over an unresolved expression"%string])
      end
  | SAddr x e =>
      match resolve en e with
      | Some (true, p) => ((x, BRef p) :: en, abs_nil)
      | Some (false, p) => ((x, BLocal p) :: en, abs_nil)
      | None => (en, mkAbs [] [] ["address of an unresolved expression"%string])
      end
  | SVal x e =>
      match resolve en e with
      | Some (_, p) => ((x, BLocal p) :: en, abs_nil)
      | None => (en, mkAbs [] [] ["copy of an unresolved expression"%string])
      end
  | SCopySlice e =>
      match resolve en e with
      | Some (true, p) => (en, mkAbs [p] [] [])
      | Some (false, p) => (en, mkAbs [] [p] [])
      | None => (en, mkAbs [] [] ["copySlice of an unresolved expression"%string])
      end
  | SBlock body => (en, snd (block en body))
  | SOther w => (en, mkAbs [] [] [w])
  end.

Fixpoint exec_block (en : env) (ss : list stmt) : env * absres :=
  match ss with
  | [] => (en, abs_nil)
  | s1 :: r => let '(en1, a1) := exec en s1 in let '(en2, a2) := exec_block en1 r in (en2, abs_app a1 a2)
  end.

Definition run_prog (root : string) (prog : list stmt) : absres := snd (exec_block [(root, BRef EmptyString)] prog).
Definition copied_paths (root : string) (prog : list stmt) : list path := a_copied (run_prog root prog).
Definition prog_recognised (root : string) (prog : list stmt) : bool :=
  match a_unknown (run_prog root prog) with [] => true | _ => false end.
(** every []byte field below type [t] is copied by the program *)
Definition copy_covers (t : gty) (root : string) (prog : list stmt) : bool :=
  prog_recognised root prog && subset_p (bytes_paths t) (copied_paths root prog).

(** ---- (3) memory *)
Inductive region := RShard (id : N) | RHeap (a : nat).
Record bslice := mkBS { b_reg : region; b_off : nat; b_len : nat }.
Definition shards := N -> option (list N).          (* None: the shard's mapping is gone (munmap) *)
Definition heap := list (list N).

Definition sub_bytes (d : list N) (off len : nat) : outcome (list N) :=
  if off + len <=? length d then Ok (slice d off (off + len)) else Panic 2.   (* beyond the mapping: fault *)
Definition read (sh : shards) (hp : heap) (s : bslice) : outcome (list N) :=
  match b_reg s with
  | RShard id => match sh id with Some d => sub_bytes d (b_off s) (b_len s) | None => Panic 1 end   (* unmapped: fault *)
  | RHeap a => match nth_error hp a with Some d => sub_bytes d (b_off s) (b_len s) | None => Panic 3 end
  end.

(** a result, as far as ownership is concerned: its non-nil byte-slice fields, each labelled with its type-level path *)
Definition leaf := (path * bslice)%type.
Definition result := list leaf.
Definition conforms (t : gty) (r : result) : Prop := forall l, In l r -> In (fst l) (bytes_paths t).

Fixpoint read_all (sh : shards) (hp : heap) (r : result) : outcome (list (path * list N)) :=
  match r with
  | [] => Ok []
  | (p, s) :: r' => do d <- read sh hp s; do ds <- read_all sh hp r'; Ok ((p, d) :: ds)
  end.

(** copySlice on one field: dst := make([]byte, len(src)); copy(dst, src); src = dst *)
Definition copy_leaf (sh : shards) (hp : heap) (copied : list path) (l : leaf) : outcome (heap * leaf) :=
  if mem_path (fst l) copied
  then do d <- read sh hp (snd l); Ok (hp ++ [d], (fst l, mkBS (RHeap (length hp)) 0 (length d)))
  else Ok (hp, l).
Fixpoint copy_result (sh : shards) (hp : heap) (copied : list path) (r : result) : outcome (heap * result) :=
  match r with
  | [] => Ok (hp, [])
  | l :: r' => do x <- copy_leaf sh hp copied l; do y <- copy_result sh (fst x) copied r'; Ok (fst y, snd x :: snd y)
  end.
