(** C36 — html/template's URL filter (html/template/url.go: urlFilter / isSafeURL) on plain strings, and the user agent's
    view of the scheme of a URL attribute (URL Standard: leading C0-control-or-space stripped, ASCII tab/newline removed
    everywhere, scheme = ALPHA *(ALPHA / DIGIT / "+" / "-" / ".") ":").
    Tie: the filter DECISION (is_safe_url) is compared with html/template on generated strings (case CUrl); the
    normaliser and the attribute escaper that run after the filter are not modelled here. *)
From Coq Require Import String.
From ZV Require Import Lib.Base Model.Web.
Open Scope N_scope.

(** strings.Cut(s, ":") — the part before the first ':' (None: no ':') *)
Fixpoint before_colon (s : bytes) : option bytes :=
  match s with
  | [] => None
  | b :: r => if b =? 58 then Some [] else option_map (cons b) (before_colon r)
  end.

(** strings.EqualFold(p, t) for an ASCII lower-case t without 'k': simple folding; the only non-ASCII rune that folds
    to a letter of "http"/"https"/"mailto" is U+017F (long s, C5 BF) ~ 's' *)
Fixpoint fold_eq (p t : bytes) : bool :=
  match t with
  | [] => match p with [] => true | _ => false end
  | c :: tr =>
      match p with
      | [] => false
      | b :: pr =>
          if lower b =? c then fold_eq pr tr
          else match pr with
               | b2 :: pr2 => (c =? 115) && (b =? 197) && (b2 =? 191) && fold_eq pr2 tr
               | [] => false
               end
      end
  end.

Definition allowed_scheme (p : bytes) : bool :=
  fold_eq p (str "http") || fold_eq p (str "https") || fold_eq p (str "mailto").

Definition is_safe_url (s : bytes) : bool :=
  match before_colon s with
  | Some p => if existsb (N.eqb 47) p then true else allowed_scheme p
  | None => true
  end.

Definition url_filter (s : bytes) : bytes := if is_safe_url s then s else str "#ZgotmplZ".

(* ---- the user agent *)
Definition is_tabnl (b : N) : bool := (b =? 9) || (b =? 10) || (b =? 13).
Fixpoint strip_c0 (s : bytes) : bytes :=
  match s with b :: r => if b <=? 32 then strip_c0 r else s | [] => [] end.
Definition ua_clean (s : bytes) : bytes := filter (fun b => negb (is_tabnl b)) (strip_c0 s).

Definition is_alpha (b : N) : bool := ((65 <=? b) && (b <=? 90)) || ((97 <=? b) && (b <=? 122)).
Definition is_scheme_char (b : N) : bool := is_alpha b || ((48 <=? b) && (b <=? 57)) || (b =? 43) || (b =? 45) || (b =? 46).

Fixpoint scheme_rest (s : bytes) : option bytes :=
  match s with
  | [] => None
  | b :: r => if b =? 58 then Some [] else if is_scheme_char b then option_map (cons (lower b)) (scheme_rest r) else None
  end.
Definition ua_scheme (s : bytes) : option bytes :=
  match ua_clean s with
  | b :: r => if is_alpha b then option_map (cons (lower b)) (scheme_rest r) else None
  | [] => None
  end.

(** the URL is a relative reference or has one of the three harmless schemes *)
Definition url_harmless (s : bytes) : bool :=
  match ua_scheme s with
  | None => true
  | Some sch => beqb sch (str "http") || beqb sch (str "https") || beqb sch (str "mailto")
  end.
