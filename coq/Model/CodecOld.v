(** Faithful model of stringSetDecode and its binaryReader as they were in /repo/query/marshal.go BEFORE the
    repair (commit 86d5ebb): the loop runs [l] times with [l] read from the input, keeps going after the
    reader failed (sticky error, never looked at inside the loop), a truncated varint (n = 0) reads as 0,
    and a length >= 2^63 (negative int) passes the [l > len(b.b)] test and reaches the slice expression.
    Only used for the *_refuted theorems of C26 (historical record of the defect); the replay of the witnesses
    on the pre-fix implementation is props/C26/rederived/pre-fix.json (hang / panic observed). *)
From ZV Require Import Lib.Base Model.Codec.
Open Scope N_scope.

Record ost := mkost { obuf : bytes; oerr : bool; opanic : bool; osteps : N; oalloc : N; oset : list bytes }.

(** binaryReader.uvarint (old): only n < 0 is an error *)
Definition old_uvarint (s : ost) : Z * ost :=
  let '(x, n) := uvarint (obuf s) in
  if (n <? 0)%Z then (0%Z, mkost [] true (opanic s) (osteps s + 1) (oalloc s) (oset s))
  else (to_int x, mkost (skipn (Z.to_nat n) (obuf s)) (oerr s) (opanic s) (osteps s + 1) (oalloc s) (oset s)).

(** binaryReader.str (old): if l > len(b.b) {fail}; s := b.b[:l] — panics when l < 0 *)
Definition old_str (s : ost) : bytes * ost :=
  let '(l, s1) := old_uvarint s in
  if (Z.of_nat (length (obuf s1)) <? l)%Z then ([], mkost [] true (opanic s1) (osteps s1) (oalloc s1) (oset s1))
  else if (l <? 0)%Z then ([], mkost (obuf s1) (oerr s1) true (osteps s1) (oalloc s1) (oset s1))
  else (firstn (Z.to_nat l) (obuf s1), mkost (skipn (Z.to_nat l) (obuf s1)) (oerr s1) (opanic s1) (osteps s1) (oalloc s1) (oset s1)).

(** loop body: set[r.str()] = struct{}{}  (a panicked run stays where it is) *)
Definition old_body (s : ost) : ost :=
  if opanic s then s else
  let '(k, s1) := old_str s in
  if opanic s1 then s1 else mkost (obuf s1) (oerr s1) false (osteps s1) (oalloc s1) (set_ins k (oset s1)).

Definition old_dec_set (b : bytes) : ost :=
  let s0 := mkost b false false 0 (nlen b) [] in          (* slices.Clone(b) *)
  match b with
  | [] => mkost [] true false 1 (oalloc s0) []             (* byt fails; version 0 is unsupported *)
  | v :: r =>
      if negb (v =? 1) then mkost r true false 1 (oalloc s0) []
      else
        let '(l, s1) := old_uvarint (mkost r false false 1 (oalloc s0) []) in
        let s2 := mkost (obuf s1) (oerr s1) false (osteps s1) (oalloc s1 + Z.to_N l) [] in   (* make(map, l): hint, negative = 0 *)
        N.iter (Z.to_N l) old_body s2                        (* for range l *)
  end.
