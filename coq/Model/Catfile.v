(** C14 — model of gitindex/catfile.go (catfileReader.Next / Read over the `git cat-file --batch`
    response stream) and of gitindex/slab.go (contentSlab.alloc as offset arithmetic).

    The response stream is a byte list.  bufio.Reader is modelled by the unread remainder of the stream
    plus, for every Read call, the number [avail] of bytes the buffered layer is willing to hand over in
    that call (bufio.Reader.Read returns what is buffered or does ONE read of the pipe: any number >= 1).
    Process management (exec, the writer goroutine, Close) is outside the model. *)
From ZV Require Import Lib.Base.

Definition cbytes := list N.

(** ---------- small string functions *)

Fixpoint split_nl (l : cbytes) : option (cbytes * cbytes) :=   (* bufio.ReadBytes('\n'), delimiter dropped *)
  match l with
  | [] => None
  | c :: r => if N.eqb c 10 then Some ([], r)
              else match split_nl r with Some (h, t) => Some (c :: h, t) | None => None end
  end.

Definition has_suffix (suf l : cbytes) : bool :=
  (length suf <=? length l) && list_eqb N.eqb (skipn (length l - length suf) l) suf.

Definition s_missing : cbytes := [32;109;105;115;115;105;110;103]%N.        (* " missing" *)
Definition s_excluded : cbytes := [32;101;120;99;108;117;100;101;100]%N.    (* " excluded" *)

(** the part after the last ' ' (bytes.LastIndexByte + slicing); None when there is no space *)
Fixpoint after_last_space_aux (l : cbytes) (cur : option cbytes) : option cbytes :=
  match l with
  | [] => cur
  | c :: r => if N.eqb c 32 then after_last_space_aux r (Some r) else after_last_space_aux r cur
  end.
Definition after_last_space (l : cbytes) : option cbytes := after_last_space_aux l None.

Definition is_digit (c : N) : bool := (48 <=? c)%N && (c <=? 57)%N.

Fixpoint digits_value (l : cbytes) (acc : Z) : option Z :=
  match l with
  | [] => Some acc
  | c :: r => if is_digit c then digits_value r (acc * 10 + Z.of_N (c - 48)) else None
  end.

Definition max_int : Z := 9223372036854775807.

(** strconv.Atoi: optional sign, at least one digit, only digits, range of int (64 bit) *)
Definition atoi (l : cbytes) : option Z :=
  let '(neg, ds) := match l with
                    | c :: r => if N.eqb c 45 then (true, r) else if N.eqb c 43 then (false, r) else (false, l)
                    | [] => (false, l)
                    end in
  match ds with
  | [] => None
  | _ => match digits_value ds 0 with
         | None => None
         | Some v => if neg then (if (v <=? max_int + 1)%Z then Some (- v)%Z else None)
                     else (if (v <=? max_int)%Z then Some v else None)
         end
  end.

(** ---------- the reader *)

Record creader := { cr_rest : cbytes; cr_pending : Z }.

Inductive next_result :=
| NEntry (size : Z)
| NMissing
| NExcluded
| NEOF
| NErr.

(** Next *)
Definition cf_next (st : creader) : creader * next_result :=
  let discard :=
    if (0 <? cr_pending st)%Z then
      if (Z.of_nat (length (cr_rest st)) <? cr_pending st)%Z then None      (* Discard hits EOF: error *)
      else Some (skipn (Z.to_nat (cr_pending st)) (cr_rest st))
    else Some (cr_rest st) in
  match discard with
  | None => ({| cr_rest := []; cr_pending := cr_pending st |}, NErr)
  | Some rest =>
      match split_nl rest with
      | None => ({| cr_rest := []; cr_pending := 0 |}, NEOF)              (* also for an unterminated last line *)
      | Some (header, rest') =>
          let st' := {| cr_rest := rest'; cr_pending := 0 |} in
          if has_suffix s_missing header then (st', NMissing)
          else if has_suffix s_excluded header then (st', NExcluded)
          else match after_last_space header with
               | None => (st', NErr)
               | Some num =>
                   match atoi num with
                   | None => (st', NErr)
                   | Some size => ({| cr_rest := rest'; cr_pending := size + 1 |}, NEntry size)
                   end
               end
      end
  end.

Inductive read_code := RNil | REOF | RErr.

(** Read(p) with len(p) = want; avail >= 1 = what the buffered layer hands over at most in this call *)
Definition cf_read (st : creader) (want avail : nat) : creader * (cbytes * read_code) :=
  if (cr_pending st <=? 0)%Z then (st, ([], REOF)) else
  let content_remaining := (cr_pending st - 1)%Z in
  if (content_remaining <=? 0)%Z then
    match cr_rest st with
    | [] => (st, ([], RErr))
    | _ :: r => ({| cr_rest := r; cr_pending := 0 |}, ([], REOF))
    end
  else
    let want' := Nat.min want (Z.to_nat content_remaining) in
    match want' with
    | 0 => (st, ([], RNil))                                     (* bufio: Read of an empty slice *)
    | _ =>
      match cr_rest st with
      | [] => (st, ([], REOF))                                  (* the stream ends inside the content *)
      | _ =>
        let got := Nat.min want' (Nat.min avail (length (cr_rest st))) in
        let data := firstn got (cr_rest st) in
        let rest := skipn got (cr_rest st) in
        let pending := (cr_pending st - Z.of_nat got)%Z in
        if (pending =? 1)%Z then
          match rest with
          | [] => ({| cr_rest := []; cr_pending := pending |}, (data, RErr))
          | _ :: r => ({| cr_rest := r; cr_pending := 0 |}, (data, RNil))
          end
        else ({| cr_rest := rest; cr_pending := pending |}, (data, RNil))
      end
    end.

Inductive cop := ONext | ORead (want avail : nat).
Inductive cout := OutNext (r : next_result) | OutRead (data : cbytes) (code : read_code).

Definition cf_step (st : creader) (o : cop) : creader * cout :=
  match o with
  | ONext => let '(st', r) := cf_next st in (st', OutNext r)
  | ORead want avail => let '(st', (d, c)) := cf_read st want avail in (st', OutRead d c)
  end.

Fixpoint cf_run (st : creader) (ops : list cop) : list cout :=
  match ops with
  | [] => []
  | o :: r => let '(st', out) := cf_step st o in out :: cf_run st' r
  end.

Definition cf_init (stream : cbytes) : creader := {| cr_rest := stream; cr_pending := 0 |}.

(** ---------- well-formed response streams *)

Inductive resp :=
| RPresent (oid : cbytes) (typ : cbytes) (size_digits : cbytes) (content : cbytes)
| RMissing (oid : cbytes)
| RExcluded (oid : cbytes).

Definition encode_resp (r : resp) : cbytes :=
  match r with
  | RPresent oid typ ds content => oid ++ 32%N :: typ ++ 32%N :: ds ++ 10%N :: content ++ [10%N]
  | RMissing oid => oid ++ s_missing ++ [10%N]
  | RExcluded oid => oid ++ s_excluded ++ [10%N]
  end.
Definition encode (rs : list resp) : cbytes := flat_map encode_resp rs.

(** ---------- contentSlab *)

Record slab := { sl_cap : nat; sl_used : nat; sl_buf : nat; sl_next : nat }.
(* sl_buf: identity of the current shared buffer; sl_next: next fresh buffer identity *)
Record region := { rg_buf : nat; rg_off : nat; rg_len : nat; rg_shared : bool }.

Definition slab_new (cap : nat) : slab := {| sl_cap := cap; sl_used := 0; sl_buf := 0; sl_next := 1 |}.

Definition slab_alloc (s : slab) (n : nat) : slab * region :=
  if sl_cap s <? n then
    (* make([]byte, n): an allocation of its own; the shared buffer is untouched *)
    ({| sl_cap := sl_cap s; sl_used := sl_used s; sl_buf := sl_buf s; sl_next := S (sl_next s) |},
     {| rg_buf := sl_next s; rg_off := 0; rg_len := n; rg_shared := false |})
  else if sl_cap s <? sl_used s + n then
    (* a new shared buffer *)
    ({| sl_cap := sl_cap s; sl_used := n; sl_buf := sl_next s; sl_next := S (sl_next s) |},
     {| rg_buf := sl_next s; rg_off := 0; rg_len := n; rg_shared := true |})
  else
    ({| sl_cap := sl_cap s; sl_used := sl_used s + n; sl_buf := sl_buf s; sl_next := sl_next s |},
     {| rg_buf := sl_buf s; rg_off := sl_used s; rg_len := n; rg_shared := true |}).

Fixpoint slab_run (s : slab) (ns : list nat) : list region :=
  match ns with
  | [] => []
  | n :: r => let '(s', g) := slab_alloc s n in g :: slab_run s' r
  end.

(** ---------- correspondence runners *)

Definition next_result_eqb (a b : next_result) : bool :=
  match a, b with
  | NEntry x, NEntry y => Z.eqb x y
  | NMissing, NMissing | NExcluded, NExcluded | NEOF, NEOF | NErr, NErr => true
  | _, _ => false
  end.
Definition read_code_eqb (a b : read_code) : bool :=
  match a, b with RNil, RNil | REOF, REOF | RErr, RErr => true | _, _ => false end.
Definition cout_eqb (a b : cout) : bool :=
  match a, b with
  | OutNext x, OutNext y => next_result_eqb x y
  | OutRead d c, OutRead d' c' => list_eqb N.eqb d d' && read_code_eqb c c'
  | _, _ => false
  end.

(** catfile case: the stream, the operations (for a Read: len(p) and the byte count the real call
    returned, used as [avail]) and the real reader's outputs. *)
Definition c14ccase := (cbytes * list cop * list cout)%type.
Definition c14c_ok (c : c14ccase) : bool :=
  let '(stream, ops, outs) := c in list_eqb cout_eqb (cf_run (cf_init stream) ops) outs.
Definition c14c_mismatches (cs : list c14ccase) : list N := bad_indexes c14c_ok cs.

(** slab case: capacity, requested sizes, observed (len, cap) of every returned slice.  Offsets inside the
    shared buffer are internal (not compared, so a different packing policy does not alarm); that returned
    slices never alias is checked on the implementation by the harness' fill-pattern oracle and proved of the
    model ([slab_disjoint]). *)
Definition c14scase := (N * list N * list (N * N))%type.
Definition obs_eqb (a b : N * N) : bool := N.eqb (fst a) (fst b) && N.eqb (snd a) (snd b).
Definition c14s_ok (c : c14scase) : bool :=
  let '(cap, ns, obs) := c in
  list_eqb obs_eqb (map (fun r => (N.of_nat (rg_len r), N.of_nat (rg_len r))) (slab_run (slab_new (N.to_nat cap)) (map N.to_nat ns))) obs.
Definition c14s_mismatches (cs : list c14scase) : list N := bad_indexes c14s_ok cs.
