(** Model of search/watcher.go (versionFromPath, DirectoryWatcher.scan) and of the shard loader in
    search/shards.go (loader.drop / loader.load / shardedSearcher.replace as copy-on-write of one map,
    getLoaded as "take the last published snapshot").

    scan is a pure function of (directory listing with mtimes, previous timestamps).  A listing entry
    carries, besides path and mtime, an abstract content identity and whether loadShard would succeed;
    both are only used by the loader part (they stand for the file's bytes + sidecar bytes).

    Go operations that can panic are checked ([outcome]): versionFromPath slices path[und+2:dot].
    The format-version constants (index.IndexFormatVersion / NextIndexFormatVersion) are parameters
    [cur next] supplied by the harness from the real constants, not copied into the model. *)
From ZV Require Import Lib.Base Model.RankedStore.

Definition path := list N.
Definition c_und : N := 95.   (* '_' *)
Definition c_dot : N := 46.   (* '.' *)

(** strings.Index / strings.LastIndex for a single byte *)
Fixpoint index_byte (c : N) (l : list N) : option nat :=
  match l with
  | [] => None
  | x :: r => if N.eqb x c then Some 0 else option_map S (index_byte c r)
  end.
Fixpoint last_index_byte (c : N) (l : list N) : option nat :=
  match l with
  | [] => None
  | x :: r => match last_index_byte c r with
              | Some i => Some (S i)
              | None => if N.eqb x c then Some 0 else None
              end
  end.

(** strconv.Atoi: optional sign, at least one decimal digit, nothing else, int64 range *)
Definition digit (c : N) : option Z :=
  if (48 <=? c)%N && (c <=? 57)%N then Some (Z.of_N (c - 48)) else None.
Fixpoint digits_val (l : list N) (acc : Z) : option Z :=
  match l with
  | [] => Some acc
  | c :: r => match digit c with Some d => digits_val r (acc * 10 + d)%Z | None => None end
  end.
Definition atoi (s : list N) : option Z :=
  match s with
  | [] => None
  | c :: r =>
      let '(neg, ds) := if N.eqb c 45 then (true, r) else if N.eqb c 43 then (false, r) else (false, s) in
      match ds with
      | [] => None
      | _ => match digits_val ds 0 with
             | None => None
             | Some v => let v' := if neg then (- v)%Z else v in
                         if (- 9223372036854775808 <=? v')%Z && (v' <=? 9223372036854775807)%Z then Some v' else None
             end
      end
  end.

(** versionFromPath (after fix 5288900: `if dot < und+2 { return path, 0 }` guards the slice
    path[und+2:dot]; before, a last '_' directly followed by '.' made it panic).  The result type stays
    [outcome]: that no input reaches a Panic is a theorem (C19_scan_never_panics), not an artefact. *)
Definition version_from_path (p : path) : outcome (path * Z) :=
  match last_index_byte c_und p with
  | None => Ok (p, 0%Z)
  | Some und =>
      match index_byte c_dot (skipn und p) with
      | None => Ok (p, 0%Z)
      | Some d =>
          let dot := d + und in
          if dot <? und + 2 then Ok (p, 0%Z)
          else match atoi (slice p (und + 2) dot) with
               | None => Ok (p, 0%Z)
               | Some v => Ok (firstn und p, v)
               end
      end
  end.

(** ---- directory listing *)
Record fent := mkF { f_path : path; f_mtime : Z; f_content : N; f_loadable : bool }.

Definition suffix_zoekt : list N := [46; 122; 111; 101; 107; 116]%N.   (* ".zoekt" *)
Definition suffix_meta : list N := [46; 109; 101; 116; 97]%N.           (* ".meta" *)
Definition has_suffix (suf l : list N) : bool :=
  (length suf <=? length l) && list_eqb N.eqb (skipn (length l - length suf) l) suf.

Definition path_eqb (a b : path) : bool := list_eqb N.eqb a b.

Fixpoint lookup {V} (k : path) (m : list (path * V)) : option V :=
  match m with
  | [] => None
  | (k', v) :: r => if path_eqb k k' then Some v else lookup k r
  end.
Definition remove_key {V} (k : path) (m : list (path * V)) : list (path * V) :=
  filter (fun kv => negb (path_eqb k (fst kv))) m.
Definition set_key {V} (k : path) (v : V) (m : list (path * V)) : list (path * V) :=
  (k, v) :: remove_key k m.
Definition mem_key {V} (k : path) (m : list (path * V)) : bool :=
  match lookup k m with Some _ => true | None => false end.

(** `version > IndexFormatVersion && version > NextIndexFormatVersion` => skipped *)
Definition supported (cur next v : Z) : bool := negb ((v >? cur)%Z && (v >? next)%Z).

(** the first loop of scan, read per name: running maximum (from the map's zero value) of the supported
    versions of that name *)
Definition latest_of (cur next : Z) (vps : list (path * Z)) (name : path) : Z :=
  fold_left (fun acc nv => if path_eqb (fst nv) name && supported cur next (snd nv) && (acc <? snd nv)%Z
                           then snd nv else acc) vps 0%Z.

Fixpoint map_outcome {A B} (f : A -> outcome B) (l : list A) : outcome (list B) :=
  match l with
  | [] => Ok []
  | x :: r => do y <- f x; do ys <- map_outcome f r; Ok (y :: ys)
  end.

Definition lstat (L : list fent) (p : path) : option Z :=
  match find (fun e => path_eqb (f_path e) p) L with Some e => Some (f_mtime e) | None => None end.

(** effective timestamp: the later of the shard's and its ".meta" sidecar's mtime *)
Definition eff_mtime (L : list fent) (e : fent) : Z :=
  match lstat L (f_path e ++ suffix_meta) with
  | Some m => if (m >? f_mtime e)%Z then m else f_mtime e
  | None => f_mtime e
  end.

(** Glob(dir/*.zoekt) *)
Definition globbed (L : list fent) : list fent := filter (fun e => has_suffix suffix_zoekt (f_path e)) L.

(** the files scan keeps: for their name, the version equals latest[name] *)
Definition selected (cur next : Z) (L : list fent) : outcome (list fent) :=
  let fs := globbed L in
  do vps <- map_outcome (fun e => version_from_path (f_path e)) fs;
  Ok (map fst (filter (fun ev => Z.eqb (latest_of cur next vps (fst (snd ev))) (snd (snd ev))) (combine fs vps))).

Record wstate := mkW {
  w_ts : list (path * Z);        (* DirectoryWatcher.timestamps *)
  w_loaded : list (path * N)     (* shardedSearcher.shards: key -> identity of the loaded content *)
}.
Definition w_init : wstate := mkW [] [].

Record scan_out := mkOut {
  o_drop : list path;
  o_load : list path;
  o_snaps : list (list (path * N));   (* every value stored into `ranked` during this scan, in order *)
  o_state : wstate
}.

(** loader.load: a key whose loadShard fails keeps whatever was loaded under that key *)
Definition apply_loads (L : list fent) (keys : list path) (m : list (path * N)) : list (path * N) :=
  fold_left (fun acc k =>
               match find (fun e => path_eqb (f_path e) k) L with
               | Some e => if f_loadable e then set_key k (f_content e) acc else acc
               | None => acc
               end) keys m.
Definition any_loadable (L : list fent) (keys : list path) : bool :=
  existsb (fun k => match find (fun e => path_eqb (f_path e) k) L with Some e => f_loadable e | None => false end) keys.

Definition scan (cur next : Z) (L : list fent) (st : wstate) : outcome scan_out :=
  do sel <- selected cur next L;
  let ts := map (fun e => (f_path e, eff_mtime L e)) sel in
  let to_load := map fst (filter (fun km => match lookup (fst km) (w_ts st) with
                                            | Some t => negb (Z.eqb t (snd km))
                                            | None => true
                                            end) ts) in
  let to_drop := map fst (filter (fun kt => negb (mem_key (fst kt) ts)) (w_ts st)) in
  let after_drop := fold_left (fun acc k => remove_key k acc) to_drop (w_loaded st) in
  let after_load := apply_loads L to_load after_drop in
  let snaps := (match to_drop with [] => [] | _ => [after_drop] end) ++
               (if any_loadable L to_load then [after_load] else []) in
  Ok (mkOut to_drop to_load snaps (mkW ts after_load)).

(** ---- correspondence runner.
    Compact case encoding: the base names occurring in a script are interned once per case ([names]) and
    referred to by index; mtimes are offsets in ns from the case's [t0] (exact, no rounding). An index
    outside the table makes the case a mismatch (no default hiding it: [step_wf]). *)
Definition raw_ent := (N * N * N * bool)%type.               (* name index, mtime offset, content id, loadable *)
Record c19step := mkStep {
  s_listing : list raw_ent;
  s_panicked : bool;                        (* scan panicked in Go *)
  s_drop : list N;                          (* observed, as name indexes, any order *)
  s_load : list N;
  s_ts : list (N * N);                      (* DirectoryWatcher.timestamps after the scan: name index, mtime offset *)
  s_loaded : list (N * N);                  (* shards map after the scan: name index, content identity *)
  s_held : list (N * list (N * N))          (* snapshots HELD since an earlier getLoaded, iterated after this scan:
                                               (id of the getLoaded, what the held slice shows now); id 2i = taken
                                               after the drop of scan i, 2i+1 = taken after scan i *)
}.
Inductive c19case :=
| CScan (cur next : Z) (dir : list N) (t0 : Z) (names : list (list N)) (steps : list c19step)
| CVfp (p : list N) (observed : option (list N * Z))    (* None = versionFromPath panicked *)
| CHeld (init : list (N * N)) (pubs : list (list (N * N))) (seen : list (N * N)).
  (* a search took its list when [init] (repo, version; sorted by repo) was published, [pubs] were published while it
     was running, [seen] = the (repo, version) pairs of its result sorted by repo *)

Definition full (dir : list N) (base : list N) : path := dir ++ [47%N] ++ base.
Definition step_wf (n : nat) (s : c19step) : bool :=
  let ok := fun i : N => (N.to_nat i <? n) in
  forallb (fun r : raw_ent => let '(i, _, _, _) := r in ok i) (s_listing s) &&
  forallb ok (s_drop s) && forallb ok (s_load s) &&
  forallb (fun kv => ok (fst kv)) (s_ts s) && forallb (fun kv => ok (fst kv)) (s_loaded s) &&
  forallb (fun h => forallb (fun kv => ok (fst kv)) (snd h)) (s_held s).
Definition path_at (paths : list path) (i : N) : path := nth (N.to_nat i) paths [].   (* guarded by step_wf *)
Definition mk_ent (paths : list path) (t0 : Z) (r : raw_ent) : fent :=
  let '(i, m, c, l) := r in mkF (path_at paths i) (t0 + Z.of_N m)%Z c l.

Definition subset_paths (a b : list path) : bool := forallb (fun x => existsb (path_eqb x) b) a.
Definition same_paths (a b : list path) : bool := (length a =? length b) && subset_paths a b && subset_paths b a.
Definition same_map {V} (veq : V -> V -> bool) (a b : list (path * V)) : bool :=
  (length a =? length b) &&
  forallb (fun kv => match lookup (fst kv) b with Some v => veq (snd kv) v | None => false end) a &&
  forallb (fun kv => match lookup (fst kv) a with Some v => veq (snd kv) v | None => false end) b.

(** The published lists live in the store of Model/RankedStore.v: every value scan publishes goes through
    [publish_cow] (what replace does), getLoaded hands out the current HEADER, and a held header is read back through
    the store as it is NOW.  [hdrs] = the headers handed out so far (id 2i: after the drop of scan i, 2i+1: after
    scan i).  A held snapshot the harness iterated after a later scan must show what the model's store shows. *)
Definition lookup_hdr (id : N) (hdrs : list (N * shdr)) : option shdr :=
  match find (fun h => N.eqb (fst h) id) hdrs with Some h => Some (snd h) | None => None end.
Definition held_ok (paths : list path) (rs : ranked_state (path * N)) (hdrs : list (N * shdr)) (h : N * list (N * N)) : bool :=
  match lookup_hdr (fst h) hdrs with
  | Some sl => match read (rs_store rs) sl with
               | Some v => same_map N.eqb v (map (fun kv => (path_at paths (fst kv), snd kv)) (snd h))
               | None => false
               end
  | None => false
  end.
(** scan's publications in the store: the after-drop list (if anything was dropped) first, then the rest *)
Definition publish_scan (rs : ranked_state (path * N)) (o : scan_out) : ranked_state (path * N) * ranked_state (path * N) :=
  match o_drop o, o_snaps o with
  | _ :: _, sd :: rest => let rs1 := publish_cow rs sd in (rs1, publish_all rs1 rest)
  | _, sn => (rs, publish_all rs sn)
  end.

Fixpoint run_steps (cur next : Z) (paths : list path) (t0 : Z) (i : N) (st : wstate)
         (rs : ranked_state (path * N)) (hdrs : list (N * shdr)) (steps : list c19step) : bool :=
  match steps with
  | [] => true
  | s :: r =>
      step_wf (length paths) s &&
      let L := map (mk_ent paths t0) (s_listing s) in
      match scan cur next L st with
      | Panic _ => s_panicked s && run_steps cur next paths t0 (i + 1) st rs hdrs r   (* the Go harness keeps the previous state *)
      | Err _ => false
      | Ok o =>
          let '(rs1, rs2) := publish_scan rs o in
          let hdrs' := (2 * i + 1, get_loaded rs2)%N :: (2 * i, get_loaded rs1)%N :: hdrs in
          negb (s_panicked s) &&
          same_paths (o_drop o) (map (path_at paths) (s_drop s)) &&
          same_paths (o_load o) (map (path_at paths) (s_load s)) &&
          same_map Z.eqb (w_ts (o_state o)) (map (fun kv => (path_at paths (fst kv), (t0 + Z.of_N (snd kv))%Z)) (s_ts s)) &&
          same_map N.eqb (w_loaded (o_state o)) (map (fun kv => (path_at paths (fst kv), snd kv)) (s_loaded s)) &&
          forallb (held_ok paths rs2 hdrs') (s_held s) &&
          run_steps cur next paths t0 (i + 1) (o_state o) rs2 hdrs' r
      end
  end.

Definition c19_ok (c : c19case) : bool :=
  match c with
  | CScan cur next dir t0 names steps => run_steps cur next (map (full dir) names) t0 0 w_init rs_init [] steps
  | CVfp p obs =>
      match version_from_path p, obs with
      | Panic _, None => true
      | Ok (n, v), Some (n', v') => path_eqb n n' && Z.eqb v v'
      | _, _ => false
      end
  | CHeld init pubs seen =>
      let rs0 := publish_cow rs_init init in
      match read (rs_store (publish_all rs0 pubs)) (get_loaded rs0) with
      | Some v => list_eqb (fun a b => N.eqb (fst a) (fst b) && N.eqb (snd a) (snd b)) v seen
      | None => false
      end
  end.
Definition c19_mismatches (cs : list c19case) : list N := bad_indexes c19_ok cs.
