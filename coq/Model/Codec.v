(** Model of /repo/marshal.go (reposMapEncode/reposMapDecode, binaryReader) and /repo/query/marshal.go
    (stringSetEncode/Decode, branchesReposEncode/Decode, binaryReader) over byte lists.

    - encoding/binary.Uvarint / PutUvarint are modelled instruction by instruction ([uv_loop], [put_uvarint]).
    - The reader is a state monad over (remaining buffer, steps, alloc) with the sticky error of
      binaryReader turned into an abort: the repaired Go code returns at the first reader error.
    - Go operations that can panic (slice expressions, make with a run-time length) are CHECKED operations
      ([go_slice_to], [go_slice_from], [go_make]) that yield [Panic]; "decode never panics" is a theorem.
    - [steps] counts primitive reads (byt / uvarint; each loop iteration performs at least one);
      [alloc] counts requested elements: the clone of the input, every make(…, n) hint/len/cap, every append.
    - roaring's Bitmap.FromBuffer is external: the decoders take it as a parameter [bm].
    - the encoders exist twice: [enc_*] (pure: what is written) and [enc_*_chk cap] (outcome monad: every varint goes
      through binary.PutUvarint into the scratch buffer `var enc [cap]byte`, whose index expressions are CHECKED writes);
      the capacities are GENERATED from the source (Generated/CodecConsts.v, translator/c26consts). *)
From ZV Require Import Lib.Base Generated.CodecConsts.
Open Scope N_scope.

Definition bytes := list N.

(** ---- encoding/binary *)
Fixpoint uv_loop (buf : bytes) (i : nat) (x s : N) : N * Z :=
  match buf with
  | [] => (0, 0%Z)
  | b :: r =>
      if Nat.eqb i 10 then (0, (- Z.of_nat (i + 1))%Z)
      else if b <? 128 then
        if Nat.eqb i 9 && (1 <? b) then (0, (- Z.of_nat (i + 1))%Z)
        else (N.lor x (N.shiftl b s), Z.of_nat (i + 1))
      else uv_loop r (S i) (N.lor x (N.shiftl (N.land b 127) s)) (s + 7)
  end.
Definition uvarint (buf : bytes) : N * Z := uv_loop buf 0 0 0.

Fixpoint put_uvarint_f (fuel : nat) (x : N) : bytes :=
  match fuel with
  | O => []
  | S f => if x <? 128 then [x] else (x mod 128 + 128) :: put_uvarint_f f (x / 128)
  end.
Definition put_uvarint (x : N) : bytes := put_uvarint_f 10 x.

(** Go conversions *)
Definition two63 : Z := 9223372036854775808%Z.
Definition two64 : Z := 18446744073709551616%Z.
Definition to_int (x : N) : Z := let z := Z.of_N x in if (z <? two63)%Z then z else (z - two64)%Z.   (* int(uint64) *)
Definition of_int (z : Z) : N := Z.to_N (z mod two64).                                              (* uint64(int) *)
Definition to_u32 (z : Z) : N := Z.to_N (z mod 4294967296).                                         (* uint32(int) *)

(** ---- checked Go operations *)
Definition go_slice_to {A} (l : Z) (b : list A) : outcome (list A * list A) :=   (* (b[:l], b[l:]) *)
  if ((l <? 0) || (Z.of_nat (length b) <? l))%Z then Panic 1 else Ok (firstn (Z.to_nat l) b, skipn (Z.to_nat l) b).
Definition go_slice_from {A} (l : Z) (b : list A) : outcome (list A) :=            (* b[l:] *)
  if ((l <? 0) || (Z.of_nat (length b) <? l))%Z then Panic 2 else Ok (skipn (Z.to_nat l) b).
Definition go_make (l : Z) : outcome nat :=                                        (* make([]T, l) / make([]T, 0, l): panics when l < 0 *)
  if (l <? 0)%Z then Panic 3 else Ok (Z.to_nat l).

(** ---- the reader monad *)
Record st := mkst { buf : bytes; steps : nat; alloc : nat }.
Definition M (A : Type) := st -> outcome A * st.
Definition ret {A} (a : A) : M A := fun s => (Ok a, s).
Definition bind {A B} (m : M A) (f : A -> M B) : M B :=
  fun s => match m s with
           | (Ok a, s') => f a s'
           | (Err e, s') => (Err e, s')
           | (Panic w, s') => (Panic w, s')
           end.
Notation "'mdo' x <- a ; b" := (bind a (fun x => b)) (at level 200, x pattern, a at level 100, b at level 200).

Definition lift {A} (o : outcome A) : M A := fun s => (o, s).
Definition m_fail {A} (e : N) : M A := fun s => (Err e, mkst [] (steps s) (alloc s)).      (* b.b = nil; b.err = malformed *)
Definition m_tick : M unit := fun s => (Ok tt, mkst (buf s) (S (steps s)) (alloc s)).
Definition m_alloc (n : nat) : M unit := fun s => (Ok tt, mkst (buf s) (steps s) (alloc s + n)).
Definition m_get : M bytes := fun s => (Ok (buf s), s).
Definition m_put (b : bytes) : M unit := fun s => (Ok tt, mkst b (steps s) (alloc s)).

(** binaryReader.byt *)
Definition r_byt : M N :=
  mdo _ <- m_tick; mdo b <- m_get;
  match b with [] => m_fail 1 | x :: r => mdo _ <- m_put r; ret x end.

(** binaryReader.uvarint (repaired: n <= 0, i.e. truncated or overflowing, is malformed); result is Go's int(x) *)
Definition r_uvarint : M Z :=
  mdo _ <- m_tick; mdo b <- m_get;
  let '(x, n) := uvarint b in
  if (n <=? 0)%Z then m_fail 1
  else mdo r <- lift (go_slice_from n b); mdo _ <- m_put r; ret (to_int x).

(** binaryReader.length (added by the repair): a count or byte length must fit the remaining input *)
Definition r_length : M Z :=
  mdo l <- r_uvarint; mdo b <- m_get;
  if ((l <? 0) || (Z.of_nat (length b) <? l))%Z then m_fail 1 else ret l.

(** binaryReader.str:  l := length(); s := b.b[:l]; b.b = b.b[l:] *)
Definition r_str : M bytes :=
  mdo l <- r_length; mdo b <- m_get;
  mdo p <- lift (go_slice_to l b); mdo _ <- m_put (snd p); ret (fst p).

(** binaryReader.bitmap with roaring's FromBuffer as the parameter [bm] *)
Definition r_bitmap {T} (bm : bytes -> outcome T) : M T :=
  mdo blob <- r_str; lift (bm blob).

(** make(map, l) / make([]T, l): checked, and accounted *)
Definition m_make (l : Z) : M unit := mdo n <- lift (go_make l); m_alloc n.
(** l := r.length(); x := make(..., l) *)
Definition r_count : M Z := mdo l <- r_length; mdo _ <- m_make l; ret l.

(** ---- stringSetDecode *)
Fixpoint rd_strs (n : nat) (acc : list bytes) : M (list bytes) :=
  match n with
  | O => ret acc
  | S k => mdo s <- r_str; rd_strs k (acc ++ [s])
  end.
Definition dec_set_m : M (list bytes) :=
  mdo v <- r_byt;
  if negb (v =? 1) then m_fail 2 else
  mdo l <- r_count; rd_strs (Z.to_nat l) [].

(** ---- reposMapDecode *)
Definition branch := (bytes * bytes)%type.
Definition rentry := (bool * Z * list branch)%type.        (* HasSymbols, IndexTimeUnix, Branches *)
Definition r_branch : M branch :=      (* append(allBranches, RepositoryBranch{Name: r.str(), Version: r.str()}) *)
  mdo nm <- r_str; mdo ver <- r_str; mdo _ <- m_alloc 1; ret (nm, ver).
Fixpoint rd_branches (n : nat) (all : list branch) : M (list branch) :=
  match n with
  | O => ret all
  | S k => mdo b <- r_branch; rd_branches k (all ++ [b])
  end.
Fixpoint rd_entries (n : nat) (v2 : bool) (all : list branch) (m : list (N * rentry)) : M (list (N * rentry)) :=
  match n with
  | O => ret m
  | S k =>
      mdo id <- r_uvarint; mdo hs <- r_byt;
      mdo it <- (if v2 then r_uvarint else ret 0%Z);
      mdo lb <- r_length;
      mdo all' <- rd_branches (Z.to_nat lb) all;
      mdo brs <- lift (go_slice_from (Z.of_nat (length all') - lb) all');
      rd_entries k v2 all' (m ++ [(to_u32 id, (hs =? 1, it, brs))])
  end.
Definition dec_repos_m : M (option (list (N * rentry))) :=
  mdo b <- m_get;
  match b with
  | [] => ret None
  | _ =>
      mdo v <- r_byt;
      if negb ((v =? 1) || (v =? 2)) then m_fail 2 else
      mdo l <- r_count;
      mdo abl <- r_count;
      mdo m <- rd_entries (Z.to_nat l) (v =? 2) [] [];
      ret (Some m)
  end.

(** ---- branchesReposDecode *)
Fixpoint rd_brs {T} (bm : bytes -> outcome T) (n : nat) (acc : list (bytes * T)) : M (list (bytes * T)) :=
  match n with
  | O => ret acc
  | S k => mdo br <- r_str; mdo bmp <- r_bitmap bm; rd_brs bm k (acc ++ [(br, bmp)])
  end.
Definition dec_br_m {T} (bm : bytes -> outcome T) : M (list (bytes * T)) :=
  mdo v <- r_byt;
  if negb (v =? 1) then m_fail 2 else
  mdo l <- r_count; rd_brs bm (Z.to_nat l) [].

(** top level: the decoders clone their input first (alloc |b|) *)
Definition run {A} (m : M A) (b : bytes) : outcome A * st := m (mkst b 0 (length b)).
Definition dec_set (b : bytes) := fst (run dec_set_m b).
Definition dec_repos (b : bytes) := fst (run dec_repos_m b).
Definition dec_br {T} (bm : bytes -> outcome T) (b : bytes) := fst (run (dec_br_m bm) b).

(** ---- encoders *)
Definition nlen {A} (l : list A) : N := N.of_nat (length l).
Definition enc_str (s : bytes) : bytes := put_uvarint (nlen s) ++ s.
Definition enc_set (l : list bytes) : bytes := 1 :: put_uvarint (nlen l) ++ concat (map enc_str l).
Definition enc_branch (b : branch) : bytes := enc_str (fst b) ++ enc_str (snd b).
Definition enc_entry (e : N * rentry) : bytes :=
  let '(id, (hs, it, brs)) := e in
  put_uvarint id ++ [if hs : bool then 1 else 0] ++ put_uvarint (of_int it) ++ put_uvarint (nlen brs)
  ++ concat (map enc_branch brs).
Definition all_branches (l : list (N * rentry)) : nat := fold_right (fun e n => (length (snd (snd e)) + n)%nat) O l.
Definition enc_repos (o : option (list (N * rentry))) : bytes :=
  match o with
  | None => []
  | Some l => 2 :: put_uvarint (nlen l) ++ put_uvarint (N.of_nat (all_branches l)) ++ concat (map enc_entry l)
  end.
(** version 1 of the ReposMap wire format ("the same, except it didn't have the IndexTimeUnix field"); /repo has no
    writer for it any more, the decoder still accepts it *)
Definition enc_entry_v1 (e : N * rentry) : bytes :=
  let '(id, (hs, it, brs)) := e in
  put_uvarint id ++ [if hs : bool then 1 else 0] ++ put_uvarint (nlen brs) ++ concat (map enc_branch brs).
Definition enc_repos_v1 (l : list (N * rentry)) : bytes :=
  1 :: put_uvarint (nlen l) ++ put_uvarint (N.of_nat (all_branches l)) ++ concat (map enc_entry_v1 l).
Definition drop_time (e : N * rentry) : N * rentry := let '(id, (hs, it, brs)) := e in (id, (hs, 0%Z, brs)).

Definition enc_br (l : list (bytes * bytes)) : bytes :=      (* (branch, serialised bitmap) *)
  1 :: put_uvarint (nlen l) ++ concat (map (fun p => enc_str (fst p) ++ enc_str (snd p)) l).

(** ---- checked encoders: the varint scratch buffer is explicit.
    binary.PutUvarint(buf, x):  i := 0; for x >= 0x80 { buf[i] = byte(x) | 0x80; x >>= 7; i++ }; buf[i] = byte(x); return i + 1
    Each buf[i] is an index expression that panics when i >= len(buf); the encoders call it with buf = enc[:], the whole
    of `var enc [cap]byte`, and then copy enc[:m] to the output (m <= cap: never out of range). [fuel] only makes the
    recursion structural: 10 iterations exhaust a uint64; running out of fuel is reported as Panic 97, never hidden. *)
Fixpoint put_uvarint_chk_f (fuel cap i : nat) (x : N) : outcome bytes :=
  match fuel with
  | O => Panic 97
  | S f =>
      if (cap <=? i)%nat then Panic 4                       (* index out of range [i] with length cap *)
      else if x <? 128 then Ok [x]
      else do r <- put_uvarint_chk_f f cap (S i) (x / 128); Ok ((x mod 128 + 128) :: r)
  end.
Definition put_uvarint_chk (cap : nat) (x : N) : outcome bytes := put_uvarint_chk_f 10 cap 0 x.

Fixpoint cconcat {A} (f : A -> outcome bytes) (l : list A) : outcome bytes :=        (* the range loops of the encoders *)
  match l with
  | [] => Ok []
  | x :: r => do a <- f x; do b <- cconcat f r; Ok (a ++ b)
  end.
Definition enc_str_chk (cap : nat) (s : bytes) : outcome bytes := do v <- put_uvarint_chk cap (nlen s); Ok (v ++ s).
Definition enc_set_chk (cap : nat) (l : list bytes) : outcome bytes :=
  do n <- put_uvarint_chk cap (nlen l); do body <- cconcat (enc_str_chk cap) l; Ok (1 :: n ++ body).
Definition enc_branch_chk (cap : nat) (b : branch) : outcome bytes :=
  do a <- enc_str_chk cap (fst b); do c <- enc_str_chk cap (snd b); Ok (a ++ c).
Definition enc_entry_chk (cap : nat) (e : N * rentry) : outcome bytes :=
  let '(id, (hs, it, brs)) := e in
  do a <- put_uvarint_chk cap id;                             (* varint(int(repoID)) *)
  do t <- put_uvarint_chk cap (of_int it);                    (* varint(int(entry.IndexTimeUnix)): uint64(n) of a possibly negative int *)
  do n <- put_uvarint_chk cap (nlen brs);
  do bs <- cconcat (enc_branch_chk cap) brs;
  Ok (a ++ [if hs : bool then 1 else 0] ++ t ++ n ++ bs).
Definition enc_repos_chk (cap : nat) (o : option (list (N * rentry))) : outcome bytes :=
  match o with
  | None => Ok []
  | Some l =>
      do n <- put_uvarint_chk cap (nlen l);
      do ab <- put_uvarint_chk cap (N.of_nat (all_branches l));
      do body <- cconcat (enc_entry_chk cap) l;
      Ok (2 :: n ++ ab ++ body)
  end.
Definition enc_br_chk (cap : nat) (l : list (bytes * bytes)) : outcome bytes :=
  do n <- put_uvarint_chk cap (nlen l);
  do body <- cconcat (fun p => do a <- enc_str_chk cap (fst p); do c <- enc_str_chk cap (snd p); Ok (a ++ c)) l;
  Ok (1 :: n ++ body).
(** the encoders of the tree under test: capacities read from the source by translator/c26consts *)
Definition enc_set_go := enc_set_chk stringset_enc_cap.
Definition enc_repos_go := enc_repos_chk reposmap_enc_cap.
Definition enc_br_go := enc_br_chk branchesrepos_enc_cap.
Definition ok_bytes_eqb (o : outcome bytes) (b : bytes) : bool :=
  match o with Ok e => list_eqb N.eqb e b | _ => false end.

(** ---- map / set views (Go maps: later insertion wins; observation = sorted by key) *)
Fixpoint bytes_cmp (a b : bytes) : comparison :=
  match a, b with
  | [], [] => Eq
  | [], _ => Lt
  | _, [] => Gt
  | x :: a', y :: b' => match N.compare x y with Eq => bytes_cmp a' b' | c => c end
  end.
Fixpoint set_ins (x : bytes) (l : list bytes) : list bytes :=
  match l with
  | [] => [x]
  | y :: r => match bytes_cmp x y with Lt => x :: l | Eq => l | Gt => y :: set_ins x r end
  end.
Definition canon_set (l : list bytes) : list bytes := fold_left (fun acc x => set_ins x acc) l [].
Fixpoint map_ins {V} (k : N) (v : V) (l : list (N * V)) : list (N * V) :=
  match l with
  | [] => [(k, v)]
  | (k', v') :: r => match N.compare k k' with Lt => (k, v) :: l | Eq => (k, v) :: r | Gt => (k', v') :: map_ins k v r end
  end.
Definition canon_map {V} (l : list (N * V)) : list (N * V) := fold_left (fun acc kv => map_ins (fst kv) (snd kv) acc) l [].

(** ---- correspondence runner *)
Inductive cval :=
| VSet (l : list bytes)                                   (* sorted, distinct *)
| VRepos (o : option (list (N * rentry)))                 (* None = nil map; sorted by id *)
| VBR (l : list (bytes * list N)).                        (* (branch, elements of the bitmap) *)

Definition bytes_eqb := list_eqb N.eqb.
Definition branch_eqb (a b : branch) := bytes_eqb (fst a) (fst b) && bytes_eqb (snd a) (snd b).
Definition rentry_eqb (a b : rentry) :=
  let '(h1, t1, b1) := a in let '(h2, t2, b2) := b in Bool.eqb h1 h2 && Z.eqb t1 t2 && list_eqb branch_eqb b1 b2.
Definition kv_eqb (a b : N * rentry) := N.eqb (fst a) (fst b) && rentry_eqb (snd a) (snd b).
Definition cval_eqb (a b : cval) : bool :=
  match a, b with
  | VSet x, VSet y => list_eqb bytes_eqb x y
  | VRepos None, VRepos None => true
  | VRepos (Some x), VRepos (Some y) => list_eqb kv_eqb x y
  | VBR x, VBR y => list_eqb (fun p q => bytes_eqb (fst p) (fst q) && list_eqb N.eqb (snd p) (snd q)) x y
  | _, _ => false
  end.
Definition obs_eqb (m : outcome cval) (o : option cval) : bool :=
  match m, o with
  | Ok a, Some b => cval_eqb a b
  | Err _, None => true
  | _, _ => false
  end.
Definition omap {A B} (f : A -> B) (o : outcome A) : outcome B :=
  match o with Ok a => Ok (f a) | Err e => Err e | Panic w => Panic w end.

Fixpoint assoc_bytes {V} (k : bytes) (l : list (bytes * V)) : option V :=
  match l with [] => None | (k', v) :: r => if bytes_eqb k k' then Some v else assoc_bytes k r end.
(** FromBuffer as observed on the implementation: table blob -> Some elements (accepted) | None (rejected);
    a blob that is not in the table makes the case a mismatch (Panic 99 never equals an observation). *)
Definition bm_of_table (tbl : list (bytes * option (list N))) (blob : bytes) : outcome (list N) :=
  match assoc_bytes blob tbl with
  | Some (Some els) => Ok els
  | Some None => Err 3
  | None => Panic 99
  end.

(** case = (kind, bytes, bitmap table, observation)
    kind 0/1/2: decode of arbitrary bytes by stringSetDecode / reposMapDecode / branchesReposDecode;
    kind 10/11/12: [bytes] is what the Go ENCODER produced for the value [obs]: the model decoder must
    read it, the model encoder must reproduce exactly these bytes from the elements in the order read,
    and the value must agree (the model encoder is the CHECKED one with the generated capacity: it must return Ok);
    kind 20/21: the Go encoder (stringSetEncode / reposMapEncode) PANICKED on the value [obs]: the checked model encoder
    must panic as well (never observed on the unchanged tree; keeps model and code tied on a tree whose scratch buffer
    is too small). *)
Definition c26case := (N * bytes * list (bytes * option (list N)) * option cval)%type.

Definition c26_ok (c : c26case) : bool :=
  let '(kind, b, tbl, obs) := c in
  match kind with
  | 0 => obs_eqb (omap (fun l => VSet (canon_set l)) (dec_set b)) obs
  | 1 => obs_eqb (omap (fun o => VRepos (option_map canon_map o)) (dec_repos b)) obs
  | 2 => obs_eqb (omap VBR (dec_br (bm_of_table tbl) b)) obs
  | 10 => match dec_set b, obs with
          | Ok l, Some (VSet v) => ok_bytes_eqb (enc_set_go l) b && list_eqb bytes_eqb (canon_set l) v
                                   && Nat.eqb (length l) (length v)
          | _, _ => false
          end
  | 11 => match dec_repos b, obs with
          | Ok None, Some (VRepos None) => ok_bytes_eqb (enc_repos_go None) b
          | Ok (Some l), Some (VRepos (Some v)) =>
              ok_bytes_eqb (enc_repos_go (Some l)) b && list_eqb kv_eqb (canon_map l) v && Nat.eqb (length l) (length v)
          | _, _ => false
          end
  | 12 => match dec_br (fun blob => Ok blob) b, obs with
          | Ok l, Some (VBR v) =>
              ok_bytes_eqb (enc_br_go l) b
              && obs_eqb (omap VBR (dec_br (bm_of_table tbl) b)) obs
          | _, _ => false
          end
  | 20 => match obs with Some (VSet v) => is_panic (enc_set_go v) | _ => false end
  | 21 => match obs with Some (VRepos o) => is_panic (enc_repos_go o) | _ => false end
  | _ => false
  end.
Definition c26_mismatches (cs : list c26case) : list N := bad_indexes c26_ok cs.
