(** C24 - executable model of the wire conversions (api_proto.go, query/query_proto.go) and of the
    request decoding of the gRPC handlers (cmd/zoekt-webserver/grpc/server/server.go).

    The model is GENERIC: [apply E c v] interprets one classified conversion [c] (Lib/WireTypes.v)
    on a universal value [v].  Which conversions the code performs for which field is not written
    here: it is the table set [Generated.ProtoFields] that the translator regenerates from /repo's
    sources on every run.  [gen_env] packages the generated tables as the environment [E].

    Conventions: Go `int` is 64 bit; float64 values are their IEEE bit patterns (copied, never
    computed with); a *syntax.Regexp / *regexp.Regexp is represented by its printed source (printing
    and re-parsing fidelity is property C27, here trusted: CReTo/CReFrom); a roaring bitmap is the
    sorted list of its members on both sides (the codec is trusted: CBitmapTo/CBitmapFrom);
    time.Time is (Unix seconds, nanoseconds) - location and monotonic reading are not on the wire. *)
From ZV Require Import Lib.Base Lib.WireTypes.
From Coq Require Import String.

(* ---------------------------------------------------------------- small helpers *)

Fixpoint lookup {A} (k : string) (l : list (string * A)) : option A :=
  match l with
  | [] => None
  | (k', x) :: r => if String.eqb k k' then Some x else lookup k r
  end.

(** [lookup_with f d k fs] = [f x] for the first field [k] of [fs] ([d] when absent). [f] is bound
    outside the fixpoint so that recursive functions over [val] can pass themselves as [f]. *)
Definition lookup_with {A B} (f : A -> B) (d : B) (k : string) : list (string * A) -> B :=
  fix go (fs : list (string * A)) : B :=
    match fs with
    | [] => d
    | (k', x) :: r => if String.eqb k k' then f x else go r
    end.

Definition omap {A B} (f : A -> outcome B) : list A -> outcome (list B) :=
  fix go (l : list A) : outcome (list B) :=
    match l with
    | [] => Ok []
    | x :: r => do y <- f x; do ys <- go r; Ok (y :: ys)
    end.

Fixpoint str_cmp (a b : list N) : comparison :=
  match a, b with
  | [], [] => Eq
  | [], _ :: _ => Lt
  | _ :: _, [] => Gt
  | x :: a', y :: b' => match N.compare x y with Eq => str_cmp a' b' | c => c end
  end.

Definition vs_cmp (a b : val) : comparison :=
  match a, b with
  | VS x, VS y => str_cmp x y
  | _, _ => Eq
  end.

(** insertion of a string into a sorted, duplicate-free list (a Go map[string]struct{} key set) *)
Fixpoint set_insert (x : val) (l : list val) : list val :=
  match l with
  | [] => [x]
  | y :: r => match vs_cmp x y with
              | Lt => x :: y :: r
              | Eq => y :: r
              | Gt => y :: set_insert x r
              end
  end.
Definition set_of_list (l : list val) : list val := fold_right set_insert [] l.

Fixpoint strictly_sorted (l : list val) : bool :=
  match l with
  | [] => true
  | x :: r => match x with VS _ => true | _ => false end &&
              match r with
              | [] => true
              | y :: _ => match vs_cmp x y with Lt => true | _ => false end
              end && strictly_sorted r
  end.

(* ---------------------------------------------------------------- integers, durations, times *)

Definition ity_lo (t : ity) : Z :=
  match t with I8 => -128 | I16 => -32768 | I32 => -2147483648 | I64 => -9223372036854775808
             | U8 | U16 | U32 | U64 => 0 end%Z.
Definition ity_hi (t : ity) : Z :=
  match t with I8 => 127 | I16 => 32767 | I32 => 2147483647 | I64 => 9223372036854775807
             | U8 => 255 | U16 => 65535 | U32 => 4294967295 | U64 => 18446744073709551615 end%Z.
(** Go integer conversion: truncation to the destination width (two's complement) *)
Definition wrap (t : ity) (z : Z) : Z :=
  (ity_lo t + (z - ity_lo t) mod (ity_hi t - ity_lo t + 1))%Z.
Definition in_ity (t : ity) (z : Z) : bool := (ity_lo t <=? z)%Z && (z <=? ity_hi t)%Z.
Definition ity_sub (a b : ity) : bool := (ity_lo b <=? ity_lo a)%Z && (ity_hi a <=? ity_hi b)%Z.
Definition ity_eqb (a b : ity) : bool :=
  match a, b with
  | I8, I8 | I16, I16 | I32, I32 | I64, I64 | U8, U8 | U16, U16 | U32, U32 | U64, U64 => true
  | _, _ => false
  end.

Definition e9 : Z := 1000000000%Z.
(** durationpb.New: seconds and nanos by truncated division *)
Definition dur_to (d : Z) : val :=
  VR [("Seconds"%string, VZ (Z.quot d e9)); ("Nanos"%string, VZ (Z.rem d e9))].
(** Duration.AsDuration, including its overflow saturation *)
Definition dur_from (secs nanos : Z) : Z :=
  let d := wrap I64 (secs * e9) in
  let ov1 := negb (Z.quot d e9 =? secs)%Z in
  let d2 := wrap I64 (d + nanos) in
  let ov2 := (secs <? 0)%Z && (nanos <? 0)%Z && (0 <? d2)%Z in
  let ov3 := (0 <? secs)%Z && (0 <? nanos)%Z && (d2 <? 0)%Z in
  if ov1 || ov2 || ov3 then (if (secs <? 0)%Z then ity_lo I64 else ity_hi I64) else d2.

(** timestamppb.New / AsTime (= time.Unix(sec, nsec).UTC(): nsec normalised by floor division) *)
Definition time_to (sec nsec : Z) : val :=
  VR [("Seconds"%string, VZ sec); ("Nanos"%string, VZ (wrap I32 nsec))].
Definition time_from (secs nanos : Z) : val := VTime (secs + nanos / e9)%Z (nanos mod e9)%Z.

Fixpoint zlookup (z : Z) (ps : list (Z * Z)) : option Z :=
  match ps with
  | [] => None
  | (a, b) :: r => if (z =? a)%Z then Some b else zlookup z r
  end.
Definition enum_map (ps : list (Z * Z)) (d : Z) (z : Z) : Z :=
  match zlookup z ps with Some b => b | None => d end.

(** RawConfig.ToProto: one flag per mask bit that is set, in flagNames order *)
Definition flags_to (ps : list (Z * Z)) (z : Z) : list val :=
  map (fun p => VZ (snd p)) (filter (fun p => negb (Z.land z (fst p) =? 0)%Z) ps).
(** RawConfigFromProto: OR of the masks of the listed flags; unknown flags are ignored *)
Fixpoint flags_from (ps : list (Z * Z)) (l : list val) : outcome Z :=
  match l with
  | [] => Ok 0%Z
  | VZ f :: r => do acc <- flags_from ps r;
                 Ok (Z.lor (match zlookup f ps with Some m => m | None => 0%Z end) acc)
  | _ :: _ => Err 99
  end.

(* ---------------------------------------------------------------- the environment *)

Record env : Type := Env {
  e_tables : list (string * table);
  e_qto : list (string * (string * conv));
  e_qfrom : list (string * (string * conv));
  e_qto_default_panics : bool;
  e_qfrom_nil_safe : bool;
  e_qfrom_default_panics : bool;
  e_excl : list (string * list string);     (* named exclusions: Go fields not on the wire *)
  e_re_norm : list N -> option (list N);
    (* external (regexp engines): None = the pattern does not parse/compile; Some s' = it does and
       syntax.Parse followed by RegexpString prints it as s' *)
  e_nilfrom : list (string * outcome val);
    (* XFromProto(nil) for every struct type whose FromProto reads the message only through getters:
       what the function returns for an UNSET sub-message.  Go's generated getters answer the zero
       value on a nil receiver, so the entry must equal the model's FromProto of the message with
       every field unset (for the generated tables: theorem C24_unset_message_is_empty_message). *)
  e_flags_from_nil_safe : bool
    (* RawConfigFromProto reads its message through getters (true) or dereferences it (false) *)
}.

Definition rows_of (E : env) (to : bool) (n : string) : option (list row) :=
  match lookup n (e_tables E) with
  | Some t => Some (if to then t_to t else t_from t)
  | None => None
  end.
Definition excl_of (E : env) (n : string) : list string :=
  match lookup n (e_excl E) with Some l => l | None => [] end.

Definition ERR_SHAPE : N := 99.   (* the value does not have the shape the conversion expects (ill-typed input) *)
Definition ERR_REGEXP : N := 2.
Definition ERR_BITMAP : N := 3.
Definition ERR_QUERY : N := 4.    (* unknown / unset query node reported as an error *)
Definition P_NIL : N := 1.        (* nil dereference *)
Definition P_UNKNOWN_NODE : N := 2.  (* panic("unknown query node ...") *)

Definition zero_rec (rows : list row) : val := VR (map (fun r => (r_dst r, r_zero r)) rows).

(** [apply E c v]: the result of the conversion [c] on [v].  Structural recursion on [v]; the tables
    are looked up by name in [E]. *)
Fixpoint apply (E : env) (c : conv) (v : val) {struct v} : outcome val :=
  match c with
  | CId => Ok v
  | CStrBytes => match v with VS _ => Ok v | _ => Err ERR_SHAPE end
  | CInt _ dst => match v with VZ z => Ok (VZ (wrap dst z)) | _ => Err ERR_SHAPE end
  | CDurTo => match v with VZ d => Ok (dur_to d) | _ => Err ERR_SHAPE end
  | CDurFrom =>
      match v with
      | VNil => Ok (VZ 0)
      | VR [(_, VZ s); (_, VZ n)] => Ok (VZ (dur_from s n))
      | _ => Err ERR_SHAPE
      end
  | CTimeTo => match v with VTime s n => Ok (time_to s n) | _ => Err ERR_SHAPE end
  | CTimeFrom =>
      match v with
      | VNil => Ok (VTime 0 0)
      | VR [(_, VZ s); (_, VZ n)] => Ok (time_from s n)
      | _ => Err ERR_SHAPE
      end
  | CEnum ps d => match v with VZ z => Ok (VZ (enum_map ps d z)) | _ => Err ERR_SHAPE end
  | CList c' => match v with VL l => do l' <- omap (fun x => apply E c' x) l; Ok (VL l') | _ => Err ERR_SHAPE end
  | CMapV c' =>
      match v with
      | VM kvs => do kvs' <- omap (fun kv => do y <- apply E c' (snd kv); Ok (fst kv, y)) kvs; Ok (VM kvs')
      | _ => Err ERR_SHAPE
      end
  | CSetToList => match v with VL _ => Ok v | _ => Err ERR_SHAPE end
  | CListToSet => match v with VL l => Ok (VL (set_of_list l)) | _ => Err ERR_SHAPE end
  | CRec to nilable n =>
      match rows_of E to n with
      | None => Err ERR_SHAPE
      | Some rows =>
          match v with
          | VR fs =>
              do fs' <- omap (fun r =>
                          match r_src r with
                          | None => Ok (r_dst r, r_zero r)
                          | Some (g, c') => do y <- lookup_with (fun x => apply E c' x) (Err ERR_SHAPE) g fs; Ok (r_dst r, y)
                          end) rows;
              Ok (VR fs')
          | VNil =>
              (* guarded callee: nil stays nil.  Otherwise ToProto on a nil receiver dereferences
                 it; FromProto reads a nil message through getters, i.e. it converts the message
                 with every field unset: [e_nilfrom] (it may return a value, an error, or panic in a
                 nested conversion); a FromProto that reads a field directly dereferences nil *)
              if nilable then Ok VNil
              else if to then Panic P_NIL
              else match lookup n (e_tables E) with
                   | Some t => if t_from_nilsafe t
                               then match lookup n (e_nilfrom E) with Some o => o | None => Err ERR_SHAPE end
                               else Panic P_NIL
                   | None => Err ERR_SHAPE
                   end
          | _ => Err ERR_SHAPE
          end
      end
  | CProj f => match v with VR [(g, x)] => if String.eqb f g then Ok x else Err ERR_SHAPE | _ => Err ERR_SHAPE end
  | CInj f => Ok (VR [(f, v)])
  | CQTo =>
      match v with
      | VQ k x =>
          match lookup k (e_qto E) with
          | Some (pk, c') => do y <- apply E c' x; Ok (VQ pk y)
          | None => if e_qto_default_panics E then Panic P_UNKNOWN_NODE else Err ERR_QUERY
          end
      | VNil => if e_qto_default_panics E then Panic P_UNKNOWN_NODE else Err ERR_QUERY
      | _ => Err ERR_SHAPE
      end
  | CQFrom =>
      match v with
      | VNil =>   (* nil *webserverv1.Q *)
          if e_qfrom_nil_safe E
          then (if e_qfrom_default_panics E then Panic P_UNKNOWN_NODE else Err ERR_QUERY)
          else Panic P_NIL
      | VQ pk x =>   (* pk = "" : message present, oneof unset *)
          match lookup pk (e_qfrom E) with
          | Some (gk, c') => do y <- apply E c' x; Ok (VQ gk y)
          | None => if e_qfrom_default_panics E then Panic P_UNKNOWN_NODE else Err ERR_QUERY
          end
      | _ => Err ERR_SHAPE
      end
  | CReTo _ => match v with VS _ => Ok v | VNil => Panic P_NIL | _ => Err ERR_SHAPE end
  | CReFrom syn =>
      match v with
      | VS s => match e_re_norm E s with
                | Some s' => Ok (VS (if syn then s' else s))
                | None => Err ERR_REGEXP
                end
      | _ => Err ERR_SHAPE
      end
  | CBitmapTo => match v with VL _ => Ok v | VNil => Panic P_NIL | _ => Err ERR_SHAPE end
  | CBitmapFrom => match v with VL _ => Ok v | VS _ => Err ERR_BITMAP | _ => Err ERR_SHAPE end
  | CFlagsTo ps => match v with VZ z => Ok (VR [("Flags"%string, VL (flags_to ps z))]) | _ => Err ERR_SHAPE end
  | CFlagsFrom ps =>
      match v with
      | VR [(_, VL l)] => do z <- flags_from ps l; Ok (VZ z)
      | VNil => if e_flags_from_nil_safe E then Ok (VZ 0) else Panic P_NIL
          (* RawConfigFromProto(nil): `range p.Flags` dereferences nil, `range p.GetFlags()` is empty *)
      | _ => Err ERR_SHAPE
      end
  | CUnknown _ => Err ERR_SHAPE
  end.

(* ---------------------------------------------------------------- the table check *)

Fixpoint mem (s : string) (l : list string) : bool :=
  match l with [] => false | x :: r => String.eqb s x || mem s r end.

Fixpoint find_row (d : string) (rows : list row) : option row :=
  match rows with
  | [] => None
  | r :: rest => if String.eqb d (r_dst r) then Some r else find_row d rest
  end.

Fixpoint nodup_str (l : list string) : bool :=
  match l with [] => true | x :: r => negb (mem x r) && nodup_str r end.

Fixpoint zsubsets_or (ms : list Z) : list Z :=
  match ms with
  | [] => [0%Z]
  | m :: r => let s := zsubsets_or r in s ++ map (Z.lor m) s
  end.

(** [inv_ok E ct cf]: the ToProto-side conversion [ct] and the FromProto-side conversion [cf] form
    one of the invertible pairs.  Value independent. *)
Fixpoint inv_ok (E : env) (ct cf : conv) {struct ct} : bool :=
  match ct, cf with
  | CId, CId => true
  | CStrBytes, CStrBytes => true
  | CInt a b, CInt b' a' => ity_eqb a a' && ity_eqb b b' && ity_sub a b
  | CDurTo, CDurFrom => true
  | CTimeTo, CTimeFrom => true
  | CEnum ps d, CEnum qs e =>
      forallb (fun z => (enum_map qs e (enum_map ps d z) =? z)%Z) (0%Z :: map fst ps)
  | CList a, CList b => inv_ok E a b
  | CMapV a, CMapV b => inv_ok E a b
  | CSetToList, CListToSet => true
  | CRec true _ n, CRec false _ n' =>
      String.eqb n n' && match lookup n (e_tables E) with Some _ => true | None => false end
      && match excl_of E n with [] => true | _ => false end
  | CProj f, CInj g => String.eqb f g
  | CQTo, CQFrom => true
  | CReTo a, CReFrom b => Bool.eqb a b
  | CBitmapTo, CBitmapFrom => true
  | CFlagsTo ps, CFlagsFrom qs =>
      forallb (fun z => match flags_from qs (flags_to ps z) with Ok z' => (z' =? z)%Z | _ => false end)
              (zsubsets_or (map fst ps))
  | _, _ => false
  end.

(** A Go field [g] (a row of the FromProto table) is fine when FromProto reads it from a message
    field [p] that ToProto fills from the same Go field [g] with the inverse conversion.  A named
    exclusion must not be read from the message at all. *)
Definition from_row_ok (E : env) (t : table) (ex : list string) (r : row) : bool :=
  if mem (r_dst r) ex then match r_src r with None => true | Some _ => false end
  else
  match r_src r with
  | None => false
  | Some (p, cf) =>
      match find_row p (t_to t) with
      | Some tr =>
          match r_src tr with
          | Some (g, ct) => String.eqb g (r_dst r) && inv_ok E ct cf
          | None => false
          end
      | None => false
      end
  end.

(** A message field that ToProto fills from Go field [g] is read back by FromProto into [g]. *)
Definition to_row_ok (t : table) (tr : row) : bool :=
  match r_src tr with
  | None => true
  | Some (g, _) =>
      match find_row g (t_from t) with
      | Some r => match r_src r with
                  | Some (p, _) => String.eqb p (r_dst tr)
                  | None => false
                  end
      | None => false
      end
  end.

Definition fields_ok (E : env) (n : string) (t : table) : bool :=
  nodup_str (map r_dst (t_from t)) && nodup_str (map r_dst (t_to t)) &&
  forallb (from_row_ok E t (excl_of E n)) (t_from t) &&
  forallb (to_row_ok t) (t_to t).

(** The kinds handled by QToProto come back from QFromProto as the same kind. *)
Definition qkind_ok (E : env) (k : string) : bool :=
  match lookup k (e_qto E) with
  | Some (pk, ct) =>
      match lookup pk (e_qfrom E) with
      | Some (k', cf) => String.eqb k k' && inv_ok E ct cf
      | None => false
      end
  | None => false
  end.

Definition env_ok (E : env) : bool :=
  forallb (fun nt => fields_ok E (fst nt) (snd nt)) (e_tables E) &&
  nodup_str (map fst (e_tables E)) &&
  forallb (fun kc => qkind_ok E (fst kc)) (e_qto E).

(* ---------------------------------------------------------------- the domain of a conversion pair *)

Definition is_nil (v : val) : bool := match v with VNil => true | _ => false end.
Definition is_vs (v : val) : bool := match v with VS _ => true | _ => false end.

Definition masks_only (ps : list (Z * Z)) (z : Z) : bool :=
  existsb (fun s => (s =? z)%Z) (zsubsets_or (map fst ps)).

(** [dom_b E ct cf v]: [v] is a Go-side value on which the pair is claimed to round-trip:
    integers inside the Go type's range, enum values among the named constants (or zero), sets
    strictly sorted, time nanoseconds in [0, 1e9), pointers non-nil where FromProto cannot return nil,
    records with exactly the Go struct's fields, query nodes of a kind QToProto handles. *)
Fixpoint dom_b (E : env) (ct cf : conv) (v : val) {struct v} : bool :=
  match ct with
  | CId => true
  | CStrBytes => is_vs v
  | CInt a _ => match v with VZ z => in_ity a z | _ => false end
  | CDurTo => match v with VZ z => in_ity I64 z | _ => false end
  | CTimeTo => match v with VTime s n => (0 <=? n)%Z && (n <? e9)%Z | _ => false end
  | CEnum ps _ => match v with VZ z => (z =? 0)%Z || existsb (fun p => (fst p =? z)%Z) ps | _ => false end
  | CList a =>
      match cf, v with
      | CList b, VL l => forallb (fun x => dom_b E a b x) l
      | _, _ => false
      end
  | CMapV a =>
      match cf, v with
      | CMapV b, VM kvs => forallb (fun kv => dom_b E a b (snd kv)) kvs
      | _, _ => false
      end
  | CSetToList => match v with VL l => strictly_sorted l | _ => false end
  | CRec _ nl n =>
      match lookup n (e_tables E), v with
      | Some _, VNil => nl && match cf with CRec _ nl' _ => nl' | _ => false end
      | Some t, VR fs =>
          list_eqb String.eqb (map fst fs) (map r_dst (t_from t)) &&
          forallb (fun r =>
                     mem (r_dst r) (excl_of E n) ||
                     match r_src r with
                     | Some (p, cf') =>
                         match find_row p (t_to t) with
                         | Some tr => match r_src tr with
                                      | Some (_, ct') => lookup_with (fun x => dom_b E ct' cf' x) false (r_dst r) fs
                                      | None => false
                                      end
                         | None => false
                         end
                     | None => false
                     end) (t_from t)
      | _, _ => false
      end
  | CProj f => match v with VR [(g, _)] => String.eqb f g | _ => false end
  | CQTo =>
      match v with
      | VQ k x =>
          match lookup k (e_qto E) with
          | Some (pk, ct') =>
              match lookup pk (e_qfrom E) with
              | Some (_, cf') => dom_b E ct' cf' x
              | None => false
              end
          | None => false
          end
      | _ => false
      end
  | CReTo syn =>
      match v with
      | VS s => match e_re_norm E s with
                | Some s' => if syn then list_eqb N.eqb s' s else true
                | None => false
                end
      | _ => false
      end
  | CBitmapTo => match v with VL _ => true | _ => false end
  | CFlagsTo ps => match v with VZ z => masks_only ps z | _ => false end
  | _ => false
  end.

(** the record with the excluded fields reset to their zero value *)
Definition mask_excl (ex : list string) (rows : list row) (fs : list (string * val)) : list (string * val) :=
  map (fun kv => if mem (fst kv) ex
                 then (fst kv, match find_row (fst kv) rows with Some r => r_zero r | None => snd kv end)
                 else kv) fs.

(* ---------------------------------------------------------------- handlers *)

(** "decoded from the wire": a set oneof case always carries a (possibly empty) message, never nil. *)
Fixpoint wire_wf (v : val) : bool :=
  match v with
  | VQ k x => (String.eqb k "" || negb (is_nil x)) && wire_wf x
  | VL l => forallb wire_wf l
  | VM kvs => forallb (fun kv => wire_wf (snd kv)) kvs
  | VR fs => forallb (fun kv => wire_wf (snd kv)) fs
  | _ => true
  end.

(** getter on a possibly nil message *)
Definition getf (f : string) (v : val) : val :=
  match v with
  | VR fs => match lookup f fs with Some x => x | None => VNil end
  | _ => VNil
  end.

Definition ERR_INVALID_ARGUMENT : N := 10.

(** server.go after the repair: a nil SearchOptions is replaced by the zero options before the
    searcher is called (true) / passed on as nil (false: the code before the repair). *)
Definition handler_defaults_nil_opts : bool := true.

Section Handlers.
  Variable E : env.
  (** the zoekt.Streamer behind the server: Search (opts non-nil) returns a *SearchResult,
      StreamSearch (opts non-nil) sends a list of *SearchResult events, List returns a *RepoList *)
  Variable search : val -> val -> outcome val.
  Variable stream : val -> val -> outcome val.
  Variable list : val -> val -> outcome val.

  Definition decode_query (q : val) : outcome val :=
    match apply E CQFrom q with
    | Ok gq => Ok gq
    | Err _ => Err ERR_INVALID_ARGUMENT
    | Panic w => Panic w
    end.

  Definition zero_opts : val :=
    match rows_of E false "zoekt.SearchOptions" with Some rows => zero_rec rows | None => VNil end.

  (** every searcher reads fields of *SearchOptions without a nil check
      (index.NewDisplayTruncator, search.streamSearch, loggedSearcher.log) *)
  Definition call_search (f : val -> val -> outcome val) (q opts : val) : outcome val :=
    if is_nil opts then Panic P_NIL else f q opts.

  Definition search_core (f : val -> val -> outcome val) (defaults : bool) (request : val) : outcome val :=
    do q <- decode_query (getf "Query" request);
    do opts <- apply E (CRec false true "zoekt.SearchOptions") (getf "Opts" request);
    call_search f q (if defaults && is_nil opts then zero_opts else opts).

  (** response encoding: `res.ToProto()` on what the searcher returned (a nil result stays nil when
      ToProto is nil-guarded, otherwise it is dereferenced) *)
  Definition enc_result (n : string) (r : val) : outcome val :=
    match lookup n (e_tables E) with
    | Some t => apply E (CRec true (t_to_nilguard t) n) r
    | None => Err ERR_SHAPE
    end.

  Definition handle_search (defaults : bool) (req : val) : outcome val :=
    do r <- search_core search defaults req; enc_result "zoekt.SearchResult" r.
  (** every event is encoded (ToStreamProto = ToProto inside a StreamSearchResponse); the chunking
      of one event into several messages (grpc/chunk) is outside the model *)
  Definition handle_stream_search (defaults : bool) (req : val) : outcome val :=
    do r <- search_core stream defaults (getf "Request" req);
    match r with
    | VL evs => do l <- omap (enc_result "zoekt.SearchResult") evs; Ok (VL l)
    | _ => Err ERR_SHAPE
    end.
  Definition list_core (f : val -> val -> outcome val) (req : val) : outcome val :=
    do q <- decode_query (getf "Query" req);
    do opts <- apply E (CRec false true "zoekt.ListOptions") (getf "Opts" req);
    f q opts.
  Definition handle_list (req : val) : outcome val :=
    do r <- list_core list req; enc_result "zoekt.RepoList" r.

  (** the arguments the handler hands to the searcher (for the correspondence: a wrapping Streamer
      records the query and the options it is called with) *)
  Definition handle_args (defaults : bool) (h : N) (req : val) : outcome val :=
    let pair := fun q o => Ok (VL [q; o]) in
    match h with
    | 0%N => search_core pair defaults req
    | 1%N => search_core pair defaults (getf "Request" req)
    | _ => list_core pair req
    end.

  Definition handle (defaults : bool) (h : N) (req : val) : outcome val :=
    match h with
    | 0%N => handle_search defaults req
    | 1%N => handle_stream_search defaults req
    | _ => handle_list req
    end.

  (** what a searcher may return: a value of the round-trip domain of the result type (nil included
      when both conversions are nil-guarded) *)
  Definition res_dom (n : string) (r : val) : bool :=
    match lookup n (e_tables E) with
    | Some t => dom_b E (CRec true (t_to_nilguard t) n) (CRec false (t_from_nilguard t) n) r
    | None => false
    end.
  (** what comes back on the client: the named exclusions are reset *)
  Definition res_back (n : string) (r : val) : val :=
    match lookup n (e_tables E), r with
    | Some t, VR fs => VR (mask_excl (excl_of E n) (t_from t) fs)
    | _, _ => r
    end.
  Definition dec_result (n : string) (w : val) : outcome val :=
    match lookup n (e_tables E) with
    | Some t => apply E (CRec false (t_from_nilguard t) n) w
    | None => Err ERR_SHAPE
    end.
End Handlers.

(* ---------------------------------------------------------------- the no-panic check *)

(** FromProto-side conversions that cannot panic on any wire-decoded value, given that the tables
    they refer to are themselves safe ([from_safe]). *)
Fixpoint safe_conv (E : env) (c : conv) : bool :=
  match c with
  | CId | CStrBytes | CInt _ _ | CDurFrom | CTimeFrom | CEnum _ _ | CListToSet | CInj _
  | CReFrom _ | CBitmapFrom | CQFrom => true
  | CList c' | CMapV c' => safe_conv E c'
  | CRec false _ n =>
      match lookup n (e_tables E) with Some t => t_from_nilsafe t | None => true end
  | _ => false
  end.

(** the conversion of a oneof payload: a set oneof carries a non-nil message on the wire, so the
    getter-less RawConfigFromProto is acceptable there *)
Definition safe_payload_conv (E : env) (c : conv) : bool :=
  safe_conv E c || match c with CFlagsFrom _ => true | _ => false end.

Definition row_safe (E : env) (r : row) : bool :=
  match r_src r with None => true | Some (_, c) => safe_conv E c end.

Definition not_panic (o : outcome val) : bool := match o with Panic _ => false | _ => true end.

Definition from_safe (E : env) : bool :=
  e_qfrom_nil_safe E && negb (e_qfrom_default_panics E) &&
  forallb (fun nt => forallb (row_safe E) (t_from (snd nt))) (e_tables E) &&
  forallb (fun kc => safe_payload_conv E (snd (snd kc))) (e_qfrom E) &&
  match lookup "" (e_qfrom E) with None => true | Some _ => false end &&
  match lookup "zoekt.SearchOptions" (e_tables E) with Some _ => true | None => false end &&
  forallb (fun nt => t_from_nilsafe (snd nt)) (e_tables E) &&
  forallb (fun no => not_panic (snd no)) (e_nilfrom E).

(* ---------------------------------------------------------------- correspondence runner *)

Fixpoint val_eqb (a b : val) {struct a} : bool :=
  match a, b with
  | VB x, VB y => Bool.eqb x y
  | VZ x, VZ y => (x =? y)%Z
  | VS x, VS y => list_eqb N.eqb x y
  | VTime s n, VTime s' n' => (s =? s')%Z && (n =? n')%Z
  | VNil, VNil => true
  | VL x, VL y =>
      (fix go (x y : list val) : bool :=
         match x, y with
         | [], [] => true
         | u :: x', u' :: y' => val_eqb u u' && go x' y'
         | _, _ => false
         end) x y
  | VM x, VM y =>
      (fix go (x y : list (val * val)) : bool :=
         match x, y with
         | [], [] => true
         | (k, u) :: x', (k', u') :: y' => val_eqb k k' && val_eqb u u' && go x' y'
         | _, _ => false
         end) x y
  | VR x, VR y =>
      (fix go (x y : list (string * val)) : bool :=
         match x, y with
         | [], [] => true
         | (k, u) :: x', (k', u') :: y' => String.eqb k k' && val_eqb u u' && go x' y'
         | _, _ => false
         end) x y
  | VQ k x, VQ k' y => String.eqb k k' && val_eqb x y
  | _, _ => false
  end.

(** outcomes are compared by class; Ok values exactly *)
Definition out_eqb (a b : outcome val) : bool :=
  match a, b with
  | Ok x, Ok y => val_eqb x y
  | Err _, Err _ => true
  | Panic _, Panic _ => true
  | _, _ => false
  end.

Inductive wcase : Type :=
| WConv (c : conv) (inp : val) (obs : outcome val) (retab : list (list N * option (list N)))
  (* the real conversion function for [c] was run on [inp] and produced [obs] *)
| WDom (ct cf : conv) (v : val) (retab : list (list N * option (list N)))
  (* the harness generated [v] as a member of the round-trip domain *)
| WHandler (h : N) (req : val) (cls : N) (retab : list (list N * option (list N)))
| WHandlerR (h : N) (req sres resp : val) (retab : list (list N * option (list N)))
  (* the real handler (0 Search, 2 List) was called with [req]; the searcher behind it returned [sres]
     (recorded by a wrapping Streamer) and the handler answered with the message [resp] *)
| WHandlerA (h : N) (req q opts : val) (retab : list (list N * option (list N)))
  (* the real handler was called with [req] and called the searcher with the query [q] and the options [opts] *)
| WNilFrom (n : string) (obs : outcome val) (retab : list (list N * option (list N)))
| WNilQPayload (pk : string) (obs : outcome val) (retab : list (list N * option (list N))).
  (* the conversion QFromProto uses for the oneof case [pk] was called with a nil payload message *)
  (* the real XFromProto of struct type [n] was called with a nil message and produced [obs] *)
  (* the real handler was called: cls 0 = response or an error of the searcher, 1 = InvalidArgument, 3 = panic *)

(** XFromProto(nil): nil for a guarded function, otherwise the conversion of the unset message *)
Definition nil_from (E : env) (n : string) : outcome val :=
  match lookup n (e_tables E) with
  | Some t => apply E (CRec false (t_from_nilguard t) n) VNil
  | None => Err ERR_SHAPE
  end.

(** the harness lists, for every pattern string it uses, whether it parses and how it is re-printed;
    strings it does not list are left alone *)
Fixpoint re_norm_of (retab : list (list N * option (list N))) (s : list N) : option (list N) :=
  match retab with
  | [] => Some s
  | (k, r) :: rest => if list_eqb N.eqb s k then r else re_norm_of rest s
  end.

Definition out_class (o : outcome val) : N :=
  match o with
  | Ok _ => 0
  | Err e => if (e =? ERR_INVALID_ARGUMENT)%N then 1 else 0
  | Panic _ => 3
  end%N.
