From ZV Require Import Lib.Base Model.Score.
Theorem C29_placeholder : True. Proof. exact I. Qed.
Print Assumptions C29_placeholder.
