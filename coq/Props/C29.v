(** C29 — ranking is deterministic, finite and ordered.
    Model: Model/Score.v over exact rationals, constants in Generated/ScoreConsts.v (regenerated from
    the Go source by translator/scoreconsts on every run).  Proofs: Proofs/Score.v.  Section 6: Model/ScoreKind.v, Proofs/ScoreKind.v
    (scoreSymbolKind tables, atom count, BM25 term frequencies: inside the model).
    Determinism is by construction: every score and every order below is a Gallina function of the
    index-derived features, the query weights and the options (the implementation's side of this
    claim is the Go oracle: bitwise-equal repeated searches — which found and led to the repair of
    the BM25 summation order, /repo e48ad27).  binary64 rounding is not modelled: see NOTES.md. *)
From Coq Require Import QArith Sorting.Sorted Sorting.Permutation.
From Coq Require Import Lia.
From ZV Require Import Lib.Base Generated.ScoreConsts Model.Score Proofs.Score Model.ScoreBM25 Proofs.ScoreBM25 Model.ScoreKind Proofs.ScoreKind.
Open Scope Q_scope.

(** ---- 1. Debug scoring never changes a score or an order: the whole ranking (file order, file
    scores, per-file match order and scores) computed with DebugScore equals the one without, and
    without the flag no explanation is produced. *)
Theorem C29_debug_neutral : forall fs : list (N * N * fin),
  rank_all true fs = rank_all false fs /\
  (forall f, fst (score_file true f) = fst (score_file false f) /\ snd (score_file false f) = []).
Proof. intros fs. split; [apply rank_all_neutral | intros f; apply score_file_neutral]. Qed.
Print Assumptions C29_debug_neutral.

(** ---- 2. Matches within a file are returned by non-increasing score and are exactly the file's
    matches (sortMatchesByScore / sortChunkMatchesByScore after scoreFile's in-file order term). *)
Theorem C29_matches_sorted : forall dbg f,
  Sorted (fun a b : nat * Q => snd b <= snd a) (rank_matches dbg f) /\
  Permutation (combine (seq 0 (length (fst (fst (score_file dbg f))))) (fst (fst (score_file dbg f))))
              (rank_matches dbg f).
Proof. exact rank_matches_sorted. Qed.
Print Assumptions C29_matches_sorted.

(** ---- 3. Files: SortFiles returns the score-sorted list [l] itself, or [l] with exactly one file
    [c] moved to position c_boostOffset (= third place), where [c] is the FIRST file at or after
    that position whose score is not below c_minScoreRatio x the score of the displaced file and
    whose extension does not occur among the files before that position. *)
Theorem C29_files_sorted_except_promotion : forall ms : list sfile,
  let l := sort_desc sf_score ms in
  Permutation ms l /\ Sorted (fun a b => sf_score b <= sf_score a) l /\
  (sort_files ms = l \/
   exists i c displaced,
     (c_boostOffset + 1 < length l)%nat /\
     nth_error l c_boostOffset = Some displaced /\
     nth_error (skipn c_boostOffset l) i = Some c /\
     sort_files ms = firstn c_boostOffset l ++ c :: firstn i (skipn c_boostOffset l) ++ skipn (S i) (skipn c_boostOffset l) /\
     eligible (firstn c_boostOffset l) (sf_score displaced * c_minScoreRatio) c = true /\
     (forall j d, (j < i)%nat -> nth_error (skipn c_boostOffset l) j = Some d ->
                  eligible (firstn c_boostOffset l) (sf_score displaced * c_minScoreRatio) d = false)).
Proof. exact sort_files_shape. Qed.
Print Assumptions C29_files_sorted_except_promotion.

(** the documented constants: third place (index 2), score ratio 0.9 *)
Theorem C29_promotion_is_documented_one : c_boostOffset = 2%nat /\ c_minScoreRatio == 9 # 10.
Proof. split; reflexivity. Qed.
Print Assumptions C29_promotion_is_documented_one.

(** consequence: non-increasing everywhere once the file in third place is taken out *)
Theorem C29_files_sorted_but_one : forall ms : list sfile,
  StronglySorted (fun a b => sf_score b <= sf_score a) (sort_files ms) \/
  StronglySorted (fun a b => sf_score b <= sf_score a)
                 (firstn c_boostOffset (sort_files ms) ++ skipn (S c_boostOffset) (sort_files ms)).
Proof. exact sort_files_sorted_but_one. Qed.
Print Assumptions C29_files_sorted_but_one.

(** ---- 4. Scores are bounded: with boost weights <= W (W >= 1; negative weights allowed), symbol-kind
    scores within the generated maximum, repository rank in uint16 and a document number below the document
    count, every match score lies in [0, base_bound * W] and every file score in [0, file_bound W];
    for W <= 2^960 that is below 2^1023, i.e. finite in binary64. *)
Theorem C29_scores_bounded : forall dbg f W,
  fin_ok W f -> 1 <= W ->
  0 <= snd (fst (score_file dbg f)) <= file_bound W /\
  Forall (fun m => 0 <= fst (match_score dbg m) <= base_bound * W) (fi_matches f).
Proof.
  intros dbg f W H HW. split; [now apply file_score_bounds|].
  destruct H as (HM & _). eapply Forall_impl; [|exact HM]. intros m Hm. now apply match_bounds.
Qed.
Print Assumptions C29_scores_bounded.

Theorem C29_bounded_is_finite : forall W, 1 <= W <= inject_Z (2 ^ 960) -> file_bound W < inject_Z (2 ^ 1023).
Proof.
  intros W [_ H2]. eapply Qle_lt_trans; [apply file_bound_mono; exact H2|]. vm_compute. reflexivity.
Qed.
Print Assumptions C29_bounded_is_finite.

(** ---- 4b. Finite for EVERY boost a query can carry.  A Boost value is a binary64 number copied unchecked
    from the wire, and nested boosts multiply: the product [w : xweight] above a match is any rational, +-Inf
    or NaN.  index/eval.go:setScoreWeight caps it at maxBoostWeight (generated constant; repair /repo b74fc3f —
    before it an infinite or overflowing product made scores +Inf, and NaN under BM25, see NOTES.md).  With the
    effective weight [eff_weight w] — no hypothesis on w at all — every match score (before and after the
    in-file order term, which adds at most scoreLineOrderFactor) and every file score is non-negative and below
    2^1023, the binary64 overflow threshold.  The finiteness hypothesis of 4 ("weights <= W <= 2^960") is thereby
    discharged for all inputs: W = maxBoostWeight. *)
Theorem C29_scores_finite_for_every_boost : forall dbg f,
  fin_x f ->
  0 <= snd (fst (score_file dbg f)) <= file_bound c_maxBoostWeight /\
  Forall (fun m => 0 <= fst (match_score dbg m) <= base_bound * c_maxBoostWeight) (fi_matches f) /\
  file_bound c_maxBoostWeight < inject_Z (2 ^ 1023) /\
  base_bound * c_maxBoostWeight + c_scoreLineOrderFactor < inject_Z (2 ^ 1023).
Proof. exact scores_finite_every_boost. Qed.
Print Assumptions C29_scores_finite_for_every_boost.

(** the cap: +Inf and everything above maxBoostWeight become maxBoostWeight, weights up to the cap are
    unchanged, NaN and -Inf (which can never win a comparison in scoreLine / boostScore) act as 0 *)
Theorem C29_effective_weight : forall w : xweight,
  eff_weight w <= c_maxBoostWeight /\
  (forall q, w = XFin q -> q <= c_maxBoostWeight -> eff_weight w = q) /\
  eff_weight XPosInf = c_maxBoostWeight /\ eff_weight XNaN = 0 /\ eff_weight XNegInf = 0.
Proof.
  intros w. split; [apply eff_weight_le|]. split; [|repeat split].
  intros q E H. subst w. now apply eff_weight_fin_small.
Qed.
Print Assumptions C29_effective_weight.

(** ---- 5. BM25 (tfScore, the sum over the term frequencies, boostScore; for the term-frequency extraction
    see 6d): every term contributes a value in [0, k+1], so with a line/file length ratio L >= 0,
    non-negative term frequencies and boost weights <= W the score lies in [0, (k+1) * #terms * W]:
    finite.  In exact arithmetic the order of the terms is irrelevant — the run-to-run differences
    of the implementation (repaired in /repo e48ad27) were binary64 non-associativity only. *)
Theorem C29_bm25_bounded : forall L tfs ws W,
  0 <= L -> Forall (fun f => (0 <= f)%Z) tfs -> 1 <= W -> Forall (fun w => w <= W) ws ->
  0 <= bm25_score L tfs ws <= (c_bm25_k + 1) * inject_Z (Z.of_nat (length tfs)) * W.
Proof. exact bm25_score_bounds. Qed.
Print Assumptions C29_bm25_bounded.

(** BM25 for every boost a query can carry (no hypothesis on the weights): finite, and a zero sum stays 0 *)
Theorem C29_bm25_finite_for_every_boost : forall L tfs (xws : list xweight),
  0 <= L -> Forall (fun f => (0 <= f)%Z) tfs ->
  0 <= bm25_score L tfs (map eff_weight xws) <= (c_bm25_k + 1) * inject_Z (Z.of_nat (length tfs)) * c_maxBoostWeight.
Proof. exact bm25_score_finite_every_boost. Qed.
Print Assumptions C29_bm25_finite_for_every_boost.

Theorem C29_bm25_term_order_irrelevant : forall L tfs tfs',
  Permutation tfs tfs' -> bm25_sum L tfs == bm25_sum L tfs'.
Proof. exact bm25_sum_perm. Qed.
Print Assumptions C29_bm25_term_order_irrelevant.

(** ---- 6. The parts that sections 1-5 took as given features, inside the model (Model/ScoreKind.v).

    6a. scoreSymbolKind + ctags.ParseSymbolKind.  The per-language / per-kind factors, the generic factors and
    the Go-only modifiers (`+= 0.5` for an exported symbol, `*= 0.8` in a _test.go file) are GENERATED from the
    source into Generated/ScoreConsts.v (c_kindGeneric, c_kindLangs, c_parseKind ...); [score_symbol_kind]
    interprets the tables.  For EVERY language string, filename, symbol and kind the kind score lies in
    [0, maxKindFactor * scoreKindMatch] — the hypothesis [kind_ok] of section 4 is thereby discharged.  The proof
    computes over the generated tables ([tables_ok_true]): an edited factor re-runs it. *)
Theorem C29_kind_score_bounded : forall lang fname exported kind,
  0 <= score_symbol_kind lang fname exported kind <= c_maxKindFactor * c_scoreKindMatch.
Proof. exact score_symbol_kind_bounds. Qed.
Print Assumptions C29_kind_score_bounded.

(** 6b. The atom count of scoreFile (visitMatchAtoms over the match tree with the `known` map): boosts are
    transparent, a subtree is only entered through children known to match, never more atoms than leaves. *)
Theorem C29_atom_count : forall t,
  (count_atoms t <= leaves t)%nat /\ count_atoms (MBoost t) = count_atoms t /\
  forall ch, Forall (fun p : bool * mtree => fst p = false) ch ->
             count_atoms (MAnd ch) = O /\ count_atoms (MOr ch) = O /\ count_atoms (MAndLine ch) = O.
Proof. intros t. split; [apply count_le_leaves|]. split; [reflexivity|]. exact count_unknown. Qed.
Print Assumptions C29_atom_count.

(** 6c. The extended model: a file is described by its language, name, match tree (with known bits), repository
    rank, document number and, per candidate, the boundary flags, the filename/symbol position flags, the symbol's
    ctags kind string + "first rune upper case", and the binary64 product of the boosts above it.  [fin_of_x]
    derives kind scores, atom count and effective weights.  With no hypothesis except "rank is a uint16 and the
    document number is below the document count": every file score and match score is non-negative and below
    2^1023; the debug flag changes no score and no order. *)
Theorem C29_ext_scores_finite : forall dbg f,
  xfin_ok f ->
  0 <= snd (fst (score_xfile dbg f)) <= file_bound c_maxBoostWeight /\
  Forall (fun m => 0 <= fst (match_score dbg m) <= base_bound * c_maxBoostWeight) (fi_matches (fin_of_x f)) /\
  file_bound c_maxBoostWeight < inject_Z (2 ^ 1023).
Proof. exact xscores_finite. Qed.
Print Assumptions C29_ext_scores_finite.

Theorem C29_ext_debug_neutral : forall fs f,
  rank_all_x true fs = rank_all_x false fs /\
  fst (score_xfile true f) = fst (score_xfile false f) /\ snd (score_xfile false f) = [].
Proof. intros fs f. split; [apply xrank_neutral | apply xscore_neutral]. Qed.
Print Assumptions C29_ext_debug_neutral.

(** the ordering theorems 2 and 3 quantify over arbitrary inputs and hold for the extended model as they are: *)
Theorem C29_ext_matches_sorted : forall dbg f,
  Sorted (fun a b : nat * Q => snd b <= snd a) (rank_matches dbg (fin_of_x f)).
Proof. intros dbg f. apply (proj1 (C29_matches_sorted dbg (fin_of_x f))). Qed.
Print Assumptions C29_ext_matches_sorted.

(** 6d. BM25 with the term-frequency extraction (calculateTermFrequency) inside the model.  The frequency of a
    term is the number of its candidates, filename and symbol matches counting importantTermBoost, divided
    towards zero by lowPriorityFilePenalty for a low-priority file (generated constants) — a function of the
    MULTISET of candidates: the order in which candidates are gathered does not matter. *)
Theorem C29_term_frequency_spec : forall cs low t,
  tf_lookup (tf_extract cs low) t = if low then Z.quot (tf_spec cs t) low_penalty else tf_spec cs t.
Proof. exact tf_extract_spec. Qed.
Print Assumptions C29_term_frequency_spec.

Theorem C29_term_frequency_order_irrelevant : forall cs cs' low t,
  Permutation cs cs' -> tf_lookup (tf_extract cs low) t = tf_lookup (tf_extract cs' low) t.
Proof. exact tf_extract_perm. Qed.
Print Assumptions C29_term_frequency_order_irrelevant.

(** scoreFileBM25 / scoreLineBM25 for EVERY candidate list, every boost product and every length: non-negative
    and at most (k+1) * #candidates * maxBoostWeight (< 2^1023 for fewer than 2^600 candidates): the hypotheses
    of theorem 5 (non-negative frequencies, L >= 0) are discharged by the extraction. *)
Theorem C29_bm25_ext_bounded : forall cs low flen total ndocs ws fl llen,
  (0 <= flen)%Z -> (0 <= total)%Z -> (0 <= ndocs)%Z -> (0 <= llen)%Z ->
  0 <= bm25_file cs low flen total ndocs ws <= bm25_cap (length cs) /\
  0 <= bm25_line fl cs llen ws <= bm25_cap (length cs).
Proof. intros. split; [now apply bm25_file_bounds | now apply bm25_line_bounds]. Qed.
Print Assumptions C29_bm25_ext_bounded.

(** ---- non-vacuity *)
Example ex_bm25 : bm25_score (3 # 2) [5; 1; 2]%Z [1; 2] == 3797376 # 514577 /\ Permutation [5; 1; 2]%Z [2; 5; 1]%Z.
Proof. split; [vm_compute; reflexivity|]. apply Permutation_sym. apply (Permutation_cons_app [5;1]%Z []%Z). reflexivity. Qed.
Definition ex_cand_word : cand := {| c_sb := true; c_eb := true; c_kind := KNone; c_weight := 1 |}.
Definition ex_cand_sym : cand := {| c_sb := true; c_eb := true; c_kind := KSym true true (Some 700); c_weight := 2 |}.
Definition ex_fin (doc : Z) (ms : list (list (Z * list cand))) : fin :=
  {| fi_atoms := 2; fi_rank := 70; fi_doc := doc; fi_ndocs := 5; fi_matches := ms |}.
Definition ex_fs : list (N * N * fin) :=
  [ (1%N, 0%N, ex_fin 0 [[(1%Z, [ex_cand_word])]; [(3%Z, [ex_cand_sym; ex_cand_word])]]);
    (2%N, 0%N, ex_fin 1 [[(2%Z, [ex_cand_word])]]);
    (3%N, 0%N, ex_fin 2 [[(2%Z, [ex_cand_word])]]);
    (4%N, 1%N, ex_fin 3 [[(7%Z, [ex_cand_word])]]) ].
(* file 1 first; the match on line 3 (a boosted symbol) ranks before the one on line 1; file 4 (novel
   extension, score within 0.9) is promoted into third place ahead of file 3 *)
Example ex_rank : map (fun x => (fst (fst x), map fst (snd x))) (rank_all true ex_fs) =
  [(1%N, [1%nat; 0%nat]); (2%N, [0%nat]); (4%N, [0%nat]); (3%N, [0%nat])].
Proof. vm_compute. reflexivity. Qed.
Example ex_debug_tokens : snd (score_file true (ex_fin 0 [[(3%Z, [ex_cand_sym])]])) <> [].
Proof. vm_compute. discriminate. Qed.
Example ex_fin_ok : fin_ok 2 (ex_fin 0 [[(1%Z, [ex_cand_word])]; [(3%Z, [ex_cand_sym; ex_cand_word])]]).
Proof.
  unfold fin_ok, ex_fin; simpl. repeat split; try lia.
  repeat constructor; unfold kind_ok; simpl; try exact I; try (unfold Qle; simpl; lia).
Qed.
Definition ex_scored : list sfile :=
  map (fun x : N * N * fin => let '(i, e, f) := x in {| sf_id := i; sf_score := snd (fst (score_file false f)); sf_ext := e |}) ex_fs.
Example ex_promotion :
  map sf_id (sort_desc sf_score ex_scored) = [1; 2; 3; 4]%N /\ map sf_id (sort_files ex_scored) = [1; 2; 4; 3]%N.
Proof. split; vm_compute; reflexivity. Qed.
(* non-vacuity of 4b: a file whose candidates carry an infinite, a NaN, a negative and an ordinary product *)
Definition ex_cand_x (w : xweight) : cand := {| c_sb := true; c_eb := true; c_kind := KSym true true (Some 700); c_weight := eff_weight w |}.
Definition ex_fin_x : fin :=
  ex_fin 1 [[(1%Z, [ex_cand_x XPosInf; ex_cand_x XNaN])]; [(3%Z, [ex_cand_x (XFin (-2)); ex_cand_x (XFin 2)])]; [(4%Z, [ex_cand_x XNegInf])]].
Example ex_fin_x_ok : fin_x ex_fin_x.
Proof.
  unfold fin_x, ex_fin_x, ex_fin; simpl. split; [|split; lia]. unfold cands_x.
  repeat (cbv beta; simpl snd; first [apply Forall_nil | apply Forall_cons]);
    (split; [unfold kind_ok; simpl; unfold Qle; simpl; lia | eexists; reflexivity]).
Qed.
(* the infinite boost scores base * cap on line 1; the NaN / -Inf / negative candidates never win: line 4 scores 0 *)
Example ex_fin_x_scores' :
  Qeq_bool (fst (match_score false [(1%Z, [ex_cand_x XPosInf; ex_cand_x XNaN])])) (8200 * c_maxBoostWeight) = true /\
  Qeq_bool (fst (match_score false [(4%Z, [ex_cand_x XNegInf])])) 0 = true /\
  Qeq_bool (fst (match_score false [(3%Z, [ex_cand_x (XFin (-2)); ex_cand_x (XFin 2)])])) 16400 = true.
Proof. vm_compute. repeat split. Qed.
Example ex_bm25_zero_times_inf : bm25_score (3 # 2) [0]%Z (map eff_weight [XPosInf]) == 0.
Proof. vm_compute. reflexivity. Qed.

(** ---- 4c. The treatment of the binary64 special values is proved, not assumed.  Model/ScoreXW.v spells out
    the three operations the scorer performs on a weight (the cap `w > max`, `score * w` with IEEE special values,
    the comparisons `> best` / `> max`, epsilonEqualsOne) on NaN / +-Inf / rationals; the decisions they produce are
    those of the exact model with [eff_weight]: a candidate replaces the running best of scoreLine, resp. a weight
    raises boostScore's running maximum, exactly when the model says so — for every weight, every non-negative
    score and best (scores before the weight are in [0, base_bound]; the best starts at 0 / the maximum at 1). *)
From ZV Require Import Model.ScoreXW Proofs.ScoreXW.
Theorem C29_special_weights_decide_as_modelled : forall (s best m : Q) (w : xweight),
  0 <= s -> 0 <= best -> 1 <= m ->
  x_candidate_wins s w best = Qltb best (if eps_one (eff_weight w) then s else s * eff_weight w) /\
  x_weight_raises_max w m = Qltb m (eff_weight w) /\
  match cap_weight w with XFin q => q <= c_maxBoostWeight | XPosInf => False | _ => True end.
Proof.
  intros s best m w Hs Hb Hm. split; [now apply candidate_wins_eff|]. split; [now apply weight_raises_max_eff|apply cap_weight_bounded].
Qed.
Print Assumptions C29_special_weights_decide_as_modelled.
(* non-vacuity: a NaN or -Inf weight never wins, +Inf wins with a positive score and does not with score 0 (0 x cap = 0,
   where the uncapped code computed 0 x Inf = NaN), a rational above the cap is the cap *)
Example ex_special_weights :
  x_candidate_wins 500 XNaN 0 = false /\ x_candidate_wins 500 XNegInf 0 = false /\ x_candidate_wins 500 XPosInf 0 = true /\
  x_candidate_wins 0 XPosInf 0 = false /\ x_candidate_wins 500 (XFin 2) 1200 = false /\ x_candidate_wins 500 (XFin 3) 1200 = true /\
  cap_weight (XFin (c_maxBoostWeight * 10)) = XFin c_maxBoostWeight /\ x_weight_raises_max XNaN 1 = false /\ x_weight_raises_max XPosInf 1 = true.
Proof. vm_compute. repeat split. Qed.
(* non-vacuity of 6: Go function `Needle` in a _test.go file: (8 + 0.5) * 0.8 * 100; an unknown language falls back to the
   generic table; "methodSpec" is lower-cased before the comparison and therefore parses as Other *)
Definition ex_go : list N := [71;111]%N.
Definition ex_testgo : list N := [97;95;116;101;115;116;46;103;111]%N.
Example ex_kind_scores :
  score_symbol_kind ex_go ex_testgo true (parse_kind [70;117;110;99]%N) == 680 /\
  score_symbol_kind [120]%N ex_testgo true 2%N == 1000 /\
  parse_kind [109;101;116;104;111;100;83;112;101;99]%N = c_parseKindDefault.
Proof. vm_compute. repeat split. Qed.
Definition ex_tree : mtree := MOr [(true, MAtom); (false, MAtom); (true, MBoost (MAnd [(true, MAtom); (true, MSymSubstr); (true, MSkip)]))].
Example ex_atoms : count_atoms ex_tree = 3%nat /\ leaves ex_tree = 4%nat.
Proof. split; reflexivity. Qed.
Definition ex_xfin : xfin :=
  {| xf_lang := ex_go; xf_name := ex_testgo; xf_tree := ex_tree; xf_rank := 65535; xf_doc := 2; xf_ndocs := 3;
     xf_matches := [[(1%Z, [{| x_sb := true; x_eb := true; x_kind := XSym true true (Some ([70;117;110;99]%N, true)); x_weight := XPosInf |}])];
                    [(4%Z, [{| x_sb := true; x_eb := false; x_kind := XFile true false true; x_weight := XNaN |}])]] |}.
Example ex_xfin_ok : xfin_ok ex_xfin /\ Qlt 0 (snd (fst (score_xfile false ex_xfin))).
Proof. split; [split; simpl; lia|]. vm_compute. reflexivity. Qed.
Example ex_tf :
  tf_extract [([1]%N, true); ([2]%N, false); ([1]%N, false); ([2]%N, false)] false = [([1]%N, 6%Z); ([2]%N, 2%Z)] /\
  tf_extract [([1]%N, true); ([2]%N, false); ([1]%N, false); ([2]%N, false)] true = [([1]%N, 1%Z); ([2]%N, 0%Z)].
Proof. split; vm_compute; reflexivity. Qed.
