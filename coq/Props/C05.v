From ZV Require Import Lib.Base Model.Query.
