(** C05 - query rewriting preserves meaning.
    Every rewrite applied to a query before evaluation selects exactly the same documents as the
    original query: constant folding, flattening, Simplify, file/content expansion, case-scope
    stripping and the per-shard simplification against repository metadata.
    [eval e q d] is the reference evaluator of Model/Query.v; [e] ranges over ALL families of atom
    predicates satisfying [atoms_ok] (empty substring pattern / OpEmptyMatch regexp / empty
    non-exact branch pattern match every document), [q] over ALL query trees, [d] over all
    documents. *)
From ZV Require Import Lib.Base Model.Query Model.QueryStd.
From ZV Require Import Proofs.QueryInd Proofs.QuerySimplify Proofs.QueryShard Proofs.QueryTerm Proofs.QueryStdOk Proofs.QueryKinds Proofs.QueryRawConfig.
From ZV Require Import Generated.C05QKinds Generated.C05RawConfig.

(** constant folding (evalConstants, evalAndOrConstants, invertConst) *)
Theorem C05_evalConstants_preserves :
  forall (D : Type) (e : atoms D) (q : Q) (d : D),
    atoms_ok e -> eval e (evalConstants q) d = eval e q d.
Proof. intros D e q d H. now apply evalConstants_preserves. Qed.
Print Assumptions C05_evalConstants_preserves.

(** one round of flatten (needs no hypothesis on the atoms) *)
Theorem C05_flatten_preserves :
  forall (D : Type) (e : atoms D) (q : Q) (d : D), eval e (fst (flatten q)) d = eval e q d.
Proof. intros. apply flatten_preserves. Qed.
Print Assumptions C05_flatten_preserves.

(** query.Simplify = evalConstants, then flatten until nothing changes *)
Theorem C05_Simplify_preserves :
  forall (D : Type) (e : atoms D) (q : Q) (d : D),
    atoms_ok e -> eval e (Simplify q) d = eval e q d.
Proof. intros D e q d H. now apply Simplify_preserves. Qed.
Print Assumptions C05_Simplify_preserves.

(** The flatten loop of Simplify terminates: the model's fuel is never exhausted, the result is
    the fixpoint at which Go's unbounded loop exits (each changed round removes an And/Or node). *)
Theorem C05_Simplify_reaches_fixpoint : forall q : Q, flatten (Simplify q) = (Simplify q, false).
Proof. exact Simplify_fixpoint. Qed.
Print Assumptions C05_Simplify_reaches_fixpoint.

Theorem C05_flatten_changed_decreases :
  forall q : Q, snd (flatten q) = true -> nao (fst (flatten q)) < nao q.
Proof. exact flatten_decreases. Qed.
Print Assumptions C05_flatten_changed_decreases.

(** query.Map with any node function that preserves the meaning of the node it is given *)
Theorem C05_Map_preserves :
  forall (D : Type) (e : atoms D) (d : D) (f : Q -> Q),
    (forall q, eval e (f q) d = eval e q d) -> forall q, eval e (qmap f q) d = eval e q d.
Proof. intros D e d f H q. now apply qmap_preserves. Qed.
Print Assumptions C05_Map_preserves.

(** query.Map(q, query.ExpandFileContent) *)
Theorem C05_expand_preserves :
  forall (D : Type) (e : atoms D) (q : Q) (d : D), eval e (qmap ExpandFileContent q) d = eval e q d.
Proof. intros. apply expand_preserves. Qed.
Print Assumptions C05_expand_preserves.

(** parse.go: stripCaseScopes (case scopes select the documents of their child) *)
Theorem C05_stripCaseScopes_preserves :
  forall (D : Type) (e : atoms D) (q : Q) (d : D), eval e (stripCaseScopes q) d = eval e q d.
Proof. intros. apply stripCaseScopes_preserves. Qed.
Print Assumptions C05_stripCaseScopes_preserves.

(** indexData.simplify: for every shard metadata set (live and tombstoned repositories, any
    LanguageMap), every regexp engine, every tree, and every document of a repository that is not
    tombstoned (the only documents Search evaluates the query on). *)
Theorem C05_shard_simplify_preserves :
  forall (re_match : str -> str -> bool) (D : Type) (base : atoms D) (sh : shard) (repo_of : D -> nat)
         (q : Q) (d : D),
    atoms_ok base -> langs_closed base sh d -> live sh repo_of d ->
    eval (shard_atoms re_match base sh repo_of) (shard_simplify re_match sh q) d
    = eval (shard_atoms re_match base sh repo_of) q d.
Proof. exact shard_simplify_preserves. Qed.
Print Assumptions C05_shard_simplify_preserves.

(** the rewrite pipeline of indexData.Search: simplify, then Map(ExpandFileContent) *)
Theorem C05_search_pipeline_preserves :
  forall (re_match : str -> str -> bool) (D : Type) (base : atoms D) (sh : shard) (repo_of : D -> nat)
         (q : Q) (d : D),
    atoms_ok base -> langs_closed base sh d -> live sh repo_of d ->
    eval (shard_atoms re_match base sh repo_of) (qmap ExpandFileContent (shard_simplify re_match sh q)) d
    = eval (shard_atoms re_match base sh repo_of) q d.
Proof.
  intros. rewrite expand_preserves. now apply shard_simplify_preserves.
Qed.
Print Assumptions C05_search_pipeline_preserves.

(** Tie (not a property statement): every Go type of package query with a String() method - the
    list is regenerated from /repo/query/*.go on each run - is a constructor of the model's [Q]
    (or one of the two parser-internal non-nodes), and vice versa.  A node kind added to the code
    breaks this lemma instead of silently staying outside the quantification "all query trees". *)
Theorem C05_tie_model_covers_go_query_kinds :
  forallb (kind_in (map q_kind q_reps ++ not_query_nodes)) c05_go_qkinds = true /\
  forallb (kind_in c05_go_qkinds) (map q_kind q_reps) = true.
Proof. split; [exact go_kinds_covered_by_model | exact model_kinds_exist_in_go]. Qed.
Print Assumptions C05_tie_model_covers_go_query_kinds.

(** encodeRawConfig (index/indexdata.go) is part of the model: the per-shard theorems above evaluate
    query.RawConfig atoms on [encodeRawConfig (r_rawconfig r)].  What the atoms then mean in terms of the
    repository's RawConfig map: each flag tests one of the fields public / fork / archived for the value "1"
    (Only...) or for anything else incl. absence (No.../Private); a mask of several flags is their conjunction. *)
Theorem C05_rawconfig_flags_meaning : forall cfg,
  let rc := encodeRawConfig cfg in
  rc_match RcOnlyPublic rc = has_one cfg f_public /\
  rc_match RcOnlyPrivate rc = negb (has_one cfg f_public) /\
  rc_match RcOnlyForks rc = has_one cfg f_fork /\
  rc_match RcNoForks rc = negb (has_one cfg f_fork) /\
  rc_match RcOnlyArchived rc = has_one cfg f_archived /\
  rc_match RcNoArchived rc = negb (has_one cfg f_archived).
Proof. exact rawconfig_flags_meaning. Qed.
Print Assumptions C05_rawconfig_flags_meaning.

Theorem C05_rawconfig_mask_is_conjunction : forall m1 m2 rc,
  rc_match (N.lor m1 m2) rc = rc_match m1 rc && rc_match m2 rc.
Proof. exact rc_match_lor. Qed.
Print Assumptions C05_rawconfig_mask_is_conjunction.

Theorem C05_encodeRawConfig_fits_uint8 : forall cfg, (encodeRawConfig cfg < 64)%N.
Proof. exact encodeRawConfig_lt_64. Qed.
Print Assumptions C05_encodeRawConfig_fits_uint8.

(** Tie: the field list, the yes/no codes of encodeRawConfig and the six query.Rc* constants are
    re-extracted from /repo/index/indexdata.go and /repo/query/query.go on each run
    (Generated/C05RawConfig.v) and must equal the model's. *)
Theorem C05_rawconfig_tables_generated :
  c05_go_rc_fields = rc_fields /\ c05_go_rc_yes = rawConfigYes /\ c05_go_rc_no = rawConfigNo /\ c05_go_rc_one = rc_one /\
  c05_go_rc_flags = [RcOnlyPublic; RcOnlyPrivate; RcOnlyForks; RcNoForks; RcOnlyArchived; RcNoArchived].
Proof. repeat split; reflexivity. Qed.
Print Assumptions C05_rawconfig_tables_generated.

(** ---------------------------------------------------------------- non-vacuity *)

(** the hypotheses are satisfied by the concrete reference semantics (substring search, any regexp
    engine) that the Go oracle implements *)
Example C05_atoms_ok_inhabited : forall rx_match, atoms_ok (std_atoms rx_match).
Proof. exact std_atoms_ok. Qed.

Definition ex_s (l : list N) : str := l.
Definition ex_foo : str := [102; 111; 111]%N.
Definition ex_main : str := [109; 97; 105; 110]%N.
Definition ex_doc : cdoc :=
  {| cd_repo := 1; cd_name := [97; 46; 103; 111]%N; cd_content := ex_foo ++ [32]%N ++ ex_main;
     cd_branch0 := ex_main; cd_branches := []; cd_lang := [71; 111]%N |}.
Definition ex_shard : shard :=
  {| sh_repos := [ {| r_tomb := true; r_id := 1; r_name := ex_main; r_rawconfig := [(f_public, rc_one)]; r_meta := [] |};
                   {| r_tomb := false; r_id := 2; r_name := ex_foo; r_rawconfig := [(f_fork, rc_one); (f_archived, [48%N])]; r_meta := [] |} ];
     sh_langs := [[71; 111]%N] |}.
Definition ex_tomb_doc : cdoc :=
  {| cd_repo := 0; cd_name := []; cd_content := []; cd_branch0 := ex_main; cd_branches := []; cd_lang := [71; 111]%N |}.
Definition ex_re (re s : str) : bool := contains re s.
Definition ex_rx (re : rx) (cs : bool) (s : str) : bool := contains (rx_src re) s.

(** degenerate shapes really are folded / flattened, and to non-trivial results *)
Example C05_ex_simplify_shapes :
  Simplify (QAnd [QAnd [QSubstring ex_foo true false false; QConst true]; QNot (QConst false); QAnd []; QOr [QOr [QLanguage ex_main]]])
  = QAnd [QSubstring ex_foo true false false; QLanguage ex_main]
  /\ Simplify (QNot (QType 1 (QOr [QConst false; QSubstring [] false true false]))) = QConst false
  /\ Simplify (QAnd []) = QConst true /\ Simplify (QOr []) = QConst false
  /\ Simplify (QBoost 3 (QAnd [QRepoIDs []; QRepo ex_foo])) = QConst false
  /\ Simplify (QBranch [] true) = QBranch [] true.
Proof. vm_compute. repeat split. Qed.

(** Boost weights are carried as binary64 BIT PATTERNS (N), so the theorems above cover every weight a query can
    carry over the wire — NaN (0x7ff8000000000001: a value for which Go's == is false on itself), +Inf, -0.
    The rewrites never compare weights (flatten reports `changed` by a flag, not by comparing trees), so the
    flatten loop reaches its fixpoint on such trees like on any other: here after two changed rounds. *)
Definition ex_nan : N := 9221120237041090561%N.
Definition ex_inf : N := 9218868437227405312%N.
Example C05_ex_nan_boost_fixpoint :
  let q := QOr [QBoost ex_nan (QOr [QOr [QSubstring ex_foo false false true]]); QOr [QBoost ex_inf (QAnd [QLanguage ex_main])]; QSubstring ex_main false false true] in
  Simplify q = QOr [QBoost ex_nan (QSubstring ex_foo false false true); QBoost ex_inf (QLanguage ex_main); QSubstring ex_main false false true]
  /\ flatten (Simplify q) = (Simplify q, false)
  /\ snd (flatten (evalConstants q)) = true.
Proof. vm_compute. repeat split. Qed.

(** the per-shard theorem applies to a live document, and the rewrite does something there:
    repo:foo holds for every live repository of ex_shard, so it becomes TRUE *)
Example C05_ex_shard :
  live ex_shard cd_repo ex_doc /\ langs_closed (std_atoms ex_rx) ex_shard ex_doc /\
  shard_simplify ex_re ex_shard (QAnd [QRepo ex_foo; QSubstring ex_main false false false]) = QSubstring ex_main false false false /\
  eval (shard_atoms ex_re (std_atoms ex_rx) ex_shard cd_repo) (QAnd [QRepo ex_foo; QSubstring ex_main false false false]) ex_doc = true.
Proof.
  split; [|split; [|split]].
  - exists {| r_tomb := false; r_id := 2; r_name := ex_foo; r_rawconfig := [(f_fork, rc_one); (f_archived, [48%N])]; r_meta := [] |}. split; reflexivity.
  - apply std_langs_closed. reflexivity.
  - vm_compute. reflexivity.
  - vm_compute. reflexivity.
Qed.

(** RawConfig atoms on the example shard: the live repository is a fork (fork = "1"), archived = "0", public absent *)
Example C05_ex_rawconfig :
  encodeRawConfig [(f_fork, rc_one); (f_archived, [48%N])] = 38%N /\
  eval (shard_atoms ex_re (std_atoms ex_rx) ex_shard cd_repo) (QRawConfig (N.lor RcOnlyForks RcNoArchived)) ex_doc = true /\
  eval (shard_atoms ex_re (std_atoms ex_rx) ex_shard cd_repo) (QRawConfig RcOnlyPublic) ex_doc = false /\
  shard_simplify ex_re ex_shard (QRawConfig RcOnlyForks) = QConst true /\
  shard_simplify ex_re ex_shard (QRawConfig RcOnlyPublic) = QConst false.
Proof. vm_compute. repeat split; reflexivity. Qed.

(** the [live] hypothesis is necessary: on a document of the tombstoned repository the same
    rewrite changes the verdict (this is sound only because Search skips such documents) *)
Example C05_ex_live_needed :
  eval (shard_atoms ex_re (std_atoms ex_rx) ex_shard cd_repo) (shard_simplify ex_re ex_shard (QRepo ex_foo)) ex_tomb_doc = true /\
  eval (shard_atoms ex_re (std_atoms ex_rx) ex_shard cd_repo) (QRepo ex_foo) ex_tomb_doc = false.
Proof. vm_compute. split; reflexivity. Qed.

(** the rule repaired by /repo commit 786e57e: folding an EXACT branch query with empty pattern to
    TRUE (what evalConstants did before) does not preserve meaning - no branch is named "" *)
Example C05_ex_exact_empty_branch_is_not_true :
  eval (std_atoms ex_rx) (QBranch [] true) ex_doc = false /\ eval (std_atoms ex_rx) (QConst true) ex_doc = true.
Proof. vm_compute. split; reflexivity. Qed.
