(** C15 — Directory and archive indexers capture exactly the source files. (first version: robustness only) *)
From ZV Require Import Lib.Base Model.DirWalk.

Theorem C15_archive_never_panics : forall strip size_max ms,
  is_panic (archive_index strip size_max ms) = false.
Proof. intros. unfold archive_index. destruct (archive_loop _ _ _ _); reflexivity. Qed.
Print Assumptions C15_archive_never_panics.
