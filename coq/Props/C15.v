(** C15 — Directory and archive indexers capture exactly the source files.
    Model: Model/DirWalk.v (filepath.Walk + fileAggregator.add + indexArg + newIgnoreMatcher; archive member
    filter + stripComponents + archive.Index with its lazily created builder). Proofs: Proofs/DirWalk.v.
    Trusted boundary: tar/zip/gzip decoding, the glob matcher (the verdict function [matcher] is universally
    quantified), the OS, index.Builder's round trip ([builder_view] models Builder.Add's skip rewriting). *)
From ZV Require Import Lib.Base Model.IgnoreFile Model.DirWalk Proofs.DirWalk Proofs.IgnoreFile.

(** Directory indexing, every tree, every ignore verdict function, every ignored-name set, every SizeMax:
    the documents are exactly the images of the pairs (path, bytes) such that the path leads through real
    directories only (a symlink is a leaf: [reach] only descends through NDir) to a regular file with these
    bytes or to a symlink with this TARGET, the path is not matched by the ignore file, no directory strictly
    above it is named in ignoreDirs or matched, and the root's own name is not ignored.  The ignore file is
    honoured only if .sourcegraph is a real directory and .sourcegraph/ignore a regular file. *)
Theorem C15_dir_docs_spec : forall matcher igd size_max root_base ch d,
  let ig := match ignore_file_of ch with Some c => matcher c | None => fun _ => false end in
  In d (index_arg matcher igd size_max root_base ch) <->
  exists p c, d = (join_path p, builder_view size_max c) /\
              mem_name root_base igd = false /\ dir_doc_spec ig igd [] ch p c.
Proof. exact index_arg_spec. Qed.
Print Assumptions C15_dir_docs_spec.

(** ... and exactly ONE document per such path: on a tree as a file system presents it (sibling names
    distinct, non-empty, without '/') no two documents share a name. *)
Theorem C15_dir_one_doc_per_path : forall matcher igd size_max root_base ch,
  wf_children ch -> NoDup (map fst (index_arg matcher igd size_max root_base ch)).
Proof. exact index_arg_names_nodup. Qed.
Print Assumptions C15_dir_one_doc_per_path.

(** A symlink is indexed with its target string, whatever the target denotes: the model of a link node
    carries nothing else, and the correspondence runs the real indexArg on links to files, directories,
    paths outside the root and dangling paths against it. Stated for a link directly below the root. *)
Theorem C15_symlink_content_is_target : forall matcher igd size_max root_base ch nm t,
  let ig := match ignore_file_of ch with Some c => matcher c | None => fun _ => false end in
  In (nm, NSymlink t) ch -> mem_name root_base igd = false -> ig [nm] = false ->
  In (nm, builder_view size_max t) (index_arg matcher igd size_max root_base ch).
Proof.
  intros matcher igd size_max root_base ch nm t ig Hin Hroot Hig.
  apply index_arg_spec. exists [nm], t. split; [reflexivity|]. split; [exact Hroot|].
  exists [nm], (NSymlink t). split; [reflexivity|]. split; [apply reach_here; exact Hin|].
  split; [reflexivity|]. split; [exact Hig|].
  intros q r Heq Hq Hr. destruct q as [|a q]; [contradiction|].
  destruct q; destruct r; try contradiction; discriminate.
Qed.
Print Assumptions C15_symlink_content_is_target.

(** The ignore file's syntax (ParseIgnoreFile; glob engine = any verdict function): a path is ignored iff some line, with
    white space trimmed, not blank, not a '#' comment, a leading '/' dropped and "**" appended when it has no glob
    character, yields a pattern that the engine matches against the path. *)
Theorem C15_ignore_match_spec : forall glob content path,
  ignore_match glob content path = true <->
  exists line p, In line (split_lines content) /\ normalise_line line = Some p /\ glob p path = true.
Proof. exact ignore_match_spec. Qed.
Print Assumptions C15_ignore_match_spec.

Theorem C15_ignore_blank_and_comment_lines_inert : forall line,
  trim_space line = [] \/ (exists r, trim_space line = 35%N :: r) -> normalise_line line = None.
Proof. exact normalise_blank_or_comment. Qed.
Print Assumptions C15_ignore_blank_and_comment_lines_inert.

Theorem C15_ignore_lines : forall l r,
  ~ In 10%N l -> split_lines (l ++ 10%N :: r) = drop_cr l :: split_lines r.
Proof. exact split_lines_cons. Qed.
Print Assumptions C15_ignore_lines.

(* "# c\r\n\n  /build \n*.tmp" -> patterns "build**" and "*.tmp" *)
Example C15_ignore_nonvacuous :
  ignore_patterns [35;32;99;13;10;10;32;32;47;98;117;105;108;100;32;10;42;46;116;109;112]%N
  = [[98;117;105;108;100;42;42]%N; [42;46;116;109;112]%N].
Proof. vm_compute. reflexivity. Qed.

(** "with the file's exact content": what the shard holds for content c — c itself unless Builder.Add's skip rules apply
    (larger than SizeMax, 1-2 bytes, contains NUL), then the explanation marker. *)
Theorem C15_builder_view_cases : forall size_max c,
  (size_max < length c -> builder_view size_max c = marker_too_large) /\
  (length c <= size_max -> c = [] -> builder_view size_max c = []) /\
  (length c <= size_max -> 1 <= length c < 3 -> builder_view size_max c = marker_too_small) /\
  (length c <= size_max -> 3 <= length c -> In 0%N c -> builder_view size_max c = marker_binary) /\
  (length c <= size_max -> 3 <= length c -> ~ In 0%N c -> builder_view size_max c = c).
Proof. exact builder_view_cases. Qed.
Print Assumptions C15_builder_view_cases.

(** stripComponents removes exactly [count] leading '/'-terminated components ... *)
Theorem C15_strip_components_complete : forall comps r,
  Forall slash_free comps -> strip_components (join_prefix comps ++ r) (length comps) = r.
Proof. exact strip_components_complete. Qed.
Print Assumptions C15_strip_components_complete.

(** ... and returns a non-empty name only in that way (fewer components, or nothing left: ""). *)
Theorem C15_strip_components_sound : forall n p r,
  strip_components p n = r -> r <> [] ->
  exists comps, length comps = n /\ Forall slash_free comps /\ p = join_prefix comps ++ r.
Proof. exact strip_components_sound. Qed.
Print Assumptions C15_strip_components_sound.

(** Archive indexing (the repaired code), every member list and strip count: success, and the documents
    are, in order and with multiplicity, the regular members whose stripped name is non-empty. *)
Theorem C15_archive_docs_spec : forall strip size_max ms,
  archive_index strip size_max ms = Ok (flat_map (member_docs strip size_max) ms).
Proof. exact archive_index_docs. Qed.
Print Assumptions C15_archive_docs_spec.

Theorem C15_archive_docs_in : forall strip size_max ms docs d,
  archive_index strip size_max ms = Ok docs ->
  (In d docs <-> exists m, In m ms /\ is_reg m = true /\ strip_components (m_name m) strip <> [] /\
                           d = (strip_components (m_name m) strip, builder_view size_max (m_data m))).
Proof. exact archive_index_in. Qed.
Print Assumptions C15_archive_docs_in.

(** Indexing never crashes: the only checked operation of the two indexers is Finish on the lazily created
    builder.  (The directory model has no partial operation at all; I/O errors are outside the model.) *)
Theorem C15_never_panics : forall strip size_max ms,
  is_panic (archive_index strip size_max ms) = false.
Proof. exact archive_index_never_panics. Qed.
Print Assumptions C15_never_panics.

(** The code before the repair (d8ff71c in /repo) panicked exactly on the archives without a regular member. *)
Theorem C15_never_panics_refuted_before_fix : forall strip size_max ms,
  is_panic (archive_index_unguarded strip size_max ms) = true <-> forallb (fun m => negb (is_reg m)) ms = true.
Proof. exact archive_index_unguarded_panics_iff. Qed.
Print Assumptions C15_never_panics_refuted_before_fix.

(** ---------- non-vacuity *)

(* root/ { .git/{config}, .sourcegraph/{ignore}, a.go, link -> ../outside, sub/{b.go, skip.tmp, deep/{c}} } with
   the matcher verdict "skip.tmp matched", ignoreDirs = [.git] *)
Example C15_dir_nonvacuous :
  let git := [46;103;105;116]%N in
  let tree :=
    [ (git, NDir [([99]%N, NFile [120;120;120]%N)]);
      (name_sourcegraph, NDir [(name_ignore, NFile [42;46;116;109;112]%N)]);
      ([97;46;103;111]%N, NFile [109;97;105;110]%N);
      ([108]%N, NSymlink [46;46;47;111;117;116]%N);
      ([115]%N, NDir [([98]%N, NFile [98;98;98]%N); ([116;109;112]%N, NFile [116;116;116]%N);
                      ([100]%N, NDir [([99]%N, NFile [])])]) ] in
  let matcher := fun (_ : bytes) (p : list bytes) => bytes_eqb (last p []) [116;109;112]%N in
  wf_children tree /\
  index_arg matcher [git] 100 [114]%N tree =
    [ ([46;115;111;117;114;99;101;103;114;97;112;104;47;105;103;110;111;114;101]%N, [42;46;116;109;112]%N);
      ([97;46;103;111]%N, [109;97;105;110]%N);
      ([108]%N, [46;46;47;111;117;116]%N);
      ([115;47;98]%N, [98;98;98]%N);
      ([115;47;100;47;99]%N, []) ].
Proof.
  split; [|vm_compute; reflexivity].
  assert (Hok : forall x : bytes, x <> [] -> existsb (N.eqb 47) x = false -> name_ok x).
  { intros x Hne Hs. split; [exact Hne|]. intro Hin. assert (existsb (N.eqb 47) x = true) as E.
    { apply existsb_exists. exists 47%N. split; [exact Hin|reflexivity]. } rewrite E in Hs. discriminate. }
  assert (Hnd : forall l : list bytes, (fix nd (l : list bytes) := match l with [] => true | x :: r => negb (mem_name x r) && nd r end) l = true -> NoDup l).
  { induction l as [|x l IH]; intro H; [constructor|]. apply andb_true_iff in H. destruct H as [H1 H2]. constructor; [|apply IH; exact H2].
    intro Hin. assert (mem_name x l = true) as E. { apply existsb_exists. exists x. split; [exact Hin|apply bytes_eqb_refl]. }
    rewrite E in H1. discriminate. }
  constructor.
  - apply Hnd. vm_compute. reflexivity.
  - repeat constructor; apply Hok; try discriminate; reflexivity.
  - intros nm sub Hin. cbn in Hin.
    repeat (destruct Hin as [Hin|Hin]; [inversion Hin; subst; clear Hin|]); try contradiction.
    + constructor; [apply Hnd; vm_compute; reflexivity|repeat constructor; apply Hok; try discriminate; reflexivity|].
      intros nm' sub' Hin'. cbn in Hin'. destruct Hin' as [E|[]]. discriminate.
    + constructor; [apply Hnd; vm_compute; reflexivity|repeat constructor; apply Hok; try discriminate; reflexivity|].
      intros nm' sub' Hin'. cbn in Hin'. destruct Hin' as [E|[]]. discriminate.
    + constructor; [apply Hnd; vm_compute; reflexivity|repeat constructor; apply Hok; try discriminate; reflexivity|].
      intros nm' sub' Hin'. cbn in Hin'.
      repeat (destruct Hin' as [E|Hin']; [try discriminate; inversion E; subst; clear E|]); try contradiction.
      constructor; [apply Hnd; vm_compute; reflexivity|repeat constructor; apply Hok; try discriminate; reflexivity|].
      intros nm2 sub2 Hin2. cbn in Hin2. destruct Hin2 as [E|[]]. discriminate.
Qed.

(* strip 1 on "top/src/a.go", "top/" (dir), "README" (too few components), "top/x" (2-byte content), and no member at all *)
Example C15_archive_nonvacuous :
  let ms := [ {| m_kind := MReg; m_name := [116;111;112;47;115;114;99;47;97;46;103;111]%N; m_data := [109;97;105;110]%N |};
              {| m_kind := MDir; m_name := [116;111;112;47]%N; m_data := [] |};
              {| m_kind := MReg; m_name := [82;69;65;68;77;69]%N; m_data := [104;105;33]%N |};
              {| m_kind := MReg; m_name := [116;111;112;47;120]%N; m_data := [104;105]%N |} ] in
  archive_index 1 100 ms = Ok [ ([115;114;99;47;97;46;103;111]%N, [109;97;105;110]%N); ([120]%N, marker_too_small) ]
  /\ archive_index 1 100 [] = Ok []
  /\ archive_index_unguarded 1 100 [ {| m_kind := MDir; m_name := [116;111;112;47]%N; m_data := [] |} ] = Panic panic_nil_builder
  /\ strip_components [97;47;47;98]%N 2 = [98]%N.
Proof. vm_compute. repeat split; reflexivity. Qed.
