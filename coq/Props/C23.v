(** C23 — Tenants never see another tenant's repositories.
    Model: Model/Tenant.v (tenant.HasAccess, indexData.Search incl. the final addRepo loop, indexData.List,
    collectSender-style aggregation over shards).  The query is abstract: [scan] (does Search reach its
    document loop), [m] (which documents match), [lsimp] (what d.simplify folds the List query to); all
    theorems quantify over them, i.e. over all queries, and over all shards (any mix of tenants,
    tombstones, sub-repositories, duplicate names).  [strict = true] is SRC_TENANT_ENFORCEMENT_MODE=strict. *)
From ZV Require Import Lib.Base Model.Tenant Proofs.Tenant Model.TenantListByName Proofs.TenantListByName Model.TenantLoop Proofs.TenantLoop Proofs.TenantLoopRefine.

(** Search, every output channel: each file match is a live matching document of a repository the caller
    has access to (and carries that repository's name/id and one of its sub-repository names), and every
    entry of RepoURLs / LineFragments is the (name, template) pair of such a repository or of one of its
    sub-repositories. *)
Theorem C23_no_leak_search : forall c s scan lim1 m,
  let res := search true c s scan lim1 m in
  (forall f, In f (sr_files res) ->
     exists r ds d, In (r, ds) s /\ has_access true c (r_tenant r) = true /\ r_tomb r = false /\
                    In d ds /\ d_ftomb d = false /\ m r d = true /\
                    fm_repo f = r_name r /\ fm_repoid f = r_id r /\ fm_file f = d_file d /\
                    (fm_subname f = 0%N \/ In (fm_subname f) (map sr_name (r_subs r)))) /\
  (forall p, In p (sr_urls res) ->
     exists r, In r (map fst s) /\ has_access true c (r_tenant r) = true /\ In p (repo_url_pairs r)) /\
  (forall p, In p (sr_frags res) ->
     exists r, In r (map fst s) /\ has_access true c (r_tenant r) = true /\ In p (repo_frag_pairs r)).
Proof.
  intros c s scan lim1 m res. destruct (search_no_leak true c s scan lim1 m) as (H1 & H2 & H3).
  split; [|split; assumption].
  intros f Hf. destruct (H1 f Hf) as (r & ds & d & Hs & Ha & Ht & Hd & Hft & Hm & E).
  exists r, ds, d. subst f. cbn. repeat split; auto. apply sub_name_cases.
Qed.
Print Assumptions C23_no_leak_search.

(** The same for EVERY SearchOptions setting, with the document loop modelled in the order and control flow of the
    code (Model/TenantLoop.v: outer loop nextFileMatch, inner skip loop with the guard sequence repository tombstone,
    tenant.HasAccess, file tombstone, ShardRepoMaxMatchCount skip; lastRepoID / repoMatchCount bookkeeping;
    ShardMaxMatchCount and cancellation exits): whatever ShardRepoMaxMatchCount / ShardMaxMatchCount [o], whatever the
    match-tree iterator answers [nd], wherever the context is cancelled [cancel], whatever number of matches each file
    match contributes [w] — every file match is a live, non-file-tombstoned, matching document of a repository the
    caller has access to, and the maps only carry such repositories. *)
Theorem C23_no_leak_search_all_options : forall c s scan o nd cancel m w,
  let res := search_opts true c s scan o nd cancel m w in
  (forall f, In f (sr_files res) ->
     exists r ds d, In (r, ds) s /\ has_access true c (r_tenant r) = true /\ r_tomb r = false /\
                    In d ds /\ d_ftomb d = false /\ m r d = true /\ f = mk_fm r d) /\
  (forall p, In p (sr_urls res) ->
     exists r, In r (map fst s) /\ has_access true c (r_tenant r) = true /\ In p (repo_url_pairs r)) /\
  (forall p, In p (sr_frags res) ->
     exists r, In r (map fst s) /\ has_access true c (r_tenant r) = true /\ In p (repo_frag_pairs r)).
Proof. exact (search_opts_no_leak true). Qed.
Print Assumptions C23_no_leak_search_all_options.

(** The loop model refines to the [search] all other theorems of this file talk about, for the two option settings they
    use: (1) no ShardRepoMaxMatchCount and a ShardMaxMatchCount that is not reached (the default 100000 of SetDefaults
    unless the shard has more matches) — [search ... lim1 := false]; (2) ShardRepoMaxMatchCount = 1, the search run by
    indexData.List — [search ... lim1 := true], given that every file match carries at least one line / chunk match.
    Assumed: the match-tree iterator does not jump ahead of the loop position (jumping only skips non-matching
    documents in /repo; trusted, C01's subject) and the context is not cancelled.  Hence non-interference,
    completeness for the owner / the system context and the List theorems hold for the loop as coded. *)
Theorem C23_loop_is_search_without_limits : forall strict c s scan o nd m w,
  (o_repomax o <= 0)%Z -> (forall p, (nd p <= p)%nat) -> (forall r d, (0 <= w r d)%Z) ->
  (o_shardmax o <= 0 \/ wsum w (flatten s) < o_shardmax o)%Z ->
  search_opts strict c s scan o nd no_cancel m w = search strict c s scan false m.
Proof. exact search_opts_unlimited. Qed.
Print Assumptions C23_loop_is_search_without_limits.

Theorem C23_loop_is_search_with_list_limit : forall strict c s scan o nd m w,
  o_repomax o = 1%Z -> (forall p, (nd p <= p)%nat) -> (forall r d, (1 <= w r d)%Z) ->
  (o_shardmax o <= 0 \/ wsum w (flatten s) < o_shardmax o)%Z ->
  search_opts strict c s scan o nd no_cancel m w = search strict c s scan true m.
Proof. exact search_opts_lim1. Qed.
Print Assumptions C23_loop_is_search_with_list_limit.

(** List: every listed name / ReposMap key belongs to a live repository the caller has access to, and
    the document statistic counts only documents of the caller's repositories. *)
Theorem C23_no_leak_list : forall c s lsimp scan m field,
  let res := rlist true c s lsimp scan m field in
  (forall n, In n (lr_repos res) ->
     exists r ds, In (r, ds) s /\ has_access true c (r_tenant r) = true /\ r_tomb r = false /\ n = r_name r) /\
  (forall i, In i (lr_map res) ->
     exists r ds, In (r, ds) s /\ has_access true c (r_tenant r) = true /\ r_tomb r = false /\ i = r_id r) /\
  (lr_docs res <= docs_total (own true c s))%N.
Proof. exact (rlist_no_leak true). Qed.
Print Assumptions C23_no_leak_list.

(** Non-interference (covers every channel at once, including order and statistics): deleting all
    repositories of other tenants from the shard changes neither the search result nor the listing. *)
Theorem C23_noninterference : forall c s scan lim1 m lsimp field,
  search true c (own true c s) scan lim1 m = search true c s scan lim1 m /\
  rlist true c (own true c s) lsimp scan m field = rlist true c s lsimp scan m field.
Proof. intros. split; [apply search_own | apply rlist_own]. Qed.
Print Assumptions C23_noninterference.

(** A request without a tenant sees nothing at all. *)
Theorem C23_no_tenant_sees_nothing : forall s scan lim1 m lsimp field,
  search true CtxNone s scan lim1 m = empty_sresult /\
  rlist true CtxNone s lsimp scan m field = empty_lresult.
Proof. intros. split; [apply search_none_empty | apply rlist_none_empty]. Qed.
Print Assumptions C23_no_tenant_sees_nothing.

(** Only the system context sees everything: it gets exactly what a server without enforcement returns,
    every live matching document, and every live repository in a full listing. *)
Theorem C23_system_sees_all : forall s scan lim1 m lsimp field c',
  search true CtxSystem s scan lim1 m = search false c' s scan lim1 m /\
  rlist true CtxSystem s lsimp scan m field = rlist false c' s lsimp scan m field /\
  (forall r ds d, In (r, ds) s -> In d ds -> r_tomb r = false -> d_ftomb d = false -> m r d = true ->
     In (mk_fm r d) (sr_files (search true CtxSystem s true false m))) /\
  (forall r ds, In (r, ds) s -> r_tomb r = false ->
     In (r_name r) (lr_repos (rlist true CtxSystem s (Some true) scan m FRepos))).
Proof.
  intros. split; [reflexivity|]. split; [reflexivity|]. split.
  - intros. eapply system_search_complete; eauto.
  - intros. eapply system_list_complete; eauto.
Qed.
Print Assumptions C23_system_sees_all.

(** The filter removes nothing else: a tenant receives every live matching document of its own repositories. *)
Theorem C23_tenant_sees_own : forall t s m r ds d,
  In (r, ds) s -> In d ds -> r_tenant r = t -> r_tomb r = false -> d_ftomb d = false -> m r d = true ->
  In (mk_fm r d) (sr_files (search true (CtxTenant t) s true false m)).
Proof. exact tenant_search_complete. Qed.
Print Assumptions C23_tenant_sees_own.

(** The sharded searcher: whatever sub-list of shards it selects and whatever (rewritten, type:repo
    expanded) query each shard receives, the aggregated result only exposes repositories of the caller. *)
Theorem C23_no_leak_sharded : forall c ss,
  let res := sharded_search true c ss in
  (forall f, In f (sr_files res) ->
     exists s scan m r ds d, In (s, (scan, m)) ss /\ In (r, ds) s /\ has_access true c (r_tenant r) = true /\
                             r_tomb r = false /\ In d ds /\ d_ftomb d = false /\ m r d = true /\ f = mk_fm r d) /\
  (forall p, In p (sr_urls res) ->
     exists s sm r, In (s, sm) ss /\ In r (map fst s) /\ has_access true c (r_tenant r) = true /\ In p (repo_url_pairs r)) /\
  (forall p, In p (sr_frags res) ->
     exists s sm r, In (s, sm) ss /\ In r (map fst s) /\ has_access true c (r_tenant r) = true /\ In p (repo_frag_pairs r)).
Proof. exact (sharded_no_leak true). Qed.
Print Assumptions C23_no_leak_sharded.

(** The sharded List (per-shard listings under the caller's context merged by name / id, statistics added):
    every listed name and ReposMap key belongs to a live repository of the caller in some shard, and the
    document statistic is bounded by the documents of the caller's repositories. *)
Theorem C23_no_leak_sharded_list : forall c field ls,
  let res := sharded_rlist true c field ls in
  (forall n, In n (sl_names res) ->
     exists s q r ds, In (s, q) ls /\ In (r, ds) s /\ has_access true c (r_tenant r) = true /\ r_tomb r = false /\ n = r_name r) /\
  (forall i, In i (sl_ids res) ->
     exists s q r ds, In (s, q) ls /\ In (r, ds) s /\ has_access true c (r_tenant r) = true /\ r_tomb r = false /\ i = r_id r) /\
  (sl_docs res <= own_docs true c ls)%N.
Proof. exact (sharded_rlist_no_leak true). Qed.
Print Assumptions C23_no_leak_sharded_list.

(** The code before the repair (final addRepo loop without access check; /repo commit 2fc86b1 fixes it):
    the statement about RepoURLs is false — tenant 1 receives (name 2 -> template 12) of tenant 2's repository. *)
Theorem C23_no_leak_refuted_before_fix :
  exists c s m p,
    In p (sr_urls (search_unfixed true c s true false m)) /\
    ~ exists r, In r (map fst s) /\ has_access true c (r_tenant r) = true /\ In p (repo_url_pairs r).
Proof. exact unfixed_leaks. Qed.
Print Assumptions C23_no_leak_refuted_before_fix.

(** Why List checks the tenant PER REPOSITORY although its entries are already filtered by the names that the
    (tenant-safe) Search found: a variant that applies the check on the constant path only (Model/TenantListByName.v;
    not the code of /repo) is equal to List as long as no repository the caller may not see has the name of one it may
    see — and leaks a same-named repository of another tenant otherwise.  Repository names are unique per tenant only. *)
Theorem C23_list_by_name_safe_without_name_clashes : forall strict c s lsimp scan m field,
  (forall rd1 rd2, In rd1 s -> In rd2 s -> r_name (fst rd1) = r_name (fst rd2) ->
     has_access strict c (r_tenant (fst rd1)) = has_access strict c (r_tenant (fst rd2))) ->
  rlist_by_name strict c s lsimp scan m field = rlist strict c s lsimp scan m field.
Proof. exact rlist_by_name_eq. Qed.
Print Assumptions C23_list_by_name_safe_without_name_clashes.

Theorem C23_list_by_name_refuted :
  lr_map (rlist_by_name true (CtxTenant 1) dup_shard None true (fun _ _ => true) FReposMap) = [1; 2]%N /\
  lr_map (rlist true (CtxTenant 1) dup_shard None true (fun _ _ => true) FReposMap) = [1]%N /\
  lr_map (rlist_by_name true (CtxTenant 1) dup_shard (Some true) true (fun _ _ => true) FReposMap) = [1]%N /\
  ~ names_respect_access true (CtxTenant 1) dup_shard.
Proof. exact rlist_by_name_leaks. Qed.
Print Assumptions C23_list_by_name_refuted.

(** ---- non-vacuity ---- *)
(** a compound shard of two tenants; tenant 1 searches a query matching everything: it receives its own file
    and its own URL entries only, although tenant 2's repository (with a sub-repository) is in the shard *)
Example C23_nonvacuous_search :
  let res := search true (CtxTenant 1) leak_shard true false (fun _ _ => true) in
  map fm_row (sr_files res) = [(1, 101, 1001, 0)]%N /\ sr_urls res = [(1, 11)]%N /\ sr_frags res = [(1, 21)]%N /\
  sr_urls (search true CtxSystem leak_shard true false (fun _ _ => true)) = [(1, 11); (2, 12); (3, 13)]%N /\
  map fm_row (sr_files (search true (CtxTenant 2) leak_shard true false (fun _ _ => true))) = [(2, 102, 1002, 3)]%N.
Proof. vm_compute. repeat split. Qed.

Example C23_nonvacuous_list :
  lr_repos (rlist true (CtxTenant 2) leak_shard None true (fun _ _ => true) FRepos) = [2%N] /\
  lr_map (rlist true (CtxTenant 2) leak_shard (Some true) true (fun _ _ => true) FReposMap) = [102%N] /\
  lr_repos (rlist true CtxSystem leak_shard (Some true) true (fun _ _ => true) FRepos) = [1; 2]%N /\
  own true (CtxTenant 1) leak_shard <> leak_shard.
Proof. vm_compute. repeat split. intro H. discriminate H. Qed.

Example C23_nonvacuous_sharded_list :
  let ls := [(leak_shard, (@None bool, true, fun (_ : repo) (_ : doc) => true)); (leak_shard, (Some true, true, fun _ _ => true))] in
  sl_names (sharded_rlist true (CtxTenant 2) FRepos ls) = [2%N] /\
  sl_ids (sharded_rlist true (CtxTenant 1) FReposMap ls) = [101%N] /\
  sl_docs (sharded_rlist true (CtxTenant 1) FRepos ls) = 2%N /\ sl_docs (sharded_rlist true CtxSystem FRepos ls) = 4%N.
Proof. vm_compute. repeat split. Qed.

Example C23_nonvacuous_sharded :
  sr_urls (sharded_search true (CtxTenant 2)
             [(leak_shard, (true, fun _ _ => true)); ([(leak_repo1, [])], (true, fun _ _ => true))])
  = [(2, 12); (3, 13)]%N.
Proof. vm_compute. reflexivity. Qed.

(** [own repository, 3 matching documents][tenant 2, first document matches][tombstoned][own, first document file-tombstoned]:
    with ShardRepoMaxMatchCount = 1 tenant 1 gets the first document of its first repository and the first LIVE document
    of its other repository; with the limit 2 two of each; ShardMaxMatchCount = 3 stops after three matches; tenant 2
    gets one document of its own repository *)
Example C23_nonvacuous_all_options :
  let all := fun (_ : repo) (_ : doc) => true in
  let one := fun (_ : repo) (_ : doc) => 1%Z in
  let files o c := map fm_file (sr_files (search_opts true c layered_shard true o nd_id no_cancel all one)) in
  files {| o_repomax := 1; o_shardmax := 100000 |} (CtxTenant 1) = [1001; 4002]%N /\
  files {| o_repomax := 2; o_shardmax := 100000 |} (CtxTenant 1) = [1001; 1002; 4002; 4003]%N /\
  files {| o_repomax := 0; o_shardmax := 3 |} (CtxTenant 1) = [1001; 1002; 1003]%N /\
  files {| o_repomax := 0; o_shardmax := 100000 |} (CtxTenant 1) = [1001; 1002; 1003; 4002; 4003]%N /\
  files {| o_repomax := 1; o_shardmax := 100000 |} (CtxTenant 2) = [2001]%N /\
  files {| o_repomax := 1; o_shardmax := 100000 |} CtxSystem = [1001; 2001; 4002]%N.
Proof. vm_compute. repeat split. Qed.

Example C23_nonvacuous_refinement :
  let all := fun (_ : repo) (_ : doc) => true in
  let one := fun (_ : repo) (_ : doc) => 1%Z in
  wsum one (flatten layered_shard) = 9%Z /\
  search_opts true (CtxTenant 1) layered_shard true {| o_repomax := 1; o_shardmax := 100000 |} nd_id no_cancel all one
    = search true (CtxTenant 1) layered_shard true true all /\
  search_opts true (CtxTenant 1) layered_shard true {| o_repomax := 0; o_shardmax := 100000 |} nd_id no_cancel all one
    = search true (CtxTenant 1) layered_shard true false all.
Proof. vm_compute. repeat split. Qed.
