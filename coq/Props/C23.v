From ZV Require Import Lib.Base Model.Tenant.
Theorem C23_placeholder : True. Proof. exact I. Qed.
Print Assumptions C23_placeholder.
