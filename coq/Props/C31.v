From ZV Require Import Lib.Base Model.IndexMutex.
Theorem C31_placeholder : True. Proof. exact I. Qed.
Print Assumptions C31_placeholder.
