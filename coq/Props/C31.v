(** C31 — index directory operations are mutually exclusive.
    Model: Model/IndexMutex.v. A schedule is any list of atomic steps of any goroutines (ids are arbitrary
    numbers, so any number of goroutines); [run init tr = Some s] says tr is a possible execution and s its
    final state. All statements quantify over every such execution. *)
From ZV Require Import Lib.Base Model.IndexMutex Proofs.IndexMutexInv Proofs.IndexMutexSpec.

(** two operations for the same repository never run at the same time *)
Theorem C31_no_two_same_repo_in_f : forall tr s t1 t2 n,
  run init tr = Some s -> pcs s t1 = WInF n -> pcs s t2 = WInF n -> t1 = t2.
Proof. intros tr s t1 t2 n H. apply no_two_same_repo. exact (reachable_inv tr s H). Qed.
Print Assumptions C31_no_two_same_repo_in_f.

(** a global operation never runs while any other operation (repository-scoped or global) runs; more:
    while one goroutine holds the write lock no other goroutine holds the read or the write lock *)
Theorem C31_global_excludes_all : forall tr s t u,
  run init tr = Some s -> pcs s t = GInF -> u <> t -> in_f (pcs s u) = false.
Proof. intros tr s t u H. apply global_excludes_all. exact (reachable_inv tr s H). Qed.
Print Assumptions C31_global_excludes_all.

Theorem C31_writer_excludes_lock_holders : forall tr s t u,
  run init tr = Some s -> holds_w (pcs s t) = true -> u <> t -> holds_r (pcs s u) = false /\ holds_w (pcs s u) = false.
Proof. intros tr s t u H. apply writer_excludes_all. exact (reachable_inv tr s H). Qed.
Print Assumptions C31_writer_excludes_lock_holders.

(** With returns true iff it executed f during that call (so a skipped operation is reported as skipped) *)
Theorem C31_skip_reported : forall tr t res s s',
  run init tr = Some s -> (exists r ran, pcs s t = WRet r ran) -> step s (ERet t res) = Some s' ->
  res = ran_in_call tr t.
Proof. exact skip_reported. Qed.
Print Assumptions C31_skip_reported.

(** ... and an operation is skipped only because another goroutine owns the same name at the moment of the
    check (it set running[name] and has not yet deleted it), exactly in that case *)
Theorem C31_skip_only_if_running : forall tr s t n s',
  run init tr = Some s -> pcs s t = WRLocked n -> step s (EMuLock t) = Some s' ->
  exists already, pcs s' t = WMu1 n already /\
    (already = true <-> exists u, u <> t /\ owns (pcs s u) = Some n) /\
    (already = true -> running s' = running s).
Proof. intros tr s t n s' H. apply skip_only_if_running. exact (reachable_inv tr s H). Qed.
Print Assumptions C31_skip_only_if_running.

(** the running set is clean: it contains exactly the names owned by some goroutine between its check-and-set and
    its deferred delete, each by one goroutine; the owner's delete removes exactly its name; the skipped caller
    leaves the set alone; when every goroutine is idle the set is empty and all locks are free *)
Theorem C31_running_set_clean : forall tr s,
  run init tr = Some s ->
  (forall n, In n (running s) <-> exists t, owns (pcs s t) = Some n) /\
  (forall t1 t2 n, owns (pcs s t1) = Some n -> owns (pcs s t2) = Some n -> t1 = t2) /\
  (forall t n s', pcs s t = WDone n -> step s (EMuLock t) = Some s' ->
      In n (running s) /\ ~ In n (running s') /\ forall m, m <> n -> (In m (running s') <-> In m (running s))) /\
  (forall t n s', pcs s t = WSkip n -> step s (ERUnlock t) = Some s' -> running s' = running s /\ pcs s' t = WRet false false) /\
  ((forall t, pcs s t = Idle) -> running s = [] /\ readers s = [] /\ writer s = None /\ mu s = None).
Proof.
  intros tr s H. pose proof (reachable_inv tr s H) as I.
  split; [apply (i_run _ I)|]. split; [apply (i_own _ I)|]. split; [intros; eapply delete_by_owner; eauto|].
  split; [intros; eapply skip_path_keeps_running; eauto | apply quiescent_clean; exact I].
Qed.
Print Assumptions C31_running_set_clean.

(** every recorded trace accepted by the model is such an execution (this is what the correspondence run checks) *)
Theorem C31_accepts_sound : forall tr, accepts tr = true -> exists s, run init tr = Some s /\ Inv s.
Proof.
  intros tr H. unfold accepts in H. destruct (run init tr) as [s|] eqn:E; [|discriminate].
  exists s. split; [reflexivity | exact (reachable_inv tr s E)].
Qed.
Print Assumptions C31_accepts_sound.

(** * non-vacuity: goroutine 1 runs f for repository 7, goroutine 2 is skipped for the same repository, goroutine 3
    waits in Global; the states named in the theorems are reachable *)
Definition ex_tr : list ev :=
  [ECallWith 1 7; ECallWith 2 7; ECallGlobal 3; ERLock 1; ERLock 2; EMuLock 1; EMuUnlock 1; EEnter 1;
   EMuLock 2; EMuUnlock 2]%N.
Example ex_in_f : exists s, run init ex_tr = Some s /\ pcs s 1%N = WInF 7 /\ pcs s 2%N = WSkip 7 /\ pcs s 3%N = GCalled /\ running s = [7%N].
Proof. eexists. split; [vm_compute; reflexivity|]. vm_compute. repeat split; reflexivity. Qed.
Example ex_lock_blocked : forall s, run init ex_tr = Some s -> step s (ELock 3) = None.
Proof. intros s H. vm_compute in H. inversion H. reflexivity. Qed.
Definition ex_tr2 : list ev :=
  ex_tr ++ [ERUnlock 2; ERet 2 false; EExit 1; EMuLock 1; EMuUnlock 1; ERUnlock 1; ERet 1 true; ELock 3; EEnter 3]%N.
Example ex_global : exists s, run init ex_tr2 = Some s /\ pcs s 3%N = GInF /\ running s = [] /\ accepts ex_tr2 = true.
Proof. eexists. split; [vm_compute; reflexivity|]. vm_compute. repeat split; reflexivity. Qed.
Example ex_skip_reported : ran_in_call (ex_tr ++ [ERUnlock 2]%N) 2%N = false /\ ran_in_call (ex_tr ++ [ERUnlock 2; ERet 2 false; EExit 1; EMuLock 1; EMuUnlock 1; ERUnlock 1]%N) 1%N = true.
Proof. vm_compute. split; reflexivity. Qed.
(* a schedule in which two goroutines are inside f for the same repository is not an execution *)
Example ex_rejects : accepts [ECallWith 1 7; ECallWith 2 7; ERLock 1; ERLock 2; EMuLock 1; EMuUnlock 1; EEnter 1; EMuLock 2; EMuUnlock 2; EEnter 2]%N = false.
Proof. vm_compute. reflexivity. Qed.
