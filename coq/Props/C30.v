(** C30 — the indexing queue behaves as a priority queue.
    Model: Model/Queue.v (queue.go + backoff.go + container/heap transcribed). A history is any list of
    timed operations (AddOrUpdate, Pop, Bump, SetIndexed with any state, MaybeRemoveMissing, Len, key set)
    on any ids, known or not; [reach bd mx h] is the state after history h from NewQueue(bd, mx). *)
From ZV Require Import Lib.Base Model.Queue Proofs.QueueHeap Proofs.QueueMap Proofs.QueueInv Proofs.QueueOps Proofs.QueueSpec Proofs.QueueHistory Proofs.QueueKeyed Proofs.QueueFifo.

Definition reach (bd mx : Z) (h : list (Z * op)) : queue := run (new_queue bd mx) h.

(** Every reachable state: heapIdx bookkeeping consistent (pq[k].heapIdx = k, items off the heap have -1,
    heap entries are tracked, keys unique), heap ordered w.r.t. lessQueueItemPriority, sequence numbers
    bounded by q.seq and pairwise distinct on the heap. *)
Theorem C30_invariant : forall bd mx h, inv (reach bd mx h).
Proof. exact reachable_inv. Qed.
Print Assumptions C30_invariant.

(** once per enqueue, part 1: a repository is on the queue at most once *)
Theorem C30_enqueued_at_most_once : forall bd mx h, NoDup (q_pq (reach bd mx h)).
Proof. intros. apply inv_nodup_pq. apply (inv_shape _ (reachable_inv bd mx h)). Qed.
Print Assumptions C30_enqueued_at_most_once.

(** once per enqueue, history level.  For a repository id classify every step of a history by what it does to
    id's presence on the queue ([events], Proofs/QueueHistory.v): EEnq = id enters the heap, EPop = a Pop hands
    out id's item ([pop_id] = the item Pop takes off the heap), ECancel = id leaves the heap in a step that is
    not a Pop.  In every history the events of every id alternate EEnq, (EPop | ECancel), EEnq, ... starting
    with EEnq ([alt false l] = Some pending), and an enqueue is still pending exactly when id is on the queue:
    between two enqueues a repository is yielded at most once, and never without a preceding enqueue. *)
Theorem C30_once_per_enqueue_alternates : forall bd mx h id,
  alt false (events id (new_queue bd mx) h) = Some (onb (reach bd mx h) id).
Proof. exact history_alternates. Qed.
Print Assumptions C30_once_per_enqueue_alternates.

(** conservation: for every id, #(Pops that yielded id) + #cancellations + [still on the queue] = #enqueues, i.e.
    the multiset of popped ids is the multiset of enqueue events minus the cancelled and the pending ones *)
Theorem C30_once_per_enqueue_conservation : forall bd mx h id,
  count_occ N.eq_dec (popped (new_queue bd mx) h) id + count ECancel (events id (new_queue bd mx) h) +
  (if onb (reach bd mx h) id then 1 else 0) = count EEnq (events id (new_queue bd mx) h).
Proof. exact popped_multiset. Qed.
Print Assumptions C30_once_per_enqueue_conservation.

(** where the events come from: enqueues only from AddOrUpdate(id) and Bump(ids with id), cancellations only from a
    failed SetIndexed(id) and MaybeRemoveMissing(ids without id), pops only from Pop; and what Pop's caller sees
    is the current options of the item taken off the heap *)
Theorem C30_event_sources : forall bd mx h id now o,
  let q := reach bd mx h in
  (In EEnq (step_event id q now o) -> (exists ver, o = OAdd id ver) \/ (exists ids, o = OBump ids /\ In id ids)) /\
  (In ECancel (step_event id q now o) ->
     (exists ver, o = OSetIndexed id ver st_fail) \/ (exists ids, o = ORemoveMissing ids /\ ~ In id ids)) /\
  (In EPop (step_event id q now o) -> o = OPop).
Proof. intros. apply event_sources. apply reachable_inv. Qed.
Print Assumptions C30_event_sources.

Theorem C30_pop_observed : forall q now,
  snd (step q now OPop) =
  RPop (option_map (fun i => let o := it_opts (item_of (q_items (fst (step q now OPop))) i) in (o_repo o, o_ver o)) (pop_id q)).
Proof. exact pop_observed. Qed.
Print Assumptions C30_pop_observed.

(** which repository a Pop yields: in every reachable state the options stored under id are the zero value (an item
    created by SetIndexed on an untracked id that never received options) or options of repository id itself; so the
    options Pop returns are for exactly the repository whose item left the heap, or the zero options *)
Theorem C30_options_keyed : forall bd mx h id x,
  get id (q_items (reach bd mx h)) = Some x -> it_opts x = opts_zero \/ o_repo (it_opts x) = id.
Proof. intros bd mx h. exact (reachable_keyed bd mx h). Qed.
Print Assumptions C30_options_keyed.

Theorem C30_pop_yields_its_repo : forall bd mx h q' o,
  pop (reach bd mx h) = (q', Some o) ->
  exists id, pop_id (reach bd mx h) = Some id /\ on_heap (reach bd mx h) id /\ (o = opts_zero \/ o_repo o = id).
Proof. exact pop_yields_its_repo. Qed.
Print Assumptions C30_pop_yields_its_repo.

(** the zero-options case is real: SetIndexed on an untracked id, then Bump, then Pop returns IndexOptions{} *)
Example ex_zero_options_popped :
  exists q', pop (reach 0 0 [(1, OSetIndexed 3 1 2); (2, OBump [3]%N)]%Z) = (q', Some opts_zero) /\
             pop_id (reach 0 0 [(1, OSetIndexed 3 1 2); (2, OBump [3]%N)]%Z) = Some 3%N.
Proof. eexists. vm_compute. split; reflexivity. Qed.

(** Pop yields a minimum of the enqueued set under the priority order, returns that repository's current
    options, removes exactly it from the queue (once per enqueue, part 2) and keeps it tracked, off the heap. *)
Theorem C30_pop_min : forall bd mx h q' o,
  pop (reach bd mx h) = (q', Some o) -> pop_spec (reach bd mx h) q' o.
Proof. intros. apply pop_some; [apply reachable_inv | assumption]. Qed.
Print Assumptions C30_pop_min.

Theorem C30_pop_empty : forall bd mx h q', pop (reach bd mx h) = (q', None) -> q' = reach bd mx h /\ q_pq (reach bd mx h) = [].
Proof. intros. apply pop_none. assumption. Qed.
Print Assumptions C30_pop_empty.

(** first-in first-out within a priority class (same indexed flag, same failed flag) *)
Theorem C30_fifo_within_class : forall bd mx h q' o,
  let q := reach bd mx h in
  pop q = (q', Some o) ->
  exists id x, on_heap q id /\ get id (q_items q) = Some x /\ o = it_opts x /\
    forall id' x', on_heap q id' -> id' <> id -> get id' (q_items q) = Some x' ->
      it_indexed x' = it_indexed x -> is_fail x' = is_fail x -> (it_seq x < it_seq x')%Z.
Proof. intros. apply (pop_fifo _ q'); [apply reachable_inv | assumption]. Qed.
Print Assumptions C30_fifo_within_class.

(** first-in first-out by TIME of enqueue: a repository entering the queue in some step gets a sequence number above
    that of every repository already waiting, and a repository keeps its number while it stays on the queue (no event
    of it in the stretch of history h); with C30_fifo_within_class the earlier enqueued one of the same class is
    popped first *)
Theorem C30_enqueue_after_all_waiting : forall bd mx h now o id id',
  let q := reach bd mx h in let q' := fst (step q now o) in
  ~ on_heap q id -> on_heap q' id -> on_heap q id' -> on_heap q' id' -> (seqof q' id' < seqof q' id)%Z.
Proof. intros. apply (enqueue_after_all_waiting q now o id id'); auto. apply reachable_inv. Qed.
Print Assumptions C30_enqueue_after_all_waiting.

Theorem C30_enqueue_order_is_seq_order : forall bd mx h0 now o h id1 id2,
  let q := reach bd mx h0 in let q1 := fst (step q now o) in
  on_heap q id1 -> on_heap q1 id1 -> ~ on_heap q id2 -> on_heap q1 id2 ->
  events id1 q1 h = [] -> events id2 q1 h = [] ->
  on_heap (run q1 h) id1 /\ on_heap (run q1 h) id2 /\ (seqof (run q1 h) id1 < seqof (run q1 h) id2)%Z.
Proof. intros. apply (enqueue_order_is_seq_order q now o h id1 id2); auto. apply reachable_inv. Qed.
Print Assumptions C30_enqueue_order_is_seq_order.

(** backoff honoured: while now <= backoffUntil neither AddOrUpdate nor Bump puts the repository on the queue;
    a failed SetIndexed takes it off the queue and sets backoffUntil = now + min((failures+1)*backoff, max) *)
Theorem C30_backoff_honoured_add : forall bd mx h now o x,
  let q := reach bd mx h in
  get (o_repo o) (q_items q) = Some x -> it_hidx x = (-1)%Z -> (now <= it_until x)%Z ->
  ~ on_heap (add_or_update q now o) (o_repo o).
Proof. intros. apply (add_blocked _ now o x); auto. apply reachable_inv. Qed.
Print Assumptions C30_backoff_honoured_add.

Theorem C30_backoff_honoured_bump : forall bd mx h now ids id x,
  let q := reach bd mx h in
  get id (q_items q) = Some x -> it_hidx x = (-1)%Z -> (now <= it_until x)%Z ->
  ~ on_heap (fst (bump q now ids)) id.
Proof. intros. apply (bump_blocked now ids _ id x); auto. apply reachable_inv. Qed.
Print Assumptions C30_backoff_honoured_bump.

Theorem C30_fail_arms_backoff : forall bd mx h now o,
  let q := reach bd mx h in
  let q' := set_indexed_op q now o st_fail in
  exists x', get (o_repo o) (q_items q') = Some x' /\ it_hidx x' = (-1)%Z /\ ~ on_heap q' (o_repo o) /\
    let x := item_of (q_items q) (o_repo o) in
    let d := ((it_cf x + 1) * c_bd (q_cfg q))%Z in
    it_until x' = (now + (if (d >? c_max (q_cfg q))%Z then c_max (q_cfg q) else d))%Z.
Proof. intros. apply set_indexed_fail_until. apply reachable_inv. Qed.
Print Assumptions C30_fail_arms_backoff.

(** MaybeRemoveMissing (repaired code), whenever it runs: the tracked set becomes old ∩ ids, exactly old \ ids
    is reported, the queue keeps exactly the enqueued survivors and their data is untouched *)
Theorem C30_remove_missing_exact : forall bd mx h ids,
  let q := reach bd mx h in
  length (q_items q) <> length ids ->
  rm_exact q (fst (remove_missing q ids)) ids (snd (remove_missing q ids)).
Proof. intros. apply remove_missing_exact; [apply reachable_inv | assumption]. Qed.
Print Assumptions C30_remove_missing_exact.

(** the documented same-size shortcut loses nothing when ids is a duplicate-free subset of the tracked set *)
Theorem C30_heuristic_exact_when_subset : forall bd mx h ids,
  let q := reach bd mx h in
  NoDup ids -> incl ids (keys (q_items q)) -> length (q_items q) = length ids ->
  remove_missing q ids = (q, []) /\ (forall id, In id (keys (q_items q)) -> In id ids).
Proof. intros. apply heuristic_exact_when_subset; assumption. Qed.
Print Assumptions C30_heuristic_exact_when_subset.

(** The code before the repair (membership/delete/report keyed by item.opts.RepoID) violates exactness:
    SetIndexed(3, v1, success) creates an item with empty options; MaybeRemoveMissing([]) then leaves
    repository 3 tracked and reports the bogus id 0. *)
Theorem C30_remove_missing_exact_refuted_before_fix :
  exists h ids, let q := reach 0 0 h in
    length (q_items q) <> length ids /\
    keys (q_items (fst (remove_missing_prefix q ids))) = [3%N] /\ snd (remove_missing_prefix q ids) = [0%N] /\
    filter (fun k => mem k ids) (keys (q_items q)) = [].
Proof. exists [(1%Z, OSetIndexed 3 1 2)], []. vm_compute. repeat split; discriminate. Qed.
Print Assumptions C30_remove_missing_exact_refuted_before_fix.

(** * non-vacuity *)
Definition ex_h : list (Z * op) :=
  [(1, OAdd 1 1); (2, OAdd 2 1); (3, OAdd 3 1); (4, OSetIndexed 1 1 2); (5, OSetIndexed 2 1 1); (6, OAdd 2 2); (7, OAdd 5 1)]%Z.
(* 3, 5 stale; 2 failed (backoff 0, re-enqueued); 1 indexed but still enqueued: Pop yields 3 first *)
Example ex_pop : exists q', pop (reach 0 0 ex_h) = (q', Some {| o_repo := 3; o_ver := 1 |}) /\ q_pq (reach 0 0 ex_h) = [3; 5; 2; 1]%N.
Proof. eexists. vm_compute. split; reflexivity. Qed.
Example ex_fifo_class : exists x x', get 3%N (q_items (reach 0 0 ex_h)) = Some x /\ get 5%N (q_items (reach 0 0 ex_h)) = Some x' /\
  it_indexed x' = it_indexed x /\ is_fail x' = is_fail x /\ (it_seq x < it_seq x')%Z.
Proof. eexists. eexists. vm_compute. repeat split; reflexivity. Qed.
Example ex_backoff : exists x, get 2%N (q_items (reach 3600 7200 ex_h)) = Some x /\ it_hidx x = (-1)%Z /\ (100 <= it_until x)%Z /\ it_until x = 3605%Z.
Proof. eexists. vm_compute. repeat split; discriminate. Qed.
Example ex_remove_missing : let q := reach 0 0 ex_h in
  length (q_items q) <> length [1; 3]%N /\ remove_missing q [1; 3]%N <> (q, []) /\
  keys (q_items (fst (remove_missing q [1; 3]%N))) = [1; 3]%N /\ snd (remove_missing q [1; 3]%N) = [2; 5]%N.
Proof. vm_compute. repeat split; discriminate. Qed.
Example ex_heuristic : let q := reach 0 0 ex_h in NoDup [5; 1; 2; 3]%N /\ incl [5; 1; 2; 3]%N (keys (q_items q)) /\ length (q_items q) = 4.
Proof. vm_compute. split; [repeat constructor; simpl; intuition discriminate | split; [|reflexivity]]. intros a Ha. simpl in *. intuition. Qed.

(* repository 2 over a history: enqueued, cancelled by a failed SetIndexed, enqueued again, popped, enqueued again *)
Definition ex_h2 : list (Z * op) :=
  [(1, OAdd 2 1); (2, OAdd 3 1); (3, OSetIndexed 2 1 1); (4, OAdd 2 2); (5, OPop); (6, OPop); (7, OBump [2; 3; 9]%N); (8, ORemoveMissing [2]%N)]%Z.
Example ex_events : events 2%N (new_queue 0 0) ex_h2 = [EEnq; ECancel; EEnq; EPop; EEnq] /\
  events 3%N (new_queue 0 0) ex_h2 = [EEnq; EPop; EEnq; ECancel] /\
  popped (new_queue 0 0) ex_h2 = [3; 2]%N /\ onb (reach 0 0 ex_h2) 2 = true /\ onb (reach 0 0 ex_h2) 3 = false.
Proof. vm_compute. repeat split; reflexivity. Qed.

(* 3 waits, 5 is enqueued later, unrelated operations follow: 3 keeps the smaller sequence number *)
Example ex_enqueue_order :
  let q := reach 0 0 [(1, OAdd 3 1)]%Z in let q1 := fst (step q 2%Z (OAdd 5 1)) in
  let h := [(3, OAdd 7 1); (4, OSetIndexed 7 1 1); (5, OBump [3; 5]%N)]%Z in
  events 3%N q1 h = [] /\ events 5%N q1 h = [] /\ (seqof (run q1 h) 3 < seqof (run q1 h) 5)%Z.
Proof. vm_compute. repeat split; reflexivity. Qed.
