(** C30 — the indexing queue behaves as a priority queue.
    Model: Model/Queue.v (queue.go + backoff.go + container/heap transcribed). A history is any list of
    timed operations (AddOrUpdate, Pop, Bump, SetIndexed with any state, MaybeRemoveMissing, Len, key set)
    on any ids, known or not; [reach bd mx h] is the state after history h from NewQueue(bd, mx). *)
From ZV Require Import Lib.Base Model.Queue Proofs.QueueHeap Proofs.QueueMap Proofs.QueueInv Proofs.QueueOps Proofs.QueueSpec.

Definition reach (bd mx : Z) (h : list (Z * op)) : queue := run (new_queue bd mx) h.

(** Every reachable state: heapIdx bookkeeping consistent (pq[k].heapIdx = k, items off the heap have -1,
    heap entries are tracked, keys unique), heap ordered w.r.t. lessQueueItemPriority, sequence numbers
    bounded by q.seq and pairwise distinct on the heap. *)
Theorem C30_invariant : forall bd mx h, inv (reach bd mx h).
Proof. exact reachable_inv. Qed.
Print Assumptions C30_invariant.

(** once per enqueue, part 1: a repository is on the queue at most once *)
Theorem C30_enqueued_at_most_once : forall bd mx h, NoDup (q_pq (reach bd mx h)).
Proof. intros. apply inv_nodup_pq. apply (inv_shape _ (reachable_inv bd mx h)). Qed.
Print Assumptions C30_enqueued_at_most_once.

(** Pop yields a minimum of the enqueued set under the priority order, returns that repository's current
    options, removes exactly it from the queue (once per enqueue, part 2) and keeps it tracked, off the heap. *)
Theorem C30_pop_min : forall bd mx h q' o,
  pop (reach bd mx h) = (q', Some o) -> pop_spec (reach bd mx h) q' o.
Proof. intros. apply pop_some; [apply reachable_inv | assumption]. Qed.
Print Assumptions C30_pop_min.

Theorem C30_pop_empty : forall bd mx h q', pop (reach bd mx h) = (q', None) -> q' = reach bd mx h /\ q_pq (reach bd mx h) = [].
Proof. intros. apply pop_none. assumption. Qed.
Print Assumptions C30_pop_empty.

(** first-in first-out within a priority class (same indexed flag, same failed flag) *)
Theorem C30_fifo_within_class : forall bd mx h q' o,
  let q := reach bd mx h in
  pop q = (q', Some o) ->
  exists id x, on_heap q id /\ get id (q_items q) = Some x /\ o = it_opts x /\
    forall id' x', on_heap q id' -> id' <> id -> get id' (q_items q) = Some x' ->
      it_indexed x' = it_indexed x -> is_fail x' = is_fail x -> (it_seq x < it_seq x')%Z.
Proof. intros. apply (pop_fifo _ q'); [apply reachable_inv | assumption]. Qed.
Print Assumptions C30_fifo_within_class.

(** backoff honoured: while now <= backoffUntil neither AddOrUpdate nor Bump puts the repository on the queue;
    a failed SetIndexed takes it off the queue and sets backoffUntil = now + min((failures+1)*backoff, max) *)
Theorem C30_backoff_honoured_add : forall bd mx h now o x,
  let q := reach bd mx h in
  get (o_repo o) (q_items q) = Some x -> it_hidx x = (-1)%Z -> (now <= it_until x)%Z ->
  ~ on_heap (add_or_update q now o) (o_repo o).
Proof. intros. apply (add_blocked _ now o x); auto. apply reachable_inv. Qed.
Print Assumptions C30_backoff_honoured_add.

Theorem C30_backoff_honoured_bump : forall bd mx h now ids id x,
  let q := reach bd mx h in
  get id (q_items q) = Some x -> it_hidx x = (-1)%Z -> (now <= it_until x)%Z ->
  ~ on_heap (fst (bump q now ids)) id.
Proof. intros. apply (bump_blocked now ids _ id x); auto. apply reachable_inv. Qed.
Print Assumptions C30_backoff_honoured_bump.

Theorem C30_fail_arms_backoff : forall bd mx h now o,
  let q := reach bd mx h in
  let q' := set_indexed_op q now o st_fail in
  exists x', get (o_repo o) (q_items q') = Some x' /\ it_hidx x' = (-1)%Z /\ ~ on_heap q' (o_repo o) /\
    let x := item_of (q_items q) (o_repo o) in
    let d := ((it_cf x + 1) * c_bd (q_cfg q))%Z in
    it_until x' = (now + (if (d >? c_max (q_cfg q))%Z then c_max (q_cfg q) else d))%Z.
Proof. intros. apply set_indexed_fail_until. apply reachable_inv. Qed.
Print Assumptions C30_fail_arms_backoff.

(** MaybeRemoveMissing (repaired code), whenever it runs: the tracked set becomes old ∩ ids, exactly old \ ids
    is reported, the queue keeps exactly the enqueued survivors and their data is untouched *)
Theorem C30_remove_missing_exact : forall bd mx h ids,
  let q := reach bd mx h in
  length (q_items q) <> length ids ->
  rm_exact q (fst (remove_missing q ids)) ids (snd (remove_missing q ids)).
Proof. intros. apply remove_missing_exact; [apply reachable_inv | assumption]. Qed.
Print Assumptions C30_remove_missing_exact.

(** the documented same-size shortcut loses nothing when ids is a duplicate-free subset of the tracked set *)
Theorem C30_heuristic_exact_when_subset : forall bd mx h ids,
  let q := reach bd mx h in
  NoDup ids -> incl ids (keys (q_items q)) -> length (q_items q) = length ids ->
  remove_missing q ids = (q, []) /\ (forall id, In id (keys (q_items q)) -> In id ids).
Proof. intros. apply heuristic_exact_when_subset; assumption. Qed.
Print Assumptions C30_heuristic_exact_when_subset.

(** The code before the repair (membership/delete/report keyed by item.opts.RepoID) violates exactness:
    SetIndexed(3, v1, success) creates an item with empty options; MaybeRemoveMissing([]) then leaves
    repository 3 tracked and reports the bogus id 0. *)
Theorem C30_remove_missing_exact_refuted_before_fix :
  exists h ids, let q := reach 0 0 h in
    length (q_items q) <> length ids /\
    keys (q_items (fst (remove_missing_prefix q ids))) = [3%N] /\ snd (remove_missing_prefix q ids) = [0%N] /\
    filter (fun k => mem k ids) (keys (q_items q)) = [].
Proof. exists [(1%Z, OSetIndexed 3 1 2)], []. vm_compute. repeat split; discriminate. Qed.
Print Assumptions C30_remove_missing_exact_refuted_before_fix.

(** * non-vacuity *)
Definition ex_h : list (Z * op) :=
  [(1, OAdd 1 1); (2, OAdd 2 1); (3, OAdd 3 1); (4, OSetIndexed 1 1 2); (5, OSetIndexed 2 1 1); (6, OAdd 2 2); (7, OAdd 5 1)]%Z.
(* 3, 5 stale; 2 failed (backoff 0, re-enqueued); 1 indexed but still enqueued: Pop yields 3 first *)
Example ex_pop : exists q', pop (reach 0 0 ex_h) = (q', Some {| o_repo := 3; o_ver := 1 |}) /\ q_pq (reach 0 0 ex_h) = [3; 5; 2; 1]%N.
Proof. eexists. vm_compute. split; reflexivity. Qed.
Example ex_fifo_class : exists x x', get 3%N (q_items (reach 0 0 ex_h)) = Some x /\ get 5%N (q_items (reach 0 0 ex_h)) = Some x' /\
  it_indexed x' = it_indexed x /\ is_fail x' = is_fail x /\ (it_seq x < it_seq x')%Z.
Proof. eexists. eexists. vm_compute. repeat split; reflexivity. Qed.
Example ex_backoff : exists x, get 2%N (q_items (reach 3600 7200 ex_h)) = Some x /\ it_hidx x = (-1)%Z /\ (100 <= it_until x)%Z /\ it_until x = 3605%Z.
Proof. eexists. vm_compute. repeat split; discriminate. Qed.
Example ex_remove_missing : let q := reach 0 0 ex_h in
  length (q_items q) <> length [1; 3]%N /\ remove_missing q [1; 3]%N <> (q, []) /\
  keys (q_items (fst (remove_missing q [1; 3]%N))) = [1; 3]%N /\ snd (remove_missing q [1; 3]%N) = [2; 5]%N.
Proof. vm_compute. repeat split; discriminate. Qed.
Example ex_heuristic : let q := reach 0 0 ex_h in NoDup [5; 1; 2; 3]%N /\ incl [5; 1; 2; 3]%N (keys (q_items q)) /\ length (q_items q) = 4.
Proof. vm_compute. split; [repeat constructor; simpl; intuition discriminate | split; [|reflexivity]]. intros a Ha. simpl in *. intuition. Qed.
