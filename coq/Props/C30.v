From ZV Require Import Lib.Base Model.Queue.
Theorem C30_placeholder : True. Proof. exact I. Qed.
Print Assumptions C30_placeholder.
