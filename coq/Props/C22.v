(** C22 — display limits return the top of the ranked result.
    Model: Model/Truncate.v (index/limit.go, SortFiles/boostNovelExtension, search/aggregate.go).
    Proofs: Proofs/Truncate.v. *)
From ZV Require Import Lib.Base Model.Truncate Proofs.Truncate Proofs.TruncateInc.

(** ---- 1. One DisplayTruncator call (SortAndTruncateFiles after SortFiles; Search's final step).
    For every option set and every ranked result list [fs] on which the truncator does not panic:
    - the flattened matches of the result are exactly the first MaxMatchDisplayCount matches of the
      first MaxDocDisplayCount files of [fs] (limits <= 0 meaning "no limit"),
    - structurally the result is [fs]'s leading files, unchanged, except that the last kept file may
      keep only its leading line/chunk matches, the last of which keeps its leading fragments/ranges,
    - the counts are bounded by the limits,
    - truncating again changes nothing. *)
Theorem C22_truncate_is_prefix : forall o fs res,
  truncate o fs = Ok res ->
  flat (o_chunk o) res = mlimit o (flat (o_chunk o) (dlimit o fs)) /\
  lprefix (file_cut (o_chunk o)) res fs.
Proof. intros o fs res H. destruct (truncate_spec o fs res H) as (A & B & _). auto. Qed.
Print Assumptions C22_truncate_is_prefix.

Theorem C22_counts_bounded : forall o fs res,
  truncate o fs = Ok res ->
  (doc_limited o = true -> length res <= Z.to_nat (o_doc o)) /\
  (match_limited o = true -> total (o_chunk o) res <= Z.to_nat (o_match o)).
Proof. intros o fs res H. destruct (truncate_spec o fs res H) as (_ & _ & A & B & _). auto. Qed.
Print Assumptions C22_counts_bounded.

Theorem C22_truncate_idempotent : forall o fs res,
  truncate o fs = Ok res -> truncate o res = Ok res.
Proof. intros o fs res H. now destruct (truncate_spec o fs res H) as (_ & _ & _ & _ & _ & A). Qed.
Print Assumptions C22_truncate_idempotent.

(** line mode never panics (chunk mode can: log.Panicf on Content with too few newlines) *)
Theorem C22_line_mode_total : forall o fs,
  o_chunk o = false -> exists res, truncate o fs = Ok res.
Proof.
  intros o fs Hc. rewrite truncate_unfold. destruct (match_limited o); [|eauto].
  assert (T : forall l n, exists r, limit_matches false l n = Ok r).
  { induction l as [|f l IH]; intros n; simpl; [eauto|].
    unfold limit_file. destruct (limit_lines (f_lines f) n) as [ls lim]. simpl.
    destruct (lim =? 0); [eauto|]. destruct (IH lim) as [r ->]. simpl. eauto. }
  rewrite Hc. destruct (T (dlimit o fs) (Z.to_nat (o_match o))) as [r ->]. simpl. eauto.
Qed.
Print Assumptions C22_line_mode_total.

(** ---- 2. The ranked-and-limited result is the beginning of the unlimited ranked result *)
Theorem C22_limited_is_top_of_ranked : forall o fs res,
  sort_and_truncate o fs = Ok res ->
  flat (o_chunk o) res = mlimit o (flat (o_chunk o) (dlimit o (sort_files fs))) /\
  lprefix (file_cut (o_chunk o)) res (sort_files fs).
Proof. intros o fs res H. apply C22_truncate_is_prefix. exact H. Qed.
Print Assumptions C22_limited_is_top_of_ranked.

(** ---- 3. Streaming (limitSender): one stateful truncator applied to every batch returns, batch
    by batch, exactly what a single truncation of the whole stream returns *)
Theorem C22_stream_equals_concat : forall o bs outs,
  trunc_stream o (init_state o) bs = Ok outs ->
  truncate o (concat bs) = Ok (concat (map fst outs)).
Proof. exact trunc_stream_concat. Qed.
Print Assumptions C22_stream_equals_concat.

(** StreamSearch with a collecting phase (FlushWallTime > 0): the flushed aggregate passes through
    limitSender's truncator once more; that second truncation changes nothing *)
Theorem C22_flush_then_limit_is_identity : forall o bs r,
  collect o bs = Ok r -> truncate o r = Ok r.
Proof. exact collect_then_truncate. Qed.
Print Assumptions C22_flush_then_limit_is_identity.

(** ---- 4. A chunk shortened by the match limit (repaired code, /repo commit 185a3da).
    Content made of the whole terminated lines [ls]; cutting to the first [k] ranges removes
    n = (old last end line) - (new last end line) lines and leaves exactly the leading
    |ls| - n whole lines, terminated: the lines of the remaining ranges plus as many trailing
    context lines as the chunk had before. *)
Theorem C22_chunk_trim_whole_lines : forall c ls k id e_new,
  cm_content c = unlines ls -> Forall nl_free ls ->
  1 <= k ->
  nth_error (cm_ranges c) (k - 1) = Some (id, e_new) ->
  (e_new <= last_end (cm_ranges c))%N ->
  N.to_nat (last_end (cm_ranges c) - e_new) < length ls ->
  cut_chunk c k =
  Ok {| cm_content := unlines (firstn (length ls - N.to_nat (last_end (cm_ranges c) - e_new)) ls);
        cm_ranges := firstn k (cm_ranges c); cm_sym := cm_sym c |}.
Proof. exact cut_chunk_whole_lines. Qed.
Print Assumptions C22_chunk_trim_whole_lines.

(** in line numbers: a chunk covering lines F .. e_old + t keeps lines F .. e_new + t *)
Corollary C22_chunk_trim_line_numbers : forall (ls : list (list N)) (F t e_old e_new : nat),
  F <= e_new <= e_old -> length ls = e_old + t + 1 - F ->
  length (firstn (length ls - (e_old - e_new)) ls) = e_new + t + 1 - F.
Proof. intros ls F t e_old e_new H L. rewrite firstn_length. lia. Qed.
Print Assumptions C22_chunk_trim_line_numbers.

(** the chunk ends at an unterminated end of file (last line [l] without terminator) *)
Theorem C22_chunk_trim_whole_lines_eof : forall c ls l k id e_new,
  cm_content c = unlines ls ++ l -> Forall nl_free ls -> nl_free l -> l <> [] ->
  1 <= k ->
  nth_error (cm_ranges c) (k - 1) = Some (id, e_new) ->
  (e_new < last_end (cm_ranges c))%N ->
  N.to_nat (last_end (cm_ranges c) - e_new) <= length ls ->
  cut_chunk c k =
  Ok {| cm_content := removelast (unlines (firstn (length ls + 1 - N.to_nat (last_end (cm_ranges c) - e_new)) ls));
        cm_ranges := firstn k (cm_ranges c); cm_sym := cm_sym c |}.
Proof. exact cut_chunk_whole_lines_eof. Qed.
Print Assumptions C22_chunk_trim_whole_lines_eof.

(** the code before the repair violated the statement: the design-time witness
    "x1\nx2\nx3\nx4\nzz\n", ranges ending on lines 1..4, cut to 1 range *)
Definition w_lines : list (list N) := [[120;49];[120;50];[120;51];[120;52];[122;122]]%N.
Theorem C22_chunk_trim_old_refuted :
  trim_content_old (unlines w_lines) 3 <> Some (unlines (firstn (length w_lines - 3) w_lines)) /\
  trim_content_old (unlines w_lines) 3 = Some [120;49;10;120;50;10;120;51]%N.
Proof. split; [vm_compute; discriminate | vm_compute; reflexivity]. Qed.
Print Assumptions C22_chunk_trim_old_refuted.

(** ---- 5. KNOWN FINDING (open): the trailing context of a shortened chunk is the trailing context
    the chunk had, not min(requested, available): a chunk clamped by the end of the file
    ("m1\nm2\nx", ranges on lines 1 and 2, 2 context lines requested, only 1 available after line 2)
    cut to 1 range keeps lines 1-2 although lines 1-3 = range + requested context are available. *)
Definition w_eof : cmatch :=
  {| cm_content := [109;49;10;109;50;10;120]%N; cm_ranges := [(1,1);(2,2)]%N; cm_sym := false |}.
Theorem C22_chunk_requested_context_refuted :
  exists c ctx_requested lines_available kept,
    c = w_eof /\ ctx_requested = 2 /\ lines_available = 3 /\
    cut_chunk c 1 = Ok kept /\
    cm_content kept = [109;49;10;109;50]%N (* 2 lines *) /\
    2 < Nat.min (1 + ctx_requested) lines_available.
Proof.
  exists w_eof, 2, 3. eexists. repeat split; try reflexivity. simpl. lia.
Qed.
Print Assumptions C22_chunk_requested_context_refuted.

(** ---- 6. KNOWN FINDING (open): collectSender ranks and truncates after every chunk.  Full statement
    that was to be proved:
      forall o bs, collect o bs = batch o bs
    It is false on the faithful model because the novel-extension promotion does not commute with
    later chunks; witness (replayed on the implementation by the harness, case 0 of
    TestVerifC22Collect): MaxMatchDisplayCount = 10, first chunk a.go 1000 (1 match), b.go 990 (1),
    c.go 980 (3), d.py 950 (8); second chunk y.py 995 (1). *)
Definition w_file (i : N) (s : Z) (e : N) (n : nat) : file :=
  {| f_id := i; f_score := s; f_ext := e; f_lines := [{| lm_id := i; lm_frags := map N.of_nat (seq 0 n) |}]; f_chunks := [] |}.
Definition w_batches : list (list file) :=
  [[w_file 1 1000 0 1; w_file 2 990 0 1; w_file 3 980 0 3; w_file 4 950 1 8]; [w_file 5 995 1 1]].
Definition w_opts : topts := {| o_doc := 0; o_match := 10; o_chunk := false |}.
Theorem C22_incremental_equals_batch_refuted :
  exists o bs r1 r2, collect o bs = Ok r1 /\ batch o bs = Ok r2 /\
                     map f_id r1 = [1;5;2;4]%N /\ map f_id r2 = [1;5;2;3;4]%N.
Proof. exists w_opts, w_batches. eexists. eexists. repeat split; vm_compute; reflexivity. Qed.
Print Assumptions C22_incremental_equals_batch_refuted.

(** the converse direction (found by the thorough tier): no promotion while collecting, but the final
    ranking promotes f33.md, which the incremental truncation had already dropped *)
Definition w_batches2 : list (list file) :=
  [[w_file 1 1047 0 8]; [w_file 14 1247 0 5; w_file 22 1007 0 2; w_file 27 989 0 3; w_file 33 1027 3 2]; [w_file 37 1368 0 2]].
Definition w_opts2 : topts := {| o_doc := 4; o_match := 10; o_chunk := false |}.
Theorem C22_incremental_equals_batch_refuted_converse :
  exists r1 r2, collect w_opts2 w_batches2 = Ok r1 /\ batch w_opts2 w_batches2 = Ok r2 /\
                map f_id r1 = [37;14;1]%N /\ map f_id r2 = [37;14;33;1]%N.
Proof. eexists. eexists. repeat split; vm_compute; reflexivity. Qed.
Print Assumptions C22_incremental_equals_batch_refuted_converse.

(** ---- 6b. DOCUMENT limits only (MaxDocDisplayCount > 0, no match limit).  Statement that was to be proved:
      forall o bs, doc_only o -> distinct_scores (concat bs) -> collect o bs = batch o bs
    It is false on the faithful model as well — the same mechanism as finding 1 needs three extensions here:
    MaxDocDisplayCount = 3; first chunk a.go 1000, b.go 990, c.go 980, p.py 970, x.rb 960: p.py is promoted
    into third place, c.go and x.rb are dropped; second chunk y.py 995 enters the top two, so that p.py is no
    longer novel: the final ranking of everything promotes x.rb (a.go, y.py, x.rb), the incremental aggregate
    has lost it (a.go, y.py, b.go).  Replayed on the implementation by case 1 of TestVerifC22Collect. *)
Definition w_batches3 : list (list file) :=
  [[w_file 1 1000 0 1; w_file 2 990 0 1; w_file 3 980 0 1; w_file 4 970 1 1; w_file 5 960 2 1]; [w_file 6 995 1 1]].
Definition w_opts3 : topts := {| o_doc := 3; o_match := 0; o_chunk := false |}.
Theorem C22_incremental_equals_batch_doclimit_refuted :
  doc_only w_opts3 /\ distinct_scores (concat w_batches3) /\
  exists r1 r2, collect w_opts3 w_batches3 = Ok r1 /\ batch w_opts3 w_batches3 = Ok r2 /\
                map f_id r1 = [1;6;2]%N /\ map f_id r2 = [1;6;5]%N.
Proof.
  split; [split; reflexivity|]. split.
  - unfold distinct_scores. vm_compute. repeat constructor; simpl; intuition discriminate.
  - eexists. eexists. repeat split; vm_compute; reflexivity.
Qed.
Print Assumptions C22_incremental_equals_batch_doclimit_refuted.

(** what does hold under a document limit only: with pairwise distinct scores (the property is "up to ties"),
    whenever the novel-extension promotion cannot change the first MaxDocDisplayCount files of a ranking of
    files of the result, ranking and truncating after every chunk IS the batch result — for any number of
    chunks of any sizes (proof: insertion into the ranked list commutes with truncation).  Two instances:
    MaxDocDisplayCount <= 2 (the promotion starts at third place), and results of a single extension. *)
Theorem C22_incremental_equals_batch_doclimit_partial : forall o bs,
  doc_only o -> distinct_scores (concat bs) ->
  boost_inert (Z.to_nat (o_doc o)) (concat bs) ->
  collect o bs = batch o bs.
Proof. exact collect_doclimit_inert. Qed.
Print Assumptions C22_incremental_equals_batch_doclimit_partial.

Theorem C22_incremental_equals_batch_doclimit_le2 : forall o bs,
  doc_only o -> (o_doc o <= 2)%Z -> distinct_scores (concat bs) -> collect o bs = batch o bs.
Proof.
  intros o bs DO H2 ND. apply collect_doclimit_inert; auto. apply boost_inert_le2. lia.
Qed.
Print Assumptions C22_incremental_equals_batch_doclimit_le2.

Theorem C22_incremental_equals_batch_doclimit_one_extension : forall o bs e,
  doc_only o -> distinct_scores (concat bs) -> Forall (fun f => f_ext f = e) (concat bs) ->
  collect o bs = batch o bs.
Proof.
  intros o bs e DO ND HE. apply collect_doclimit_inert; auto. eapply boost_inert_one_ext; eauto.
Qed.
Print Assumptions C22_incremental_equals_batch_doclimit_one_extension.

(** the ranking step alone (no promotion): the top D of "top D so far + new chunk" is the top D of everything *)
Theorem C22_top_of_ranked_incremental : forall D P b,
  distinct_scores (P ++ b) ->
  firstn D (sort_desc (firstn D (sort_desc P) ++ b)) = firstn D (sort_desc (P ++ b)).
Proof. exact top_step. Qed.
Print Assumptions C22_top_of_ranked_incremental.

(** what does hold for the collecting path: a single chunk, or no display limit, gives the batch result *)
Theorem C22_collect_single_or_unlimited : forall o bs,
  (exists b, bs = [b]) \/ has_limits o = false -> collect o bs = batch o bs.
Proof.
  intros o bs [[b ->]|HL]; unfold collect, batch; simpl.
  - rewrite app_nil_r. destruct b as [|f b]; simpl.
    + destruct (has_limits o) eqn:HL; [|reflexivity].
      unfold sort_and_truncate. rewrite truncate_unfold. unfold sort_files, dlimit. simpl.
      destruct (match_limited o), (doc_limited o); simpl; rewrite ?firstn_nil; reflexivity.
    + destruct (has_limits o) eqn:HL; simpl; [|reflexivity].
      destruct (sort_and_truncate o (f :: b)); reflexivity.
  - rewrite HL. assert (E : forall agg, collect_sends o agg bs = Ok (agg ++ concat bs)).
    { induction bs as [|b r IH]; intros agg; simpl; [now rewrite app_nil_r|].
      unfold collect_send. rewrite HL. destruct b; simpl; [apply IH|]. rewrite IH. now rewrite <- app_assoc. }
    rewrite E. reflexivity.
Qed.
Print Assumptions C22_collect_single_or_unlimited.

(** ---- non-vacuity *)
Definition ex_files : list file := [w_file 1 1000 0 2; w_file 2 990 0 3; w_file 3 980 1 2].
Example ex_truncate : exists res, truncate {| o_doc := 2; o_match := 4; o_chunk := false |} ex_files = Ok res /\
  map (fun f => length (units false f)) res = [2; 2].
Proof. eexists. split; vm_compute; reflexivity. Qed.
Example ex_stream : exists outs, trunc_stream w_opts (init_state w_opts) w_batches = Ok outs /\
  map (fun p => length (fst p)) outs = [4; 0].
Proof. eexists. split; vm_compute; reflexivity. Qed.
Example ex_flush : exists r, collect w_opts w_batches = Ok r /\ map f_id r = [1;5;2;4]%N.
Proof. eexists. split; vm_compute; reflexivity. Qed.
Definition ex_chunk : cmatch :=
  {| cm_content := unlines w_lines; cm_ranges := [(1,1);(2,2);(3,3);(4,4)]%N; cm_sym := false |}.
Example ex_chunk_hyps :
  cm_content ex_chunk = unlines w_lines /\ Forall nl_free w_lines /\
  nth_error (cm_ranges ex_chunk) (1 - 1) = Some (1, 1)%N /\
  N.to_nat (last_end (cm_ranges ex_chunk) - 1) < length w_lines /\
  cut_chunk ex_chunk 1 = Ok {| cm_content := [120;49;10;120;50;10]%N; cm_ranges := [(1,1)]%N; cm_sym := false |}.
Proof.
  repeat split; try (vm_compute; reflexivity); try (vm_compute; lia).
  repeat constructor; discriminate.
Qed.
Example ex_chunk_eof_hyps :
  cm_content w_eof = unlines [[109;49];[109;50]]%N ++ [120]%N /\
  cut_chunk w_eof 1 = Ok {| cm_content := [109;49;10;109;50]%N; cm_ranges := [(1,1)]%N; cm_sym := false |}.
Proof. split; vm_compute; reflexivity. Qed.
(* non-vacuity of 6b: three chunks, MaxDocDisplayCount = 2 with three extensions; MaxDocDisplayCount = 3 with one extension *)
Definition ex_batches_doc : list (list file) :=
  [[w_file 1 1000 0 1; w_file 2 990 1 1; w_file 3 980 2 1]; []; [w_file 4 995 2 1; w_file 5 900 0 2]; [w_file 6 1001 1 1]].
Example ex_doclimit_le2 :
  doc_only {| o_doc := 2; o_match := 0; o_chunk := false |} /\ distinct_scores (concat ex_batches_doc) /\
  exists r, collect {| o_doc := 2; o_match := 0; o_chunk := false |} ex_batches_doc = Ok r /\ map f_id r = [6;1]%N.
Proof.
  split; [split; reflexivity|]. split.
  - unfold distinct_scores. vm_compute. repeat constructor; simpl; intuition discriminate.
  - eexists. split; vm_compute; reflexivity.
Qed.
Definition ex_batches_one : list (list file) :=
  [[w_file 1 1000 0 1; w_file 2 990 0 1; w_file 3 980 0 1; w_file 4 970 0 1]; [w_file 5 995 0 1]].
Example ex_doclimit_one_ext :
  Forall (fun f => f_ext f = 0%N) (concat ex_batches_one) /\ distinct_scores (concat ex_batches_one) /\
  exists r, collect w_opts3 ex_batches_one = Ok r /\ map f_id r = [1;5;2]%N.
Proof.
  split; [repeat constructor|]. split.
  - unfold distinct_scores. vm_compute. repeat constructor; simpl; intuition discriminate.
  - eexists. split; vm_compute; reflexivity.
Qed.
