From ZV Require Import Lib.Base Model.Truncate.
Theorem C22_placeholder : True. Proof. exact I. Qed.
Print Assumptions C22_placeholder.
