(** C35 — shard merging reports success only when it merged, and never duplicates.
    Statements only; proofs are in Proofs/MergeDriver{Facts,Merge,Explode}.v over Model/MergeDriver.v.

    Reading guide.  [run_merge plan s0 names] / [run_explode plan shuf_rename shuf_cleanup s0 c] run the model
    of `zoekt-merge-index merge names...` / `index.Explode(dir, c)` from the directory state [s0] where
    [plan o k = true] makes the k-th execution of operation [o] fail (ANY set of failing operations: open,
    mkdir, create-temp, write, rename, remove), on top of the failures the state itself causes (missing file,
    directory in the way).  [crash_states w] is the state before every operation plus the final state, i.e.
    everything a kill at any point can leave behind.  [no_dup s]: no repository is alive (non-tombstoned, in a
    loadable *.zoekt file, sidecar .meta applied) in two shards.  *.tmp names are never visible. *)
From ZV Require Import Lib.Base Model.MergeDriver Proofs.MergeDriverFacts Proofs.MergeDriverMerge Proofs.MergeDriverExplode.
From Coq Require Import Permutation.

(** hypothesis "no stale sidecar at the destination": see NOTES.md (a leftover <dst>.meta would be adopted by
    the new shard — parseMetadata prefers the sidecar — and is outside the programs' control) *)
Definition merge_dst_clean (s0 : fs) (names : list zname) : Prop :=
  forall d, merge_dst s0 names = Some d -> s0 (PMeta d) = None \/ In d names.
Definition explode_dst_clean (s0 : fs) (c : zname) : Prop :=
  forall rs r, eff s0 c = Some rs -> In r (alive rs) -> s0 (PMeta (ZSimple (rm_id r))) = None \/ ZSimple (rm_id r) = c.

Theorem C35_merge_no_duplicate_visibility :
  forall (plan : op -> nat -> bool) (s0 : fs) (names : list zname),
    no_dup s0 -> merge_dst_clean s0 names ->
    forall r w, run_merge plan s0 names = (r, w) -> Forall no_dup (crash_states w).
Proof.
  intros plan s0 names Hnd Hm r w E.
  exact (proj2 (hoare_run _ _ _ _ s0 r w (merge_spec plan s0 Hnd names Hm) eq_refl Hnd E)).
Qed.
Print Assumptions C35_merge_no_duplicate_visibility.

(** a nil error means: a path was returned, it is the compound shard of the inputs, every repository alive
    in an input is alive in it, and every input shard (other than a same-named one it replaced) is gone *)
Theorem C35_merge_success_truthful :
  forall (plan : op -> nat -> bool) (s0 : fs) (names : list zname),
    no_dup s0 -> merge_dst_clean s0 names ->
    forall x w, run_merge plan s0 names = (ROk x, w) ->
    exists d, x = Some d /\ merge_dst s0 names = Some d /\
              (forall z r, In z names -> In r (vis s0 z) -> In r (vis (w_fs w) d)) /\
              (forall z, In z names -> z <> d -> w_fs w (PZ z) = None).
Proof.
  intros plan s0 names Hnd Hm x w E.
  destruct (hoare_run _ _ _ _ s0 _ w (merge_spec plan s0 Hnd names Hm) eq_refl Hnd E) as [HQ _].
  simpl in HQ. destruct x as [d|]; [|destruct HQ].
  destruct HQ as [shards [Hp [Hd [He Hg]]]]. exists d. split; auto. split.
  { unfold merge_dst. rewrite Hp. subst d. reflexivity. }
  split; auto. intros z r Hz Hr.
  destruct (parse_all_in' _ _ _ Hp z Hz) as [rs [H1 H2]].
  unfold vis in *. rewrite He. rewrite H1 in Hr. apply live_merged. exists rs; auto.
Qed.
Print Assumptions C35_merge_success_truthful.

Theorem C35_explode_no_duplicate_visibility :
  forall (plan : op -> nat -> bool) (shuf_rename shuf_cleanup : shuffle),
    (forall l, Permutation (shuf_rename l) l) ->
    forall (s0 : fs) (c : zname), no_dup s0 -> explode_dst_clean s0 c ->
    forall r w, run_explode plan shuf_rename shuf_cleanup s0 c = (r, w) -> Forall no_dup (crash_states w).
Proof.
  intros plan sr sc Hperm s0 c Hnd Hm r w E.
  destruct (eff s0 c) as [rs|] eqn:He.
  - exact (proj2 (hoare_run _ _ _ _ s0 r w (explode_spec plan sr sc Hperm s0 Hnd c rs He (fun r0 => Hm rs r0 He)) eq_refl Hnd E)).
  - exact (proj2 (hoare_run _ _ _ _ s0 r w (explode_spec_none plan sr sc s0 c Hnd He) eq_refl Hnd E)).
Qed.
Print Assumptions C35_explode_no_duplicate_visibility.

(** a nil error means: every repository that was alive in the compound shard is now alive in its own simple
    shard, and the compound shard is gone (unless it carried a simple shard's name and was replaced) *)
Theorem C35_explode_success_truthful :
  forall (plan : op -> nat -> bool) (shuf_rename shuf_cleanup : shuffle),
    (forall l, Permutation (shuf_rename l) l) ->
    forall (s0 : fs) (c : zname), no_dup s0 -> explode_dst_clean s0 c ->
    forall x w, run_explode plan shuf_rename shuf_cleanup s0 c = (ROk x, w) ->
    (forall r, In r (vis s0 c) -> vis (w_fs w) (ZSimple r) = [r]) /\
    ((forall r, c <> ZSimple r) -> w_fs w (PZ c) = None).
Proof.
  intros plan sr sc Hperm s0 c Hnd Hm x w E.
  destruct (eff s0 c) as [rs|] eqn:He.
  - exact (proj1 (hoare_run _ _ _ _ s0 _ w (explode_spec plan sr sc Hperm s0 Hnd c rs He (fun r0 => Hm rs r0 He)) eq_refl Hnd E)).
  - destruct (hoare_run _ _ _ _ s0 _ w (explode_spec_none plan sr sc s0 c Hnd He) eq_refl Hnd E) as [HQ _]. discriminate.
Qed.
Print Assumptions C35_explode_success_truthful.

(** ---- non-vacuity: a concrete directory satisfying the hypotheses, on which the programs succeed, fail, and
    are interrupted *)
Definition ex_rm (i p : N) (t : bool) : rmeta := {| rm_id := i; rm_prio := p; rm_tomb := t |}.
Definition ex_files : list (path * node) :=
  [ (PZ (ZSimple 1), File (CShard [ex_rm 1 10 false]));
    (PZ (ZSimple 2), File (CShard [ex_rm 2 20 false]));
    (PZ (ZCompound [4; 3]), File (CShard [ex_rm 4 40 false; ex_rm 3 30 false]));
    (PMeta (ZCompound [4; 3]), File (CMeta [ex_rm 4 40 true; ex_rm 3 30 false])) ]%N.
Definition ex_s0 : fs := mkfs ex_files.

Lemma mkfs_vis_in : forall l z r, In r (vis (mkfs l) z) -> exists n, In (PZ z, n) l.
Proof.
  intros l z r H. unfold vis, eff, mkfs in H.
  destruct (find (fun e => if path_eq_dec (fst e) (PZ z) then true else false) l) as [e|] eqn:E; [|destruct H].
  apply find_some in E. destruct E as [E1 E2].
  destruct (path_eq_dec (fst e) (PZ z)) as [E3|]; [|discriminate].
  exists (snd e). rewrite <- E3. destruct e; auto.
Qed.
Lemma ex_vis : forall z r, In r (vis ex_s0 z) ->
  (z = ZSimple 1 /\ r = 1 \/ z = ZSimple 2 /\ r = 2 \/ z = ZCompound [4;3] /\ r = 3)%N.
Proof.
  intros z r H. destruct (mkfs_vis_in _ _ _ H) as [n Hn]. simpl in Hn.
  destruct Hn as [E|[E|[E|[E|[]]]]]; inversion E; subst; vm_compute in H;
    destruct H as [<-|[]]; auto.
Qed.
Example ex_no_dup : no_dup ex_s0.
Proof.
  intros z1 z2 r H1 H2. apply ex_vis in H1. apply ex_vis in H2.
  destruct H1 as [[-> ->]|[[-> ->]|[-> ->]]]; destruct H2 as [[-> E]|[[-> E]|[-> E]]]; auto; discriminate.
Qed.
Definition ex_names := [ZSimple 1; ZCompound [4; 3]; ZSimple 2]%N.
Definition no_faults : op -> nat -> bool := fun _ _ => false.
Example ex_merge_dst : merge_dst ex_s0 ex_names = Some (ZCompound [3; 2; 1]%N).
Proof. vm_compute. reflexivity. Qed.
Example ex_merge_clean : merge_dst_clean ex_s0 ex_names.
Proof. intros d H. rewrite ex_merge_dst in H. inversion H; subst. left. reflexivity. Qed.
(** success: returns the compound of the three live repos (the tombstoned r4 is dropped) *)
Example ex_merge_ok : fst (run_merge no_faults ex_s0 ex_names) = ROk (Some (ZCompound [3; 2; 1]%N)).
Proof. vm_compute. reflexivity. Qed.
Example ex_merge_ok_vis :
  vis (w_fs (snd (run_merge no_faults ex_s0 ex_names))) (ZCompound [3; 2; 1]%N) = [3; 2; 1]%N /\
  length (crash_states (snd (run_merge no_faults ex_s0 ex_names))) = 13.
Proof. vm_compute. auto. Qed.
(** a failing removal of the second input: error, compound stays invisible, the first input is already gone *)
Definition ex_fault : op -> nat -> bool :=
  fun o k => (if op_eq_dec o (ORemove (PZ (ZCompound [4; 3]%N))) then true else false) && Nat.eqb k 0.
Example ex_merge_fault :
  let rw := run_merge ex_fault ex_s0 ex_names in
  fst rw = RErr /\ vis (w_fs (snd rw)) (ZCompound [3; 2; 1]%N) = [] /\ w_fs (snd rw) (PZ (ZSimple 1%N)) = None /\
  vis (w_fs (snd rw)) (ZCompound [4; 3]%N) = [3%N].
Proof. vm_compute. auto. Qed.
(** explode of the compound with one tombstoned repo, no faults: r3 back in its own shard, r4 dropped *)
Example ex_explode_clean : explode_dst_clean ex_s0 (ZCompound [4; 3]%N).
Proof.
  intros rs r H Hr. left. vm_compute in H. inversion H; subst rs. clear H.
  vm_compute in Hr. destruct Hr as [<-|[]]. reflexivity.
Qed.
Example ex_explode_ok :
  let rw := run_explode no_faults (fun l => l) (fun l => rev l) ex_s0 (ZCompound [4; 3]%N) in
  fst rw = ROk None /\ vis (w_fs (snd rw)) (ZSimple 3%N) = [3%N] /\ w_fs (snd rw) (PZ (ZCompound [4; 3]%N)) = None /\
  w_fs (snd rw) (PMeta (ZCompound [4; 3]%N)) = None.
Proof. vm_compute. auto. Qed.
(** a directory squats on r3's shard name: the rename fails naturally; Explode now reports it *)
Definition ex_s1 : fs := upd (upd ex_s0 (PZ (ZSimple 1%N)) None) (PZ (ZSimple 3%N)) (Some Dir).
Example ex_explode_rename_fails :
  let rw := run_explode no_faults (fun l => l) (fun l => l) ex_s1 (ZCompound [4; 3]%N) in
  fst rw = RErr /\ vis (w_fs (snd rw)) (ZSimple 3%N) = [].
Proof. vm_compute. auto. Qed.
