From ZV Require Import Lib.Base Model.MergeDriver.
Theorem C35_placeholder : True. Proof. exact I. Qed.
Print Assumptions C35_placeholder.
