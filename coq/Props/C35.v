(** C35 — shard merging reports success only when it merged, and never duplicates.
    Statements only; proofs are in Proofs/MergeDriver{Facts,Merge,Explode,Stale}.v over Model/MergeDriver.v.

    Reading guide.  [run_merge plan s0 names] / [run_explode plan shuf_rename shuf_cleanup shuf_stale s0 c] run the
    model of `zoekt-merge-index merge names...` / `index.Explode(dir, c)` from the directory state [s0] where
    [plan o k = true] makes the k-th execution of operation [o] fail (ANY set of failing operations: open,
    mkdir, create-temp, write, rename, remove), on top of the failures the state itself causes (missing file,
    directory in the way).  [crash_states w] is the state before every operation plus the final state, i.e.
    everything a kill at any point can leave behind.  [no_dup s]: no repository is alive (non-tombstoned, in a
    loadable *.zoekt file, sidecar .meta applied) in two shards.  *.tmp names are never visible.

    The "stale .meta" question.  parseMetadata prefers <shard>.meta over the shard's own repository list, so a
    sidecar that waits at the name under which merge / Explode publish a new shard is ADOPTED by it.  Such
    sidecars are reachable ([C35_orphan_sidecar_reachable_*]: a kill between the two removals of
    IndexFilePaths = [shard, shard.meta]).  The drivers before the repair (/repo commit in
    props/C35/known-findings.json) then report success although a repository is not alive
    ([*_before_fix_refuted]); they satisfy the property only under [*_dst_clean]
    ([*_before_fix_under_dst_clean]).  The repaired drivers (the current /repo; [run_merge], [run_explode]) remove
    a sidecar at the destination before the publishing rename; the theorems about them assume only that a stale
    sidecar is an ORPHAN (no shard of that name beside it; implied by [*_dst_clean]), which is what the crash
    leaves.  That residue cannot be dropped in this model, where shard contents are not tied to file names
    ([C35_explode_no_duplicate_visibility_needs_orphan_hypothesis]). *)
From ZV Require Import Lib.Base Model.MergeDriver Proofs.MergeDriverFacts Proofs.MergeDriverMerge Proofs.MergeDriverExplode
  Proofs.MergeDriverStale.
From Coq Require Import Permutation.

(** no stale sidecar at the destination name(s) at all (hypothesis of the theorems about the code BEFORE the repair) *)
Definition merge_dst_clean (s0 : fs) (names : list zname) : Prop :=
  forall d, merge_dst s0 names = Some d -> s0 (PMeta d) = None \/ In d names.
Definition explode_dst_clean (s0 : fs) (c : zname) : Prop :=
  forall rs r, eff s0 c = Some rs -> In r (alive rs) -> s0 (PMeta (ZSimple (rm_id r))) = None \/ ZSimple (rm_id r) = c.
(** a stale sidecar at a destination name, if any, is an orphan: there is no shard of that name (or the name is
    an input, which merge / Explode delete together with its sidecar) *)
Definition merge_dst_sidecar_orphan (s0 : fs) (names : list zname) : Prop :=
  forall d, merge_dst s0 names = Some d -> s0 (PMeta d) = None \/ s0 (PZ d) = None \/ In d names.
Definition explode_dst_sidecar_orphan (s0 : fs) (c : zname) : Prop :=
  forall rs r, eff s0 c = Some rs -> In r (alive rs) ->
    s0 (PMeta (ZSimple (rm_id r))) = None \/ s0 (PZ (ZSimple (rm_id r))) = None \/ ZSimple (rm_id r) = c.

Lemma merge_clean_orphan : forall s0 names, merge_dst_clean s0 names -> merge_dst_sidecar_orphan s0 names.
Proof. intros s0 names H d Hd. destruct (H d Hd); auto. Qed.
Lemma explode_clean_orphan : forall s0 c, explode_dst_clean s0 c -> explode_dst_sidecar_orphan s0 c.
Proof. intros s0 c H rs r He Hr. destruct (H rs r He Hr); auto. Qed.

(** ======================= the current (repaired) drivers ======================= *)
Theorem C35_merge_no_duplicate_visibility :
  forall (plan : op -> nat -> bool) (s0 : fs) (names : list zname),
    no_dup s0 -> merge_dst_sidecar_orphan s0 names ->
    forall r w, run_merge plan s0 names = (r, w) -> Forall no_dup (crash_states w).
Proof.
  intros plan s0 names Hnd Hm r w E.
  assert (Hm' : forall d, merge_dst s0 names = Some d -> s0 (PMeta d) = None \/ In d names \/ (true = true /\ s0 (PZ d) = None)).
  { intros d Hd. destruct (Hm d Hd) as [H|[H|H]]; auto. }
  exact (proj2 (hoare_run _ _ _ _ s0 r w (merge_spec plan s0 Hnd names true Hm') eq_refl Hnd E)).
Qed.
Print Assumptions C35_merge_no_duplicate_visibility.

(** a nil error means: a path was returned, it is the compound shard of the inputs, every repository alive
    in an input is alive in it, and every input shard (other than a same-named one it replaced) is gone *)
Theorem C35_merge_success_truthful :
  forall (plan : op -> nat -> bool) (s0 : fs) (names : list zname),
    no_dup s0 -> merge_dst_sidecar_orphan s0 names ->
    forall x w, run_merge plan s0 names = (ROk x, w) ->
    exists d, x = Some d /\ merge_dst s0 names = Some d /\
              (forall z r, In z names -> In r (vis s0 z) -> In r (vis (w_fs w) d)) /\
              (forall z, In z names -> z <> d -> w_fs w (PZ z) = None).
Proof.
  intros plan s0 names Hnd Hm x w E.
  assert (Hm' : forall d, merge_dst s0 names = Some d -> s0 (PMeta d) = None \/ In d names \/ (true = true /\ s0 (PZ d) = None)).
  { intros d Hd. destruct (Hm d Hd) as [H|[H|H]]; auto. }
  destruct (hoare_run _ _ _ _ s0 _ w (merge_spec plan s0 Hnd names true Hm') eq_refl Hnd E) as [HQ _].
  simpl in HQ. destruct x as [d|]; [|destruct HQ].
  destruct HQ as [shards [Hp [Hd [He Hg]]]]. exists d. split; auto. split.
  { unfold merge_dst. rewrite Hp. subst d. reflexivity. }
  split; auto. intros z r Hz Hr.
  destruct (parse_all_in' _ _ _ Hp z Hz) as [rs [H1 H2]].
  unfold vis in *. rewrite He. rewrite H1 in Hr. apply live_merged. exists rs; auto.
Qed.
Print Assumptions C35_merge_success_truthful.

Theorem C35_explode_no_duplicate_visibility :
  forall (plan : op -> nat -> bool) (shuf_rename shuf_cleanup shuf_stale : shuffle),
    (forall l, Permutation (shuf_rename l) l) -> (forall l, Permutation (shuf_stale l) l) ->
    forall (s0 : fs) (c : zname), no_dup s0 -> explode_dst_sidecar_orphan s0 c ->
    forall r w, run_explode plan shuf_rename shuf_cleanup shuf_stale s0 c = (r, w) -> Forall no_dup (crash_states w).
Proof.
  intros plan sr sc st Hperm Hperm' s0 c Hnd Hm r w E.
  destruct (eff s0 c) as [rs|] eqn:He.
  - assert (Hm' : forall r0, In r0 (alive rs) -> s0 (PMeta (ZSimple (rm_id r0))) = None \/ ZSimple (rm_id r0) = c \/
                    (true = true /\ s0 (PZ (ZSimple (rm_id r0))) = None)).
    { intros r0 Hr0. destruct (Hm rs r0 He Hr0) as [H|[H|H]]; auto. }
    exact (proj2 (hoare_run _ _ _ _ s0 r w (explode_spec plan sr sc st Hperm Hperm' s0 Hnd c rs He true Hm') eq_refl Hnd E)).
  - exact (proj2 (hoare_run _ _ _ _ s0 r w (explode_spec_none plan sr sc st true s0 c Hnd He) eq_refl Hnd E)).
Qed.
Print Assumptions C35_explode_no_duplicate_visibility.

(** a nil error means: every repository that was alive in the compound shard is now alive in its own simple
    shard, and the compound shard is gone (unless it carried a simple shard's name and was replaced) *)
Theorem C35_explode_success_truthful :
  forall (plan : op -> nat -> bool) (shuf_rename shuf_cleanup shuf_stale : shuffle),
    (forall l, Permutation (shuf_rename l) l) -> (forall l, Permutation (shuf_stale l) l) ->
    forall (s0 : fs) (c : zname), no_dup s0 -> explode_dst_sidecar_orphan s0 c ->
    forall x w, run_explode plan shuf_rename shuf_cleanup shuf_stale s0 c = (ROk x, w) ->
    (forall r, In r (vis s0 c) -> vis (w_fs w) (ZSimple r) = [r]) /\
    ((forall r, c <> ZSimple r) -> w_fs w (PZ c) = None).
Proof.
  intros plan sr sc st Hperm Hperm' s0 c Hnd Hm x w E.
  destruct (eff s0 c) as [rs|] eqn:He.
  - assert (Hm' : forall r0, In r0 (alive rs) -> s0 (PMeta (ZSimple (rm_id r0))) = None \/ ZSimple (rm_id r0) = c \/
                    (true = true /\ s0 (PZ (ZSimple (rm_id r0))) = None)).
    { intros r0 Hr0. destruct (Hm rs r0 He Hr0) as [H|[H|H]]; auto. }
    exact (proj1 (hoare_run _ _ _ _ s0 _ w (explode_spec plan sr sc st Hperm Hperm' s0 Hnd c rs He true Hm') eq_refl Hnd E)).
  - destruct (hoare_run _ _ _ _ s0 _ w (explode_spec_none plan sr sc st true s0 c Hnd He) eq_refl Hnd E) as [HQ _]. discriminate.
Qed.
Print Assumptions C35_explode_success_truthful.

(** ======================= orphan sidecars are reachable ======================= *)
(** some kill point of a fault-free merge / Explode of a shard that HAS a sidecar leaves the sidecar without
    the shard (also true of the repaired drivers: the repair is about not adopting such a leftover) *)
Theorem C35_orphan_sidecar_reachable_merge :
  exists (plan : op -> nat -> bool) (s0 : fs) (names : list zname) (z : zname),
    no_dup s0 /\ s0 (PZ z) <> None /\
    exists r w s, run_merge plan s0 names = (r, w) /\ In s (crash_states w) /\
                  s (PMeta z) <> None /\ s (PZ z) = None.
Proof. exact orphan_reachable_merge. Qed.
Print Assumptions C35_orphan_sidecar_reachable_merge.
Theorem C35_orphan_sidecar_reachable_explode :
  exists (plan : op -> nat -> bool) (sr sc st : shuffle) (s0 : fs) (c : zname),
    no_dup s0 /\ s0 (PZ c) <> None /\
    exists r w s, run_explode plan sr sc st s0 c = (r, w) /\ In s (crash_states w) /\
                  s (PMeta c) <> None /\ s (PZ c) = None.
Proof. exact orphan_reachable_explode. Qed.
Print Assumptions C35_orphan_sidecar_reachable_explode.

(** ======================= the drivers BEFORE the "stale .meta" repair ======================= *)
(** with an orphan sidecar at the destination: success reported, an input repository not alive afterwards *)
Theorem C35_merge_success_truthful_before_fix_refuted :
  exists (plan : op -> nat -> bool) (s0 : fs) (names : list zname) (d : zname) (w : world),
    no_dup s0 /\ (s0 (PZ d) = None /\ s0 (PMeta d) <> None) /\
    run_merge_before_fix plan s0 names = (ROk (Some d), w) /\
    exists z r, In z names /\ In r (vis s0 z) /\ ~ In r (vis (w_fs w) d).
Proof. exact merge_success_truthful_before_fix_refuted. Qed.
Print Assumptions C35_merge_success_truthful_before_fix_refuted.
Theorem C35_explode_success_truthful_before_fix_refuted :
  exists (plan : op -> nat -> bool) (sr sc st : shuffle) (s0 : fs) (c : zname) (x : option zname) (w : world),
    (forall l, sr l = l) /\ no_dup s0 /\
    run_explode_before_fix plan sr sc st s0 c = (ROk x, w) /\
    exists r, In r (vis s0 c) /\ s0 (PZ (ZSimple r)) = None /\ s0 (PMeta (ZSimple r)) <> None /\
              vis (w_fs w) (ZSimple r) = [].
Proof. exact explode_success_truthful_before_fix_refuted. Qed.
Print Assumptions C35_explode_success_truthful_before_fix_refuted.
(** duplicates before the repair: only with an orphan sidecar naming a repository foreign to the file name it
    sits at (model-level witnesses; no tool writes such a sidecar) *)
Theorem C35_merge_no_duplicate_visibility_before_fix_refuted :
  exists (plan : op -> nat -> bool) (s0 : fs) (names : list zname) (r : res) (w : world),
    no_dup s0 /\ run_merge_before_fix plan s0 names = (r, w) /\ ~ no_dup (w_fs w).
Proof. exact merge_no_duplicate_visibility_before_fix_refuted. Qed.
Print Assumptions C35_merge_no_duplicate_visibility_before_fix_refuted.
Theorem C35_explode_no_duplicate_visibility_before_fix_refuted :
  exists (plan : op -> nat -> bool) (sr sc st : shuffle) (s0 : fs) (c : zname) (r : res) (w : world),
    (forall l, sr l = l) /\ no_dup s0 /\ run_explode_before_fix plan sr sc st s0 c = (r, w) /\ ~ no_dup (w_fs w).
Proof. exact explode_no_duplicate_visibility_before_fix_refuted. Qed.
Print Assumptions C35_explode_no_duplicate_visibility_before_fix_refuted.

(** what the code before the repair did satisfy: everything, PROVIDED no stale sidecar waits at a destination *)
Theorem C35_merge_before_fix_under_dst_clean :
  forall (plan : op -> nat -> bool) (s0 : fs) (names : list zname),
    no_dup s0 -> merge_dst_clean s0 names ->
    forall r w, run_merge_before_fix plan s0 names = (r, w) ->
    Forall no_dup (crash_states w) /\
    forall x, r = ROk x ->
      exists d, x = Some d /\ merge_dst s0 names = Some d /\
                (forall z r, In z names -> In r (vis s0 z) -> In r (vis (w_fs w) d)) /\
                (forall z, In z names -> z <> d -> w_fs w (PZ z) = None).
Proof.
  intros plan s0 names Hnd Hm r w E.
  assert (Hm' : forall d, merge_dst s0 names = Some d -> s0 (PMeta d) = None \/ In d names \/ (false = true /\ s0 (PZ d) = None)).
  { intros d Hd. destruct (Hm d Hd) as [H|H]; auto. }
  destruct (hoare_run _ _ _ _ s0 _ w (merge_spec plan s0 Hnd names false Hm') eq_refl Hnd E) as [HQ HS].
  split; [exact HS|]. intros x ->.
  simpl in HQ. destruct x as [d|]; [|destruct HQ].
  destruct HQ as [shards [Hp [Hd [He Hg]]]]. exists d. split; auto. split.
  { unfold merge_dst. rewrite Hp. subst d. reflexivity. }
  split; auto. intros z r Hz Hr.
  destruct (parse_all_in' _ _ _ Hp z Hz) as [rs [H1 H2]].
  unfold vis in *. rewrite He. rewrite H1 in Hr. apply live_merged. exists rs; auto.
Qed.
Print Assumptions C35_merge_before_fix_under_dst_clean.
Theorem C35_explode_before_fix_under_dst_clean :
  forall (plan : op -> nat -> bool) (shuf_rename shuf_cleanup shuf_stale : shuffle),
    (forall l, Permutation (shuf_rename l) l) -> (forall l, Permutation (shuf_stale l) l) ->
    forall (s0 : fs) (c : zname), no_dup s0 -> explode_dst_clean s0 c ->
    forall r w, run_explode_before_fix plan shuf_rename shuf_cleanup shuf_stale s0 c = (r, w) ->
    Forall no_dup (crash_states w) /\
    forall x, r = ROk x ->
      (forall r, In r (vis s0 c) -> vis (w_fs w) (ZSimple r) = [r]) /\
      ((forall r, c <> ZSimple r) -> w_fs w (PZ c) = None).
Proof.
  intros plan sr sc st Hperm Hperm' s0 c Hnd Hm r w E.
  destruct (eff s0 c) as [rs|] eqn:He.
  - assert (Hm' : forall r0, In r0 (alive rs) -> s0 (PMeta (ZSimple (rm_id r0))) = None \/ ZSimple (rm_id r0) = c \/
                    (false = true /\ s0 (PZ (ZSimple (rm_id r0))) = None)).
    { intros r0 Hr0. destruct (Hm rs r0 He Hr0) as [H|H]; auto. }
    destruct (hoare_run _ _ _ _ s0 _ w (explode_spec plan sr sc st Hperm Hperm' s0 Hnd c rs He false Hm') eq_refl Hnd E) as [HQ HS].
    split; [exact HS|]. intros x ->. exact HQ.
  - destruct (hoare_run _ _ _ _ s0 _ w (explode_spec_none plan sr sc st false s0 c Hnd He) eq_refl Hnd E) as [HQ HS].
    split; [exact HS|]. intros x ->. discriminate.
Qed.
Print Assumptions C35_explode_before_fix_under_dst_clean.

(** ======================= the orphan hypothesis cannot be dropped in this model ======================= *)
(** a shard whose file name lies about its content (named like repo 1's shard, holding repo 2 tombstoned by its
    own sidecar): the repaired Explode removes that sidecar, a kill right there shows repo 2 twice *)
Theorem C35_explode_no_duplicate_visibility_needs_orphan_hypothesis :
  exists (plan : op -> nat -> bool) (sr sc st : shuffle) (s0 : fs) (c : zname) (r : res) (w : world) (s : fs),
    (forall l, sr l = l) /\ (forall l, st l = l) /\ no_dup s0 /\
    run_explode plan sr sc st s0 c = (r, w) /\ In s (crash_states w) /\ ~ no_dup s.
Proof. exact explode_no_duplicate_visibility_needs_orphan_hypothesis. Qed.
Print Assumptions C35_explode_no_duplicate_visibility_needs_orphan_hypothesis.

(** ---- non-vacuity: a concrete directory satisfying the hypotheses, on which the programs succeed, fail, and
    are interrupted *)
Definition ex_rm (i p : N) (t : bool) : rmeta := {| rm_id := i; rm_prio := p; rm_tomb := t |}.
Definition ex_files : list (path * node) :=
  [ (PZ (ZSimple 1), File (CShard [ex_rm 1 10 false]));
    (PZ (ZSimple 2), File (CShard [ex_rm 2 20 false]));
    (PZ (ZCompound [4; 3]), File (CShard [ex_rm 4 40 false; ex_rm 3 30 false]));
    (PMeta (ZCompound [4; 3]), File (CMeta [ex_rm 4 40 true; ex_rm 3 30 false])) ]%N.
Definition ex_s0 : fs := mkfs ex_files.

Lemma ex_vis : forall z r, In r (vis ex_s0 z) ->
  (z = ZSimple 1 /\ r = 1 \/ z = ZSimple 2 /\ r = 2 \/ z = ZCompound [4;3] /\ r = 3)%N.
Proof.
  intros z r H. destruct (mkfs_vis_in _ _ _ H) as [n Hn]. simpl in Hn.
  destruct Hn as [E|[E|[E|[E|[]]]]]; inversion E; subst; vm_compute in H;
    destruct H as [<-|[]]; auto.
Qed.
Example ex_no_dup : no_dup ex_s0.
Proof.
  intros z1 z2 r H1 H2. apply ex_vis in H1. apply ex_vis in H2.
  destruct H1 as [[-> ->]|[[-> ->]|[-> ->]]]; destruct H2 as [[-> E]|[[-> E]|[-> E]]]; auto; discriminate.
Qed.
Definition ex_names := [ZSimple 1; ZCompound [4; 3]; ZSimple 2]%N.
Example ex_merge_dst : merge_dst ex_s0 ex_names = Some (ZCompound [3; 2; 1]%N).
Proof. vm_compute. reflexivity. Qed.
Example ex_merge_clean : merge_dst_clean ex_s0 ex_names.
Proof. intros d H. rewrite ex_merge_dst in H. inversion H; subst. left. reflexivity. Qed.
Example ex_merge_orphan : merge_dst_sidecar_orphan ex_s0 ex_names.
Proof. exact (merge_clean_orphan _ _ ex_merge_clean). Qed.
(** success: returns the compound of the three live repos (the tombstoned r4 is dropped) *)
Example ex_merge_ok : fst (run_merge no_faults ex_s0 ex_names) = ROk (Some (ZCompound [3; 2; 1]%N)).
Proof. vm_compute. reflexivity. Qed.
Example ex_merge_ok_vis :
  vis (w_fs (snd (run_merge no_faults ex_s0 ex_names))) (ZCompound [3; 2; 1]%N) = [3; 2; 1]%N /\
  length (crash_states (snd (run_merge no_faults ex_s0 ex_names))) = 14.
Proof. vm_compute. auto. Qed.
(** a failing removal of the second input: error, compound stays invisible, the first input is already gone *)
Definition ex_fault : op -> nat -> bool :=
  fun o k => (if op_eq_dec o (ORemove (PZ (ZCompound [4; 3]%N))) then true else false) && Nat.eqb k 0.
Example ex_merge_fault :
  let rw := run_merge ex_fault ex_s0 ex_names in
  fst rw = RErr /\ vis (w_fs (snd rw)) (ZCompound [3; 2; 1]%N) = [] /\ w_fs (snd rw) (PZ (ZSimple 1%N)) = None /\
  vis (w_fs (snd rw)) (ZCompound [4; 3]%N) = [3%N].
Proof. vm_compute. auto. Qed.
(** explode of the compound with one tombstoned repo, no faults: r3 back in its own shard, r4 dropped *)
Example ex_explode_clean : explode_dst_clean ex_s0 (ZCompound [4; 3]%N).
Proof.
  intros rs r H Hr. left. vm_compute in H. inversion H; subst rs. clear H.
  vm_compute in Hr. destruct Hr as [<-|[]]. reflexivity.
Qed.
Example ex_explode_orphan : explode_dst_sidecar_orphan ex_s0 (ZCompound [4; 3]%N).
Proof. exact (explode_clean_orphan _ _ ex_explode_clean). Qed.
Example ex_explode_ok :
  let rw := run_explode no_faults (fun l => l) (fun l => rev l) (fun l => l) ex_s0 (ZCompound [4; 3]%N) in
  fst rw = ROk None /\ vis (w_fs (snd rw)) (ZSimple 3%N) = [3%N] /\ w_fs (snd rw) (PZ (ZCompound [4; 3]%N)) = None /\
  w_fs (snd rw) (PMeta (ZCompound [4; 3]%N)) = None.
Proof. vm_compute. auto. Qed.
(** a directory squats on r3's shard name: the rename fails naturally; Explode now reports it *)
Definition ex_s1 : fs := upd (upd ex_s0 (PZ (ZSimple 1%N)) None) (PZ (ZSimple 3%N)) (Some Dir).
Example ex_explode_rename_fails :
  let rw := run_explode no_faults (fun l => l) (fun l => l) (fun l => l) ex_s1 (ZCompound [4; 3]%N) in
  fst rw = RErr /\ vis (w_fs (snd rw)) (ZSimple 3%N) = [].
Proof. vm_compute. auto. Qed.

(** ---- non-vacuity of the orphan hypothesis in its interesting case: directories WITH an orphan sidecar at the
    destination satisfy it, the repaired drivers succeed on them and every repository is alive afterwards *)
Example ex_ad_merge_no_dup : no_dup ad_merge_s0.
Proof. apply no_dup_b_sound. vm_compute. reflexivity. Qed.
Example ex_ad_merge_orphan :
  merge_dst_sidecar_orphan ad_merge_s0 ad_merge_names /\ ~ merge_dst_clean ad_merge_s0 ad_merge_names.
Proof.
  assert (E : merge_dst ad_merge_s0 ad_merge_names = Some (ZCompound [2; 1]%N)) by (vm_compute; reflexivity).
  split.
  - intros d H. rewrite E in H. inversion H; subst. right; left. vm_compute. reflexivity.
  - intro H. destruct (H _ E) as [H1|H1]; [vm_compute in H1; discriminate|].
    simpl in H1. destruct H1 as [H1|[H1|[]]]; discriminate.
Qed.
Example ex_ad_merge_ok :
  let X := run_merge no_faults ad_merge_s0 ad_merge_names in
  fst X = ROk (Some (ZCompound [2; 1]%N)) /\ vis (w_fs (snd X)) (ZCompound [2; 1]%N) = [2; 1]%N /\
  w_fs (snd X) (PMeta (ZCompound [2; 1]%N)) = None.
Proof. exact merge_orphan_after_fix. Qed.
Example ex_ad_explode_orphan :
  no_dup ad_expl_s0 /\ explode_dst_sidecar_orphan ad_expl_s0 (ZCompound [2; 1]%N) /\
  ~ explode_dst_clean ad_expl_s0 (ZCompound [2; 1]%N).
Proof.
  assert (E : eff ad_expl_s0 (ZCompound [2; 1]%N) = Some [rm 2 20 false; rm 1 10 false]) by (vm_compute; reflexivity).
  split; [apply no_dup_b_sound; vm_compute; reflexivity|]. split.
  - intros rs r H Hr. rewrite E in H. inversion H; subst rs. right; left.
    simpl in Hr. destruct Hr as [<-|[<-|[]]]; vm_compute; reflexivity.
  - intro H. destruct (H _ (rm 1 10 false) E) as [H1|H1]; [simpl; auto|vm_compute in H1; discriminate|discriminate].
Qed.
Example ex_ad_explode_ok :
  let X := run_explode no_faults idsh idsh idsh ad_expl_s0 (ZCompound [2; 1]%N) in
  fst X = ROk None /\ vis (w_fs (snd X)) (ZSimple 1%N) = [1%N] /\ vis (w_fs (snd X)) (ZSimple 2%N) = [2%N] /\
  w_fs (snd X) (PMeta (ZSimple 1%N)) = None.
Proof. exact explode_orphan_after_fix. Qed.
(** the whole chain (kill of Explode between compound and sidecar; re-index; merge of the same set): untruthful
    success before the repair, none after *)
Example ex_chain : chain_check false = true /\ chain_check true = false.
Proof. split; [exact chain_before_fix|exact chain_after_fix]. Qed.
