From ZV Require Import Lib.Base Model.DocCache.
Theorem C04_placeholder : True. Proof. exact I. Qed.
Print Assumptions C04_placeholder.
