(** C04 — Search results do not depend on earlier (or concurrent) searches.
    Model: Model/DocCache.v — the document loop of indexData.Search over match trees whose docMatchTree /
    bruteForce nodes carry a cursor (firstDone, docID) living in a heap, d.simplify for Meta atoms, and the
    per-shard docMatchTreeCache (key -> node BY REFERENCE, bounded size, eviction by an arbitrary choice
    function) threaded through a HISTORY of searches on one loaded shard.
    Sequential histories are covered in full.  Concurrency: (1) cursors — interleavings of the loop iterations of
    searches (theorems ..._partial below; finer interleavings inside a tree build / prepare are not modelled);
    (2) the sharing discipline of the cache — what a cached node shares between searches (the predicate closure,
    possibly with a mutable memo cell) under interleavings of single accesses to the cell: independence holds
    exactly when the shared part is immutable (iff theorem, refutation witness, instance for the code under check
    via Generated/C04Sharing.v).  Go data races as such are outside the model; the concurrent-history run of both
    tiers and the -race run of the thorough tier are the empirical part. *)
From ZV Require Import Lib.Base Model.DocCache Model.DocCacheBuild Proofs.DocCache Proofs.DocCacheMemo Proofs.DocCacheBuild Generated.C04Sharing.

(** One search of the repaired code, started in ANY state reachable by searches (any cache contents that are
    coherent with the shard, any heap), returns exactly the documents satisfying the query, in document
    order — for every cache size and every eviction choice. *)
Theorem C04_search_exact_in_any_state : forall cf s q st,
  cache_ok s (st_cache st) ->
  fst (search true cf s q st) = filter (qeval s q) (seq 0 (ndocs s)).
Proof. intros cf s q st H. exact (proj1 (search_correct cf s q st H)). Qed.
Print Assumptions C04_search_exact_in_any_state.

(** History independence (full, sequential): for every configuration (cache disabled or enabled at any size,
    any eviction behaviour), every shard and every sequence of searches on a freshly loaded shard, each search
    returns exactly what it returns when run alone on a freshly loaded shard. *)
Theorem C04_history_independent : forall cf s qs,
  run_history true cf s qs fresh = map (fun q => fst (search true cf s q fresh)) qs.
Proof.
  intros cf s qs. rewrite (run_history_correct cf s qs fresh (cache_ok_fresh s)).
  apply map_ext. intros q. symmetry. exact (proj1 (search_correct cf s q fresh (cache_ok_fresh s))).
Qed.
Print Assumptions C04_history_independent.

(** the same in the shape of the property text: the last search of any history = that search alone *)
Theorem C04_last_equals_alone : forall cf s h q,
  last (run_history true cf s (h ++ [q]) fresh) [] = hd [] (run_history true cf s [q] fresh).
Proof.
  intros cf s h q. rewrite !C04_history_independent, map_app. cbn [map hd]. apply last_last.
Qed.
Print Assumptions C04_last_equals_alone.

(** results do not depend on the configuration either (cache size, eviction) *)
Theorem C04_configuration_independent : forall cf cf' s qs,
  run_history true cf s qs fresh = run_history true cf' s qs fresh.
Proof.
  intros. rewrite !(run_history_correct _ s qs fresh (cache_ok_fresh s)). reflexivity.
Qed.
Print Assumptions C04_configuration_independent.

(** Concurrency, PARTIAL (interleavings at loop-iteration granularity; no data races, builds atomic):
    (a) rely/guarantee form, any number of other searches: if between the iterations of a search the rest of the
    system transforms the shared heap in ANY way that only allocates nodes and leaves the cursors of this
    search's own nodes alone, the search still returns exactly the matching documents. *)
Theorem C04_interleaving_independent_partial : forall env n t,
  (forall i h, (length h <= length (env i h)) /\
               (forall a, In a (leaves t) -> get_cursor (env i h) a = get_cursor h a)) ->
  forall h, (forall a, In a (leaves t) -> a < length h /\ get_cursor h a = (false, 0)) ->
  fst (doc_loop_env env (S n) n t 0 h []) = filter (matches t) (seq 0 n).
Proof.
  intros env n t Henv h Hs.
  rewrite (doc_loop_env_spec env n t Henv (S n) 0 h (false, 0) []); [now rewrite Nat.sub_0_r | exact Hs | reflexivity | lia].
Qed.
Print Assumptions C04_interleaving_independent_partial.

(** (a') the same including the tree build: the environment may also act between the atoms of the query while the
    match tree is built (allocate, move other cursors, add / evict cache entries coherently).  One search under
    such interference during build AND loop returns exactly the documents satisfying its query. *)
Theorem C04_search_under_interference_partial : forall envb envl cf s q st k t st' k',
  build_env envb cf s (simp s q) st k = (t, st', k') ->
  (forall i x, length (st_heap x) <= length (st_heap (envb i x))) ->
  (forall i x, cache_ok s (st_cache x) -> cache_ok s (st_cache (envb i x))) ->
  (forall a, In a (leaves t) -> forall i x, a < length (st_heap x) ->
             get_cursor (st_heap (envb i x)) a = get_cursor (st_heap x) a) ->
  (forall i h, (length h <= length (envl i h)) /\
               (forall a, In a (leaves t) -> get_cursor (envl i h) a = get_cursor h a)) ->
  cache_ok s (st_cache st) ->
  fst (doc_loop_env envl (S (ndocs s)) (ndocs s) t 0 (st_heap st') []) = filter (qeval s q) (seq 0 (ndocs s)).
Proof.
  intros envb envl cf s q st k t st' k' Hb Hg Hc Hk Hl Hok.
  destruct (build_env_spec envb cf s (simp s q) st k t st' k' Hb Hg Hc Hk Hok) as (B1 & B2 & _).
  rewrite (doc_loop_env_spec envl (ndocs s) t Hl (S (ndocs s)) 0 (st_heap st') (false, 0) []);
    [| intros a Ha; destruct (B1 a Ha) as [R1 R2]; split; [lia | exact R2] | reflexivity | lia].
  rewrite Nat.sub_0_r. cbn [app]. apply (matches_reference s q t B2).
Qed.
Print Assumptions C04_search_under_interference_partial.

(** (a'') finer still: the Meta case of newMatchTree at the granularity of its two cache operations
    (Model/DocCacheBuild.v): the environment also acts between the cache MISS (Get, read lock) and the Add (write lock)
    of one Meta atom — other searches may have added the same key meanwhile, evicted entries, allocated nodes. *)
Theorem C04_search_under_interference_get_add_partial : forall envb envl cf s q st k t st' k',
  build_split envb cf s (simp s q) st k = (t, st', k') ->
  (forall i x, length (st_heap x) <= length (st_heap (envb i x))) ->
  (forall i x, cache_ok s (st_cache x) -> cache_ok s (st_cache (envb i x))) ->
  (forall a, In a (leaves t) -> forall i x, a < length (st_heap x) ->
             get_cursor (st_heap (envb i x)) a = get_cursor (st_heap x) a) ->
  (forall i h, (length h <= length (envl i h)) /\
               (forall a, In a (leaves t) -> get_cursor (envl i h) a = get_cursor h a)) ->
  cache_ok s (st_cache st) ->
  fst (doc_loop_env envl (S (ndocs s)) (ndocs s) t 0 (st_heap st') []) = filter (qeval s q) (seq 0 (ndocs s)).
Proof. exact search_split_correct. Qed.
Print Assumptions C04_search_under_interference_get_add_partial.

(** (b) the steps of a search satisfy what the others rely on: they keep the heap's length and only move the
    cursors of the search's own nodes — and the repaired newMatchTree gives every search its own nodes. *)
Theorem C04_search_steps_are_private : forall t t' h d,
  (forall a, In a (leaves t) -> a < length h) ->
  (forall a, In a (leaves t) -> ~ In a (leaves t')) ->
  (length h <= length (prepare h t d)) /\ (forall a, In a (leaves t') -> get_cursor (prepare h t d) a = get_cursor h a).
Proof. exact prepare_rely_other. Qed.
Print Assumptions C04_search_steps_are_private.

(** (c) two searches on one loaded shard under EVERY schedule of their loop iterations (cache enabled or
    not): each returns exactly what it returns alone. *)
Theorem C04_two_searches_any_schedule_partial : forall cf s qa qb sched,
  par_search cf s qa qb sched fresh =
  (fst (search true cf s qa fresh), fst (search true cf s qb fresh)).
Proof.
  intros. rewrite (par_search_correct cf s qa qb sched fresh (cache_ok_fresh s)).
  rewrite (proj1 (search_correct cf s qa fresh (cache_ok_fresh s))), (proj1 (search_correct cf s qb fresh (cache_ok_fresh s))).
  reflexivity.
Qed.
Print Assumptions C04_two_searches_any_schedule_partial.

(** ---- the SHARING DISCIPLINE of the cache: what a cached node shares between searches must be immutable ----
    Second half of Model/DocCache.v: the predicate closure handed to every search of a Meta atom may carry a mutable
    memo cell (lastRepo, lastWant); evaluations are interleaved at the granularity of single accesses to the cell.
    (d) a search whose closure is IMMUTABLE (no cell; /repo) returns exactly the atom's documents under ANY
    interference whatsoever on the memo heap — no assumption on the environment. *)
Theorem C04_immutable_shared_part_independent : forall env ps mh,
  mt_acc (fst (mt_run_env env (mfuel ps) ps (mk_mthread None) mh)) = mref ps.
Proof. intros env ps mh. apply (memo_search_under_interference env ps None mh); [intros i h; exact I | exact I]. Qed.
Print Assumptions C04_immutable_shared_part_independent.

(** (e) a closure WITH a mutable memo is harmless as long as its cell is private to the search: any interference that
    leaves that one cell alone (and the steps of a search touch no cell but their own: [mt_step_guarantee]). *)
Theorem C04_private_memo_independent : forall env ps a mh,
  (forall i h, a < length h -> a < length (env i h) /\ get_memo (env i h) a = get_memo h a) ->
  a < length mh -> (forall r, fst (get_memo mh a) = Some r -> snd (get_memo mh a) = want ps r) ->
  mt_acc (fst (mt_run_env env (mfuel ps) ps (mk_mthread (Some a)) mh)) = mref ps.
Proof.
  intros env ps a mh Henv Hlen Hcoh. apply (memo_search_under_interference env ps (Some a) mh); [exact Henv | split; assumption].
Qed.
Print Assumptions C04_private_memo_independent.

Theorem C04_search_steps_keep_to_their_cell : forall ps th mh cell',
  (forall a, mt_cell th = Some a -> cell' <> Some a) ->
  match cell' with
  | None => True
  | Some b => b < length mh -> b < length (snd (mt_step ps th mh)) /\ get_memo (snd (mt_step ps th mh)) b = get_memo mh b
  end.
Proof. intros ps th mh cell' H. exact (mt_step_guarantee ps th mh cell' H). Qed.
Print Assumptions C04_search_steps_keep_to_their_cell.

(** (f) EXACTLY WHEN: two concurrent searches of the same atom, every shard, every schedule of their atomic steps —
    both return the solo result if and only if the cache's discipline does not hand the same mutable memo cell
    to both (immutable closure, or a private cell per node). *)
Theorem C04_interleaving_independent_iff_shared_part_immutable : forall sh,
  (forall ps sched, mpar_search sh ps sched = (mref ps, mref ps)) <-> sh <> ShareMutableMemo.
Proof. exact sharing_iff. Qed.
Print Assumptions C04_interleaving_independent_iff_shared_part_immutable.

(** (g) the discipline /repo follows, read off index/matchtree.go by the translator (Generated/C04Sharing.v, regenerated
    on every run): the closure stored in the cache writes no captured variable and a cache hit does not return the
    cached node itself — so (f) and the cursor theorems above ([build true]) are about the code under check. *)
Theorem C04_repo_follows_the_sharing_discipline :
  meta_closure_sharing = ShareImmutable /\ meta_closure_captured_writes = 0 /\ meta_hit_returns_cached_node = false.
Proof. repeat split; reflexivity. Qed.
Print Assumptions C04_repo_follows_the_sharing_discipline.

Theorem C04_repo_meta_atom_interleaving_independent : forall ps sched,
  mpar_search meta_closure_sharing ps sched = (mref ps, mref ps).
Proof. apply C04_interleaving_independent_iff_shared_part_immutable. discriminate. Qed.
Print Assumptions C04_repo_meta_atom_interleaving_independent.

(** a shared mutable memo: search B returns [1] instead of [0; 1] (schedule A, B, B), although the same two searches
    one after the other (empty schedule) are both right — the memo is transparent for sequential histories *)
Theorem C04_shared_mutable_memo_refuted :
  mref memo_wit = [0; 1] /\
  mpar_search ShareMutableMemo memo_wit memo_wit_sched = ([0; 1], [1]) /\
  mpar_search ShareMutableMemo memo_wit memo_wit_sched <> (mref memo_wit, mref memo_wit) /\
  mpar_search ShareMutableMemo memo_wit [] = (mref memo_wit, mref memo_wit).
Proof. exact shared_memo_refuted. Qed.
Print Assumptions C04_shared_mutable_memo_refuted.

(** the atom-level reference [mref] is the result of the document-loop model for that atom *)
Theorem C04_atom_reference_is_search : forall cf ps k s,
  ndocs s = p_ndocs ps -> (forall d, meta s k d = want ps (repo_of ps d)) ->
  fst (search true cf s (QMeta k) fresh) = mref ps.
Proof. exact mref_is_search. Qed.
Print Assumptions C04_atom_reference_is_search.

(** The code before the repair (/repo 6b2af41): with the cache enabled the cached node keeps the cursor of the
    previous search; "meta.k" matching documents 0,1,2 of 4 returns [0;1;2] and then []. *)
Theorem C04_history_refuted_before_fix :
  exists cf s h q,
    last (run_history false cf s (h ++ [q]) fresh) [] <> hd [] (run_history false cf s [q] fresh).
Proof. exact unfixed_history_dependent. Qed.
Print Assumptions C04_history_refuted_before_fix.

(** ---- non-vacuity ---- *)
Example C04_nonvacuous :
  let s := wit_shard in
  let q2 := QAnd (QMeta 1) (QAtom (fun d => Nat.eqb d 1 || Nat.eqb d 3)) in
  let h := [QMeta 1; q2; QOr (QMeta 1) (QAtom (fun d => Nat.eqb d 3)); QMeta 1; QNot (QMeta 1); QMeta 2] in
  run_history true wit_cf s h fresh = [[0; 1; 2]; [1]; [0; 1; 2; 3]; [0; 1; 2]; [3]; []] /\
  run_history false wit_cf s h fresh = [[0; 1; 2]; []; [3]; []; [3]; []] /\
  run_history true {| max_entries := 1; choose := fun n _ => n |} s h fresh = run_history true wit_cf s h fresh /\
  (* the cache really holds the node after the first search *)
  length (st_cache (snd (search true wit_cf s (QMeta 1) fresh))) = 1.
Proof. vm_compute. repeat split. Qed.

Example C04_nonvacuous_interleaving :
  par_search wit_cf wit_shard (QMeta 1) (QAnd (QMeta 1) (QAtom (fun d => Nat.eqb d 1 || Nat.eqb d 3)))
             [true; false; false; true; true; false; true; false; true] fresh = ([0; 1; 2], [1]).
Proof. vm_compute. reflexivity. Qed.

(** an environment that, before every atom, allocates a foreign node with a moved cursor and empties the cache,
    and before every loop iteration allocates another foreign node: the search is unaffected *)
Example C04_nonvacuous_interference :
  let envb := fun (_ : nat) (x : state) => {| st_heap := st_heap x ++ [(true, 7)]; st_cache := []; st_step := st_step x |} in
  let envl := fun (_ : nat) (h : heap) => h ++ [(true, 3)] in
  let q := QAnd (QMeta 1) (QOr (QMeta 1) (QAtom (fun d => Nat.eqb d 3))) in
  let '(t, st', _) := build_env envb wit_cf wit_shard (simp wit_shard q) fresh 0 in
  leaves t = [1; 3; 5] /\
  fst (doc_loop_env envl 5 4 t 0 (st_heap st') []) = [0; 1; 2].
Proof. vm_compute. split; reflexivity. Qed.

(** interference that rewrites every memo cell before every step does not disturb a search with an immutable closure;
    private cells under a long alternating schedule; the shared cell under the same schedule goes wrong *)
Example C04_nonvacuous_sharing :
  let env := fun (i : nat) (h : mheap) => map (fun _ => (Some (i mod 2), Nat.even i)) h ++ [(Some 1, false)] in
  mt_acc (fst (mt_run_env env (mfuel memo_wit) memo_wit (mk_mthread None) [(Some 1, false)])) = [0; 1] /\
  let alt := [true; false; false; true; true; false; true; false; false; false; true; true] in
  mpar_search SharePrivateMemo memo_wit alt = ([0; 1], [0; 1]) /\
  mpar_search ShareImmutable memo_wit alt = ([0; 1], [0; 1]) /\
  mpar_search ShareMutableMemo memo_wit alt = ([0; 1], [1]).
Proof. vm_compute. repeat split. Qed.

(** between the miss and the Add of the atom another search publishes the same key (with a foreign node) and moves
    that node's cursor: the search still gets its own fresh node and the right answer *)
Example C04_nonvacuous_get_add :
  let envb := fun (i : nat) (x : state) =>
                if Nat.eqb i 1
                then {| st_heap := st_heap x ++ [(true, 2)];
                        st_cache := cache_add wit_cf (st_step x) 1 (length (st_heap x), meta wit_shard 1) (st_cache x);
                        st_step := S (st_step x) |}
                else x in
  let '(t, st', k') := build_split envb wit_cf wit_shard (simp wit_shard (QMeta 1)) fresh 0 in
  leaves t = [1] /\ k' = 2 /\ length (st_cache st') = 1 /\
  fst (doc_loop_env (fun _ h => h) 5 4 t 0 (st_heap st') []) = [0; 1; 2].
Proof. vm_compute. repeat split. Qed.
