(** C13 — Delta builds expose the same per-branch content as full builds.
    Model: Model/Delta.v (per-branch trees, full / delta runs, layers of documents with branch masks and FileTombstones,
    branch-restricted visibility), Model/DeltaDecide.v (which requests for a delta build are honoured and which fall back
    to a normal build: no shards, shard threshold, branch list changed, index options changed).
    Proofs: Proofs/Delta.v, Proofs/DeltaDecide.v.
    [view stack b p]  = blobs of the documents a search restricted to branch b finds at path p;
    [head_view s b p] = [blob] if branch b's head tree in snapshot s has a file at p, [] otherwise. *)
From ZV Require Import Lib.Base Model.Delta Proofs.Delta Model.DeltaDecide Proofs.DeltaDecide.

(** A full build establishes the invariant ... *)
Theorem C13_full_establishes : forall nb cur b p, b < nb ->
  view (st_stack (full_build nb cur)) b p = head_view cur b p.
Proof. intros nb cur b p Hb. exact (full_establishes_Inv nb cur b p Hb). Qed.
Print Assumptions C13_full_establishes.

(** ... and a delta build on top of ANY index state that satisfies it preserves it. *)
Theorem C13_delta_preserves : forall nb st cur,
  (forall b p, b < nb -> view (st_stack st) b p = head_view (st_last st) b p) ->
  forall b p, b < nb -> view (st_stack (delta_build nb st cur)) b p = head_view cur b p.
Proof. intros nb st cur HI b p Hb. exact (delta_preserves_Inv nb st cur HI b p Hb). Qed.
Print Assumptions C13_delta_preserves.

(** Hence, for ALL histories (any number of branches, any sequence of snapshots, any interleaving of full and delta
    runs, a first delta run falling back to a full build): after the last run a search restricted to any indexed branch
    finds, at every path, exactly one document with the head content if the head has a file there, and nothing otherwise. *)
Theorem C13_view_eq : forall nb runs s k b p, b < nb ->
  view (st_stack (run_all nb (runs ++ [(s, k)]))) b p = head_view s b p.
Proof.
  intros nb runs s k b p Hb. rewrite (run_all_Inv nb (runs ++ [(s, k)]) b p Hb). rewrite run_all_last. reflexivity.
Qed.
Print Assumptions C13_view_eq.

(** The same per-branch view a fresh full build of the last snapshot gives. *)
Theorem C13_same_as_fresh_full_build : forall nb runs s k b p, b < nb ->
  view (st_stack (run_all nb (runs ++ [(s, k)]))) b p = view (st_stack (full_build nb s)) b p.
Proof.
  intros nb runs s k b p Hb. rewrite C13_view_eq by exact Hb. symmetry. apply C13_full_establishes. exact Hb.
Qed.
Print Assumptions C13_same_as_fresh_full_build.

(** ---- requests that change between runs (Model/DeltaDecide.v): the list of indexed branches, the index options, the
    shard threshold.  A requested delta build builds delta shards on top of the existing ones EXACTLY when shards exist,
    their number does not exceed the threshold, the existing shards record the same list of branch names (same names at
    the same positions) and the same options hash, and no branch's `.sourcegraph/ignore` file differs from the one of its
    last indexed commit; otherwise it is a normal build of the requested branches. *)
Theorem C13_delta_iff_compatible : forall x q,
  builds_delta x q = true <->
  q_kind q = Delta /\ st_stack (x_st x) <> [] /\ q_over q = false /\
  m_branches (x_meta x) = q_branches q /\ m_opts (x_meta x) = q_opts q /\
  ignore_changed (length (q_branches q)) (st_last (x_st x)) (q_snap q) = false.
Proof. exact builds_delta_iff. Qed.
Print Assumptions C13_delta_iff_compatible.

Theorem C13_fallback_is_full_build : forall x q r,
  q_kind q = Delta -> fallback_reason x q = Some r ->
  x_st (xrun_step x q) = full_build (length (q_branches q)) (q_snap q).
Proof. exact fallback_is_full. Qed.
Print Assumptions C13_fallback_is_full_build.

(** For ALL sequences of requests — any branch lists (added, dropped, reordered branches), any option hashes, any
    threshold outcomes, any requested kinds — after the last run a search restricted to any branch of the LAST request
    finds, at every path, exactly the head's file: delta runs after a change fall back and still satisfy the view equation. *)
Theorem C13_view_eq_any_requests : forall qs q b p, b < length (q_branches q) ->
  view (st_stack (x_st (xrun_all (qs ++ [q])))) b p = head_view (q_snap q) b p.
Proof. exact xrun_all_view. Qed.
Print Assumptions C13_view_eq_any_requests.

Theorem C13_same_as_fresh_full_build_any_requests : forall qs q b p, b < length (q_branches q) ->
  view (st_stack (x_st (xrun_all (qs ++ [q])))) b p =
  view (st_stack (full_build (length (q_branches q)) (q_snap q))) b p.
Proof.
  intros qs q b p Hb. rewrite xrun_all_view by exact Hb. symmetry. apply C13_full_establishes. exact Hb.
Qed.
Print Assumptions C13_same_as_fresh_full_build_any_requests.

(** The comparison of the branch lists is necessary: a delta build that goes ahead although a branch was appended to the
    list (prepareDeltaBuild only diffs the branches recorded in the existing shard) never indexes the new branch.
    (Variant model, not the code.) *)
Theorem C13_delta_without_branch_check_refuted : exists q0 q1 b p,
  b < length (q_branches q1) /\
  view (st_stack (x_st (xrun_step_unchecked (xrun_step xinit q0) q1))) b p = [] /\ head_view (q_snap q1) b p = [5%N].
Proof.
  (* main (name 1) has path 1; then dev (name 2), which has path 2, is indexed as well *)
  exists (mkReq [[(1, 7)]]%N Full [1%N] 0%N false), (mkReq [[(1, 7)]; [(2, 5)]]%N Delta [1%N; 2%N] 0%N false), 1, 2%N.
  split; [cbn; lia|]. vm_compute. split; reflexivity.
Qed.
Print Assumptions C13_delta_without_branch_check_refuted.

(** The re-adding of every branch's current version of a modified/deleted path is necessary: without it (only the
    changed branch's new file is added, the path is still tombstoned in the older shards) another branch loses its
    unchanged file.  (Variant model, not the code — the planned mutant.) *)
Theorem C13_without_readd_refuted : exists nb s0 s1 b p,
  b < nb /\
  view (st_stack (delta_build_no_readd nb (full_build nb s0) s1)) b p <> head_view s1 b p.
Proof.
  (* two branches both have path 1; branch 0 modifies it; branch 1 keeps blob 7 *)
  exists 2, [[(1, 7)]; [(1, 7)]]%N, [[(1, 8)]; [(1, 7)]]%N, 1, 1%N. split; [lia|]. vm_compute. discriminate.
Qed.
Print Assumptions C13_without_readd_refuted.

(** Before the repair (gitindex: changeFiles instead of object.Change.Files) a change with a submodule entry on one
    side was skipped: a file replaced by a submodule stayed searchable (stale document), a submodule replaced by a file
    was never indexed (missing document).  Witnesses on the pre-fix variant of the model: *)
Theorem C13_before_fix_refuted :
  (exists nb s0 s1 ign b p, b < nb /\
     view (st_stack (delta_build_ignoring ign nb (full_build nb s0) s1)) b p = [7%N] /\ head_view s1 b p = []) /\
  (exists nb s0 s1 ign b p, b < nb /\
     view (st_stack (delta_build_ignoring ign nb (full_build nb s0) s1)) b p = [] /\ head_view s1 b p = [7%N]).
Proof.
  split.
  - (* path 1: file (blob 7) -> gitlink *)
    exists 1, [[(1, 7); (2, 5)]]%N, [[(2, 5)]]%N, (fun _ p => N.eqb p 1), 0, 1%N.
    split; [lia|]. vm_compute. split; reflexivity.
  - (* path 1: gitlink -> file (blob 7) *)
    exists 1, [[(2, 5)]]%N, [[(1, 7); (2, 5)]]%N, (fun _ p => N.eqb p 1), 0, 1%N.
    split; [lia|]. vm_compute. split; reflexivity.
Qed.
Print Assumptions C13_before_fix_refuted.

(** Before the repair b31ad3a (index/builder.go: Finish removes a left-over sidecar without shard before installing a
    shard under its name) a delta build in a directory with such an orphan sidecar had its NEW shard read through it: the
    modified file's new version is hidden by the stale tombstone — the branch finds nothing at the path.  The current code
    is [delta_build] = [delta_build_adopting []] (the harness plants orphan sidecars in 15% of the runs). *)
Theorem C13_orphan_sidecar_before_fix_refuted : exists nb s0 s1 t b p,
  b < nb /\ view (st_stack (delta_build_adopting t nb (full_build nb s0) s1)) b p = [] /\ head_view s1 b p = [8%N].
Proof.
  exists 1, [[(1, 7)]]%N, [[(1, 8)]]%N, [1%N], 0, 1%N. split; [lia|]. vm_compute. split; reflexivity.
Qed.
Print Assumptions C13_orphan_sidecar_before_fix_refuted.
Lemma C13_delta_build_adopts_nothing : forall nb st cur, delta_build nb st cur = delta_build_adopting [] nb st cur.
Proof. reflexivity. Qed.

(** ---- non-vacuity: a concrete history (2 branches; modify on one branch while the other keeps the old blob; delete;
    pure addition of a blob that another branch already has; revert) — the computed stack and the per-branch views. *)
Example C13_nonvacuous :
  let s0 : snap := [[(1, 7); (2, 5)]; [(1, 7); (3, 6)]]%N in
  let s1 : snap := [[(1, 8); (2, 5)]; [(1, 7)]]%N in            (* main modifies 1; dev deletes 3 *)
  let s2 : snap := [[(1, 8); (2, 5); (3, 6)]; [(1, 7); (2, 5)]]%N in   (* pure additions *)
  let s3 : snap := [[(1, 7); (2, 5); (3, 6)]; [(1, 7); (2, 5)]]%N in   (* main reverts 1 *)
  let st := run_all 2 [(s0, Delta); (s1, Delta); (s2, Delta); (s3, Delta)] in
  map (fun l => (map (fun d => (d_path d, d_blob d, d_mask d)) (l_docs l), l_tombs l)) (st_stack st) =
    [ ([(2, 5, [0]%nat); (1, 7, [0; 1]%nat); (3, 6, [1]%nat)], [3; 1]);       (* first run fell back to a full build *)
      ([(1, 8, [0]%nat); (1, 7, [1]%nat)], [1]);
      ([(3, 6, [0]%nat); (2, 5, [1]%nat)], [1]);
      ([(1, 7, [0; 1]%nat)], []) ]%N /\
  view (st_stack st) 0 1%N = [7%N] /\ view (st_stack st) 1 1%N = [7%N] /\
  view (st_stack st) 1 3%N = [] /\ view (st_stack st) 0 3%N = [6%N].
Proof. vm_compute. repeat split; reflexivity. Qed.

(** ---- non-vacuity of the decision: seven delta requests; the first falls back (no shards), the second is a delta build,
    the third falls back (branch appended), the fourth is a delta build again, the fifth falls back (options hash), the
    sixth falls back (more shards than the threshold), the seventh falls back (dev gets an ignore file, path 0) — and the
    view of the last request's branches is the head. *)
Example C13_decision_nonvacuous :
  let s1 : snap := [[(1, 7)]]%N in
  let s2 : snap := [[(1, 8)]]%N in
  let s3 : snap := [[(1, 8)]; [(2, 5)]]%N in
  let s4 : snap := [[(1, 9)]; [(2, 5)]]%N in
  let s5 : snap := [[(1, 9)]; [(0, 4); (2, 5)]]%N in
  let qs := [mkReq s1 Delta [1%N] 0%N false; mkReq s2 Delta [1%N] 0%N false; mkReq s3 Delta [1%N; 2%N] 0%N false;
             mkReq s4 Delta [1%N; 2%N] 0%N false; mkReq s4 Delta [1%N; 2%N] 3%N false; mkReq s4 Delta [1%N; 2%N] 3%N true;
             mkReq s5 Delta [1%N; 2%N] 3%N false] in
  (fix go (x : xstate) (l : list request) : list (option reason) :=
     match l with [] => [] | q :: r => fallback_reason x q :: go (xrun_step x q) r end) xinit qs =
    [Some NoShards; None; Some BranchList; None; Some IndexOptions; Some OverThreshold; Some IgnoreFile] /\
  length (st_stack (x_st (xrun_all (firstn 4 qs)))) = 2 /\
  view (st_stack (x_st (xrun_all qs))) 0 1%N = [9%N] /\ view (st_stack (x_st (xrun_all qs))) 1 2%N = [5%N].
Proof. vm_compute. repeat split; reflexivity. Qed.
