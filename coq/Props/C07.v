(** C07 - query parsing never crashes; every parsed query can be converted to the wire format and is
    dispatched by the shard searcher's match-tree constructor.
    Model: Model/Parser.v (byte-level parse.go in the outcome monad, checked slices, explicit fuel),
    Generated/ParserTables.v (token numbers, prefix table, QToProto / newMatchTree case lists from the source).
    The external engines (RegexpQuery's regexp/syntax, grafana regexp.Compile, language lookup,
    Regexp.setCase(auto)) are universally quantified. *)
From ZV Require Import Lib.Base Model.Query Generated.ParserTables Model.Parser Proofs.ParserTotal Proofs.ParserKinds Proofs.ParserFuel Model.JsonApi Proofs.JsonApiTotal Proofs.C07Main.
From ZV Require Import Generated.MatchCost Model.MatchCostEval Proofs.MatchCostEval.
From Coq Require Import String.
Open Scope N_scope.

(** Parse yields a query or an (ordinary) error for EVERY byte string - never a panic (no slice or index
    operation of parse.go can be out of range) and never the model's out-of-fuel artefact. *)
Theorem C07_parse_never_panics :
  forall (rq : str -> rqres) (rx_auto rcompile : str -> bool) (lang : str -> option str) (s : str),
    (exists q, parse rq rx_auto rcompile lang s = Ok q) \/
    (exists e, parse rq rx_auto rcompile lang s = Err e /\ e <> E_FUEL).
Proof. exact parse_never_panics. Qed.
Print Assumptions C07_parse_never_panics.

(** termination: the recursion parseExpr / parseExprList / its loop needs at most 3*|s|+3 nested calls;
    with that fuel or any larger one the run is never cut short and never panics *)
Theorem C07_parse_terminates_within_fuel :
  forall (rq : str -> rqres) (rx_auto rcompile : str -> bool) (lang : str -> option str) (s : str) (fuel : nat),
    (3 * List.length s + 3 <= fuel)%nat ->
    match parse_with rq rx_auto rcompile lang fuel s with
    | Ok _ => True
    | Err e => e <> E_FUEL
    | Panic _ => False
    end.
Proof. exact parse_terminates_within_fuel. Qed.
Print Assumptions C07_parse_terminates_within_fuel.

(** ... and the answer does not depend on the fuel: every fuel >= 3*|s|+3 gives exactly Parse's result
    (the explicit fuel is a proof device, not a bound on what is parsed) *)
Theorem C07_parse_fuel_independent :
  forall (rq : str -> rqres) (rx_auto rcompile : str -> bool) (lang : str -> option str) (s : str) (fuel : nat),
    (3 * List.length s + 3 <= fuel)%nat ->
    parse_with rq rx_auto rcompile lang fuel s = parse rq rx_auto rcompile lang s.
Proof. exact parse_fuel_independent'. Qed.
Print Assumptions C07_parse_fuel_independent.

(** every query that parsing yields is converted by QToProto without reaching its
    `panic("unknown query node")` default - the case list is regenerated from query_proto.go *)
Theorem C07_parsed_convertible :
  forall (rq : str -> rqres) (rx_auto rcompile : str -> bool) (lang : str -> option str) (s : str) (q : Q),
    parse rq rx_auto rcompile lang s = Ok q -> to_proto q = Ok tt.
Proof. exact parsed_convertible. Qed.
Print Assumptions C07_parsed_convertible.

(** PARTIAL for search/list: only the kind dispatch of indexData.newMatchTree (the place of its
    log.Panicf) is modelled; every node of a parsed query hits a case of that type switch (case list
    regenerated from index/matchtree.go, clauses with a conditional `break` counted as not handling).
    The rest of Search/List and the JSON handlers are covered by the recover() oracle only. *)
Theorem C07_parsed_searchable_kinds_partial :
  forall (rq : str -> rqres) (rx_auto rcompile : str -> bool) (lang : str -> option str) (s : str) (q : Q),
    parse rq rx_auto rcompile lang s = Ok q -> mt_kinds q = Ok tt.
Proof. exact parsed_dispatchable. Qed.
Print Assumptions C07_parsed_searchable_kinds_partial.

(** Search beyond the kind dispatch: the cost-level loop of indexData.Search
      for cost := costMin; cost <= costMax; cost++ { switch evalMatchTree(..., cost, ..., mt) {
        case matchesRequiresHigherCost: if cost == costMax { log.Panicf("did not decide ...") } ... } }
    never reaches its log.Panicf, for EVERY match tree (any nesting of and / andLine / or / not / fileName / boost /
    noVisit nodes over any leaves) and every document: [levels] is the tree annotated with each node's state at
    the successive cost levels; [obs_ok] asks that composite nodes combine their children's states as
    and/or/notMatchTree.matches do (Model/MatchCostEval.v, tied by mc_mismatches to recorded runs of the real
    trees) and that a LEAF answers matchesRequiresHigherCost only where one of its `cost < X` guards holds - the
    guard constants of every matches method, the cost constants and the loop bounds are generated from the
    source (Generated/MatchCost.v).  Still not modelled: candidate iteration (nextDoc/prepare), match gathering
    and ranking - only exercised by the oracle under recover(). *)
Theorem C07_search_loop_always_decides :
  forall levels : list (N * obs),
    Forall (fun p => obs_ok (fst p) (snd p) = true) levels -> nopanic (cost_loop levels).
Proof. exact search_loop_always_decides. Qed.
Print Assumptions C07_search_loop_always_decides.

(** the generated tables meet what the hand-written combinators assume: exactly the node kinds whose matches
    method calls evalMatchTree are modelled as combinators (a new composite kind breaks this), no leaf defers
    outside a `cost < X` guard, no X exceeds costMax, and the loop panics only at its last level *)
Theorem C07_match_cost_tables_ok :
  kinds_ok = true /\ thresholds_ok = true /\ forall k, may_defer k loop_panic_at = false.
Proof. exact (conj generated_kinds_ok (conj generated_thresholds_ok no_defer_at_panic_level)). Qed.
Print Assumptions C07_match_cost_tables_ok.

(** PARTIAL for the JSON API: the control flow of jsonSearch / jsonList (Model/JsonApi.v: method check,
    decode error, missing Q, nil Opts / RepoIDs guards, Parse, CalculateDefaultSearchLimits' pre-flight and
    its division, search, status codes) never panics for any request - decodable or not - with the REAL
    parser model plugged in, PROVIDED the searcher does not panic (assumption; for the shard searcher only
    the kind dispatch is proved above).  encoding/json and net/http are trusted. *)
Theorem C07_json_api_never_panics_partial :
  forall (rq : str -> rqres) (rx_auto rcompile : str -> bool) (lang : str -> option str)
         (search : Q -> bool -> outcome N) (listq : Q -> outcome unit),
    (forall q b, nopanic (search q b)) -> (forall q, nopanic (listq q)) ->
    forall (is_post : bool) (sbody : option search_args) (lbody : option list_args),
      nopanic (json_search (parse rq rx_auto rcompile lang) search is_post sbody) /\
      nopanic (json_list (parse rq rx_auto rcompile lang) listq is_post lbody).
Proof. exact json_api_never_panics. Qed.
Print Assumptions C07_json_api_never_panics_partial.

(** setType ranges over Go maps in random order; at most one entry of [prefixes] can apply, so the
    iteration order cannot change the token (and the model's first-hit-in-key-order is faithful) *)
Theorem C07_prefix_map_order_irrelevant :
  forall (inp : str) (p q : list N * N),
    In p prefixes -> In q prefixes -> prefixb (fst p) inp = true -> prefixb (fst q) inp = true -> p = q.
Proof. exact prefixes_unambiguous. Qed.
Print Assumptions C07_prefix_map_order_irrelevant.

(** ---- non-vacuity: concrete runs (engines: every text is a literal / compiles / unknown language) *)
Definition ex_rq (t : str) : rqres := RQLit t.
Definition ex_parse (s : string) : outcome Q := parse ex_rq (fun _ => false) (fun _ => true) (fun _ => None) (bs s).

Example ex_meta : ex_parse "meta.k:v" = Ok (QMeta (bs "k") (bs "v")) /\ to_proto (QMeta (bs "k") (bs "v")) = Ok tt.
Proof. split; vm_compute; reflexivity. Qed.
Example ex_tree : ex_parse "a or (B -f:c)" =
  Ok (QOr [QSubstring (bs "a") false false false;
           QAnd [QSubstring (bs "B") true false false; QNot (QSubstring (bs "c") false true false)]]).
Proof. vm_compute. reflexivity. Qed.
Example ex_type_scope : ex_parse "type:repo a or b" =
  Ok (QType 2 (QOr [QSubstring (bs "a") false false false; QSubstring (bs "b") false false false])).
Proof. vm_compute. reflexivity. Qed.
Example ex_neg_case : ex_parse "-case:yes" = Err E_NEG_DIRECTIVE. Proof. vm_compute. reflexivity. Qed.
Example ex_neg_type : ex_parse "x -type:file" = Err E_NEG_DIRECTIVE. Proof. vm_compute. reflexivity. Qed.
Example ex_unbalanced : ex_parse "(a b" = Err E_CLOSE_PAREN /\ ex_parse "a)" = Err E_EXTRA /\
  ex_parse """a" = Err E_UNTERMINATED /\ ex_parse "a\" = Err E_LONE_BACKSLASH /\ ex_parse "a or" = Err E_OR_OPERAND.
Proof. repeat split; vm_compute; reflexivity. Qed.
(** the fuel bound is met with equality-sized inputs: deep nesting still parses *)
Example ex_deep : ex_parse "( ( ( ( ( ( a))))))" = Ok (QSubstring (bs "a") false false false) /\ is_ok (ex_parse "----------a") = true.
Proof. split; vm_compute; reflexivity. Qed.
(** with too little fuel the model does report E_FUEL (the fuel theorem is not vacuous) *)
Example ex_fuel_needed : parse_with ex_rq (fun _ => false) (fun _ => true) (fun _ => None) 5 (bs "( ( a))") = Err E_FUEL.
Proof. vm_compute. reflexivity. Qed.
(** the wire conversion does panic on the parse-time kinds, which is why the invariant matters *)
Example ex_to_proto_panics : to_proto (QNot (QCase (bs "yes"))) = Panic 10 /\ mt_kinds (QCaseScope (QConst true)) = Panic 11.
Proof. split; vm_compute; reflexivity. Qed.
(** two prefixes of the table do apply to real inputs *)
Example ex_prefix : In (bs "f:", tokFile) prefixes /\ prefixb (bs "f:") (bs "f:x") = true.
Proof. split; vm_compute; tauto. Qed.

(** the handlers' model does answer 200 / 400 / 405 / 500 (and a panicking searcher would surface) *)
Example ex_json : json_search (fun _ => Ok (QConst true)) (fun _ _ => Ok 0) true
                    (Some {| sa_q := [97]; sa_repoids := None; sa_has_opts := false; sa_maxdocs := 0; sa_shardmax := 0 |}) = Ok 200 /\
  json_search (fun _ => Err 4) (fun _ _ => Ok 0) true
                    (Some {| sa_q := [97]; sa_repoids := None; sa_has_opts := false; sa_maxdocs := 0; sa_shardmax := 0 |}) = Ok 400 /\
  json_search (fun _ => Ok (QConst true)) (fun _ _ => Ok 0) false None = Ok 405 /\
  json_list (fun _ => Ok (QConst true)) (fun _ => Err 1) true (Some {| la_q := [] |}) = Ok 500 /\
  json_list (fun _ => Ok (QConst true)) (fun _ => Panic 11) true (Some {| la_q := [] |}) = Panic 11.
Proof. repeat split; reflexivity. Qed.

(** the cost loop: a content regexp under a negation is undecided until costRegexp and decided there; a tree
    whose leaf still deferred at costMax would be rejected by obs_ok (and would make the loop panic) *)
Definition ex_not_re (c : N) (s : mstate) : N * obs :=
  (c, ONode MT_notMatchTree (not_state s) [ONode MT_andMatchTree s [ONode MT_regexpMatchTree s []; ONode MT_noVisitMatchTree SFound [ONode MT_bruteForceMatchTree SFound []]]]).
Example ex_cost_loop :
  let levels := [ex_not_re 0 SHigher; ex_not_re 1 SHigher; ex_not_re 2 SHigher; ex_not_re 3 SNone] in
  forallb (fun p => obs_ok (fst p) (snd p)) levels = true /\ cost_loop levels = Ok true /\
  obs_ok 3 (snd (ex_not_re 3 SHigher)) = false /\ cost_loop [ex_not_re 3 SHigher] = Panic 12 /\
  obs_ok 2 (ONode MT_substrMatchTree SHigher []) = false /\ obs_ok 1 (ONode MT_substrMatchTree SHigher []) = true.
Proof. repeat split; vm_compute; reflexivity. Qed.
