From ZV Require Import Lib.Base Model.Query Model.Parser.
Theorem C07_placeholder : True. Proof. exact I. Qed.
Print Assumptions C07_placeholder.
