(** C36 — The web UI renders index and request text as text.
    Model: Model/Web.v. (i) web/snippets.go:formatResults with every Go slice expression checked (outcome monad);
    (ii) html/template's escapers for plain strings, an HTML tokenizer, pages as trees with data slots and a flow
    check; (iii) Generated/WebPages.v, Generated/WebSinks.v are regenerated from /repo/web by the translator
    (harness/overlay/web/zz_verif_c36gen_test.go) at every run of the check.
    PARTIAL: the property's carrier is html/template. Its contextual analysis (which escaper goes where) is read off
    the escaped parse trees, not modelled; that its escapers implement [esc] is validated by the correspondence.
    (iv) Model/WebResp.v: the response classes — every route and response mode of web.Server (Generated/WebRoutes.v: the mux
    registrations and the response sinks of their handlers, go/ast + go/types; net/http's sniffSignatures from $GOROOT),
    the Content-Type that ends up on the wire (net/http sniffs when the handler sets none) and the user agent (an explicit
    assumption, [browser_markup]). *)
From Coq Require Import String.
From ZV Require Import Lib.Base Model.Web Proofs.Web Generated.WebPages Generated.WebSinks.
From ZV Require Import Model.WebResp Proofs.WebResp Generated.WebRoutes.
From ZV Require Import Model.WebJs Proofs.WebJs Model.WebUrl Proofs.WebUrl.
From ZV Require Import Model.WebFuncs Proofs.WebFuncs Generated.WebFuncs Model.WebFuncsAst Generated.WebFuncBodies.
Open Scope N_scope.

(** (i-a) For every line match whose fragments are sorted, non-overlapping and inside the line — whatever lies in the
    backing array beyond the line ([lm_tail]) — formatting succeeds, every Match is the matched range of the line and
    Pre ++ Match ++ … ++ Post is exactly the line: nothing is lost, duplicated or taken from outside the line. *)
Theorem C36_fragments_partition : forall m, wf_line m ->
  exists out, format_line m = Ok out /\
              map f_match out = map (fun p => zslice (lm_line m) (fst p) (fst p + snd p)) (lm_frags m) /\
              (lm_frags m <> [] -> flat out = lm_line m).
Proof. exact fragments_partition. Qed.
Print Assumptions C36_fragments_partition.

(** (i-b) The invariant is exact when the line owns its buffer (cap = len): anything else panics. *)
Theorem C36_format_ok_only_if_wf : forall line fs out,
  format_frags line [] 0 fs = Ok out -> frags_wf 0 (Z.of_nat (length line)) fs.
Proof. intros. eapply format_frags_ok_wf; eauto. Qed.
Print Assumptions C36_format_ok_only_if_wf.

(** (i-c) formatResults of the current tree never panics on results whose line matches satisfy the search-result
    invariants, for every file name / sub-repository path / checksum / branch list. *)
Theorem C36_format_total : forall fs, Forall wf_file fs ->
  exists out, format_results fs = Ok out /\ length out = length fs.
Proof. exact format_total. Qed.
Print Assumptions C36_format_total.

(** (i-d) the code before the repair (fix: web: do not slice the file name by the sub-repository path length):
    a well-formed result — accepted by ShardBuilder.Add — made the results page panic. *)
Theorem C36_format_total_before_fix_refuted :
  exists fs, Forall wf_file fs /\ format_results_old fs = Panic 1 /\ is_ok (format_results fs) = true.
Proof. exists old_witness. exact format_total_old_refuted. Qed.
Print Assumptions C36_format_total_before_fix_refuted.

(** (ii-a) Every escaper's output is inert in the tokenizer states where the flow check admits it: the tokenizer
    neither emits an event nor depends on the value for its next state. *)
Theorem C36_escaped_value_is_inert : forall k st st', slot_next k st = Some st' ->
  forall v, run st (esc k v) = (st', []).
Proof. exact slot_next_sound. Qed.
Print Assumptions C36_escaped_value_is_inert.

(** (ii-b) esc_no_markup: for every page tree that passes the flow check, every sequence of if/range outcomes and ALL
    data values: the tag/attribute skeleton of the rendered page does not depend on the data — no value adds, removes
    or alters a tag or an attribute name. *)
Theorem C36_esc_no_markup : forall p, page_ok p = true ->
  forall choices d d0, tags (fst (render p (choices, d))) = tags (fst (render p (choices, d0))).
Proof. exact esc_no_markup. Qed.
Print Assumptions C36_esc_no_markup.

(** (ii-c) the pages of /repo/web/templates.go (as escaped by html/template; regenerated at each run) pass the check,
    hence (ii-b) applies to the results, repository list, print, search and about pages. *)
Theorem C36_pages_no_markup_partial : forall name p, In (name, p) pages ->
  forall choices d d0, tags (fst (render p (choices, d))) = tags (fst (render p (choices, d0))).
Proof.
  assert (H : forallb (fun x => page_ok (snd x)) pages = true) by (vm_compute; reflexivity).
  intros name p Hin. rewrite forallb_forall in H. apply esc_no_markup. exact (H _ Hin).
Qed.
Print Assumptions C36_pages_no_markup_partial.

(** (ii-d) JS-string integrity (jsstr slots: `var x = "{{.}}"` in a script element, event handlers): a string literal
    whose content is the escaped value ends exactly at the template's closing quote — for every value and both quote
    characters — and contains no line terminator and no '<' (so neither "</script" nor "<!--"). [js_lit] is the
    ECMAScript 2019 string-literal scanner of Model/WebJs.v (U+2028/9, which html/template escapes as well for older
    engines, are ordinary characters there). *)
Theorem C36_jsstr_literal_integrity : forall q, q = 34 \/ q = 39 ->
  forall v rest, js_lit q (esc_jsstr v ++ q :: rest)%list = Some rest.
Proof. exact jsstr_literal_integrity. Qed.
Print Assumptions C36_jsstr_literal_integrity.

(** (ii-e) URL filter (href/src/action slots that start the URL: html/template's urlFilter / isSafeURL, Model/WebUrl.v):
    whatever the value, what the filter lets through is read by the user agent ([ua_scheme]: URL Standard — leading
    C0-control-or-space stripped, ASCII tab/newline removed everywhere, scheme = ALPHA *(ALPHA/DIGIT/+/-/.) ":") as a
    relative reference or as an http / https / mailto URL; everything else (javascript:, data:, "java<TAB>script:", …)
    becomes "#ZgotmplZ". The Unicode case folding of strings.EqualFold is modelled (U+017F long s ~ s: "httpſ:" passes the
    filter and is a relative reference for the user agent).
    PARTIAL: only the filter's decision is tied to html/template (case CUrl); the normaliser and the attribute escaper
    that run after it (they percent-/entity-encode, never decode) are not part of this theorem. *)
Theorem C36_url_filter_harmless_partial : forall s, url_harmless (url_filter s) = true.
Proof. exact url_filter_harmless. Qed.
Print Assumptions C36_url_filter_harmless_partial.

(** (iii) sinks_are_plain (generated with go/types): nothing of type template.HTML/JS/URL/CSS/HTMLAttr/… and no
    interface value flows into an html/template execution or out of a template function; every data slot inside an
    href/src/action attribute goes through html/template's URL escaping and is filtered when it starts the URL; the
    only text/template executions are the two URL builders whose results land in string fields. *)
Definition kind_plain (k : tykind) : bool :=
  match k with TString | TInt | TBool | TFloat | TTime => true | _ => false end.
Definition exec_ok (e : string * string * string) : bool :=
  let '(fn, recv, _) := e in
  String.eqb recv "*html/template.Template" ||
  (String.eqb recv "*text/template.Template" && (String.eqb fn "formatResults" || String.eqb fn "serveListReposErr")).
Theorem C36_sinks_are_plain_partial :
  forallb (fun x => kind_plain (snd x)) sinks = true /\
  forallb (fun x => kind_plain (snd x)) funcmap_results = true /\
  forallb (fun x => snd (fst x) && snd x) url_slots = true /\
  forallb exec_ok execs = true /\
  (5 <=? length (filter (fun e => String.eqb (snd (fst e)) "*html/template.Template") execs))%nat = true /\
  (20 <=? length sinks)%nat = true /\ (5 <=? length url_slots)%nat = true.
Proof. vm_compute. repeat split; reflexivity. Qed.
Print Assumptions C36_sinks_are_plain_partial.


(* ================================================================== (iv) response classes *)

(** (iv-a) response-class theorem. A response whose handler sets a text/plain Content-Type and nosniff is never taken
    for markup by the user agent of [browser_markup] (the BROWSER ASSUMPTION B1–B4 of Model/WebResp.v) — for every body
    and every table of sniffer signatures. *)
Theorem C36_plain_text_response_never_markup : forall sigs ct body,
  mt_of ct = str "text/plain" -> served_as_markup sigs (Some ct) true body = false.
Proof. exact explicit_plain_nosniff_never_markup. Qed.
Print Assumptions C36_plain_text_response_never_markup.

(** (iv-b) … and it is false as soon as the Content-Type is left to net/http (even with nosniff, which only binds the
    user agent): the server labels a body that starts with an html signature text/html. One hostile file per
    html signature of net/http's table (lower-cased, terminated by '>'). *)
Definition hostile_body (pat : bytes) : bytes := (str "  " ++ map lower pat ++ str "><script>alert(1)</script>")%list.
Definition html_pats : list bytes :=
  flat_map (fun s => match s with SHtml pat => [pat] | _ => [] end) sniff_sigs.
Theorem C36_sniffed_response_refuted :
  (exists body, served_as_markup sniff_sigs None true body = true /\
                served_as_markup sniff_sigs (Some ct_text) true body = false) /\
  (forall pat, In pat html_pats -> served_as_markup sniff_sigs None true (hostile_body pat) = true).
Proof.
  split.
  - exists (str "<html><script>alert(1)</script>"). vm_compute. split; reflexivity.
  - assert (H : forallb (fun pat => served_as_markup sniff_sigs None true (hostile_body pat)) html_pats = true)
      by (vm_compute; reflexivity).
    rewrite forallb_forall in H. exact H.
Qed.
Print Assumptions C36_sniffed_response_refuted.

(** (iv-c) net/http's sniffer (the generated table) yields a markup type only for a body whose first non-whitespace
    byte is '<': JSON documents, error texts … are never taken for markup even when nothing is declared. *)
Theorem C36_sniffer_needs_lt : forall nosniff body,
  Forall (fun b => b < 256) body -> first_nonws body <> Some 60 ->
  markup_ct (detect sniff_sigs body) = false /\ served_as_markup sniff_sigs None nosniff body = false.
Proof.
  assert (H : forallb sig_markup_needs_lt sniff_sigs = true) by (vm_compute; reflexivity).
  intros nosniff body Hb Hf. split.
  - apply sniffer_needs_lt; assumption.
  - apply undeclared_non_lt_never_markup; assumption.
Qed.
Print Assumptions C36_sniffer_needs_lt.

(** (iv-d) every response mode of web.Server renders index / request text as text: the plain-text and JSON modes are
    never taken for markup whatever the body; the page modes render a page of Generated/WebPages.v whose tag/attribute
    skeleton does not depend on the data (ii-c) — for the slot-free robots page the very bytes do not depend on it.
    PARTIAL: that the handlers implement exactly these modes is (iv-e) (static, over the source) and the correspondence
    (dynamic, over real responses), not a proof about the Go code. *)
Theorem C36_every_response_mode_partial : forall m,
  match mode_class m with
  | RPlainText | RJson => forall body, served_as_markup sniff_sigs (mode_ct m) (mode_nosniff m) body = false
  | RHtmlTemplate =>
      exists name p, mode_page m = Some name /\ In (name, p) pages /\
        forall choices d d0, tags (fst (render p (choices, d))) = tags (fst (render p (choices, d0)))
  | RStatic =>
      exists name p, mode_page m = Some name /\ In (name, p) pages /\
        forall choices d d0, fst (render p (choices, d)) = fst (render p (choices, d0))
  | REmpty => mode_ct m = None
  | RUnknown => False
  end.
Proof.
  assert (Hp : forall name p, In (name, p) pages ->
               forall choices d d0, tags (fst (render p (choices, d))) = tags (fst (render p (choices, d0))))
    by exact C36_pages_no_markup_partial.
  assert (Hin : forall name, existsb (fun x => String.eqb (fst x) name) pages = true -> exists p, In (name, p) pages).
  { intros name H. apply existsb_exists in H. destruct H as [[n p] [Hin Heq]]. simpl in Heq.
    apply String.eqb_eq in Heq. subst n. exists p. exact Hin. }
  intros m.
  destruct m; cbn [mode_class];
    try (intros body; apply data_modes_never_markup; cbn [mode_class]; auto; fail);
    try reflexivity.
  - destruct (Hin "results"%string) as [p Hi]; [vm_compute; reflexivity|]. exists "results"%string, p. split; [reflexivity | split; [exact Hi | apply (Hp _ _ Hi)]].
  - destruct (Hin "repolist"%string) as [p Hi]; [vm_compute; reflexivity|]. exists "repolist"%string, p. split; [reflexivity | split; [exact Hi | apply (Hp _ _ Hi)]].
  - destruct (Hin "search"%string) as [p Hi]; [vm_compute; reflexivity|]. exists "search"%string, p. split; [reflexivity | split; [exact Hi | apply (Hp _ _ Hi)]].
  - destruct (Hin "about"%string) as [p Hi]; [vm_compute; reflexivity|]. exists "about"%string, p. split; [reflexivity | split; [exact Hi | apply (Hp _ _ Hi)]].
  - exists "robots"%string, page_robots. split; [reflexivity | split].
    + vm_compute. auto 10.
    + intros choices d d0. apply static_render. vm_compute. reflexivity.
  - destruct (Hin "print"%string) as [p Hi]; [vm_compute; reflexivity|]. exists "print"%string, p. split; [reflexivity | split; [exact Hi | apply (Hp _ _ Hi)]].
Qed.
Print Assumptions C36_every_response_mode_partial.

(** (iv-e) routes_classified (generated with go/ast + go/types at every run): every mux registration of web.NewMux
    (incl. the JSON API's sub-mux mounted under /api/) has declared response modes; every response sink reachable from
    its handler — w.Write / http.Error / json.NewEncoder(w) / anything else that gets the ResponseWriter — is one of these
    modes with the same body source (html/template output of a known page, data, literal) and the same headers set on every
    path to it; a data body written with the Content-Type left to sniffing has NO class. Conversely every declared mode
    is found in the source. A new or changed route / response without a class breaks this obligation. *)
Definition page_names : list string := map fst pages.
Definition static_names : list string := map fst (filter (fun x => page_static (snd x)) pages).
Definition html_sig_count : nat := length html_pats.
Theorem C36_routes_classified_partial :
  forallb route_declared routes = true /\
  forallb (sink_classified page_names static_names) resp_sinks = true /\
  forallb (mode_in_source page_names static_names resp_sinks)
          (filter (fun d => existsb (fun r => String.eqb (rt_pat r) (fst d)) routes) declared) = true /\
  forallb sig_markup_needs_lt sniff_sigs = true /\
  (5 <=? length routes)%nat = true /\ (10 <=? length resp_sinks)%nat = true /\ (10 <=? html_sig_count)%nat = true.
Proof. vm_compute. repeat split; reflexivity. Qed.
Print Assumptions C36_routes_classified_partial.

(* ---- non-vacuity *)
Example C36_nonvacuous_fragments :
  let m := {| lm_line := str "a <b> c"; lm_tail := str "NEXT LINE"; lm_num := 1; lm_before := []; lm_after := [];
              lm_frags := [(2, 3); (6, 1)]%Z |} in
  wf_line m /\
  format_line m = Ok [ {| f_pre := str "a "; f_match := str "<b>"; f_post := [] |};
                       {| f_pre := str " "; f_match := str "c"; f_post := [] |} ].
Proof. split; [cbn; lia | vm_compute; reflexivity]. Qed.

(** (v) TEMPLATE FUNCTIONS (web/server.go: Funcmap; Model/WebFuncs.v with every string index/slice as a checked operation).
    A panic of a template function is turned into an execution error by html/template: /search answers 418 with the template
    error instead of the page. (v-a) funcs_total: every registered function, called with values of its parameter kinds — ANY
    bytes in the strings (invalid UTF-8 included), ANY 64-bit integers, a length limit being non-negative — returns a value of
    its result kind: no panic for any argument. *)
Theorem C36_funcs_total : forall name args, args_ok name args = true ->
  exists tys r v, func_sig name = Some (tys, r) /\ apply_func name args = Some (Ok v) /\ has_type v r = true.
Proof. exact funcs_total. Qed.
Print Assumptions C36_funcs_total.

(** (v-b) the limit IS a precondition — LimitPre / LimitPost panic for every string exactly when the limit is negative … *)
Theorem C36_limit_panics_iff_negative : forall limit s,
  (is_panic (f_limit_pre limit s) = true <-> (limit < 0)%Z) /\ (is_panic (f_limit_post limit s) = true <-> (limit < 0)%Z).
Proof. intros limit s. split; [apply limit_pre_panics_iff | apply limit_post_panics_iff]. Qed.
Print Assumptions C36_limit_panics_iff_negative.

(** … which is why the call sites are part of the statement: Generated/WebFuncs.v lists every function registered in a
    template.FuncMap literal of package web with its signature (go/ast + go/types) and every call of a non-builtin function in
    the parse trees of web/templates.go with its literal arguments. By computation: every registered function has a model with
    exactly that signature, every call site passes [site_ok] (a model exists, literals have the parameter's kind, a limit is a
    literal >= 0). A function added to the FuncMap, a changed signature, a call with a computed or negative limit breaks this. *)
Theorem C36_funcs_modelled_partial :
  forallb decl_ok funcmap = true /\ forallb site_ok func_calls = true /\ funcmap <> [] /\ func_calls <> [].
Proof. vm_compute. repeat split; try reflexivity; discriminate. Qed.
Print Assumptions C36_funcs_modelled_partial.

(** (v-c) hence: at every call site of the templates, for ALL values of the data arguments (of the parameter kinds), the call
    returns a value. PARTIAL: that the data arguments have the parameter kinds (text/template checks this at execution time
    and answers a mismatch with an error) is not derived from the Go types of the template data; the model's functions are tied
    to the Go closures by the correspondence (harness part F) only. *)
Theorem C36_template_calls_total_partial : forall s, In s func_calls ->
  forall vs tys r, func_sig (fs_func s) = Some (tys, r) -> inst (fs_args s) vs = true -> well_typed vs tys = true ->
  exists v, apply_func (fs_func s) vs = Some (Ok v) /\ has_type v r = true.
Proof.
  intros s Hin. apply sites_total.
  destruct C36_funcs_modelled_partial as [_ [Hsites _]].
  rewrite forallb_forall in Hsites. exact (Hsites s Hin).
Qed.
Print Assumptions C36_template_calls_total_partial.

(** (v-d) functional spec of the two excerpt functions: a string shorter than the limit is returned as it is; otherwise the
    result is exactly [limit] bytes of the input — its suffix (LimitPre) / prefix (LimitPost) — plus the ASCII framing
    "...(N bytes skipped)..." where N is the number of dropped bytes. Nothing else of the input and nothing not from the input. *)
Theorem C36_limit_pre_spec : forall limit pre, (0 <= limit)%Z ->
  exists r, f_limit_pre limit pre = Ok r /\
    ((blen pre < limit /\ r = pre)%Z \/
     ((limit <= blen pre)%Z /\ exists skip suf, pre = skip ++ suf /\ blen suf = limit /\ r = skipped (blen skip) ++ suf))%list.
Proof. exact limit_pre_spec. Qed.
Print Assumptions C36_limit_pre_spec.

Theorem C36_limit_post_spec : forall limit post, (0 <= limit)%Z ->
  exists r, f_limit_post limit post = Ok r /\
    ((blen post < limit /\ r = post)%Z \/
     ((limit <= blen post)%Z /\ exists p rest, post = p ++ rest /\ blen p = limit /\ r = p ++ skipped (blen rest)))%list.
Proof. exact limit_post_spec. Qed.
Print Assumptions C36_limit_post_spec.

(** (v-e) the hand model against the SOURCE: Generated/WebFuncBodies.v holds the bodies of the registered functions translated
    from web/server.go into the Go subset of Model/WebFuncsAst.v (interpreter with checked index/slice, wrapping integers,
    short-circuit && / ||). By computation: the table lists exactly the registered functions, and every body the translator could
    translate agrees with [apply_func] — same value, or both panic — on a bounded-exhaustive argument set: all strings of length
    <= 5 over {A, \n, 0x80, 0xC3} with limits -1..4, the two-run strings a^n b^m around every literal limit of the call sites,
    boundary integers. A body outside the subset passes (the direct-call correspondence is then its only tie; the check's notes
    name those functions). PARTIAL: bounded comparison, not a proof of equivalence. *)
Theorem C36_func_bodies_agree_partial :
  forallb (body_ok func_calls) func_bodies = true /\ map gf_name func_bodies = map fd_name funcmap.
Proof. vm_compute. split; reflexivity. Qed.
Print Assumptions C36_func_bodies_agree_partial.

Example C36_nonvacuous_func_bodies :
  (* LimitPre as it is, and "UTF-8 aware" with an unbounded forward scan: the comparison finds the difference *)
  let cur := [SIf (EBin BLt (ELen (EVar "pre")) (EVar "limit")) [SReturn (EVar "pre")] [];
              SReturn (ESprintf (str "...(%d bytes skipped)...%s")
                [EBin BSub (ELen (EVar "pre")) (EVar "limit");
                 ESlice (EVar "pre") (Some (EBin BSub (ELen (EVar "pre")) (EVar "limit"))) None])] in
  let scan := [SIf (EBin BLt (ELen (EVar "pre")) (EVar "limit")) [SReturn (EVar "pre")] [];
               SSet "cut" (EBin BSub (ELen (EVar "pre")) (EVar "limit"));
               SFor (ENot (ECall "unicode/utf8.RuneStart" [EIndex (EVar "pre") (EVar "cut")])) [SSet "cut" (EBin BAdd (EVar "cut") (EInt 1))];
               SReturn (ESprintf (str "...(%d bytes skipped)...%s") [EVar "cut"; ESlice (EVar "pre") (Some (EVar "cut")) None])] in
  let g b := {| gf_name := "LimitPre"; gf_params := ["limit"; "pre"]; gf_body := Some b; gf_why := "" |} in
  body_ok func_calls (g cur) = true /\
  body_ok func_calls (g scan) = false /\
  run_body 4000 ["limit"; "pre"] scan [VInt 100; VStr (repeat 128 100)] = Panic 2 /\
  run_body 4000 ["limit"; "pre"] scan [VInt 100; VStr (repeat 65 100)] = Ok (VStr (str "...(0 bytes skipped)..." ++ repeat 65 100)%list) /\
  (8000 <=? N.of_nat (length (samples func_calls "LimitPre")))%N = true /\
  body_ok func_calls {| gf_name := "Shorten"; gf_params := ["s"]; gf_body := None; gf_why := "" |} = false.
Proof. vm_compute. repeat split; reflexivity. Qed.

Example C36_nonvacuous_funcs :
  (* 100 UTF-8 continuation bytes in front of the match: the excerpt starts inside the run, no lead byte anywhere *)
  apply_func "LimitPre" [VInt 100; VStr (repeat 128 100 ++ str "needle")%list]
    = Some (Ok (VStr (str "...(6 bytes skipped)..." ++ repeat 128 94 ++ str "needle")%list)) /\
  apply_func "LimitPre" [VInt 100; VStr (repeat 128 99)] = Some (Ok (VStr (repeat 128 99))) /\
  apply_func "LimitPost" [VInt 2; VStr [195; 169; 195; 169]] = Some (Ok (VStr ([195; 169] ++ str "...(2 bytes skipped)...")%list)) /\
  apply_func "LimitPre" [VInt (-1); VStr []] = Some (Panic 1) /\
  apply_func "LimitPre" [VStr []; VInt 1] = None /\
  apply_func "Nope" [] = None /\
  apply_func "HumanUnit" [VInt 10737418241] = Some (Ok (VStr (str "10G"))) /\
  apply_func "HumanUnit" [VInt (-5)] = Some (Ok (VStr (str "-5"))) /\
  apply_func "Inc" [VInt 9223372036854775807] = Some (Ok (VInt (-9223372036854775808))) /\
  apply_func "AddLineNumbers" [VStr (str "a" ++ [10] ++ str "b" ++ [10])%list; VInt 10; VBool true]
    = Some (Ok (VLines [(7, str "a"); (8, str "b")]%Z)) /\
  apply_func "TrimTrailingNewline" [VStr [128; 10; 10]] = Some (Ok (VStr [128; 10])) /\
  args_ok "LimitPre" [VInt 100; VStr (repeat 128 100)] = true /\
  (* what the static check rejects: a negative / computed limit, an unknown function, a changed signature *)
  site_ok {| fs_tmpl := "results"; fs_func := "LimitPre"; fs_args := [AConst (-1); AData] |} = false /\
  site_ok {| fs_tmpl := "results"; fs_func := "LimitPre"; fs_args := [AData; AData] |} = false /\
  site_ok {| fs_tmpl := "results"; fs_func := "Shorten"; fs_args := [AData] |} = false /\
  decl_ok {| fd_name := "LimitPre"; fd_params := [TyInt; TyStr]; fd_results := [TyStr; TyUnknown] |} = false /\
  decl_ok {| fd_name := "Shorten"; fd_params := [TyStr]; fd_results := [TyStr] |} = false.
Proof. vm_compute. repeat split; reflexivity. Qed.

Example C36_nonvacuous_panic_and_leak :
  (* offsets beyond the line but inside the buffer leak the following bytes; beyond the buffer they panic *)
  format_frags (str "ab") (str "XY") 0 [(1, 2)]%Z = Panic 1 /\
  format_frags (str "ab") (str "XY") 0 [(1, 2); (3, 0)]%Z = Panic 1 /\
  is_ok (format_frags (str "ab") (str "XY") 0 [(1, 2); (4, 0)]%Z) = false.
Proof. vm_compute. repeat split; reflexivity. Qed.

Example C36_nonvacuous_results_page :
  let hostile := repeat (str "</title></script><script>alert(1)</script>""'> onmouseover=alert(1) x=<!--") 400 in
  let benign := repeat (str "x") 400 in
  let choices := repeat 1%nat 400 in
  tags (fst (render page_results (choices, hostile))) = tags (fst (render page_results (choices, benign))) /\
  (100 <=? length (tags (fst (render page_results (choices, hostile)))))%nat = true /\
  (* without escaping the same data does change the skeleton *)
  tags (str "<title></title><script></title>") <> tags (str "<title>x</title>").
Proof. vm_compute. repeat split; try reflexivity. discriminate. Qed.

Example C36_nonvacuous_flow_rejects :
  (* a slot in a script element with the html escaper, an unescaped slot, a slot in an unquoted attribute with the html escaper *)
  page_ok (PSeq (PLit (str "<script>var x = ")) (PSeq (PSlot KHtml) (PLit (str ";</script>")))) = false /\
  page_ok (PSeq (PLit (str "<p>")) (PSlot KUnknown)) = false /\
  page_ok (PSeq (PLit (str "<input value=")) (PSeq (PSlot KHtml) (PLit (str ">")))) = false /\
  page_ok (PSeq (PLit (str "<input value=")) (PSeq (PSlot KNospace) (PLit (str ">")))) = true /\
  kind_plain TSafeContent = false /\ kind_plain TInterface = false.
Proof. vm_compute. repeat split; reflexivity. Qed.

Example C36_nonvacuous_response_classes :
  (* the sniffer: case-insensitive signature, leading white space, terminator needed; xml; text; binary *)
  detect sniff_sigs (str "  <ScRiPt>alert(1)</ScRiPt>") = ct_html /\
  detect sniff_sigs (str "<scriptx>") = ct_text /\
  detect sniff_sigs (str "<?xml version=""1.0""?>") = str "text/xml; charset=utf-8" /\
  detect sniff_sigs (str "package main") = ct_text /\
  detect sniff_sigs [0; 1; 2] = ct_octet /\
  (* the raw view as it is: explicit text/plain + nosniff; as it must not be: left to sniffing *)
  served_as_markup sniff_sigs (mode_ct MPrintRaw) (mode_nosniff MPrintRaw) (str "<html><script>alert(1)</script>") = false /\
  served_as_markup sniff_sigs None true (str "<html><script>alert(1)</script>") = true /\
  (* a data sink without content type has no class; with text/plain but without nosniff neither *)
  sink_class page_names static_names
    {| rs_route := "/print"; rs_func := "servePrintErr"; rs_kind := KWrite (BData "f.Content");
       rs_hdrs := [("Set", "X-Content-Type-Options", "nosniff")]%string |} = RUnknown /\
  sink_class page_names static_names
    {| rs_route := "/print"; rs_func := "servePrintErr"; rs_kind := KWrite (BData "f.Content");
       rs_hdrs := [("Set", "Content-Type", "text/plain; charset=utf-8")]%string |} = RUnknown /\
  sink_class page_names static_names
    {| rs_route := "/print"; rs_func := "servePrintErr"; rs_kind := KWrite (BData "f.Content");
       rs_hdrs := [("Set", "Content-Type", "text/plain; charset=utf-8"); ("Set", "X-Content-Type-Options", "nosniff")]%string |} = RPlainText /\
  (* an undeclared route, a template that is not a generated page *)
  route_declared {| rt_pat := "/debug"; rt_handler := "serveDebug"; rt_guard := "" |} = false /\
  sink_class page_names static_names
    {| rs_route := "/"; rs_func := "f"; rs_kind := KWrite (BTemplate ["?s.other"]); rs_hdrs := [] |} = RUnknown /\
  static_names = ["robots"]%string.
Proof. vm_compute. repeat split; reflexivity. Qed.

Example C36_nonvacuous_jsstr :
  (* the escaped payload stays inside the literal; unescaped it ends the literal early / breaks it *)
  js_lit 34 (esc_jsstr (str """;alert(1);//</script><script>") ++ 34 :: str ";")%list = Some (str ";") /\
  js_lit 34 (str """;alert(1);//" ++ 34 :: str ";")%list = Some (str ";alert(1);//"";") /\
  js_lit 39 (str "</script>" ++ 39 :: str ";")%list = None.
Proof. vm_compute. repeat split; reflexivity. Qed.

Example C36_nonvacuous_url_filter :
  url_harmless (str "javascript:alert(1)") = false /\
  url_harmless (str "java" ++ [9] ++ str "script:alert(1)")%list = false /\
  url_harmless (str " JaVaScRiPt:alert(1)") = false /\
  url_filter (str "java" ++ [9] ++ str "script:alert(1)")%list = str "#ZgotmplZ" /\
  url_filter (str "https://example.com/a:b") = str "https://example.com/a:b" /\
  url_filter (str "/a:b") = str "/a:b" /\
  is_safe_url (str "http" ++ [197; 191] ++ str "://x")%list = true /\
  ua_scheme (str "http" ++ [197; 191] ++ str "://x")%list = None.
Proof. vm_compute. repeat split; reflexivity. Qed.
