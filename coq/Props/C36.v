(** C36 — The web UI renders index and request text as text.
    Model: Model/Web.v. (i) web/snippets.go:formatResults with every Go slice expression checked (outcome monad);
    (ii) html/template's escapers for plain strings, an HTML tokenizer, pages as trees with data slots and a flow
    check; (iii) Generated/WebPages.v, Generated/WebSinks.v are regenerated from /repo/web by the translator
    (harness/overlay/web/zz_verif_c36gen_test.go) at every run of the check.
    PARTIAL: the property's carrier is html/template. Its contextual analysis (which escaper goes where) is read off
    the escaped parse trees, not modelled; that its escapers implement [esc] is validated by the correspondence. *)
From Coq Require Import String.
From ZV Require Import Lib.Base Model.Web Proofs.Web Generated.WebPages Generated.WebSinks.
Open Scope N_scope.

(** (i-a) For every line match whose fragments are sorted, non-overlapping and inside the line — whatever lies in the
    backing array beyond the line ([lm_tail]) — formatting succeeds, every Match is the matched range of the line and
    Pre ++ Match ++ … ++ Post is exactly the line: nothing is lost, duplicated or taken from outside the line. *)
Theorem C36_fragments_partition : forall m, wf_line m ->
  exists out, format_line m = Ok out /\
              map f_match out = map (fun p => zslice (lm_line m) (fst p) (fst p + snd p)) (lm_frags m) /\
              (lm_frags m <> [] -> flat out = lm_line m).
Proof. exact fragments_partition. Qed.
Print Assumptions C36_fragments_partition.

(** (i-b) The invariant is exact when the line owns its buffer (cap = len): anything else panics. *)
Theorem C36_format_ok_only_if_wf : forall line fs out,
  format_frags line [] 0 fs = Ok out -> frags_wf 0 (Z.of_nat (length line)) fs.
Proof. intros. eapply format_frags_ok_wf; eauto. Qed.
Print Assumptions C36_format_ok_only_if_wf.

(** (i-c) formatResults of the current tree never panics on results whose line matches satisfy the search-result
    invariants, for every file name / sub-repository path / checksum / branch list. *)
Theorem C36_format_total : forall fs, Forall wf_file fs ->
  exists out, format_results fs = Ok out /\ length out = length fs.
Proof. exact format_total. Qed.
Print Assumptions C36_format_total.

(** (i-d) the code before the repair (fix: web: do not slice the file name by the sub-repository path length):
    a well-formed result — accepted by ShardBuilder.Add — made the results page panic. *)
Theorem C36_format_total_before_fix_refuted :
  exists fs, Forall wf_file fs /\ format_results_old fs = Panic 1 /\ is_ok (format_results fs) = true.
Proof. exists old_witness. exact format_total_old_refuted. Qed.
Print Assumptions C36_format_total_before_fix_refuted.

(** (ii-a) Every escaper's output is inert in the tokenizer states where the flow check admits it: the tokenizer
    neither emits an event nor depends on the value for its next state. *)
Theorem C36_escaped_value_is_inert : forall k st st', slot_next k st = Some st' ->
  forall v, run st (esc k v) = (st', []).
Proof. exact slot_next_sound. Qed.
Print Assumptions C36_escaped_value_is_inert.

(** (ii-b) esc_no_markup: for every page tree that passes the flow check, every sequence of if/range outcomes and ALL
    data values: the tag/attribute skeleton of the rendered page does not depend on the data — no value adds, removes
    or alters a tag or an attribute name. *)
Theorem C36_esc_no_markup : forall p, page_ok p = true ->
  forall choices d d0, tags (fst (render p (choices, d))) = tags (fst (render p (choices, d0))).
Proof. exact esc_no_markup. Qed.
Print Assumptions C36_esc_no_markup.

(** (ii-c) the pages of /repo/web/templates.go (as escaped by html/template; regenerated at each run) pass the check,
    hence (ii-b) applies to the results, repository list, print, search and about pages. *)
Theorem C36_pages_no_markup_partial : forall name p, In (name, p) pages ->
  forall choices d d0, tags (fst (render p (choices, d))) = tags (fst (render p (choices, d0))).
Proof.
  assert (H : forallb (fun x => page_ok (snd x)) pages = true) by (vm_compute; reflexivity).
  intros name p Hin. rewrite forallb_forall in H. apply esc_no_markup. exact (H _ Hin).
Qed.
Print Assumptions C36_pages_no_markup_partial.

(** (iii) sinks_are_plain (generated with go/types): nothing of type template.HTML/JS/URL/CSS/HTMLAttr/… and no
    interface value flows into an html/template execution or out of a template function; every data slot inside an
    href/src/action attribute goes through html/template's URL escaping and is filtered when it starts the URL; the
    only text/template executions are the two URL builders whose results land in string fields. *)
Definition kind_plain (k : tykind) : bool :=
  match k with TString | TInt | TBool | TFloat | TTime => true | _ => false end.
Definition exec_ok (e : string * string * string) : bool :=
  let '(fn, recv, _) := e in
  String.eqb recv "*html/template.Template" ||
  (String.eqb recv "*text/template.Template" && (String.eqb fn "formatResults" || String.eqb fn "serveListReposErr")).
Theorem C36_sinks_are_plain_partial :
  forallb (fun x => kind_plain (snd x)) sinks = true /\
  forallb (fun x => kind_plain (snd x)) funcmap_results = true /\
  forallb (fun x => snd (fst x) && snd x) url_slots = true /\
  forallb exec_ok execs = true /\
  (5 <=? length (filter (fun e => String.eqb (snd (fst e)) "*html/template.Template") execs))%nat = true /\
  (20 <=? length sinks)%nat = true /\ (5 <=? length url_slots)%nat = true.
Proof. vm_compute. repeat split; reflexivity. Qed.
Print Assumptions C36_sinks_are_plain_partial.

(* ---- non-vacuity *)
Example C36_nonvacuous_fragments :
  let m := {| lm_line := str "a <b> c"; lm_tail := str "NEXT LINE"; lm_num := 1; lm_before := []; lm_after := [];
              lm_frags := [(2, 3); (6, 1)]%Z |} in
  wf_line m /\
  format_line m = Ok [ {| f_pre := str "a "; f_match := str "<b>"; f_post := [] |};
                       {| f_pre := str " "; f_match := str "c"; f_post := [] |} ].
Proof. split; [cbn; lia | vm_compute; reflexivity]. Qed.

Example C36_nonvacuous_panic_and_leak :
  (* offsets beyond the line but inside the buffer leak the following bytes; beyond the buffer they panic *)
  format_frags (str "ab") (str "XY") 0 [(1, 2)]%Z = Panic 1 /\
  format_frags (str "ab") (str "XY") 0 [(1, 2); (3, 0)]%Z = Panic 1 /\
  is_ok (format_frags (str "ab") (str "XY") 0 [(1, 2); (4, 0)]%Z) = false.
Proof. vm_compute. repeat split; reflexivity. Qed.

Example C36_nonvacuous_results_page :
  let hostile := repeat (str "</title></script><script>alert(1)</script>""'> onmouseover=alert(1) x=<!--") 400 in
  let benign := repeat (str "x") 400 in
  let choices := repeat 1%nat 400 in
  tags (fst (render page_results (choices, hostile))) = tags (fst (render page_results (choices, benign))) /\
  (100 <=? length (tags (fst (render page_results (choices, hostile)))))%nat = true /\
  (* without escaping the same data does change the skeleton *)
  tags (str "<title></title><script></title>") <> tags (str "<title>x</title>").
Proof. vm_compute. repeat split; try reflexivity. discriminate. Qed.

Example C36_nonvacuous_flow_rejects :
  (* a slot in a script element with the html escaper, an unescaped slot, a slot in an unquoted attribute with the html escaper *)
  page_ok (PSeq (PLit (str "<script>var x = ")) (PSeq (PSlot KHtml) (PLit (str ";</script>")))) = false /\
  page_ok (PSeq (PLit (str "<p>")) (PSlot KUnknown)) = false /\
  page_ok (PSeq (PLit (str "<input value=")) (PSeq (PSlot KHtml) (PLit (str ">")))) = false /\
  page_ok (PSeq (PLit (str "<input value=")) (PSeq (PSlot KNospace) (PLit (str ">")))) = true /\
  kind_plain TSafeContent = false /\ kind_plain TInterface = false.
Proof. vm_compute. repeat split; reflexivity. Qed.
