(** C09 — A written shard reads back every document and all metadata.
    Models: Model/Format.v (ShardBuilder.Add/Write, delta coding, sections, TOC, reader), Model/Btree.v (ngram b-tree).
    Proofs: Proofs/FormatCodec.v, Proofs/Btree.v.  Constants come from Generated/FormatConsts.v (regenerated from /repo).

    FULL STATEMENT AIMED AT (see NOTES.md for what is proved / what is tied by the byte-exact correspondence only):
      forall docs repos opaque, |file| < 2^32 ->
        load_shard (mem_file (write_shard next (add_repos repos) opaque)) = Ok d /\
        forall i, doc_view d i = normalised document i   /\   forall ngram g, Get g = posting list of g.
    Proved here, for ALL inputs: the codec layer (every varint / delta list / document-section list decodes to what
    was encoded, including unsorted lists through the uint32/uint16 wrap-around), the b-tree layer (for every
    number of ascending ngrams, find returns the bucket holding the key), the layout layer (every section that Write
    emits is read back from the record stored for it; every item of a compound section through its relative index)
    and the document-level read-back C09_document_readback_partial (name, content, symbol sections, newline index of
    every document of every builder state).  Still NOT a theorem: that readTOCSections/readIndexData hand exactly the
    written records to the accessors (parsing of the tagged TOC) and the builder-side normalisation (add_doc) being
    composed into one end-to-end statement — both are covered by the byte-exact correspondence and the
    model-internal read-back check of the runner on every generated shard. *)
From ZV Require Import Lib.Base Lib.Varint Generated.FormatConsts Model.Format Model.Btree Proofs.FormatCodec Proofs.Btree Proofs.FormatLayout Proofs.BtreeGet Model.DocCheck Proofs.DocCheck.
Open Scope N_scope.

(** binary.Uvarint (binary.PutUvarint x ++ rest) = (x, bytes consumed) for every uint64. *)
Theorem C09_uvarint_roundtrip : forall x rest, x < W64 ->
  uvarint (put_uvarint x ++ rest) = (x, Z.of_nat (length (put_uvarint x))).
Proof. exact uvarint_put. Qed.
Print Assumptions C09_uvarint_roundtrip.

(** fromSizedDeltas (toSizedDeltas l) = l for EVERY uint32 list — sorted or not (exact wrap law: the uint32
    subtraction on write and addition on read cancel); the size bound is the makeslice limit. *)
Theorem C09_sized_deltas_roundtrip : forall l, Forall (fun p => p < W32) l -> nlen l * 4 <= MAXALLOC ->
  from_sized_deltas (to_sized_deltas l) = Ok l.
Proof. exact sized_deltas_roundtrip. Qed.
Print Assumptions C09_sized_deltas_roundtrip.

Theorem C09_sized_deltas16_roundtrip : forall l, Forall (fun p => p < W16) l -> nlen l * 2 <= MAXALLOC ->
  from_sized_deltas16 (to_sized_deltas16 l) = Ok l.
Proof. exact sized_deltas16_roundtrip. Qed.
Print Assumptions C09_sized_deltas16_roundtrip.

(** unmarshalDocSections (marshalDocSections secs) = secs for every list of uint32 pairs (no order required). *)
Theorem C09_docsections_roundtrip : forall l, Forall sec_ok l -> nlen l * 8 <= MAXALLOC ->
  unmarshal_doc_sections (marshal_doc_sections l) = Ok l.
Proof. exact docsections_roundtrip. Qed.
Print Assumptions C09_docsections_roundtrip.

(** the fixed-width tables (fileEndSymbol, symbolMetaData, compound-section indexes; branch masks, ngramText) *)
Theorem C09_u32_table_roundtrip : forall l, Forall (fun n => n < W32) l -> words 4 (concat (map be32 l)) = l.
Proof. exact words4_be32. Qed.
Print Assumptions C09_u32_table_roundtrip.
Theorem C09_u64_table_roundtrip : forall l, Forall (fun n => n < W64) l -> words 8 (concat (map be64 l)) = l.
Proof. exact words8_be64. Qed.
Print Assumptions C09_u64_table_roundtrip.

(** The ngram b-tree, for EVERY number of ngrams (empty, single, exact multiples of the half bucket, last bucket):
    after inserting the ascending ngram list gs (newBtreeIndex), find(gs[p]) = (j, j*half) where bucket j starts at
    position j*half <= p, and either j is the last bucket or p < (j+1)*half — i.e. the key lies in the bucket that
    getBucket reads (all buckets but the last have exactly half = bucketSize/2 keys).  Includes leaf splits,
    inner-node splits (v) and root splits. *)
Theorem C09_btree_find_spec : forall half v gs p, (1 <= half)%nat -> (2 <= v)%nat -> asc gs -> (p < length gs)%nat ->
  let t := bt_build (2 * half) v gs in
  let '(j, po) := find t (nth p gs 0) in
  po = (j * half)%nat /\ (j * half <= p)%nat /\ (S j = nleaves t \/ (p < S j * half)%nat).
Proof. exact btree_find_spec. Qed.
Print Assumptions C09_btree_find_spec.

(** btreeIndex.Get over the written ngramText section, for EVERY ascending ngram list (any length) laid out anywhere
    in a file < 4 GiB: Get gs[p] = getPostingList p (the posting-list record of that ngram), and Get g = the empty
    section for every g that is not in the list — find + getBucket (last-bucket size) + IndexFile.Read + sort.Search. *)
Theorem C09_btree_get_spec : forall half v gs pre post pidx,
  (1 <= half)%nat -> N.of_nat half * 8 < W32 -> (2 <= v)%nat -> asc gs -> Forall (fun n => n < W64) gs ->
  nlen (pre ++ concat (map be64 gs) ++ post) < W32 ->
  let text := concat (map be64 gs) in
  let f := mem_file (pre ++ text ++ post) in
  let b := new_btree_index (2 * half) v text (nlen pre, nlen text) pidx in
  (forall p, (p < length gs)%nat -> btree_get f b (nth p gs 0) = get_posting_list f b p)
  /\ (forall g, ~ In g gs -> btree_get f b g = (0, 0)).
Proof.
  intros half v gs pre post pidx H1 H2 H3 H4 H5 H6. cbv zeta. split.
  - intros p Hp. apply btree_get_present; auto.
  - intros g Hg. apply btree_get_absent; auto.
Qed.
Print Assumptions C09_btree_get_spec.

(** ... and the buckets together hold every ngram exactly once *)
Theorem C09_btree_sizes_spec : forall half v gs, (1 <= half)%nat -> (2 <= v)%nat -> asc gs ->
  nsizes (bt_build (2 * half) v gs) = length gs.
Proof. exact btree_sizes_spec. Qed.
Print Assumptions C09_btree_sizes_spec.

(** Layout: a simple section (fileEndSymbol, branchMasks, ngramText, runeOffsets, checksums, JSON blobs, ...) is read
    back byte for byte from the (off, sz) record that Write stores for it — for every section list, every file < 4 GiB. *)
Theorem C09_simple_section_readback : forall secs k t d, nth_error secs k = Some (t, SimpleB d) ->
  nlen (write_file secs) < W32 ->
  exists off, nth_error (snd (layout 0 secs)) k = Some (t, RSimple off (nlen d))
              /\ file_read (mem_file (write_file secs)) off (nlen d) = Ok d.
Proof. exact simple_section_readback. Qed.
Print Assumptions C09_simple_section_readback.

(** Layout: a compound section (fileContents, fileNames, fileSections, newlines, postings, symbol maps): its index
    table reads back as the absolute item offsets, and EVERY item is read back through relativeIndex (offset index +
    final data size), whatever the item sizes (empty items, many items). *)
Theorem C09_compound_section_readback : forall secs k t items, nth_error secs k = Some (t, CompoundB items) ->
  nlen (write_file secs) < W32 ->
  exists doff, let dsz := nlen (concat items) in
    nth_error (snd (layout 0 secs)) k = Some (t, RCompound doff dsz (doff + dsz) (4 * nlen items))
    /\ read_section_words 4 (mem_file (write_file secs)) (doff + dsz) (4 * nlen items) = Ok (item_offsets doff items)
    /\ forall i it, nth_error items i = Some it ->
         read_item (mem_file (write_file secs)) doff (relative_index (item_offsets doff items) dsz) (N.of_nat i) = Ok it.
Proof. exact compound_section_readback. Qed.
Print Assumptions C09_compound_section_readback.

(** Document level (partial: see the header): for EVERY builder state, opaque blobs and format version, document i's
    name, content, symbol sections and newline index are read back exactly from the written file through the
    accessors' path (relative index -> IndexFile.Read -> delta decoders). *)
Theorem C09_document_readback_partial : forall next b o i name content secs,
  let file := write_shard next b o in
  let f := mem_file file in
  nlen file < W32 ->
  nth_error (b_contents b) i = Some content -> nth_error (b_names b) i = Some name ->
  nth_error (b_docSections b) i = Some secs -> Forall sec_ok secs -> nlen secs < W32 -> nlen content < W32 ->
  exists coff noff soff loff,
    let ri items off := relative_index (item_offsets off items) (nlen (concat items)) in
    read_item f coff (ri (b_contents b) coff) (N.of_nat i) = Ok content
    /\ read_item f noff (ri (b_names b) noff) (N.of_nat i) = Ok name
    /\ (do blob <- read_item f soff (ri (map marshal_doc_sections (b_docSections b)) soff) (N.of_nat i);
        unmarshal_doc_sections blob) = Ok secs
    /\ (do blob <- read_item f loff (ri (map (fun c => to_sized_deltas (newlines_indices c)) (b_contents b)) loff) (N.of_nat i);
        from_sized_deltas blob) = Ok (newlines_indices content).
Proof. exact document_readback. Qed.
Print Assumptions C09_document_readback_partial.

(** DocChecker_spec: DocChecker.Check is stateful in the Go code (one checker per Builder, its trigram map is reused);
    in the model the map is explicit state, and for EVERY state left behind by earlier documents the verdict of a
    document is the stateless verdict [doc_check] — a function of that document and the options only. *)
Theorem C09_DocChecker_spec : forall st content max allow,
  fst (check_st st content max allow) = doc_check content max allow.
Proof. exact check_st_state_independent. Qed.
Print Assumptions C09_DocChecker_spec.

(** C09_skip_present: every document of EVERY sequence added through one Builder (size limit, LargeFiles allow-list,
    reused DocChecker, any initial checker state) gets exactly the verdict it would get alone; an accepted document
    is stored with its own content (a skipped one with the NOT-INDEXED marker, see doc_content). *)
Theorem C09_skip_present : forall docs st sizeMax max,
  check_seq st sizeMax max docs = map (fun d => builder_skip sizeMax max (fst d) (snd d)) docs.
Proof. exact check_seq_pointwise. Qed.
Print Assumptions C09_skip_present.

Theorem C09_accepted_content : forall name content syms meta brs sub, has_nul content = false ->
  doc_content (mkDocIn name content SKIP_NONE true syms meta brs sub) = content.
Proof. exact accepted_content. Qed.
Print Assumptions C09_accepted_content.

(** the constants compiled into /repo satisfy the hypotheses of the b-tree theorems (regenerated every run) *)
Example C09_consts_ok : btreeBucketSize = (2 * (btreeBucketSize / 2))%nat /\ (1 <= btreeBucketSize / 2)%nat /\ N.of_nat (btreeBucketSize / 2) * 8 < W32 /\ (2 <= btreeV)%nat
                        /\ ngramEncoding = 8 /\ runeOffsetFrequency = 100.
Proof. vm_compute. repeat split; try reflexivity; repeat constructor. Qed.

(** Non-vacuity *)
Example C09_nonvacuous_deltas :   (* unsorted, wraps around 2^32 *)
  to_sized_deltas [5; 3; 4294967295; 0] = [4; 5; 254;255;255;255;15; 252;255;255;255;15; 1]
  /\ from_sized_deltas (to_sized_deltas [5; 3; 4294967295; 0]) = Ok [5; 3; 4294967295; 0].
Proof. vm_compute. split; reflexivity. Qed.

Example C09_nonvacuous_docsecs :
  unmarshal_doc_sections (marshal_doc_sections [(3, 7); (7, 7); (300, 70000)]) = Ok [(3, 7); (7, 7); (300, 70000)].
Proof. vm_compute. reflexivity. Qed.

Example C09_nonvacuous_document :   (* a two-document builder state obtained with the model of ShardBuilder.Add *)
  let d1 := mkDocIn [97;46;103;111] [102;111;111;10;98;97;114;10] 0 true [(0,3)] [([102],[],[])] [] 0 in
  let d2 := mkDocIn [98] [0;1] 0 true [] [] [] 0 in      (* NUL byte: stored as NOT-INDEXED *)
  let b := add_repos [([], [d1; d2])] 0 b_empty in
  b_contents b = [[102;111;111;10;98;97;114;10]; notIndexedMarker ++ nth 3 skip_explanations []]
  /\ b_docSections b = [[(0,3)]; []]
  /\ nlen (write_shard false b (mkOpaque [] [] [] None [123;125] [123;125])) = 1358.
Proof. vm_compute. repeat split; reflexivity. Qed.

Example C09_nonvacuous_docchecker :   (* TrigramMax 3: "abcdefgh" has 6 distinct trigrams -> rejected; "abababababab" has 2 -> kept,
                                         also right after the rejected one (the reused map does not matter) *)
  let many := [97;98;99;100;101;102;103;104] in let rep := [97;98;97;98;97;98;97;98;97;98;97;98] in
  check_seq [] 100 3 [(many, false); (rep, false); ([97], false); (many, true)] = [SKIP_TOO_MANY; SKIP_NONE; SKIP_TOO_SMALL; SKIP_NONE]
  /\ snd (check_st [] many 3 false) <> [].
Proof. vm_compute. split; [reflexivity|discriminate]. Qed.

Fixpoint upto (n : nat) (k : N) : list N := match n with O => [] | S m => k :: upto m (k + 3) end.
Example C09_nonvacuous_btree :   (* bucketSize 4, v 2, 23 keys: leaf, inner and root splits; key 17 (= 5 + 3*4... position 4) *)
  let gs := upto 23 5 in
  height (bt_build 4 2 gs) = 3%nat /\ nleaves (bt_build 4 2 gs) = 11%nat /\
  find (bt_build 4 2 gs) (nth 4 gs 0) = (2%nat, 4%nat) /\ find (bt_build 4 2 gs) (nth 22 gs 0) = (10%nat, 20%nat).
Proof. vm_compute. repeat split; reflexivity. Qed.
Example C09_nonvacuous_asc : asc (upto 23 5).
Proof.
  assert (G : forall n k i, (i < n)%nat -> nth i (upto n k) 0 = k + 3 * N.of_nat i).
  { induction n as [|n IH]; intros k i Hi; [lia|]. destruct i; simpl; [lia|]. rewrite IH by lia. lia. }
  assert (L : forall n k, length (upto n k) = n) by (induction n; intros; simpl; auto).
  intros i j Hij. rewrite L in Hij. rewrite !G by lia. lia.
Qed.
