(** C09 — a written shard reads back every document and all metadata (first version: pipeline bring-up). *)
From ZV Require Import Lib.Base Lib.Varint Model.Format Model.Btree.
