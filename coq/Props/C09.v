(** C09 — A written shard reads back every document and all metadata.
    Models: Model/Format.v (ShardBuilder.Add/Write, delta coding, sections, TOC, reader), Model/Btree.v (ngram b-tree).
    Proofs: Proofs/FormatCodec.v, Proofs/Btree.v.  Constants come from Generated/FormatConsts.v (regenerated from /repo).

    FULL STATEMENT AIMED AT (see NOTES.md for what is proved / what is tied by the byte-exact correspondence only):
      forall docs repos opaque, |file| < 2^32 ->
        load_shard (mem_file (write_shard next (add_repos repos) opaque)) = Ok d /\
        forall i, doc_view d i = normalised document i   /\   forall ngram g, Get g = posting list of g.
    Proved here, for ALL inputs: the codec layer (every varint / delta list / document-section list decodes to what
    was encoded, including unsorted lists through the uint32/uint16 wrap-around) and the b-tree layer (for every
    number of ascending ngrams, find returns the bucket holding the key).  The layout/TOC/reader composition
    (C09_read_write) is NOT yet a theorem: it is covered by the byte-exact correspondence and the model-internal
    read-back check of the runner on every generated shard. *)
From ZV Require Import Lib.Base Lib.Varint Generated.FormatConsts Model.Format Model.Btree Proofs.FormatCodec Proofs.Btree.
Open Scope N_scope.

(** binary.Uvarint (binary.PutUvarint x ++ rest) = (x, bytes consumed) for every uint64. *)
Theorem C09_uvarint_roundtrip : forall x rest, x < W64 ->
  uvarint (put_uvarint x ++ rest) = (x, Z.of_nat (length (put_uvarint x))).
Proof. exact uvarint_put. Qed.
Print Assumptions C09_uvarint_roundtrip.

(** fromSizedDeltas (toSizedDeltas l) = l for EVERY uint32 list — sorted or not (exact wrap law: the uint32
    subtraction on write and addition on read cancel); the size bound is the makeslice limit. *)
Theorem C09_sized_deltas_roundtrip : forall l, Forall (fun p => p < W32) l -> nlen l * 4 <= MAXALLOC ->
  from_sized_deltas (to_sized_deltas l) = Ok l.
Proof. exact sized_deltas_roundtrip. Qed.
Print Assumptions C09_sized_deltas_roundtrip.

Theorem C09_sized_deltas16_roundtrip : forall l, Forall (fun p => p < W16) l -> nlen l * 2 <= MAXALLOC ->
  from_sized_deltas16 (to_sized_deltas16 l) = Ok l.
Proof. exact sized_deltas16_roundtrip. Qed.
Print Assumptions C09_sized_deltas16_roundtrip.

(** unmarshalDocSections (marshalDocSections secs) = secs for every list of uint32 pairs (no order required). *)
Theorem C09_docsections_roundtrip : forall l, Forall sec_ok l -> nlen l * 8 <= MAXALLOC ->
  unmarshal_doc_sections (marshal_doc_sections l) = Ok l.
Proof. exact docsections_roundtrip. Qed.
Print Assumptions C09_docsections_roundtrip.

(** the fixed-width tables (fileEndSymbol, symbolMetaData, compound-section indexes; branch masks, ngramText) *)
Theorem C09_u32_table_roundtrip : forall l, Forall (fun n => n < W32) l -> words 4 (concat (map be32 l)) = l.
Proof. exact words4_be32. Qed.
Print Assumptions C09_u32_table_roundtrip.
Theorem C09_u64_table_roundtrip : forall l, Forall (fun n => n < W64) l -> words 8 (concat (map be64 l)) = l.
Proof. exact words8_be64. Qed.
Print Assumptions C09_u64_table_roundtrip.

(** The ngram b-tree, for EVERY number of ngrams (empty, single, exact multiples of the half bucket, last bucket):
    after inserting the ascending ngram list gs (newBtreeIndex), find(gs[p]) = (j, j*half) where bucket j starts at
    position j*half <= p, and either j is the last bucket or p < (j+1)*half — i.e. the key lies in the bucket that
    getBucket reads (all buckets but the last have exactly half = bucketSize/2 keys).  Includes leaf splits,
    inner-node splits (v) and root splits. *)
Theorem C09_btree_find_spec : forall half v gs p, (1 <= half)%nat -> (2 <= v)%nat -> asc gs -> (p < length gs)%nat ->
  let t := bt_build (2 * half) v gs in
  let '(j, po) := find t (nth p gs 0) in
  po = (j * half)%nat /\ (j * half <= p)%nat /\ (S j = nleaves t \/ (p < S j * half)%nat).
Proof. exact btree_find_spec. Qed.
Print Assumptions C09_btree_find_spec.

(** ... and the buckets together hold every ngram exactly once *)
Theorem C09_btree_sizes_spec : forall half v gs, (1 <= half)%nat -> (2 <= v)%nat -> asc gs ->
  nsizes (bt_build (2 * half) v gs) = length gs.
Proof. exact btree_sizes_spec. Qed.
Print Assumptions C09_btree_sizes_spec.

(** the constants compiled into /repo satisfy the hypotheses of the b-tree theorems (regenerated every run) *)
Example C09_consts_ok : btreeBucketSize = (2 * (btreeBucketSize / 2))%nat /\ (1 <= btreeBucketSize / 2)%nat /\ (2 <= btreeV)%nat
                        /\ ngramEncoding = 8 /\ runeOffsetFrequency = 100.
Proof. vm_compute. repeat split; try reflexivity; repeat constructor. Qed.

(** Non-vacuity *)
Example C09_nonvacuous_deltas :   (* unsorted, wraps around 2^32 *)
  to_sized_deltas [5; 3; 4294967295; 0] = [4; 5; 254;255;255;255;15; 252;255;255;255;15; 1]
  /\ from_sized_deltas (to_sized_deltas [5; 3; 4294967295; 0]) = Ok [5; 3; 4294967295; 0].
Proof. vm_compute. split; reflexivity. Qed.

Example C09_nonvacuous_docsecs :
  unmarshal_doc_sections (marshal_doc_sections [(3, 7); (7, 7); (300, 70000)]) = Ok [(3, 7); (7, 7); (300, 70000)].
Proof. vm_compute. reflexivity. Qed.

Fixpoint upto (n : nat) (k : N) : list N := match n with O => [] | S m => k :: upto m (k + 3) end.
Example C09_nonvacuous_btree :   (* bucketSize 4, v 2, 23 keys: leaf, inner and root splits; key 17 (= 5 + 3*4... position 4) *)
  let gs := upto 23 5 in
  height (bt_build 4 2 gs) = 3%nat /\ nleaves (bt_build 4 2 gs) = 11%nat /\
  find (bt_build 4 2 gs) (nth 4 gs 0) = (2%nat, 4%nat) /\ find (bt_build 4 2 gs) (nth 22 gs 0) = (10%nat, 20%nat).
Proof. vm_compute. repeat split; reflexivity. Qed.
Example C09_nonvacuous_asc : asc (upto 23 5).
Proof.
  assert (G : forall n k i, (i < n)%nat -> nth i (upto n k) 0 = k + 3 * N.of_nat i).
  { induction n as [|n IH]; intros k i Hi; [lia|]. destruct i; simpl; [lia|]. rewrite IH by lia. lia. }
  assert (L : forall n k, length (upto n k) = n) by (induction n; intros; simpl; auto).
  intros i j Hij. rewrite L in Hij. rewrite !G by lia. lia.
Qed.
