(** C09 — A written shard reads back every document and all metadata.
    Models: Model/Format.v (ShardBuilder.Add/Write, delta coding, sections, TOC, reader), Model/Btree.v (ngram b-tree).
    Proofs: Proofs/FormatCodec.v, Proofs/Btree.v, Proofs/FormatLayout.v, Proofs/FormatToc.v, Proofs/FormatLoad.v.
    Constants come from Generated/FormatConsts.v (regenerated from /repo).

    END-TO-END STATEMENT (C09_read_write below): for every builder state b satisfying the invariant wf_b (list lengths
    agree, stored numbers fit their uint32/uint64/uint16 fields), all opaque blobs and both format versions, with
    |file| < 2^32:
        load_shard (write_shard next b o) = Ok d   and   d shows exactly b
    (every document's name, content, newline index, symbol sections through the per-document accessors; branch masks,
    sub-repositories, repositories, checksums, languages, categories, rune tables, symbol tables; the ngram sections and
    posting lists in the form C09_btree_get_spec consumes).  The parsing of the tagged TOC is the theorem
    C09_toc_parse.  Also proved for ALL inputs: the codec layer, the b-tree layer, the layout layer.
    Composition with ShardBuilder.Add: C09_add_wf shows that every state reached by add_repos from the empty builder
    satisfies wf_b (see there for the hypotheses on the inputs), which closes the chain documents -> Add -> Write ->
    NewSearcher -> accessors. *)
From ZV Require Import Lib.Base Lib.Varint Generated.FormatConsts Model.Format Model.Btree Proofs.FormatCodec Proofs.Btree Proofs.FormatLayout Proofs.FormatToc Proofs.FormatLoad Proofs.FormatAdd Model.FormatMeta Proofs.FormatMeta Proofs.BtreeGet Model.DocCheck Proofs.DocCheck.
Open Scope N_scope.

(** binary.Uvarint (binary.PutUvarint x ++ rest) = (x, bytes consumed) for every uint64. *)
Theorem C09_uvarint_roundtrip : forall x rest, x < W64 ->
  uvarint (put_uvarint x ++ rest) = (x, Z.of_nat (length (put_uvarint x))).
Proof. exact uvarint_put. Qed.
Print Assumptions C09_uvarint_roundtrip.

(** fromSizedDeltas (toSizedDeltas l) = l for EVERY uint32 list — sorted or not (exact wrap law: the uint32
    subtraction on write and addition on read cancel); the size bound is the makeslice limit. *)
Theorem C09_sized_deltas_roundtrip : forall l, Forall (fun p => p < W32) l -> nlen l * 4 <= MAXALLOC ->
  from_sized_deltas (to_sized_deltas l) = Ok l.
Proof. exact sized_deltas_roundtrip. Qed.
Print Assumptions C09_sized_deltas_roundtrip.

Theorem C09_sized_deltas16_roundtrip : forall l, Forall (fun p => p < W16) l -> nlen l * 2 <= MAXALLOC ->
  from_sized_deltas16 (to_sized_deltas16 l) = Ok l.
Proof. exact sized_deltas16_roundtrip. Qed.
Print Assumptions C09_sized_deltas16_roundtrip.

(** unmarshalDocSections (marshalDocSections secs) = secs for every list of uint32 pairs (no order required). *)
Theorem C09_docsections_roundtrip : forall l, Forall sec_ok l -> nlen l * 8 <= MAXALLOC ->
  unmarshal_doc_sections (marshal_doc_sections l) = Ok l.
Proof. exact docsections_roundtrip. Qed.
Print Assumptions C09_docsections_roundtrip.

(** the fixed-width tables (fileEndSymbol, symbolMetaData, compound-section indexes; branch masks, ngramText) *)
Theorem C09_u32_table_roundtrip : forall l, Forall (fun n => n < W32) l -> words 4 (concat (map be32 l)) = l.
Proof. exact words4_be32. Qed.
Print Assumptions C09_u32_table_roundtrip.
Theorem C09_u64_table_roundtrip : forall l, Forall (fun n => n < W64) l -> words 8 (concat (map be64 l)) = l.
Proof. exact words8_be64. Qed.
Print Assumptions C09_u64_table_roundtrip.

(** The ngram b-tree, for EVERY number of ngrams (empty, single, exact multiples of the half bucket, last bucket):
    after inserting the ascending ngram list gs (newBtreeIndex), find(gs[p]) = (j, j*half) where bucket j starts at
    position j*half <= p, and either j is the last bucket or p < (j+1)*half — i.e. the key lies in the bucket that
    getBucket reads (all buckets but the last have exactly half = bucketSize/2 keys).  Includes leaf splits,
    inner-node splits (v) and root splits. *)
Theorem C09_btree_find_spec : forall half v gs p, (1 <= half)%nat -> (2 <= v)%nat -> asc gs -> (p < length gs)%nat ->
  let t := bt_build (2 * half) v gs in
  let '(j, po) := find t (nth p gs 0) in
  po = (j * half)%nat /\ (j * half <= p)%nat /\ (S j = nleaves t \/ (p < S j * half)%nat).
Proof. exact btree_find_spec. Qed.
Print Assumptions C09_btree_find_spec.

(** btreeIndex.Get over the written ngramText section, for EVERY ascending ngram list (any length) laid out anywhere
    in a file < 4 GiB: Get gs[p] = getPostingList p (the posting-list record of that ngram), and Get g = the empty
    section for every g that is not in the list — find + getBucket (last-bucket size) + IndexFile.Read + sort.Search. *)
Theorem C09_btree_get_spec : forall half v gs pre post pidx,
  (1 <= half)%nat -> N.of_nat half * 8 < W32 -> (2 <= v)%nat -> asc gs -> Forall (fun n => n < W64) gs ->
  nlen (pre ++ concat (map be64 gs) ++ post) < W32 ->
  let text := concat (map be64 gs) in
  let f := mem_file (pre ++ text ++ post) in
  let b := new_btree_index (2 * half) v text (nlen pre, nlen text) pidx in
  (forall p, (p < length gs)%nat -> btree_get f b (nth p gs 0) = get_posting_list f b p)
  /\ (forall g, ~ In g gs -> btree_get f b g = (0, 0)).
Proof.
  intros half v gs pre post pidx H1 H2 H3 H4 H5 H6. cbv zeta. split.
  - intros p Hp. apply btree_get_present; auto.
  - intros g Hg. apply btree_get_absent; auto.
Qed.
Print Assumptions C09_btree_get_spec.

(** ... and the buckets together hold every ngram exactly once *)
Theorem C09_btree_sizes_spec : forall half v gs, (1 <= half)%nat -> (2 <= v)%nat -> asc gs ->
  nsizes (bt_build (2 * half) v gs) = length gs.
Proof. exact btree_sizes_spec. Qed.
Print Assumptions C09_btree_sizes_spec.

(** Layout: a simple section (fileEndSymbol, branchMasks, ngramText, runeOffsets, checksums, JSON blobs, ...) is read
    back byte for byte from the (off, sz) record that Write stores for it — for every section list, every file < 4 GiB. *)
Theorem C09_simple_section_readback : forall secs k t d, nth_error secs k = Some (t, SimpleB d) ->
  nlen (write_file secs) < W32 ->
  exists off, nth_error (snd (layout 0 secs)) k = Some (t, RSimple off (nlen d))
              /\ file_read (mem_file (write_file secs)) off (nlen d) = Ok d.
Proof. exact simple_section_readback. Qed.
Print Assumptions C09_simple_section_readback.

(** Layout: a compound section (fileContents, fileNames, fileSections, newlines, postings, symbol maps): its index
    table reads back as the absolute item offsets, and EVERY item is read back through relativeIndex (offset index +
    final data size), whatever the item sizes (empty items, many items). *)
Theorem C09_compound_section_readback : forall secs k t items, nth_error secs k = Some (t, CompoundB items) ->
  nlen (write_file secs) < W32 ->
  exists doff, let dsz := nlen (concat items) in
    nth_error (snd (layout 0 secs)) k = Some (t, RCompound doff dsz (doff + dsz) (4 * nlen items))
    /\ read_section_words 4 (mem_file (write_file secs)) (doff + dsz) (4 * nlen items) = Ok (item_offsets doff items)
    /\ forall i it, nth_error items i = Some it ->
         read_item (mem_file (write_file secs)) doff (relative_index (item_offsets doff items) dsz) (N.of_nat i) = Ok it.
Proof. exact compound_section_readback. Qed.
Print Assumptions C09_compound_section_readback.

(** readHeader + readTOCSections applied to the bytes Write produced return, for every entry of sectionsTaggedList,
    exactly the record laid out for that tag (zero record for sections never written; kind-1 compound sections with
    their offset table loaded) — for every section list whose kinds agree with the generated tag list. *)
Theorem C09_toc_parse : forall secs, nlen (write_file secs) < W32 -> secs_kinds_ok secs ->
  read_toc (mem_file (write_file secs)) [] = Ok (parsed_toc secs).
Proof. exact read_toc_sections. Qed.
Print Assumptions C09_toc_parse.

(** ... and the sections ShardBuilder.Write emits satisfy that hypothesis, in both format versions *)
Theorem C09_shard_sections_ok : forall next b o,
  secs_kinds_ok (shard_sections next b o) /\ uniq_tags (map fst (shard_sections next b o)) = true.
Proof. intros. split; [apply shard_sections_kinds|apply shard_sections_uniq]. Qed.
Print Assumptions C09_shard_sections_ok.

(** End to end over the written file: NewSearcher on write_shard's bytes succeeds and the loaded shard shows exactly the
    builder state (shard_view_ok: per-document accessors fileName / readContents / readNewlines / readDocSections,
    metadata tables, symbol tables, ngram sections) — every well-formed builder state, all opaque blobs, both versions. *)
Theorem C09_read_write_state : forall next b o,
  nlen (write_shard next b o) < W32 -> wf_b next b -> Forall (Forall sec_ok) (b_docSections b) ->
  exists d, load_shard (mem_file (write_shard next b o)) next = Ok d /\ shard_view_ok next b o (write_shard next b o) d.
Proof. exact read_write_sections. Qed.
Print Assumptions C09_read_write_state.

(** ShardBuilder.Add keeps the invariant: every builder state reached from the empty builder by adding repositories
    (<= 64 branches each, repository index < 2^16) and documents (sub-repository index and symbol offsets in uint32
    range; documents whose Add fails are dropped) satisfies binv, and binv with |file| < 2^32 gives wf_b. *)
Theorem C09_add_wf : forall next repos o, nlen repos <= W16 -> Forall repo_ok repos ->
  binv (add_repos repos 0 b_empty)
  /\ (nlen (write_shard next (add_repos repos 0 b_empty) o) < W32 -> wf_b next (add_repos repos 0 b_empty)).
Proof.
  intros next repos o Hn Hok.
  assert (Hb : binv (add_repos repos 0 b_empty)) by (apply add_repos_inv; [lia|exact Hok|exact binv_empty]).
  split; [exact Hb|]. intros Hlt. exact (binv_wf next _ o Hb Hlt).
Qed.
Print Assumptions C09_add_wf.

(** C09_read_write — documents -> Add -> Write -> NewSearcher -> accessors, for ALL repository/document lists:
    the shard written for them loads, and what a search reads from it (names, contents — the NOT-INDEXED marker for
    skipped documents, see doc_content / C09_skip_present —, newline indexes, symbol sections, branch masks,
    sub-repositories, repositories, checksums, languages, categories, rune and symbol tables, ngram sections) is exactly
    the state the builder held. *)
Theorem C09_read_write : forall next repos o,
  nlen repos <= W16 -> Forall repo_ok repos -> nlen (write_shard next (add_repos repos 0 b_empty) o) < W32 ->
  exists d, load_shard (mem_file (write_shard next (add_repos repos 0 b_empty) o)) next = Ok d
            /\ shard_view_ok next (add_repos repos 0 b_empty) o (write_shard next (add_repos repos 0 b_empty) o) d.
Proof. exact read_write_docs. Qed.
Print Assumptions C09_read_write.

(** ... and what the builder holds for an accepted document is the document: its name, its normalised content, its
    sorted symbol sections are appended as they are (add_doc). *)
Theorem C09_add_doc_stores : forall branches idx b d b', add_doc branches idx b d = Ok b' ->
  b_names b' = b_names b ++ [di_name d] /\ b_contents b' = b_contents b ++ [doc_content d]
  /\ b_docSections b' = b_docSections b ++ [map fst (doc_symrows d)]
  /\ b_subRepos b' = b_subRepos b ++ [di_subidx d] /\ b_repos b' = b_repos b ++ [idx]
  /\ exists mask, branch_mask branches (di_branches d) = Some mask /\ b_masks b' = b_masks b ++ [mask].
Proof. exact add_doc_stores. Qed.
Print Assumptions C09_add_doc_stores.

(** Index metadata that Write DERIVES (IndexMetadata.PlainASCII; the reader's findOffset treats rune offsets as byte
    offsets for contents AND file names when it is set): the flag the model writer stores — postingsBuilder.isPlainASCII
    of the content builder AND of the name builder, each cleared by the rune loop at a rune start >= utf8.RuneSelf — is
    true exactly when every stored content and every file name consists of ASCII bytes.  The correspondence compares
    the flag parsed by the real reader with [meta_plain_ascii] on every generated shard. *)
Theorem C09_plain_ascii_flag : forall b,
  meta_plain_ascii b = true <-> (forall s, In s (b_contents b ++ b_names b) -> Forall (fun c => c < 128) s).
Proof. exact meta_plain_ascii_spec. Qed.
Print Assumptions C09_plain_ascii_flag.

Example C09_nonvacuous_plain_ascii :   (* ASCII contents, one non-ASCII name ("é"): the flag must be false *)
  meta_plain_ascii (add_repos [([], [mkDocIn [195;169;46;103;111] [102;111;111] 0 true [] [] [] 0])] 0 b_empty) = false
  /\ meta_plain_ascii (add_repos [([], [mkDocIn [97;46;103;111] [102;111;111] 0 true [] [] [] 0])] 0 b_empty) = true.
Proof. vm_compute. split; reflexivity. Qed.

(** DocChecker_spec: DocChecker.Check is stateful in the Go code (one checker per Builder, its trigram map is reused);
    in the model the map is explicit state, and for EVERY state left behind by earlier documents the verdict of a
    document is the stateless verdict [doc_check] — a function of that document and the options only. *)
Theorem C09_DocChecker_spec : forall st content max allow,
  fst (check_st st content max allow) = doc_check content max allow.
Proof. exact check_st_state_independent. Qed.
Print Assumptions C09_DocChecker_spec.

(** C09_skip_present: every document of EVERY sequence added through one Builder (size limit, LargeFiles allow-list,
    reused DocChecker, any initial checker state) gets exactly the verdict it would get alone; an accepted document
    is stored with its own content (a skipped one with the NOT-INDEXED marker, see doc_content). *)
Theorem C09_skip_present : forall docs st sizeMax max,
  check_seq st sizeMax max docs = map (fun d => builder_skip sizeMax max (fst d) (snd d)) docs.
Proof. exact check_seq_pointwise. Qed.
Print Assumptions C09_skip_present.

Theorem C09_accepted_content : forall name content syms meta brs sub, has_nul content = false ->
  doc_content (mkDocIn name content SKIP_NONE true syms meta brs sub) = content.
Proof. exact accepted_content. Qed.
Print Assumptions C09_accepted_content.

(** the constants compiled into /repo satisfy the hypotheses of the b-tree theorems (regenerated every run) *)
Example C09_consts_ok : btreeBucketSize = (2 * (btreeBucketSize / 2))%nat /\ (1 <= btreeBucketSize / 2)%nat /\ N.of_nat (btreeBucketSize / 2) * 8 < W32 /\ (2 <= btreeV)%nat
                        /\ ngramEncoding = 8 /\ runeOffsetFrequency = 100.
Proof. vm_compute. repeat split; try reflexivity; repeat constructor. Qed.

(** Non-vacuity *)
Example C09_nonvacuous_deltas :   (* unsorted, wraps around 2^32 *)
  to_sized_deltas [5; 3; 4294967295; 0] = [4; 5; 254;255;255;255;15; 252;255;255;255;15; 1]
  /\ from_sized_deltas (to_sized_deltas [5; 3; 4294967295; 0]) = Ok [5; 3; 4294967295; 0].
Proof. vm_compute. split; reflexivity. Qed.

Example C09_nonvacuous_docsecs :
  unmarshal_doc_sections (marshal_doc_sections [(3, 7); (7, 7); (300, 70000)]) = Ok [(3, 7); (7, 7); (300, 70000)].
Proof. vm_compute. reflexivity. Qed.

Example C09_nonvacuous_document :   (* a two-document builder state obtained with the model of ShardBuilder.Add *)
  let d1 := mkDocIn [97;46;103;111] [102;111;111;10;98;97;114;10] 0 true [(0,3)] [([102],[],[])] [] 0 in
  let d2 := mkDocIn [98] [0;1] 0 true [] [] [] 0 in      (* NUL byte: stored as NOT-INDEXED *)
  let b := add_repos [([], [d1; d2])] 0 b_empty in
  b_contents b = [[102;111;111;10;98;97;114;10]; notIndexedMarker ++ nth 3 skip_explanations []]
  /\ b_docSections b = [[(0,3)]; []]
  /\ nlen (write_shard false b (mkOpaque [] [] [] None [123;125] [123;125])) = 1358.
Proof. vm_compute. repeat split; reflexivity. Qed.

Example C09_nonvacuous_read_write :   (* the hypotheses of C09_read_write hold for the two-document input above, and the shard loads *)
  let d1 := mkDocIn [97;46;103;111] [102;111;111;10;98;97;114;10] 0 true [(0,3)] [([102],[],[])] [] 0 in
  let d2 := mkDocIn [98] [0;1] 0 true [] [] [] 0 in
  let repos := [([], [d1; d2])] in
  let o := mkOpaque [] [] [] None [123;125] [123;125] in
  nlen repos <= W16 /\ Forall repo_ok repos /\ nlen (write_shard false (add_repos repos 0 b_empty) o) < W32
  /\ is_ok (load_shard (mem_file (write_shard false (add_repos repos 0 b_empty) o)) false) = true
  /\ (do d <- load_shard (mem_file (write_shard false (add_repos repos 0 b_empty) o)) false; read_contents d 0) = Ok [102;111;111;10;98;97;114;10].
Proof.
  cbv zeta. split; [vm_compute; discriminate|]. split.
  - repeat constructor; vm_compute; try reflexivity; discriminate.
  - split; [vm_compute; reflexivity|]. split; vm_compute; reflexivity.
Qed.

Example C09_nonvacuous_docchecker :   (* TrigramMax 3: "abcdefgh" has 6 distinct trigrams -> rejected; "abababababab" has 2 -> kept,
                                         also right after the rejected one (the reused map does not matter) *)
  let many := [97;98;99;100;101;102;103;104] in let rep := [97;98;97;98;97;98;97;98;97;98;97;98] in
  check_seq [] 100 3 [(many, false); (rep, false); ([97], false); (many, true)] = [SKIP_TOO_MANY; SKIP_NONE; SKIP_TOO_SMALL; SKIP_NONE]
  /\ snd (check_st [] many 3 false) <> [].
Proof. vm_compute. split; [reflexivity|discriminate]. Qed.

Fixpoint upto (n : nat) (k : N) : list N := match n with O => [] | S m => k :: upto m (k + 3) end.
Example C09_nonvacuous_btree :   (* bucketSize 4, v 2, 23 keys: leaf, inner and root splits; key 17 (= 5 + 3*4... position 4) *)
  let gs := upto 23 5 in
  height (bt_build 4 2 gs) = 3%nat /\ nleaves (bt_build 4 2 gs) = 11%nat /\
  find (bt_build 4 2 gs) (nth 4 gs 0) = (2%nat, 4%nat) /\ find (bt_build 4 2 gs) (nth 22 gs 0) = (10%nat, 20%nat).
Proof. vm_compute. repeat split; reflexivity. Qed.
Example C09_nonvacuous_asc : asc (upto 23 5).
Proof.
  assert (G : forall n k i, (i < n)%nat -> nth i (upto n k) 0 = k + 3 * N.of_nat i).
  { induction n as [|n IH]; intros k i Hi; [lia|]. destruct i; simpl; [lia|]. rewrite IH by lia. lia. }
  assert (L : forall n k, length (upto n k) = n) by (induction n; intros; simpl; auto).
  intros i j Hij. rewrite L in Hij. rewrite !G by lia. lia.
Qed.
