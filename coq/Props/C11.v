(** C11 — Corrupt shard files never crash the searcher.
    Model: Model/Format.v (reader over arbitrary bytes, outcome monad, allocation counter), Model/FormatRobust.v
    (decoders before the repair, recover wrappers, search-time document read).  Proofs: Proofs/FormatRobust.v.

    The model follows /repo AFTER the two repairs this property produced:
      cd2bd2d  fix: index: delta/varint decoders stop at a malformed varint ... do not trust the size prefix
      88c1762  fix: search: recover from reader panics while loading a shard
    [Panic P_DIVERGE] = the Go loop does not terminate (and appends on every round) — nothing can contain that;
    any other [Panic] is a Go run-time panic, contained by the recover in loadShard / searchOneShard / listOneShard.

    Scope (honest): the modelled reader = header, tagged TOC, section reads with mmapedIndexFile.Read's bounds test,
    fromSizedDeltas(16)/unmarshalDocSections, verify, calculateStats (Model/FormatStats.v), the per-document reads of a
    search, and the posting-list read + compressedPostingIterator (Model/FormatPosting.v).  JSON metadata parsing, the
    roaring bitmap, the b-tree construction on unsorted keys and the match iterators ABOVE compressedPostingIterator
    (ngramDocIterator, mergingIterator, match trees) are NOT in these theorems; they are covered by the hunt (all
    truncations / single-bit flips of real shards and model-written targeted corruptions of posting lists, served in
    subprocesses). *)
From ZV Require Import Lib.Base Lib.Varint Generated.FormatConsts Model.Format Model.FormatRobust Proofs.FormatRobust Model.FormatStats Proofs.FormatStats
  Model.FormatPosting Proofs.FormatPosting.
Open Scope N_scope.

(** The repaired delta decoders terminate on EVERY byte string, return a list no longer than the input, and ask
    make() for at most elem bytes per input byte (before: a 9-byte section could request 8 TiB). *)
Theorem C11_delta_decoder_safe : forall W elem data, nlen data * elem <= MAXALLOC ->
  exists l, fst (from_sized_deltas_w W elem data) = Ok l /\ (length l <= length data)%nat
            /\ snd (from_sized_deltas_w W elem data) <= nlen data * elem.
Proof. exact from_sized_deltas_total. Qed.
Print Assumptions C11_delta_decoder_safe.

Theorem C11_docsections_decoder_safe : forall data, nlen data * 8 <= MAXALLOC ->
  exists l, fst (unmarshal_doc_sections_a data) = Ok l /\ snd (unmarshal_doc_sections_a data) <= nlen data * 8.
Proof. exact unmarshal_doc_sections_total. Qed.
Print Assumptions C11_docsections_decoder_safe.

(** readHeader + readTOCSections on ANY file: an error or a section table — never a panic, and the loop over the
    tagged sections terminates (every round consumes at least one byte; offsets cannot wrap past a successful read). *)
Theorem C11_toc_safe : forall f wanted w, read_toc f wanted <> Panic w.
Proof. intros f wanted w. apply (read_toc_total f wanted w). Qed.
Print Assumptions C11_toc_safe.

(** Loading ANY file (modelled reader, recover in loadShard): the outcome is a searcher or an error. *)
Theorem C11_load_safe : forall f next,
  match load_shard_served f next with Ok _ => True | Err _ => True | Panic _ => False end.
Proof. intros f next. destruct (load_shard_served_safe f next) as (r & <- & H). exact H. Qed.
Print Assumptions C11_load_safe.

(** ... and everything make() is asked for with a size taken from the file while loading stays below 30 bytes per
    byte of the (mapped) file — before the repair a 9-byte section requested 8 TiB (C11_load_unfixed_refuted). *)
Theorem C11_load_alloc_bound : forall f next d, load_shard f next = Ok d -> i_alloc d <= 30 * nlen (f_data f).
Proof. exact load_alloc_bound. Qed.
Print Assumptions C11_load_alloc_bound.

Corollary C11_load_class : forall f next, classify_load true (load_shard f next) = SOk \/ classify_load true (load_shard f next) = SErr.
Proof.
  intros f next. pose proof (load_shard_nd f next) as H. unfold classify_load.
  destruct (load_shard f next) as [d|e|w]; auto. destruct (w =? P_DIVERGE) eqn:E; auto.
  apply N.eqb_eq in E. subst. exfalso. apply H. reflexivity.
Qed.
Print Assumptions C11_load_class.

(** Serving: whatever was loaded, (1) reading a document (name, content, symbol sections, newlines) inside
    searchOneShard completes, fails, or panics into the recover wrapper — it never hangs; (2) the posting-list
    iterator (index/hititer.go newCompressedPostingIterator / next, Model/FormatPosting.v) on the list of ANY ngram
    (content and file-name ngrams), advanced with ANY sequence of limits, completes or fails with the read error of
    the list — no panic, no hang: posting lists are not verified at load time, so these are arbitrary bytes.
    [posting_walk] runs the iterator with the guards that translator/c11guard read from index/hititer.go
    (Generated/PostingGuard.v, regenerated on every run). *)
Theorem C11_served_safe : forall d i g limits,
  (classify_search (doc_read d i) = SOk \/ classify_search (doc_read d i) = SErr \/ classify_search (doc_read d i) = SContained)
  /\ (classify_search (posting_walk d g limits) = SOk \/ classify_search (posting_walk d g limits) = SErr)
  /\ (classify_search (name_posting_walk d g limits) = SOk \/ classify_search (name_posting_walk d g limits) = SErr).
Proof.
  intros d i g limits. split; [|split; [exact (posting_walk_class d g limits)|exact (name_posting_walk_class d g limits)]].
  pose proof (doc_read_nd d i) as H. unfold classify_search.
  destruct (doc_read d i) as [x|e|w]; auto. destruct (w =? P_DIVERGE) eqn:E; auto.
  apply N.eqb_eq in E. subst. exfalso. apply H. reflexivity.
Qed.
Print Assumptions C11_served_safe.

(** The iterator on ARBITRARY bytes, with its step counter: the constructor and every sequence of next(limit) calls
    return; all iterations of the loop `for i._first <= limit && len(i.blob) > 0` over the life of the iterator
    together are at most the number of bytes of the list (every iteration consumes >= 1 byte or ends the list), and a
    complete walk first(), next(first()), ... ends after at most |list| + 1 postings. *)
Theorem C11_posting_iter_terminates : forall blob limits,
  exists it0 it s, cpi_new chk_repo blob = Ok it0 /\ cpi_run g_repo limits it0 0 = Ok (it, s) /\ s <= nlen blob
  /\ exists l, postings_of g_repo chk_repo blob = Ok l /\ (length l <= S (length blob))%nat.
Proof.
  (* g_repo / chk_repo are the guards the translator read from index/hititer.go: the proof goes through exactly when
     they are `sz <= 0` in the loop and `sz < 0` in the constructor *)
  change g_repo with g_le0. change chk_repo with true.
  intros blob limits. destruct (cpi_new_total blob) as (it0 & E0 & H0).
  destruct (cpi_run_total limits it0 0) as (it & s & E & H).
  exists it0, it, s. repeat split; auto; [unfold nlen in *; lia|apply postings_of_total].
Qed.
Print Assumptions C11_posting_iter_terminates.

(** REFUTED for the guard `sz < 0` in next (it only catches the overflowing varint; a TRUNCATED varint gives sz = 0):
    on the 3-byte list 08 0e 8e the calls next(8), next(22) never return, and so does the complete walk; an iteration on
    a truncated varint leaves the iterator unchanged (so the divergence is real, not an artefact of the fuel).  With the
    guard of /repo (`sz <= 0`) the same list yields the postings 8, 22; an overflowing varint ends the list. *)
Theorem C11_posting_iter_guard_lt0_refuted :
  (exists it, cpi_new true wit_posting_trunc = Ok it /\ cpi_run g_lt0 [8; 22] it 0 = Panic P_DIVERGE)
  /\ postings_of g_lt0 true wit_posting_trunc = Panic P_DIVERGE
  /\ postings_of g_le0 true wit_posting_trunc = Ok [8; 22]
  /\ postings_of g_le0 true wit_posting_overflow = Ok [8].
Proof. exact cpi_guard_lt0_diverges. Qed.
Print Assumptions C11_posting_iter_guard_lt0_refuted.

Example C11_nonvacuous_posting :   (* the posting list of "nee" of the model-written healthy shard: one posting, rune 8 *)
  (do d <- load_shard (mmap_file iso_healthy) false; do b <- shard_ngram_search d iso_ngram; postings_of g_repo chk_repo b) = Ok [8]
  /\ (do d <- load_shard (mmap_file iso_healthy) false; do x <- posting_walk d iso_ngram [0; 8; 9]; Ok (cpi_first (fst x), snd x))
     = Ok (MaxU32, 0).
Proof. vm_compute. split; reflexivity. Qed.

(** REFUTED for the reader before the repairs (witness files are replayed on the implementation by the hunt):
    a 1205-byte file hangs NewSearcher; another one makes it request 8 TiB; a third panics in the loader. *)
Theorem C11_load_unfixed_refuted :
  load_shard_unfixed (mem_file witness_hang) false = Panic P_DIVERGE
  /\ (exists d, load_shard_unfixed (mem_file witness_alloc) false = Ok d /\ 8796093022208 <= i_alloc d /\ nlen witness_alloc < 2048)
  /\ load_shard_unfixed (mem_file witness_panic) false = Panic P_SLICE.
Proof. split; [exact unfixed_hang|split; [exact unfixed_alloc|exact unfixed_panic]]. Qed.
Print Assumptions C11_load_unfixed_refuted.

(** ... and without the recover in loadShard the CURRENT reader still panics on some files (a one-page file whose
    ngramText section is the last 4 bytes of the mapping: newBtreeIndex slices [0:8] with capacity 4); the hunt finds
    more in unmodelled code (calculateStatsForFileRange).  The recover is what makes C11_load_safe true. *)
Theorem C11_load_norecover_refuted : load_shard (mmap_file witness_ngram) false = Panic P_SLICE
  /\ load_shard_served (mmap_file witness_ngram) false = Err E_RECOVERED.
Proof. destruct norecover_panic as [H _]. split; [exact H|]. unfold load_shard_served. rewrite H. reflexivity. Qed.
Print Assumptions C11_load_norecover_refuted.

(** calculateStats (the last step of NewSearcher, after the section reads and verify) inside the model: for every
    file, every format version and every number of repositories the JSON metadata may announce, loading with the
    recover of loadShard yields a searcher or an error — the loops over repositories / documents are bounded by the
    table lengths, every index is a checked operation, panics are recovered. *)
Theorem C11_load_stats_safe : forall f next nrepos,
  match load_shard_stats_served f next nrepos with Ok _ => True | Err _ => True | Panic _ => False end.
Proof. exact load_shard_stats_served_safe. Qed.
Print Assumptions C11_load_stats_safe.

(** ... and the recover is needed there: a model-written 3-document shard whose fileNames record is zeroed in the TOC
    passes every section read and verify() (which only compares the tables when there are file names), and
    calculateStatsForFileRange then indexes the empty fileNameIndex — the call site the exhaustive hunt had found
    before repair 88c1762.  The file is replayed on the implementation (class: error). *)
Theorem C11_stats_norecover_refuted :
  exists d, load_shard (mmap_file witness_stats) false = Ok d /\ calc_stats d 1 = Panic P_INDEX
    /\ load_shard_stats_served (mmap_file witness_stats) false 1 = Err E_RECOVERED.
Proof. exact stats_witness. Qed.
Print Assumptions C11_stats_norecover_refuted.

Example C11_nonvacuous_stats :   (* a healthy written shard passes calculateStats: 14 content bytes, 4 name bytes, 1 document *)
  (do d <- load_shard (mmap_file iso_healthy) false; calc_stats d 1) = Ok [(14, 4, 1, (0, 0, 0))].
Proof. exact stats_healthy. Qed.

(** Isolation of the healthy shards (searchOneShard/streamSearch after "fix: search: a shard whose Search or List
    returns an error is counted as a crashed shard"): for EVERY list of loaded shards — corrupt or not, in any order —
    the sharded search succeeds, returns exactly the answers of the shards that answer, in shard order, and counts
    every other shard in Stats.Crashes.  Hence a failing shard anywhere in the directory leaves the results of the
    other shards unchanged (the count goes up by one). *)
Theorem C11_isolation : forall shards g,
  sharded_search shards g = Ok (shard_answers shards g, shard_failures shards g).
Proof. exact sharded_search_isolated. Qed.
Print Assumptions C11_isolation.

Theorem C11_others_unaffected : forall l1 c l2 g, is_ok (shard_ngram_search c g) = false ->
  exists n, sharded_search (l1 ++ c :: l2) g = Ok (shard_answers (l1 ++ l2) g, n)
            /\ sharded_search (l1 ++ l2) g = Ok (shard_answers (l1 ++ l2) g, shard_failures (l1 ++ l2) g)
            /\ n = shard_failures (l1 ++ l2) g + 1.
Proof. exact sharded_search_others_unaffected. Qed.
Print Assumptions C11_others_unaffected.

(** REFUTED for streamSearch BEFORE that repair (former known finding c11:api-error:search:out-of-bounds).
    A shard whose postings index table points beyond the end of the file LOADS (offsets are not validated at load);
    a substring search reads the posting list of one of the pattern's trigrams (iterateNgrams: Get + readSectionBlob),
    IndexFile.Read fails, Search returns that error, and streamSearch turned one shard's error into the failure of the
    whole search: the healthy shard's result (posting list [8] for "nee" when searched alone) was lost.  Both files are
    written by the model and replayed on the implementation by the hunt (classes served-ok / contained-crash now).
    (Errors of per-document content reads do NOT propagate: contentProvider swallows them.) *)
Theorem C11_isolation_unfixed_refuted :
  exists h c, load_shard (mmap_file iso_healthy) false = Ok h /\ load_shard (mmap_file witness_oob) false = Ok c
    /\ sharded_search_unfixed [h] iso_ngram = Ok ([[8]], 0)
    /\ shard_ngram_search c iso_ngram = Err E_OOB
    /\ sharded_search_unfixed [h; c] iso_ngram = Err E_OOB.
Proof. exact isolation_unfixed_refuted. Qed.
Print Assumptions C11_isolation_unfixed_refuted.

(** Non-vacuity of the isolation theorems: the model-written witness pair (a healthy shard and a loaded corrupt one) *)
Example C11_nonvacuous_isolation :
  exists h c, load_shard (mmap_file iso_healthy) false = Ok h /\ load_shard (mmap_file witness_oob) false = Ok c
    /\ sharded_search [h] iso_ngram = Ok ([[8]], 0)
    /\ shard_ngram_search c iso_ngram = Err E_OOB
    /\ sharded_search [h; c] iso_ngram = Ok ([[8]], 1).
Proof. exact isolation_witness. Qed.

(** Non-vacuity: the same witness files are harmless for the repaired reader; a healthy written shard loads. *)
Example C11_nonvacuous_fixed : forall w, In w [witness_hang; witness_alloc; witness_panic] ->
  exists d, load_shard (mem_file w) false = Ok d /\ i_alloc d <= 4.
Proof. exact fixed_witnesses. Qed.
Example C11_nonvacuous_decoder :   (* truncated varint, overflowing varint, lying size prefix *)
  from_sized_deltas [1; 128] = Ok [] /\ from_sized_deltas [2; 5; 255;255;255;255;255;255;255;255;255;255;1] = Ok [5]
  /\ from_sized_deltas_w W32 4 [128; 128; 128; 128; 128; 64; 5] = (Ok [5], 4).
Proof. vm_compute. repeat split; reflexivity. Qed.
