(** C08 — Case-insensitive literal and regexp search agree on all Unicode text.

    Model: Model/CaseCmp.v (the two evaluations of a literal pattern on one document: [substr_ci] = trigram case
    variants + ToLower verification as in iterateNgrams / caseFoldingEqualsRunes, [regex_ci] = (?i) literal through the
    engine = SimpleFold-orbit membership; ranges as (byte offset, byte size) after overlap removal), over
    Generated/UnicodeTables.v (unicode.ToLower / unicode.SimpleFold of the Go toolchain in use).

    Status: the property as stated (all Unicode) is FALSE of the faithful model — [C08_all_unicode_refuted]; the
    implementation shows the same disagreements (known finding, key class fold-orbit≠tolower:<rune>).  What holds is the
    restriction to patterns over agreeing runes, [C08_agree_iff], and the agreeing set is characterised exactly. *)
From ZV Require Import Lib.Base Generated.UnicodeTables Model.Regex Model.CaseFold Model.CaseCmp Proofs.CaseCmp.

(** [tolower_fold_agree c] decides — over all of N, not only the table — whether "c' has the same lower case as c"
    and "c' is in the SimpleFold orbit of c" are the same predicate on c'. *)
Theorem agree_set_exact : forall c,
  tolower_fold_agree c = true <-> (forall c', tolower c' = tolower c <-> in_orbitb c c' = true).
Proof. exact agree_set_exact_proof. Qed.
Print Assumptions agree_set_exact.

(** Patterns over agreeing runes: both evaluations return the same ranges (same byte offsets, same byte sizes), for
    every text (any runes) and whichever trigrams [sel] the frequency heuristic selects. *)
Theorem C08_agree_iff : forall sel p t,
  (forall c, In c p -> tolower_fold_agree c = true) -> substr_ci sel p t = regex_ci p t.
Proof. exact agree_iff_proof. Qed.
Print Assumptions C08_agree_iff.

(** The regexp side of the model is Model/Regex.v's case-folded literal. *)
Theorem C08_regex_side_is_fold_literal : forall p t i,
  match_preds (re_preds p) (skipn i t) = true <-> m orbit (RLit true p) t i (i + length p)%nat.
Proof. exact re_preds_is_fold_literal. Qed.
Print Assumptions C08_regex_side_is_fold_literal.

(** The case variants of a trigram used by the prefilter ([variants3] = product of the three orbits; compared with the real
    generateCaseNgrams by the second runner) are exactly the triples the model's prefilter predicates accept. *)
Theorem C08_case_variants_are_orbit_products : forall a b c x y z,
  In (x, y, z) (variants3 a b c) <-> orbit_eq a x = true /\ orbit_eq b y = true /\ orbit_eq c z = true.
Proof. exact variants3_spec. Qed.
Print Assumptions C08_case_variants_are_orbit_products.

(** The full statement (all literal patterns, all texts) is refuted: final sigma.  Pattern "ςab" against the text
    "σab": the regexp evaluation matches bytes [0,4), the substring evaluation matches nothing (ToLower ς = ς <> σ). *)
Theorem C08_all_unicode_refuted : exists sel p t, substr_ci sel p t <> regex_ci p t.
Proof. exists [0%nat], [962; 97; 98]%N, [963; 97; 98]%N. vm_compute. discriminate. Qed.
Print Assumptions C08_all_unicode_refuted.

(** ... and in the other direction (the substring evaluation reports a match the regexp does not): pattern "abcİ"
    with selective trigram "abc", text "abci\nxbcİ" — ToLower İ = i, but İ has no simple folding (the second line only
    makes the trigram "bcİ" occur in the corpus, as iterateNgrams requires). *)
Theorem C08_substring_only_match_refuted :
  let p := [97; 98; 99; 304]%N in
  let t := [97; 98; 99; 105; 10; 120; 98; 99; 304]%N in
  substr_ci [0%nat] p t = [(0, 4)]%nat /\ regex_ci p t = [].
Proof. vm_compute. split; reflexivity. Qed.
Print Assumptions C08_substring_only_match_refuted.

(** Non-vacuity: runes of the current table disagree (66 with Unicode 15.0.0, among them s, S, i, I); a pattern over agreeing runes
    (é, K, ǆ) with matches of different byte sizes on which both evaluations agree. *)
Example C08_disagree_set :   (* stated so that it survives a Unicode upgrade of the toolchain; the current table has 66 *)
  Nat.ltb 0 (length disagree_runes) = true /\
  forallb (fun c => negb (tolower_fold_agree c)) [73; 83; 105; 115; 181; 304; 383; 962]%N = true /\
  tolower_fold_agree 107 = true /\ tolower_fold_agree 8490 = true /\ tolower_fold_agree 233 = true.
Proof. vm_compute. repeat split. Qed.
Example C08_variants_example :   (* k a σ : 3 x 2 x 3 variants, among them KELVIN-SIGN A final-sigma *)
  length (variants3 107 97 963) = 18%nat /\ existsb (tri_eqb (8490, 65, 962)) (variants3 107 97 963) = true.
Proof. vm_compute. split; reflexivity. Qed.
Example C08_nonvacuous_agree :
  let p := [233; 107; 454]%N in                       (* é k ǆ *)
  let t := [201; 8490; 452; 10; 233; 75; 453]%N in      (* É K(Kelvin) Ǆ \n é K ǅ *)
  forallb tolower_fold_agree p = true /\
  substr_ci [0%nat] p t = [(0, 7); (8, 5)]%nat /\ regex_ci p t = [(0, 7); (8, 5)]%nat.
Proof. vm_compute. repeat split. Qed.
