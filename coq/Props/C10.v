(** C10 — Results do not depend on how the index was built.
    Model: Model/BuilderFlow.v (Builder.Add/flush partition, sortDocuments, pooled postingsBuilder with reset,
    what writePostings emits). Proofs: Proofs/BuilderFlow.v, Proofs/BuilderPostings.v. *)
From ZV Require Import Lib.Base Model.BuilderFlow Proofs.BuilderFlow Proofs.BuilderPostings Proofs.BuilderSort.
From Coq Require Import Sorting.Sorted.
From Coq Require Import Permutation.

(** (1) Every added document lands in exactly one shard — stronger: the shards, in shard-number order, spell the
    input stream. For every weight function (document sizes, skipped or not), every ShardMax, every stream. *)
Theorem C10_every_document_in_exactly_one_shard :
  forall (A : Type) (weight : A -> N) (shard_max : N) (docs : list A),
    concat (partition weight shard_max docs) = docs.
Proof. intros. apply partition_concat. Qed.
Print Assumptions C10_every_document_in_exactly_one_shard.

(** (2) The flush rule: every shard but the last exceeded ShardMax exactly when its last document was added. *)
Theorem C10_flush_rule :
  forall (A : Type) (weight : A -> N) (shard_max : N) (docs : list A),
    exists flushed last, partition weight shard_max docs = flushed ++ last /\
      Forall (full weight shard_max) flushed /\
      (last = [] \/ exists t, last = [t] /\ (total weight t <= shard_max)%N).
Proof. intros. apply partition_flush_rule. Qed.
Print Assumptions C10_flush_rule.

(** (3) sortDocuments neither drops nor duplicates documents. *)
Theorem C10_sort_is_permutation :
  forall (A : Type) (key : A -> dkey) (l : list A), Permutation (sort_docs key l) l.
Proof. intros. apply sort_docs_perm. Qed.
Print Assumptions C10_sort_is_permutation.

(** (3') The order is determined by the rank vectors alone: ANY arrangement of the ranked documents that is sorted
    w.r.t. the rank comparison (whatever algorithm produced it — sort.Slice is not stable) is the model's order. Holds because
    the last rank component is the original index, which makes the comparison a strict total order. *)
Theorem C10_sort_deterministic :
  forall (A : Type) (key : A -> dkey) (l : list A) (l' : list (list Z * A)),
    Permutation l' (rank_all key l 0) -> StronglySorted (rle (A:=A)) l' -> map snd l' = sort_docs key l.
Proof. intros. apply sort_deterministic; assumption. Qed.
Print Assumptions C10_sort_deterministic.

(** (4) Stale-buffer freedom. Whatever a pooled postingsBuilder went through before (any sequence of documents and
    resets), after reset() it writes, for ANY list of documents, exactly the (ngram, posting data) pairs a fresh builder
    writes — same set, no ngram twice — and the same runeOffsets / endRunes / isPlainASCII / counters.
    (writePostings sorts the pairs by ngram, so equal duplicate-free sets mean identical sections.) *)
Theorem C10_reuse_after_reset_writes_same :
  forall (st : pbuilder) (docs : list rdoc),
    reachable st ->
    let s' := add_strings (reset_pb st) docs in
    let f' := add_strings fresh_pb docs in
    (forall kd, In kd (written s') <-> In kd (written f')) /\
    NoDup (map fst (written s')) /\ NoDup (map fst (written f')) /\
    pb_scalars s' = pb_scalars f'.
Proof. intros st docs Hr. apply reuse_writes_same, reachable_Inv, Hr. Qed.
Print Assumptions C10_reuse_after_reset_writes_same.

(** (4') ... hence the sorted (ngram, posting) list writePostings emits is identical, element for element. *)
Theorem C10_reuse_after_reset_writes_identical :
  forall (st : pbuilder) (docs : list rdoc),
    reachable st ->
    sort_ng (written (add_strings (reset_pb st) docs)) = sort_ng (written (add_strings fresh_pb docs)) /\
    pb_scalars (add_strings (reset_pb st) docs) = pb_scalars (add_strings fresh_pb docs).
Proof. intros st docs Hr. apply reuse_writes_identical, reachable_Inv, Hr. Qed.
Print Assumptions C10_reuse_after_reset_writes_identical.

(** (5) Configuration independence of result sets. HYPOTHESIS (explicit): searching a shard is document-local —
    its result is, up to order, the union over the shard's documents of what each document contributes
    ([match_doc q d]: file match with its line matches and branches). Then for any two ShardMax values and any
    permutation of the insertion order the multiset of results over all shards is the same. *)
Theorem C10_config_independent :
  forall (A Q R : Type) (match_doc : Q -> A -> list R) (search_shard : list A -> Q -> list R),
    (forall sh q, Permutation (search_shard sh q) (flat_map (match_doc q) sh)) ->
  forall (weight : A -> N) (key : A -> dkey) (m1 m2 : N) (docs docs' : list A) (q : Q),
    Permutation docs docs' ->
    Permutation (search_all search_shard (build weight key m1 docs) q) (search_all search_shard (build weight key m2 docs') q).
Proof. intros A Q R md ss Hl w k m1 m2 docs docs' q Hp. exact (config_independent md ss Hl w k m1 m2 docs docs' q Hp). Qed.
Print Assumptions C10_config_independent.

(** (6) ... and of any regrouping of the same documents into shards (simple shards vs a compound shard, the order in
    which parallel builds finish). *)
Theorem C10_regrouping_independent :
  forall (A Q R : Type) (match_doc : Q -> A -> list R) (search_shard : list A -> Q -> list R),
    (forall sh q, Permutation (search_shard sh q) (flat_map (match_doc q) sh)) ->
  forall (shards1 shards2 : list (list A)) (q : Q),
    Permutation (concat shards1) (concat shards2) ->
    Permutation (search_all search_shard shards1 q) (search_all search_shard shards2 q).
Proof. intros A Q R md ss Hl s1 s2 q Hp. exact (regrouping_independent md ss Hl s1 s2 q Hp). Qed.
Print Assumptions C10_regrouping_independent.

(** ---- Non-vacuity *)
Definition xkey (n : N) : dkey := mkKey false false false (N.eqb n 3) n 0 (10 - n) 1.
(* five documents of weights 3,4,5,1,2 under ShardMax 6: three shards; sorted inside (the test file 3 goes last) *)
Example C10_nonvacuous_partition :
  partition (fun n : N => n) 6 [3; 4; 5; 1; 2]%N = [[3; 4]; [5; 1; 2]]%N /\
  build (fun n : N => n) xkey 6 [3; 4; 5; 1; 2]%N = [[4; 3]; [1; 2; 5]]%N /\
  partition (fun n : N => n) 6 (@nil N) = [[]].
Proof. vm_compute. auto. Qed.
(* a reachable, really used pooled builder: "abcab" then reset then "bcé": same written pairs as fresh, and the stale
   trigram "abc"/"cab" of the first shard is not written *)
Definition xdoc1 : rdoc := [(97, 1); (98, 1); (99, 1); (97, 1); (98, 1)]%N.
Definition xdoc2 : rdoc := [(98, 1); (99, 1); (233, 2)]%N.
Example C10_nonvacuous_reuse :
  reachable (add_string fresh_pb xdoc1) /\
  length (written (add_string fresh_pb xdoc1)) = 3 /\
  sort_ng (written (add_strings (reset_pb (add_string fresh_pb xdoc1)) [xdoc2])) = sort_ng (written (add_strings fresh_pb [xdoc2])) /\
  length (written (add_strings (reset_pb (add_string fresh_pb xdoc1)) [xdoc2])) = 1.
Proof. split; [repeat constructor|]. vm_compute. auto. Qed.
(* the hypothesis of (5) is satisfiable: a document-local search *)
Example C10_nonvacuous_search :
  let md := fun (q d : N) => if N.eqb (d mod q) 0 then [d] else [] in
  let ss := fun (sh : list N) (q : N) => flat_map (md q) sh in
  (forall sh q, Permutation (ss sh q) (flat_map (md q) sh)) /\
  search_all ss (build (fun n : N => n) xkey 6 [3; 4; 5; 1; 2; 6]%N) 2%N = [4; 2; 6]%N /\
  search_all ss (build (fun n : N => n) xkey 100 [6; 2; 1; 5; 4; 3]%N) 2%N = [2; 4; 6]%N.
Proof. split; [intros; apply Permutation_refl|]. vm_compute. auto. Qed.
