(** C10 — placeholder, first pipeline *)
From ZV Require Import Lib.Base Model.BuilderFlow.
