From ZV Require Import Lib.Base Model.SearchCore.
Theorem C01_placeholder : True. Proof. exact I. Qed.
Print Assumptions C01_placeholder.
