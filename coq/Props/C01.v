(** C01 — search returns exactly the documents the query matches.  Property theorems over Model/SearchCore.v
    (model of index/eval.go, matchtree.go, indexdata.go, matchiter.go, hititer.go at /repo HEAD incl. the word fast-path
    fix commits 260937d d7a2c44 cae2348). *)
From ZV Require Import Lib.Base Model.SearchCore Model.SearchCoreIters Proofs.SearchCoreIters Proofs.SearchCoreText Proofs.SearchCoreTree Proofs.SearchCoreLoop
  Proofs.SearchCoreSelect Proofs.SearchCoreBuild Proofs.SearchCoreSimp Proofs.SearchCoreWord Proofs.SearchCoreTop Proofs.SearchCoreSym Proofs.SearchCoreRf Proofs.SearchCoreDistill Proofs.SearchCoreEngine Proofs.SearchCoreRegexTie Proofs.SearchCoreAndLineOff
  Model.SearchCoreSepLine Proofs.SearchCoreSepLine Proofs.SearchCoreSepLineGen.
From ZV Require Model.Regex Generated.DistillSwitch.
From Coq Require Import ZifyBool ZifyN.

(** 1. Verified trigram candidates are exactly the occurrences: for every list of texts, every pattern of >= 3 runes,
    every choice a <= b of the two selected trigrams (any frequencies), every document k, case-sensitive or not
    (case-insensitive completeness under [agree]: lower-casing and SimpleFold orbits agree on the runes involved). *)
Theorem C01_substring_candidates_exact :
  forall (tolower : N -> N) (orbit : N -> list N) (ts : list (list N)) (cs : bool) (pat : list N) (a b k : nat),
  agree tolower orbit -> 3 <= length pat -> a <= b -> b + 3 <= length pat -> k < length ts ->
  filter (occurs_at tolower cs pat (nth k ts []))
         (cands_of ts (hits_of orbit (all_tris ts) cs pat a b) a (length pat - a) k)
  = occ_offsets tolower cs pat (nth k ts []).
Proof. exact substring_candidates_exact. Qed.
Print Assumptions C01_substring_candidates_exact.

(** 2. findSelectiveNgrams always selects two valid trigram indexes, whatever the frequencies are. *)
Theorem C01_selection_valid : forall (p : list N) (freqs : list N), 3 <= length p ->
  length freqs = length (sort_offs (pat_tris p)) ->
  let '(a, b) := select_idx (sort_offs (pat_tris p)) freqs in a <= b /\ b + 3 <= length p.
Proof. exact select_idx_valid. Qed.
Print Assumptions C01_selection_valid.

(** 3. nextDoc is a lower bound: in every reachable iterator state (tvalid last), no node kind skips a later document
    on which the tree holds (and = max, or = min, not = 0, substring = file of the first remaining hit, ...). *)
Theorem C01_docit_lower_bound :
  forall (re_match : N -> list N -> bool) (tolower : N -> N) (orbit : N -> list N) (c : corpus),
  agree tolower orbit ->
  forall (last : option nat) (k : nat) (t : mt),
  lt_last last k -> k < ndocs c -> tvalid tolower orbit c last t ->
  sem re_match tolower c k t = true -> nextDoc c t <= k.
Proof. exact nextDoc_lower_bound. Qed.
Print Assumptions C01_docit_lower_bound.

(** 4. The cost-staged three-valued evaluation decides (the log.Panicf "did not decide" is unreachable) and accepts
    exactly the documents on which the tree holds; prepare re-establishes the iterator invariant. *)
Theorem C01_cost_staging_decides :
  forall (re_match : N -> list N -> bool) (tolower : N -> N) (orbit : N -> list N) (c : corpus),
  agree tolower orbit ->
  forall (last : option nat) (k : nat) (t : mt),
  lt_last last k -> k < ndocs c -> tvalid tolower orbit c last t ->
  accept re_match tolower c k (prepare c k t) = sem re_match tolower c k t /\
  run3 re_match tolower c 3 k (prepare c k t) <> Higher.
Proof. exact accept_sem. Qed.
Print Assumptions C01_cost_staging_decides.

(** 5. The document loop: from any reachable state it returns exactly the live documents behind [last] on which the
    tree holds, in order -- the nextDoc skipping and the tombstone scan lose nothing and add nothing. *)
Theorem C01_loop_exact :
  forall (re_match : N -> list N -> bool) (tolower : N -> N) (orbit : N -> list N) (c : corpus),
  agree tolower orbit ->
  forall (fuel : nat) (t : mt) (last : option nat),
  tvalid tolower orbit c last t -> cursor_next last <= ndocs c -> ndocs c - cursor_next last < fuel ->
  loop re_match tolower c fuel t last =
  filter (fun k => live_at c k && sem re_match tolower c k t) (seq (cursor_next last) (ndocs c - cursor_next last)).
Proof. exact loop_exact. Qed.
Print Assumptions C01_loop_exact.

(** 6. pruneMatchTree preserves the meaning on every document; nil means no document matches. *)
Theorem C01_prune_equiv :
  forall (re_match : N -> list N -> bool) (tolower : N -> N) (orbit : N -> list N) (c : corpus) (t : mt),
  tvalid tolower orbit c None t -> shape_ok t ->
  match prune t with
  | Some t' => tvalid tolower orbit c None t' /\ shape_ok t' /\
               (forall k, k < ndocs c -> sem re_match tolower c k t' = sem re_match tolower c k t) /\
               (line_shape t -> line_shape t' /\ content_sleaf t' = content_sleaf t)
  | None => forall k, k < ndocs c -> sem re_match tolower c k t = false
  end.
Proof. exact prune_spec. Qed.
Print Assumptions C01_prune_equiv.

(** 7. The word-boundary fast path (after the fixes) = the reference semantics of \bLIT\b, for all texts and literals. *)
Theorem C01_word_fastpath_exact : forall (tolower : N -> N) (w t : list N), 0 < length w ->
  word_found tolower w t = word_ref tolower w t.
Proof. exact word_found_ref. Qed.
Print Assumptions C01_word_fastpath_exact.

(** 8. TOP LEVEL.  Full statement aimed at: for every corpus and every query,
      search c q = filter (fun k => live k && eval q (doc k)) (all document ids)
    with the regexp atoms given by a regexp semantics.  Proved here (_partial): the regexp ENGINE is external and the
    soundness of the trigram distillation of each regexp atom is not derived from a regexp semantics but assumed, in
    the form of the decidable obligation [re_okb] (engine matches => distilled literal tree holds; equivalence where
    the distillation claims it; engine verdict on \bLIT\b = reference word semantics), which the correspondence run
    evaluates on every generated case.  For queries without regexp atoms the obligation is [true] by computation.
    Symbol queries (Symbol{Substring}, Symbol{Regexp}; reference semantics: the expression matches the TEXT OF ONE
    SYMBOL SECTION) are covered: for them [re_okb] contains that the sections of every document are sorted,
    non-overlapping and inside the content (what ShardBuilder.Add enforces), that a section match of the engine implies
    the distilled tree (borrowed as docIterator), and - where a symbol regexp distills to one exact literal - that the
    engine agrees with literal containment on every section text.  Hypotheses: [agree] (case folding vs lower-casing, cf. C08) and that a
    frequency of 0 is only reported for trigrams without postings. *)
Theorem C01_search_exact_partial :
  forall (re_match : N -> list N -> bool) (tolower : N -> N) (orbit : N -> list N) (c : corpus)
         (freq : bool -> bool -> tri -> N) (q : Q),
  agree tolower orbit ->
  (forall fn cs g, freq fn cs g = 0%N -> post orbit (ix_tris c fn) cs g = []) ->
  re_okb re_match tolower orbit c freq (expand (simp c q)) = true ->
  search re_match tolower orbit c freq q = spec_search re_match tolower c q.
Proof. intros. apply search_exact_checked; assumption. Qed.
Print Assumptions C01_search_exact_partial.

(** 9. FULL for the regexp-free fragment: for every corpus and every query built from substrings (content / file name,
    case-sensitive or not), and / or / not, constants, branch, repository (table, set, ids, rawconfig, branches-repos),
    language, file-name-set, type and boost nodes AND Symbol{Substring} atoms, Search without limits returns exactly
    the live documents on which the query is true, in document order -- no obligation on any external component besides
    the two table hypotheses; [secs_wf]: the symbol sections of every document are sorted, non-overlapping and inside
    the content (enforced by ShardBuilder.Add; vacuous for corpora without symbols). *)
Theorem C01_search_exact_regexp_free :
  forall (re_match : N -> list N -> bool) (tolower : N -> N) (orbit : N -> list N) (c : corpus)
         (freq : bool -> bool -> tri -> N) (q : Q),
  agree tolower orbit ->
  (forall fn cs g, freq fn cs g = 0%N -> post orbit (ix_tris c fn) cs g = []) ->
  secs_wf c -> rfree q = true ->
  search re_match tolower orbit c freq q = spec_search re_match tolower c q.
Proof. intros. apply search_exact_rfree; assumption. Qed.
Print Assumptions C01_search_exact_regexp_free.

(** 10. Soundness of regexpToMatchTreeRecursive against the regexp semantics [rm] (Proofs/SearchCoreDistill.v: exact for
    literals, capture, +, {n,}, concatenation, alternation, (?-s:.)*, \b; every other operator over-approximated by
    "matches any span"): whenever the regexp matches document k somewhere, the distilled tree holds on k -- including
    the same-line conjunction (andLineMatchTree), because a singleLine regexp cannot match across a newline. *)
Theorem C01_distill_sound :
  forall (re_match : N -> list N -> bool) (tolower : N -> N) (orbit : N -> list N) (c : corpus)
         (freq : bool -> bool -> tri -> N),
  agree tolower orbit ->
  (forall fn cs g, freq fn cs g = 0%N -> post orbit (ix_tris c fn) cs g = []) ->
  (forall x, tolower x = tolower 10%N -> x = 10%N) ->
  forall (cs fn : bool) (k : nat), k < ndocs c ->
  forall (r : rx) (i j : nat), rm tolower cs (text_of c fn k) r i j ->
  sem re_match tolower c k (fst (fst (distill orbit c freq cs fn r))) = true.
Proof. exact distill_sound. Qed.
Print Assumptions C01_distill_sound.

(** 11. ... and when the distillation claims equivalence (isEqual) the converse holds. *)
Theorem C01_distill_equal :
  forall (re_match : N -> list N -> bool) (tolower : N -> N) (orbit : N -> list N) (c : corpus)
         (freq : bool -> bool -> tri -> N),
  agree tolower orbit ->
  (forall fn cs g, freq fn cs g = 0%N -> post orbit (ix_tris c fn) cs g = []) ->
  (forall x, tolower x = tolower 10%N -> x = 10%N) ->
  forall (cs fn : bool) (k : nat), k < ndocs c ->
  forall r : rx, snd (fst (distill orbit c freq cs fn r)) = true ->
  sem re_match tolower c k (fst (fst (distill orbit c freq cs fn r))) = true ->
  exists i j, rm tolower cs (text_of c fn k) r i j.
Proof. exact distill_equal. Qed.
Print Assumptions C01_distill_equal.

(** 12. TOP LEVEL with the engine characterised semantically: for every corpus and every query over the modelled atom
    kinds, if the external regexp engine is sound w.r.t. [rm] on every regexp atom and complete on the atoms that use
    only exactly-modelled operators ([engine_ok]), Search without limits returns exactly the live documents on which
    the query evaluates to true.  Still _partial: the engine itself is not modelled, [rm] over-approximates the
    operators it does not define; for symbol atoms [engine_ok] is the per-section clause of [re_ok] (well-formed
    sections; engine = literal containment on section texts where the distillation is one exact literal), not derived
    from [rm]. *)
Theorem C01_search_exact_engine_partial :
  forall (re_match : N -> list N -> bool) (tolower : N -> N) (orbit : N -> list N) (c : corpus)
         (freq : bool -> bool -> tri -> N) (q : Q),
  agree tolower orbit ->
  (forall fn cs g, freq fn cs g = 0%N -> post orbit (ix_tris c fn) cs g = []) ->
  (forall x, tolower x = tolower 10%N -> x = 10%N) ->
  engine_ok re_match tolower orbit c freq (expand (simp c q)) ->
  search re_match tolower orbit c freq q = spec_search re_match tolower c q.
Proof. exact search_exact_engine. Qed.
Print Assumptions C01_search_exact_engine_partial.

(** 12a. ONE regexp semantics.  On the fragment of regexp/syntax that [rx] represents exactly ([no_other]) the semantics
    [rm] of theorems 10-12 IS the semantics of Model/Regex.v (the regexp layer of C27/C28/C08: declarative [m], equal to
    the executable [ends] by C27_ends_exact) of the embedded regexp [emb cs r] (a literal folds case when it carries
    FoldCase or the query is case-insensitive), provided "equal after unicode.ToLower" and "equal or in the SimpleFold
    orbit" agree on (literal runes) x (text runes) and the text has no rune above U+10FFFF. *)
Theorem C01_rm_is_regex_semantics :
  forall (tolower : N -> N) (orbit2 : N -> list N) (cs : bool) (t : list N) (A : N -> Prop),
  (forall a b, A a -> In b t -> N.eqb (tolower a) (tolower b) = Regex.fold_eq orbit2 true a b) ->
  (forall b, In b t -> (b <= Regex.max_rune)%N) ->
  forall r, no_other r = true -> Forall A (lit_runes r) ->
  forall i j, rm tolower cs t r i j <-> (Regex.m orbit2 (emb cs r) t i j /\ i <= length t).
Proof. exact rm_iff_m. Qed.
Print Assumptions C01_rm_is_regex_semantics.

(** ... hence the TOP LEVEL with the engine assumption phrased against the executable semantics of Model/Regex.v
    ([engine_is_ends]: every regexp atom lies in the exact fragment and the engine's verdict on every name/content is
    "[Regex.ends (emb cs r)] is non-empty from some start position").  _partial: the engine itself is not modelled;
    regexps using operators outside the fragment (classes, ., ?, *, anchors) are only covered by theorem 12 (sound
    over-approximation [rm]).  Symbol{Regexp} atoms: the engine's verdict on the text of every symbol section is the
    same executable semantics; that a regexp distilled to ONE exact literal (the symbolSubstrMatchTree case) means
    "the literal occurs in the section text" is derived ([distill_single], [single_lit_rm]), not assumed. *)
Theorem C01_search_exact_regex_semantics_partial :
  forall (re_match : N -> list N -> bool) (tolower : N -> N) (orbit orbit2 : N -> list N) (c : corpus)
         (freq : bool -> bool -> tri -> N),
  (forall fn k b, In b (text_of c fn k) -> (b <= Regex.max_rune)%N) ->
  forall q : Q,
  agree tolower orbit ->
  (forall fn cs g, freq fn cs g = 0%N -> post orbit (ix_tris c fn) cs g = []) ->
  (forall x, tolower x = tolower 10%N -> x = 10%N) ->
  engine_is_ends re_match tolower orbit orbit2 c freq (expand (simp c q)) ->
  search re_match tolower orbit c freq q = spec_search re_match tolower c q.
Proof. exact search_exact_regex_semantics. Qed.
Print Assumptions C01_search_exact_regex_semantics_partial.

(** a regexp whose distillation is one exact substring leaf matches somewhere in a text (ANY text, e.g. a section
    text) iff that literal occurs in it *)
Theorem C01_single_literal_regexp :
  forall (tolower : N -> N) (orbit : N -> list N) (c : corpus) (freq : bool -> bool -> tri -> N) (cs fn : bool)
         (r : rx) (s : sleaf) (sl : bool),
  distill orbit c freq cs fn r = (MTsubstr s, true, sl) ->
  forall t, (exists i j, rm tolower cs t r i j) <-> contains tolower (sl_cs s) (sl_pat s) t = true.
Proof.
  intros tolower orbit c freq cs fn r s sl Hd t.
  destruct (distill_single orbit c freq cs fn r s sl Hd) as [p [f [Hs [Hp [Hc Hl]]]]].
  rewrite Hp, Hc. apply single_lit_rm; assumption.
Qed.
Print Assumptions C01_single_literal_regexp.

(** 12b. Symbol queries, the mechanism of symbolSubstrMatchTree.prepare: the two-pointer walk over the sorted sections
    and the ascending candidate offsets keeps exactly the candidates that start and end inside one section ... *)
Theorem C01_symbol_walk_is_filter : forall (n len : nat) (secs : list (nat * nat)) (cur : list nat),
  1 <= n -> secs_ok len secs -> inc cur ->
  sym_trim n secs cur = filter (in_secs n secs) cur.
Proof. exact sym_trim_filter. Qed.
Print Assumptions C01_symbol_walk_is_filter.

(** ... so that (candidates = occurrences, theorem 1) the node holds iff the pattern occurs in the text of one section *)
Theorem C01_symbol_substr_exact : forall (tolower : N -> N) (cs : bool) (p t : list N) (secs : list (nat * nat)),
  1 <= length p -> secs_ok (length t) secs ->
  match sym_trim (length p) secs (occ_offsets tolower cs p t) with [] => false | _ => true end =
  existsb (fun sec => contains tolower cs p (slice t sec)) secs.
Proof. exact sym_trim_spec. Qed.
Print Assumptions C01_symbol_substr_exact.

(** 13. The operational distanceHitIterator (findNext / first / next over two sorted posting lists, any skip sequence)
    denotes the filtered list dist_hits used by the model, and the consuming loop of ngramDocIterator.candidates takes
    exactly the hits before the end of the file. *)
Theorem C01_distance_iter_spec : forall (d : nat) (l1 l2 : list nat), inc l1 -> inc l2 ->
  let st := dmake d l1 l2 in
  (inc (fst st) /\ inc (snd st) /\ norm d st /\ dist_hits d (fst st) (snd st) = dist_hits d l1 l2) /\
  (forall st', norm d st' -> dfirst st' = hfirst (dist_hits d (fst st') (snd st'))) /\
  (forall limit st', inc (fst st') -> inc (snd st') ->
     let st'' := dnext d limit st' in
     inc (fst st'') /\ inc (snd st'') /\ norm d st'' /\
     dist_hits d (fst st'') (snd st'') = hnext limit (dist_hits d (fst st') (snd st'))).
Proof.
  intros d l1 l2 H1 H2 st. split; [apply dmake_spec; auto|]. split; [apply dfirst_spec | apply dnext_spec].
Qed.
Print Assumptions C01_distance_iter_spec.

Theorem C01_candidates_loop_spec : forall (d fuel fend : nat) (st : list nat * list nat),
  inc (fst st) -> inc (snd st) -> norm d st -> length (dist_hits d (fst st) (snd st)) < fuel ->
  let D := dist_hits d (fst st) (snd st) in
  let '(taken, st') := cand_loop fuel d fend st in
  taken = take_while (fun p => p <? fend) D /\ inc (fst st') /\ inc (snd st') /\ norm d st' /\
  dist_hits d (fst st') (snd st') = drop_while (fun p => p <? fend) D.
Proof. intros d fuel fend st. exact (cand_loop_spec d fuel fend st). Qed.
Print Assumptions C01_candidates_loop_spec.

(** 14. The loop of andLineMatchTree.matches (line skipping, candidate dropping, restart on a later line), modelled
    operationally (Model/SearchCoreIters.v: al_child / al_children / al_lines over line numbers), answers "found" exactly
    when the children have candidates on a common line -- whichever child is taken as the base (Go: the one with the
    fewest candidates); the model's [same_line] computes the same predicate with the first child as base. *)
Theorem C01_andline_loop_exact : forall (line : nat -> nat) (vs : list (list nat)) (f : nat),
  (forall a b, a <= b -> line a <= line b) -> Forall inc vs -> f < length vs ->
  (andline_alg line vs f = true <-> common_line line vs).
Proof. exact andline_alg_spec. Qed.
Print Assumptions C01_andline_loop_exact.
(** ... and the loop AS WRITTEN on offsets (lines[i] = [start, end): `bo < start` drops the candidate, `bo < end` is a hit,
    otherwise the line iterator moves on while `bo >= end`) is that line-number loop, for every newline index in which
    o < lineStart(l) <-> line(o) < l and o < lineStart(l+1) <-> line(o) <= l.  The strictness of the comparisons is what the
    equality rests on: see C01_andline_boundary_example. *)
Theorem C01_andline_offsets_are_lines :
  forall (line lstart lend : nat -> nat),
  (forall o l, o < lstart l <-> line o < l) -> (forall o l, o < lend l <-> line o <= l) ->
  forall (fuel : nat) (lines : list nat) (cs : list (list nat)),
  alo_lines true fuel (map (fun l => (lstart l, lend l)) lines) cs = al_lines fuel lines (map (map line) cs).
Proof. exact alo_lines_line. Qed.
Print Assumptions C01_andline_offsets_are_lines.

(** "needle and thread\nneedle\n": base child thread (offset 11, line 0 = [0,18)), other child needle (offsets 0 and 18): the loop
    as written finds the line; with `<=` at the line start (red-team change C01-r2) the candidate at column 0 is dropped *)
Example C01_andline_boundary_example :
  alo_lines true 2 [(0, 18)] [[0; 18]] = true /\ alo_lines false 2 [(0, 18)] [[0; 18]] = false /\ al_lines 2 [0] [[0; 1]] = true.
Proof. exact alo_boundary. Qed.

Theorem C01_same_line_is_common_line : forall (line : nat -> nat) (v0 : list nat) (vs : list (list nat)),
  existsb (fun o0 => forallb (fun v => existsb (fun o => line o =? line o0) v) (v0 :: vs)) v0 = true <-> common_line line (v0 :: vs).
Proof. exact same_line_expr_spec. Qed.
Print Assumptions C01_same_line_is_common_line.

(** 15. nextFileIndex with its galloping steps (operational model `gallop`) = the linear scan used by the model's nextDoc,
    for every sorted ends array, offset, and every valid starting hint. *)
Theorem C01_next_file_index_linear : forall (off f : nat) (ends : list nat), nondecr ends -> f <= length ends ->
  (forall j, j < f -> j < length ends -> nth j ends 0 <= off) ->
  next_file_index off f ends = find_end off ends 0.
Proof. exact next_file_index_linear. Qed.
Print Assumptions C01_next_file_index_linear.

(** 16. mergingIterator (case variants): first() = the least position of all merged posting lists, next(limit) keeps exactly
    the positions above the limit. *)
Theorem C01_merging_iter_spec : forall (ls : list (list nat)), Forall inc ls ->
  match mfirst ls with
  | None => forall l, In l ls -> l = []
  | Some m => (exists l, In l ls /\ In m l) /\ forall l p, In l ls -> In p l -> m <= p
  end /\
  forall limit, Forall inc (mnext limit ls) /\
     forall p, (exists l, In l (mnext limit ls) /\ In p l) <-> (limit < p /\ exists l, In l ls /\ In p l).
Proof. exact merging_iter_spec. Qed.
Print Assumptions C01_merging_iter_spec.

(** 17. The singleLine decision of regexpToMatchTreeRecursive, over the FULL regexp AST of Model/Regex.v and against its
    semantics [Regex.m] (= the executable [ends], C27_ends_exact).  A concatenation whose parts are all flagged singleLine is
    searched with an andLineMatchTree, which drops every document whose literals do not share a line BEFORE the engine
    runs - sound only if a flagged regexp cannot match across a newline.  [single_line tbl r] is the flag, with the set
    [tbl] of star operand operators taken as same-line separators as a parameter (the code's own set is read from
    index/eval.go by translator/c01distill in every run: Generated/DistillSwitch.v).
    (a) for EVERY table of one-rune operators that cannot consume a newline: every position inside a match of a flagged
        regexp lies on the line where the match starts (hypothesis on the fold orbit: '\n' folds to itself only); *)
Theorem C01_single_line_flag_sound : forall (orbit : N -> list N), (forall r, ~ In 10%N (orbit r)) ->
  forall (tbl : list String.string) (r : Regex.re) (t : list N) (i j : nat),
  table_safe tbl = true -> single_line tbl r = true -> Regex.m orbit r t i j ->
  forall o, i <= o -> o <= j -> line_of t o = line_of t i.
Proof. intros orbit Ho tbl r t i j. exact (single_line_one_line orbit Ho tbl r t i j). Qed.
Print Assumptions C01_single_line_flag_sound.
(** (b) the shortcut for  lit1 SEP lit2 : whenever the separator is included in [^\n]* (every match of SEP is a match of
        (?-s:.)* ), a match of the concatenation contains an occurrence of each literal, both on ONE line; *)
Theorem C01_andline_sound : forall (orbit : N -> list N), (forall r, ~ In 10%N (orbit r)) ->
  forall (sep : Regex.re) (f1 : bool) (l1 : list N) (f2 : bool) (l2 t : list N) (i j : nat),
  (forall t i j, Regex.m orbit sep t i j -> Regex.m orbit (Regex.RStar Regex.RAnyNotNL) t i j) ->
  memN 10 l1 = false -> memN 10 l2 = false ->
  Regex.m orbit (Regex.RConcat [Regex.RLit f1 l1; sep; Regex.RLit f2 l2]) t i j ->
  exists o1 o2, i <= o1 /\ o1 + length l1 <= o2 /\ o2 + length l2 = j /\
    Regex.lit_m orbit f1 l1 t o1 (o1 + length l1) /\ Regex.lit_m orbit f2 l2 t o2 (o2 + length l2) /\ line_of t o1 = line_of t o2.
Proof. intros orbit Ho sep f1 l1 f2 l2 t i j. exact (andline_sound orbit Ho sep f1 l1 f2 l2 t i j). Qed.
Print Assumptions C01_andline_sound.
(** (c) REFUTED for the dot-all star: with OpAnyChar in the table, foo(?s:.)*bar is flagged singleLine and matches the
        whole of "foo\nbar" (ends = [7]), yet no occurrence of foo shares a line with an occurrence of bar - the
        andLineMatchTree would drop the document.  (The table with OpAnyChar is not [table_safe].) *)
Theorem C01_andline_dotall_refuted :
  single_line tbl_dotall foo_dotall_bar = true /\
  Regex.ends no_orbit foo_dotall_bar foo_nl_bar 0 = [7] /\
  share_line [102; 111; 111]%N [98; 97; 114]%N foo_nl_bar = false /\
  table_safe tbl_dotall = false.
Proof. exact dotall_refuted. Qed.
Print Assumptions C01_andline_dotall_refuted.
(** (d) the CODE UNDER CHECK: the star operands that index/eval.go declares singleLine (Generated/DistillSwitch.v) form a
        safe table - an obligation discharged by computation on the regenerated table - hence (a) holds for the code's flag; *)
Theorem C01_code_star_separators_exclude_newline : table_safe (star_sl_ops DistillSwitch.star_rules) = true.
Proof. exact code_star_table_safe. Qed.
Print Assumptions C01_code_star_separators_exclude_newline.
Theorem C01_code_single_line_flag_sound : forall (orbit : N -> list N), (forall r, ~ In 10%N (orbit r)) ->
  forall (r : Regex.re) (t : list N) (i j : nat),
  single_line (star_sl_ops DistillSwitch.star_rules) r = true -> Regex.m orbit r t i j ->
  forall o, i <= o -> o <= j -> line_of t o = line_of t i.
Proof. exact code_single_line_sound. Qed.
Print Assumptions C01_code_single_line_flag_sound.
(** (e) the tie to the rest of the model: the `switch r.Op` of the code (operators with a clause, the OpStar rule, the singleLine
        expression of the OpLiteral clause, the final return) is the one that [distill] on the projected syntax [rx] was written against, and the singleLine result of
        [distill] on the projection IS the decision over the full AST (all regexps, all tables). *)
Theorem C01_code_switch_as_modelled :
  switch_as_modelled DistillSwitch.handled_ops DistillSwitch.star_rules DistillSwitch.lit_single_line DistillSwitch.default_flags = true.
Proof. exact code_switch_as_modelled. Qed.
Print Assumptions C01_code_switch_as_modelled.
Theorem C01_distill_single_line_is_ast_decision : forall (g : N -> list N) (c : corpus) (freq : bool -> bool -> tri -> N)
  (tbl : list String.string) (cs fn : bool) (r : Regex.re),
  snd (distill g c freq cs fn (proj tbl r)) = single_line tbl r.
Proof. exact distill_single_line. Qed.
Print Assumptions C01_distill_single_line_is_ast_decision.

(** the frequency function used by the correspondence runner satisfies the frequency hypothesis *)
Lemma count_freq_sound : forall orbit c fn cs g, count_freq orbit c fn cs g = 0%N -> post orbit (ix_tris c fn) cs g = [].
Proof.
  intros orbit c fn cs g H. unfold count_freq in H. unfold ix_tris.
  destruct (post orbit (all_tris (texts c fn)) cs g); [reflexivity|]. simpl in H. lia.
Qed.
Lemma varlen_pos : forall x, 0 < varlen x.
Proof. intro x. unfold varlen. generalize 10 as f. intros f. destruct f; simpl; [lia|]. destruct (x <? 128); lia. Qed.
Lemma blob_size_zero : forall l last, blob_size last l = 0 -> l = [].
Proof. destruct l as [|p r]; intros last H; [reflexivity|]. simpl in H. pose proof (varlen_pos (p - last)). lia. Qed.
Lemma tri_eqb_eq : forall a b, tri_eqb a b = true <-> a = b.
Proof.
  intros [[a1 a2] a3] [[b1 b2] b3]. unfold tri_eqb. rewrite !andb_true_iff, !N.eqb_eq. split; [intros [[-> ->] ->]; reflexivity | intro H; inversion H; auto].
Qed.
Lemma variants_In : forall orbit g v, In v (variants orbit g) <->
  let '(g1, g2, g3) := g in let '(v1, v2, v3) := v in In v1 (orbit g1) /\ In v2 (orbit g2) /\ In v3 (orbit g3).
Proof.
  intros orbit [[g1 g2] g3] [[v1 v2] v3]. unfold variants. rewrite in_flat_map. split.
  - intros [x [Hx H]]. apply in_flat_map in H. destruct H as [y [Hy H]]. apply in_map_iff in H. destruct H as [z [E Hz]]. inversion E; subst. auto.
  - intros [H1 [H2 H3]]. exists v1. split; [auto|]. apply in_flat_map. exists v2. split; [auto|]. apply in_map_iff. exists v3. auto.
Qed.
Lemma real_freq_sound : forall orbit c fn cs g, real_freq orbit c fn cs g = 0%N -> post orbit (ix_tris c fn) cs g = [].
Proof.
  intros orbit c fn cs g H. unfold real_freq in H. unfold ix_tris. destruct cs.
  - apply (blob_size_zero _ 0). lia.
  - assert (Hall : forall v, In v (variants orbit g) -> post orbit (all_tris (texts c fn)) true v = []).
    { assert (Hs : fold_right (fun v a => blob_size 0 (post orbit (all_tris (texts c fn)) true v) + a) 0 (variants orbit g) = 0) by lia.
      clear H. induction (variants orbit g) as [|v l IH]; intros v' Hv'; [destruct Hv'|]. simpl in Hs.
      destruct Hv' as [<-|Hv']; [apply (blob_size_zero _ 0); lia | apply IH; [lia | auto]]. }
    destruct (post orbit (all_tris (texts c fn)) false g) as [|p l] eqn:E; [reflexivity|]. exfalso.
    assert (Hp : In p (post orbit (all_tris (texts c fn)) false g)) by (rewrite E; left; reflexivity).
    apply post_In in Hp. destruct Hp as [t' [Hin Hm]].
    assert (Hv : In t' (variants orbit g)).
    { apply variants_In. destruct g as [[g1 g2] g3]. destruct t' as [[t1 t2] t3]. simpl in Hm.
      rewrite !andb_true_iff in Hm. destruct Hm as [[M1 M2] M3]. apply memN_In in M1, M2, M3. auto. }
    assert (Hp' : In p (post orbit (all_tris (texts c fn)) true t')).
    { apply post_In. exists t'. split; [exact Hin|]. simpl. apply tri_eqb_eq. reflexivity. }
    rewrite (Hall t' Hv) in Hp'. destruct Hp'.
Qed.
(** the top-level theorem as instantiated by the correspondence runner (real frequencies = posting list byte sizes) *)
Theorem C01_search_exact_runner_partial :
  forall (re_match : N -> list N -> bool) (tolower : N -> N) (orbit : N -> list N) (c : corpus) (q : Q),
  agree tolower orbit ->
  re_okb re_match tolower orbit c (real_freq orbit c) (expand (simp c q)) = true ->
  search re_match tolower orbit c (real_freq orbit c) q = spec_search re_match tolower c q.
Proof. intros. apply search_exact_checked; auto. intros. apply real_freq_sound. assumption. Qed.
Print Assumptions C01_search_exact_runner_partial.

(* ------------------------------------------------------------------ non-vacuity *)
Definition alower (x : N) : N := if ((65 <=? x) && (x <=? 90))%N then (x + 32)%N else x.
Definition aorbit (x : N) : list N :=
  if ((65 <=? x) && (x <=? 90))%N then [x; (x + 32)%N]
  else if ((97 <=? x) && (x <=? 122))%N then [x; (x - 32)%N] else [x].
Example agree_ascii : agree alower aorbit.
Proof.
  intros c c' H. unfold alower, aorbit in *.
  destruct ((65 <=? c) && (c <=? 90))%N eqn:E1; destruct ((65 <=? c') && (c' <=? 90))%N eqn:E2;
    destruct ((97 <=? c) && (c <=? 122))%N eqn:E3; simpl; lia.
Qed.

Definition ex_repo (nm : list N) (tomb : bool) : repo :=
  {| r_name := nm; r_id := 7; r_tomb := tomb; r_ftombs := [[120; 46; 103; 111]]%N; r_branches := [[109]]%N; r_rawmask := 0 |}.
Definition ex_doc (nm ct : list N) (rp : nat) : doc := {| d_name := nm; d_content := ct; d_mask := 1; d_repo := rp; d_lang := 0; d_secs := [(1, Nat.min 5 (length ct))] |}.
(** docs: "a.go":"xabcabx"  "b.go":"ABCA" (repo 0);  "c.go":"abca" (tombstoned repo 1);  "x.go":"abca" (file tombstone); "d":"ab" *)
Definition ex_corpus : corpus :=
  {| c_repos := [ex_repo [114]%N false; ex_repo [115]%N true];
     c_docs := [ex_doc [97; 46; 103; 111]%N [120; 97; 98; 99; 97; 98; 120]%N 0; ex_doc [98; 46; 103; 111]%N [65; 66; 67; 65]%N 0;
                ex_doc [99; 46; 103; 111]%N [97; 98; 99; 97]%N 1; ex_doc [120; 46; 103; 111]%N [97; 98; 99; 97]%N 0;
                ex_doc [100]%N [97; 98]%N 0];
     c_langs := [] |}.
(** (content:"abca" case-insensitive  or  file:"d")  and not content:"zz" *)
Definition ex_query : Q :=
  QAnd [QOr [QSubstr [97; 98; 99; 97]%N false false true; QSubstr [100]%N true true false]; QNot (QSubstr [122; 122]%N true false true)].
Definition ex_re (_ : N) (_ : list N) : bool := false.
Example ex_hyp : re_okb ex_re alower aorbit ex_corpus (count_freq aorbit ex_corpus) (expand (simp ex_corpus ex_query)) = true.
Proof. vm_compute. reflexivity. Qed.
Example ex_rfree : rfree ex_query = true. Proof. reflexivity. Qed.
Example ex_search : search ex_re alower aorbit ex_corpus (count_freq aorbit ex_corpus) ex_query = [0; 1; 4].
Proof. vm_compute. reflexivity. Qed.
Example ex_spec : spec_search ex_re alower ex_corpus ex_query = [0; 1; 4].
Proof. vm_compute. reflexivity. Qed.
(** symbol queries on the same corpus (every document has one section, runes 1..min(5, length) of the content): sym:"abca"
    (case-insensitive) selects a.go ("xabcabx": section text "abca") only - in b.go "ABCA" starts at 0, outside the section;
    sym:"bca" case-sensitive and not sym:"cab" *)
Definition ex_symq : Q := QOr [QSymSubstr [97; 98; 99; 97]%N false; QAnd [QSymSubstr [98; 99; 97]%N true; QNot (QSymSubstr [99; 97; 98]%N true)]].
Example ex_sym_wf : secs_wf ex_corpus.
Proof. intros k Hk. unfold ndocs in Hk. simpl in Hk. do 5 (destruct k as [|k]; [vm_compute; reflexivity|]). lia. Qed.
Example ex_sym_rfree : rfree ex_symq = true. Proof. reflexivity. Qed.
Example ex_sym_search : search ex_re alower aorbit ex_corpus (count_freq aorbit ex_corpus) ex_symq = [0]
  /\ spec_search ex_re alower ex_corpus ex_symq = [0]
  /\ spec_search ex_re alower ex_corpus (QSymSubstr [66; 67; 65]%N true) = [1].
Proof. vm_compute. auto. Qed.
Example ex_sym_walk : sym_trim 2 [(0, 3); (3, 4); (6, 9)] [0; 1; 2; 3; 5; 6; 7; 8] = [0; 1; 6; 7].
Proof. vm_compute. reflexivity. Qed.
(** candidates: pattern "abca" (trigrams abc@0, bca@1) in texts ["xabcabx"; "abca"; "ab"], document 0 *)
Definition ex_ts : list (list N) := [[120; 97; 98; 99; 97; 98; 120]; [97; 98; 99; 97]; [97; 98]]%N.
Example ex_cands : filter (occurs_at alower true [97; 98; 99; 97]%N (nth 0 ex_ts []))
    (cands_of ex_ts (hits_of aorbit (all_tris ex_ts) true [97; 98; 99; 97]%N 0 1) 0 4 0) = [1].
Proof. vm_compute. reflexivity. Qed.
(** word fast path: "xa a a" contains \ba a\b at offset 3 only (overlapping a rejected occurrence at 1) *)
Example ex_word : word_scan alower [97; 32; 97]%N [120; 97; 32; 97; 32; 97]%N 0 7 = [3] /\
                  word_ref alower [97; 32; 97]%N [120; 97; 32; 97; 32; 97]%N = true.
Proof. vm_compute. auto. Qed.
(** selection: pattern of 6 runes, frequencies favouring the overlapping trigrams 1 and 2 -> shifted apart *)
Example ex_select : select_idx (sort_offs (pat_tris [97; 98; 99; 100; 101; 102]%N)) [9; 1; 1; 9]%N = (0, 3).
Proof. vm_compute. reflexivity. Qed.
(** regexp semantics: (foo)+.*bar matches "xfoofoo_bar" from 1 to 11; distilled tree = same-line conjunction of foo and bar *)
Example ex_rm : rm alower true [120; 102; 111; 111; 102; 111; 111; 95; 98; 97; 114]%N
    (RConcat [RPlus (RCapture (RLit [102; 111; 111]%N false)); RStarAnyNotNL; RLit [98; 97; 114]%N false]) 1 11.
Proof.
  apply rm_cat. eapply rmc_cons with (m := 7).
  - eapply rm_plusS with (m := 4); [apply rm_cap; apply (rm_lit alower true _ [102; 111; 111]%N false 1); [reflexivity | simpl; lia]|].
    apply rm_plus1. apply rm_cap. apply (rm_lit alower true _ [102; 111; 111]%N false 4); [reflexivity | simpl; lia].
  - eapply rmc_cons with (m := 8).
    + apply rm_star; [lia | simpl; lia|]. intros p H1 H2. assert (p = 7) by lia. subst. discriminate.
    + eapply rmc_cons; [apply (rm_lit alower true _ [98; 97; 114]%N false 8); [reflexivity | simpl; lia]|]. apply rmc_nil. simpl. lia.
Qed.
(** the same regexp in the executable semantics of Model/Regex.v (ASCII instance of its orbit parameter): matches from
    offset 1, nowhere in "xfoo_baz"; the bridging hypothesis holds for the ASCII instance on all runes *)
Definition aorbit2 (x : N) : list N :=
  if ((65 <=? x) && (x <=? 90))%N then [(x + 32)%N] else if ((97 <=? x) && (x <=? 122))%N then [(x - 32)%N] else [].
Definition ex_rx : rx := RConcat [RPlus (RCapture (RLit [102; 111; 111]%N false)); RStarAnyNotNL; RLit [98; 97; 114]%N false].
Example ex_ends : Regex.ends aorbit2 (emb true ex_rx) [120; 102; 111; 111; 102; 111; 111; 95; 98; 97; 114]%N 1 = [11]
  /\ matches_somewhere aorbit2 true ex_rx [120; 102; 111; 111; 102; 111; 111; 95; 98; 97; 114]%N = true
  /\ matches_somewhere aorbit2 true ex_rx [120; 102; 111; 111; 95; 98; 97; 122]%N = false
  /\ matches_somewhere aorbit2 false ex_rx [120; 70; 79; 111; 95; 66; 97; 114]%N = true
  /\ no_other ex_rx = true.
Proof. vm_compute. auto 10. Qed.
Example ex_bridge : forall a b, N.eqb (alower a) (alower b) = Regex.fold_eq aorbit2 true a b.
Proof.
  intros a b. unfold alower, Regex.fold_eq, aorbit2. simpl.
  destruct ((65 <=? a) && (a <=? 90))%N eqn:E1; destruct ((65 <=? b) && (b <=? 90))%N eqn:E2;
    destruct ((97 <=? a) && (a <=? 122))%N eqn:E3; simpl; lia.
Qed.
Example alower_nl : forall x, alower x = alower 10%N -> x = 10%N.
Proof. intros x H. unfold alower in H. destruct ((65 <=? x) && (x <=? 90))%N eqn:E; simpl in H; lia. Qed.
(** distance iterator: posting lists of two trigrams at distance 2; hits 3 and 10; candidates before position 8 *)
Example ex_dist : let st := dmake 2 [1; 3; 6; 10] [4; 5; 9; 12] in
  dfirst st = Some 3 /\ dfirst (dnext 2 3 st) = Some 10 /\ fst (cand_loop 5 2 8 st) = [3].
Proof. vm_compute. auto. Qed.
(** same-line loop: lines are 10 runes long; child 0 has candidates at 3, 25; child 1 at 14, 27; child 2 at 21 -> common line 2 *)
Example ex_andline : andline_alg (fun o => o / 10) [[3; 25]; [14; 27]; [21]] 2 = true /\
                     andline_alg (fun o => o / 10) [[3; 25]; [14; 37]; [21]] 2 = false.
Proof. vm_compute. auto. Qed.
Example ex_gallop : next_file_index 57 0 [3; 3; 10; 20; 31; 40; 55; 57; 60; 72] = 8 /\ find_end 57 [3; 3; 10; 20; 31; 40; 55; 57; 60; 72] 0 = 8.
Proof. vm_compute. auto. Qed.
Example ex_merge : mfirst [[5; 9]; []; [2; 7]] = Some 2 /\ mnext 5 [[5; 9]; []; [2; 7]] = [[9]; []; [7]].
Proof. vm_compute. auto. Qed.

(** singleLine over the full AST: (foo)+.*bar is flagged and matches "xfoofoo_bar" from 1 to 11 - all on line 0 of
    "xfoofoo_bar\nbar"; foo(?s:.)*bar and foo[^a]*bar are not flagged under the code's table; the ASCII orbit never
    contains the newline; the separator .{2,} = (?-s:.){2,} is included in (?-s:.)* *)
Definition ex_re_full : Regex.re :=
  Regex.RConcat [Regex.RPlus (Regex.RCapture (Regex.RLit false [102; 111; 111]%N)); Regex.RStar Regex.RAnyNotNL; Regex.RLit false [98; 97; 114]%N].
Example ex_single_line : single_line (star_sl_ops DistillSwitch.star_rules) ex_re_full = true
  /\ Regex.ends aorbit2 ex_re_full [120; 102; 111; 111; 102; 111; 111; 95; 98; 97; 114; 10; 98; 97; 114]%N 1 = [11]
  /\ single_line (star_sl_ops DistillSwitch.star_rules) foo_dotall_bar = false
  /\ single_line (star_sl_ops DistillSwitch.star_rules)
       (Regex.RConcat [Regex.RLit false [102; 111; 111]%N; Regex.RStar (Regex.RClass [(0, 96); (98, 1114111)]%N); Regex.RLit false [98; 97; 114]%N]) = false
  /\ proj (star_sl_ops DistillSwitch.star_rules) ex_re_full = ex_rx
  /\ star_sl_ops DistillSwitch.star_rules = tbl_notnl.
Proof. vm_compute. auto 10. Qed.
Example ex_orbit_nl : forall r, ~ In 10%N (aorbit2 r).
Proof.
  intros r. unfold aorbit2. destruct ((65 <=? r) && (r <=? 90))%N eqn:E1; [simpl; lia|].
  destruct ((97 <=? r) && (r <=? 122))%N eqn:E2; simpl; lia.
Qed.
Example ex_sep_included : forall orbit t i j,
  Regex.m orbit (Regex.RRepeat 2 None Regex.RAnyNotNL) t i j -> Regex.m orbit (Regex.RStar Regex.RAnyNotNL) t i j.
Proof. intros orbit t i j (n & _ & _ & H). exists n. exact H. Qed.
