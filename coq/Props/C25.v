From ZV Require Import Lib.Base Model.Stream.
Theorem C25_placeholder : True. Proof. exact I. Qed.
Print Assumptions C25_placeholder.
