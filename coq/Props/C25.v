(** C25 — streaming delivers every file once and conserves statistics (model: Model/Stream.v).
    [deliver maxsz evs] = the messages put on the gRPC stream when the shards produce the results [evs]
    (samplingSender.Send for each, then Flush; every forwarded event through gRPCChunkSender / chunk.SendAll). *)
From ZV Require Import Lib.Base Model.Stream Model.StreamCollect Proofs.Stream Proofs.StreamCollect.
From ZV Require Import Generated.StatsFields Proofs.StatsFields.
From Coq Require Import Permutation.
Open Scope Z_scope.

(** every file match is delivered exactly once and in the order produced — for every event list *)
Theorem C25_files_exactly_once_in_order : forall (maxsz : N) (evs : list event),
  concat (map m_files (deliver maxsz evs)) = concat (map ev_files evs).
Proof. exact deliver_files. Qed.
Print Assumptions C25_files_exactly_once_in_order.

(** for every counter (index i of the counter vector) the sum over the delivered messages equals the sum over
    the produced results — for every event list whose counters are non-negative (Stats.Zero tests "> 0") *)
Theorem C25_stats_conserved : forall (maxsz : N) (i : nat) (evs : list event),
  Forall (fun e => Forall (fun x => 0 <= x) (st_cnt (ev_stats e))) evs ->
  zsum (msg_cnt i) (deliver maxsz evs) = zsum (ev_cnt i) evs.
Proof. exact deliver_cnt. Qed.
Print Assumptions C25_stats_conserved.

(** every message stays under the budget unless it carries a single file (or none) *)
Theorem C25_chunk_budget : forall (maxsz : N) (evs : list event),
  Forall (fun m => (fsize (m_files m) < maxsz)%N \/ (length (m_files m) <= 1)%nat) (deliver maxsz evs).
Proof. exact deliver_budget. Qed.
Print Assumptions C25_chunk_budget.

(** flushes drain: the chunker hands over everything it was given (nothing stays buffered), and at any point
    before samplingSender.Flush what has been delivered plus the pending aggregate is what was produced
    (so the only thing Flush has to send, and does send, is that aggregate) — no sign assumption here *)
Theorem C25_flush_drains : forall (maxsz : N),
  (forall fs : list file, concat (chunks maxsz fs) = fs) /\
  (forall (i : nat) (evs : list event),
     zsum (msg_cnt i) (flat_map (grpc_send maxsz) (snd (sampler_run sampler0 evs)))
     + cnt_at i (agg (fst (sampler_run sampler0 evs))) = zsum (ev_cnt i) evs) /\
  (forall (i : nat) (s : sampler), Forall (fun x => 0 <= x) (st_cnt (agg s)) ->
     zsum (ev_cnt i) (sampler_flush s) = cnt_at i (agg s)).
Proof.
  intros maxsz. split; [|split].
  - intros fs. unfold chunks. rewrite chunk_go_concat. reflexivity.
  - intros i evs. pose proof (pending_accounted maxsz i evs) as H.
    destruct (sampler_run sampler0 evs) as [s out]. exact H.
  - intros i s H. apply sampler_flush_cnt. exact H.
Qed.
Print Assumptions C25_flush_drains.

(** the non-negativity hypothesis of C25_stats_conserved is needed: Stats.Zero treats a negative aggregate as empty *)
Theorem C25_stats_conserved_needs_nonneg_refuted : exists (evs : list event),
  zsum (msg_cnt 0) (deliver 1048576 evs) <> zsum (ev_cnt 0) evs.
Proof. exists [mkev [] (mkstats [-5] 0 0%N) (Some 0) (Some 0)]. vm_compute. discriminate. Qed.
Print Assumptions C25_stats_conserved_needs_nonneg_refuted.

(** ---- Stats.Zero against Stats.Add, field by field. Generated/StatsFields.v is regenerated on every run from the
    sources of the tree under check (translator/statsfields: the fields of `type Stats struct`, the `s.X += o.X` of
    Stats.Add, the `s.X > 0` of Stats.Zero); the statements below are about THOSE lists, so they stop checking when
    api.go changes in a way that breaks them. *)

(** the model's Stats.Zero: on non-negative counters it answers "every counter is 0" — the sampler drops an
    aggregate (at the 100th event, when merging, in Flush) only when there is nothing in it *)
Theorem C25_zero_iff_all_counters_zero : forall s : stats,
  Forall (fun x => 0 <= x) (st_cnt s) ->
  (stats_zero s = true <-> Forall (fun x => x = 0) (st_cnt s)).
Proof. exact stats_zero_iff_all_zero. Qed.
Print Assumptions C25_zero_iff_all_counters_zero.

(** Stats.Zero of the tree under check tests exactly the fields that Stats.Add sums (as sets; Add sums no field
    twice or into another field; no statement of Add / leaf of Zero that the translator does not understand) *)
Theorem C25_zero_tests_every_summed_counter : zero_add_agree = true.
Proof. vm_compute. reflexivity. Qed.
Print Assumptions C25_zero_tests_every_summed_counter.

(** every field of zoekt.Stats is summed by Stats.Add or is a named exception (Duration: not touched;
    FlushReason: first non-zero wins), the exceptions are neither summed nor tested, every summed field is a
    signed integer *)
Theorem C25_add_sums_every_counter_field : fields_accounted = true.
Proof. vm_compute. reflexivity. Qed.
Print Assumptions C25_add_sums_every_counter_field.

(** hence the anonymous-vector model IS Zero / Add as written in api.go: on the counter vector labelled with the field
    names (summed fields in struct order — the order in which the harness hands the counters over), "Zero looks at the
    fields it names" = [stats_zero], "Add sums the fields it names" = [vadd] *)
Theorem C25_named_zero_add_are_the_model : forall (a b : list Z),
  length a = length stats_counter_order -> length b = length stats_counter_order ->
  zero_named stats_zero_tested (combine stats_counter_order a) = stats_zero (mkstats a 0 0%N)
  /\ map snd (add_named stats_add_summed (combine stats_counter_order a) (combine stats_counter_order b)) = vadd a b.
Proof.
  intros a b Ha Hb. split.
  - apply zero_named_all; [vm_compute; reflexivity | symmetry; exact Ha].
  - apply add_named_all; [vm_compute; reflexivity | symmetry; exact Ha | symmetry; exact Hb].
Qed.
Print Assumptions C25_named_zero_add_are_the_model.

(** ---- with the collect stage in front (search/aggregate.go: newFlushCollectSender), for EVERY flush point
    (timer after k results, or only the final flush) and any ranking function that permutes its input:
    shards -> flushCollectSender -> samplingSender -> gRPCChunkSender -> stream *)
Theorem C25_collect_stats_conserved : forall (rank : list file -> list file) (maxsz : N) (i : nat) (fp : option nat) (evs : list event),
  Forall (fun e => Forall (fun x => 0 <= x) (st_cnt (ev_stats e))) evs ->
  zsum (msg_cnt i) (deliver_fc rank maxsz fp evs) = zsum (ev_cnt i) evs.
Proof. exact deliver_fc_cnt. Qed.
Print Assumptions C25_collect_stats_conserved.

(** every file is delivered exactly once (the delivered files are a permutation of the produced files; what is
    produced after the flush point is delivered in the order produced, after the ranked aggregate) *)
Theorem C25_collect_files_exactly_once : forall (rank : list file -> list file),
  (forall l, Permutation (rank l) l) ->
  forall (maxsz : N) (fp : option nat) (evs : list event),
  Permutation (concat (map m_files (deliver_fc rank maxsz fp evs))) (concat (map ev_files evs))
  /\ (forall k, fp = Some k -> exists pre, Permutation pre (concat (map ev_files (firstn k evs)))
        /\ concat (map m_files (deliver_fc rank maxsz fp evs)) = pre ++ concat (map ev_files (skipn k evs))).
Proof.
  intros rank Hr maxsz fp evs. split; [exact (deliver_fc_files rank Hr maxsz fp evs)|].
  intros k E. subst fp. exact (deliver_fc_files_order rank Hr maxsz k evs).
Qed.
Print Assumptions C25_collect_files_exactly_once.

(** ---- non-vacuity *)
Definition ex_ev_stats (k : Z) : event := mkev [] (mkstats [k; 1] 7 0%N) (Some 3) (Some 1).
Definition ex_evs : list event :=
  repeat (ex_ev_stats 2) 100 ++ [mkev [(1%N, 600000%N); (2%N, 600000%N); (3%N, 10%N)] (mkstats [5; 0] 9 2%N) (Some 4) (Some 2)]
  ++ repeat (ex_ev_stats 1) 3.
Example C25_ex_nonneg : Forall (fun e => Forall (fun x => 0 <= x) (st_cnt (ev_stats e))) ex_evs.
Proof. repeat (constructor; [repeat (constructor; try (vm_compute; discriminate))|]). constructor. Qed.
(** 100 stats-only events -> one sampled message; the file event is split in two chunks (stats on the first
    only, MaxPendingPriority patched on the first); the trailing stats are sent by Flush with progress -Inf *)
Example C25_ex_deliver :
  map (fun m => (map fst (m_files m), option_map st_cnt (m_stats m), m_prio m, m_maxp m)) (deliver 1048576 ex_evs)
  = [ ([], Some [200; 100], Some 3, Some 1);
      ([1%N], Some [5; 0], Some 4, Some 4);
      ([2%N; 3%N], None, Some 4, Some 2);
      ([], Some [3; 3], None, None) ].
Proof. vm_compute. reflexivity. Qed.
Example C25_ex_sums : zsum (msg_cnt 0) (deliver 1048576 ex_evs) = 208 /\ zsum (ev_cnt 0) ex_evs = 208.
Proof. vm_compute. split; reflexivity. Qed.
(** a first file at/over the budget produces an empty first chunk that carries the stats *)
Example C25_ex_huge_first :
  map (fun m => (map fst (m_files m), option_map st_cnt (m_stats m))) (deliver 1048576 [mkev [(1%N, 1048576%N); (2%N, 5%N)] (mkstats [1] 0 0%N) (Some 0) (Some 0)])
  = [([], Some [1]); ([1%N], None); ([2%N], None)].
Proof. vm_compute. reflexivity. Qed.
Example C25_ex_collect :
  map (fun m => (map fst (m_files m), option_map st_cnt (m_stats m), option_map st_fr (m_stats m)))
      (deliver_fc sort_files 1048576 (Some 2%nat)
         [mkev [(3%N, 10%N)] (mkstats [1; 0] 0 0%N) (Some 1) (Some 9); mkev [(1%N, 10%N); (2%N, 10%N)] (mkstats [2; 5] 0 4%N) (Some 7) (Some 8);
          mkev [(4%N, 10%N)] (mkstats [10; 0] 0 0%N) (Some 2) (Some 3)])
  = [([1%N; 2%N; 3%N], Some [3; 5], Some 1%N); ([4%N], Some [10; 0], Some 0%N)].
Proof. vm_compute. reflexivity. Qed.
Example C25_ex_rank_perm : Permutation (sort_files [(2%N, 0%N); (1%N, 0%N)]) [(2%N, 0%N); (1%N, 0%N)].
Proof. vm_compute. apply perm_swap. Qed.
(** Stats.Zero law: non-vacuity (a non-negative vector that is Zero, one that is not; Duration / FlushReason ignored) *)
Example C25_ex_zero : stats_zero (mkstats [0; 0; 0] 7 2%N) = true /\ stats_zero (mkstats [0; 0; 3] 0 0%N) = false
  /\ Forall (fun x => 0 <= x) [0; 0; 3].
Proof. split; [|split]; [vm_compute; reflexivity | vm_compute; reflexivity | repeat constructor; discriminate]. Qed.
(** the generated lists are not empty, and a one-hot aggregate on the LAST counter of the vector is not Zero by name *)
Example C25_ex_fields : stats_add_summed <> [] /\ length stats_counter_order = length stats_zero_tested
  /\ zero_named stats_zero_tested (combine stats_counter_order (repeat 0 (length stats_counter_order - 1) ++ [1])) = false.
Proof. split; [discriminate | split; vm_compute; reflexivity]. Qed.
