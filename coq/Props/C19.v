From ZV Require Import Lib.Base Model.Watcher.
(** intermediate: the faithful model of the unrepaired versionFromPath panics *)
Theorem C19_version_from_path_no_panic_refuted : exists p, version_from_path p = Panic 1.
Proof. exists [120; 95; 46; 122]%N. vm_compute. reflexivity. Qed.
Print Assumptions C19_version_from_path_no_panic_refuted.
