(** C19 — shard reloads converge to disk and every snapshot is consistent (model half; the data-race /
    use-after-unmap half is runtime behaviour and is NOT covered by these theorems: see NOTES.md).
    Model: Model/Watcher.v; proofs: Proofs/Watcher.v.
    [sel_pure cur next L] is the set of files scan keeps for listing L, [nv e] = versionFromPath of e's path,
    [scan_pure] is scan's result ([C19_scan_never_panics] shows scan = Ok scan_pure on EVERY input). *)
From ZV Require Import Lib.Base Model.Watcher Proofs.Watcher Model.WatchLoop Proofs.WatchLoop Proofs.WatchCompose.
From ZV Require Import Model.RankedStore Proofs.RankedStore Proofs.WatcherStore.

(** versionFromPath and DirectoryWatcher.scan terminate without panic on every path / listing / state
    (after fix 5288900; before it C19_version_from_path_no_panic_refuted held: "x_.z" panicked). *)
Theorem C19_scan_never_panics : forall (cur next : Z) (L : list fent) (st : wstate) (p : path),
  version_from_path p = Ok (vfp p) /\ scan cur next L st = Ok (scan_pure cur next L st).
Proof. intros. split; [apply version_from_path_ok|apply scan_ok]. Qed.
Print Assumptions C19_scan_never_panics.

(** scan selects exactly the newest supported format version per shard name among the *.zoekt files. *)
Theorem C19_selects_newest_supported : forall (cur next : Z) (L : list fent) (e : fent),
  In e (sel_pure cur next L) <->
  In e (globbed L) /\ (0 <= snd (nv e))%Z /\ (snd (nv e) = 0%Z \/ supported cur next (snd (nv e)) = true) /\
  (forall e', In e' (globbed L) -> fst (nv e') = fst (nv e) -> supported cur next (snd (nv e')) = true ->
              (snd (nv e') <= snd (nv e))%Z).
Proof. exact selected_spec. Qed.
Print Assumptions C19_selects_newest_supported.

(** Convergence, at EVERY scan of ANY history of directory listings starting from the empty watcher, as
    long as a file never changes content while keeping its effective mtime ([chain_ok] = unique paths +
    [discriminates] between consecutive listings): after scanning the last listing L the loaded map is
    duplicate-free, holds only selected files, holds every loadable selected file with its CURRENT content
    (sidecar mtime respected through eff_mtime), and a second scan of L is a no-op (nothing dropped, nothing
    loaded, nothing published, state unchanged). *)
Theorem C19_scan_converges : forall (cur next : Z) (Ls : list (list fent)) (L : list fent),
  chain_ok cur next [] (Ls ++ [L]) ->
  let st := scans cur next w_init (Ls ++ [L]) in
  NoDup (keys (w_loaded st)) /\
  (forall k, In k (keys (w_loaded st)) -> In k (map f_path (sel_pure cur next L))) /\
  (forall e, In e (sel_pure cur next L) -> f_loadable e = true -> lookup (f_path e) (w_loaded st) = Some (f_content e)) /\
  scan cur next L st = Ok (mkOut [] [] [] st).
Proof. exact history_converges. Qed.
Print Assumptions C19_scan_converges.

(** One-step form: from any state satisfying the invariant in which "recorded with the current effective
    mtime" implies "loaded with the current content" ([fresh]), one scan loads every loadable selected file
    with its current content. *)
Theorem C19_one_scan_loads_current : forall (cur next : Z) (L : list fent) (st : wstate),
  NoDup (map f_path L) -> forall e, fresh cur next L st -> In e (sel_pure cur next L) -> f_loadable e = true ->
  lookup (f_path e) (w_loaded (o_state (scan_pure cur next L st))) = Some (f_content e).
Proof. exact scan_loads_current. Qed.
Print Assumptions C19_one_scan_loads_current.

Theorem C19_rescan_is_noop : forall (cur next : Z) (L : list fent) (st : wstate),
  NoDup (map f_path L) ->
  let o := scan_pure cur next L st in
  scan_pure cur next L (o_state o) = mkOut [] [] [] (o_state o).
Proof. exact rescan_noop. Qed.
Print Assumptions C19_rescan_is_noop.

(** Snapshot consistency, with NO assumption on mtimes or loadability: every value ever published to
    `ranked` (what a search takes with getLoaded) while scanning any history has one entry per shard key,
    only files selected by the current scan, hence at most one format version per shard name. *)
Theorem C19_snapshot_consistent : forall (cur next : Z) (Ls : list (list fent)) (L : list fent) (s : list (path * N)),
  (forall L', In L' (Ls ++ [L]) -> NoDup (map f_path L')) ->
  In s (o_snaps (scan_pure cur next L (scans cur next w_init Ls))) ->
  NoDup (keys s) /\
  (forall k, In k (keys s) -> exists e, In e (sel_pure cur next L) /\ f_path e = k) /\
  (forall e1 e2, In e1 (sel_pure cur next L) -> In e2 (sel_pure cur next L) ->
                 In (f_path e1) (keys s) -> In (f_path e2) (keys s) ->
                 fst (nv e1) = fst (nv e2) -> snd (nv e1) = snd (nv e2)).
Proof. exact snapshot_consistent. Qed.
Print Assumptions C19_snapshot_consistent.

(** The blind spot (known finding stale:equal-mtime): without [discriminates] convergence fails — a file
    replaced with the same effective mtime keeps its OLD content loaded however often scan runs. *)
Theorem C19_equal_mtime_stale_refuted :
  let st := scans 16 17 w_init [stale_L1; stale_L2; stale_L2; stale_L2] in
  lookup [97; 46; 122; 111; 101; 107; 116]%N (w_loaded st) = Some 1%N /\
  In (mkF [97; 46; 122; 111; 101; 107; 116]%N 5%Z 2%N true) (sel_pure 16 17 stale_L2).
Proof. exact equal_mtime_stale. Qed.
Print Assumptions C19_equal_mtime_stale_refuted.

(** ---- from directory changes to scans: the notification loop (Model/WatchLoop.v: initial scan BEFORE
    watcher.Add, fsnotify events -> notify() -> capacity-1 channel `signal` -> goroutine 2 runs scan(); one-minute
    ticker; fsnotify queue overflow drops events).  [scanned_after_last_change es] = the most recent scan of the
    trace started after its last directory change, i.e. that scan read the final directory; together with
    C19_scan_converges this is "once the directory stops changing the loaded set equals the directory". *)

(** No lost wakeup: for EVERY interleaving of directory changes with the watcher's steps, if no change races with
    the startup (all changes come after watcher.Add) and fsnotify drops no event, then whenever the watcher is
    quiescent (no pending event, no token, no scan running) its last scan started after the last change. *)
Theorem C19_no_lost_wakeup : forall (pre post : list levent) (s : lstate),
  lrun l_init (pre ++ post) = Some s ->
  existsb is_change pre = false -> existsb is_watch_add pre = true -> existsb is_drop post = false ->
  quiescent s = true ->
  scanned_after_last_change (pre ++ post) = true.
Proof. exact no_lost_wakeup. Qed.
Print Assumptions C19_no_lost_wakeup.

(** The ticker repairs everything (startup races, dropped events): in EVERY execution, a tick that is followed by no
    further change and by quiescence is followed by a scan, and that scan started after the last change. *)
Theorem C19_tick_repairs : forall (a b : list levent) (s : lstate),
  lrun l_init (a ++ ETick :: b) = Some s -> existsb is_change b = false -> quiescent s = true ->
  existsb is_scan_start b = true /\ scanned_after_last_change (a ++ ETick :: b) = true.
Proof. exact tick_repairs. Qed.
Print Assumptions C19_tick_repairs.

(** Without the ticker the statement is false: a change made while the initial scan is running (which includes
    loading all shards) produces no event because the watch is installed only afterwards; the watcher goes quiescent
    without ever scanning again (until the next event or the one-minute tick).  Observation `startup-window`. *)
Theorem C19_quiescent_implies_scanned_refuted :
  exists (es : list levent) (s : lstate),
    lrun l_init es = Some s /\ quiescent s = true /\ existsb is_drop es = false /\ scanned_after_last_change es = false.
Proof. exists [EChange 0; EInitScanEnd; EWatchAdd]. exact startup_window. Qed.
Print Assumptions C19_quiescent_implies_scanned_refuted.

(** The watcher never deadlocks: in every reachable state that is not quiescent (or in which the watch is not
    installed yet) one of the watcher's own steps is executable. *)
Theorem C19_watch_loop_progress : forall (es : list levent) (s : lstate),
  lrun l_init es = Some s -> (quiescent s = false \/ l_watching s = false) ->
  exists e s', own_step e = true /\ lstep s e = Some s'.
Proof. exact watcher_progress. Qed.
Print Assumptions C19_watch_loop_progress.

(** ---- the two models composed (Proofs/WatchCompose.v): the loop carries the current directory listing, a change
    installs a new (arbitrary) listing, a scan reads the directory in one step at its start; [c_hist c] = the
    listings read by the scans so far, so the watcher's state is [scans cur next w_init (c_hist c)].
    The property's second sentence: for EVERY interleaving of directory changes with the watcher, if no change
    races with the startup, fsnotify drops no event and a file never changes content while keeping its effective
    mtime (chain_ok over the listings the scans read), then whenever the watcher is quiescent the loaded set is
    exactly what the CURRENT directory requires, and another scan would change nothing. *)
Theorem C19_quiescent_loaded_equals_disk :
  forall (cur next : Z) (L0 : list fent) (pre post : list cevent) (c : cstate),
  crun (c_init L0) (pre ++ post) = Some c ->
  existsb is_change (map fst pre) = false -> existsb is_watch_add (map fst pre) = true ->
  existsb is_drop (map fst post) = false ->
  quiescent (c_loop c) = true ->
  chain_ok cur next [] (c_hist c) ->
  let st := scans cur next w_init (c_hist c) in
  let L := c_dir c in
  NoDup (keys (w_loaded st)) /\
  (forall k, In k (keys (w_loaded st)) -> In k (map f_path (sel_pure cur next L))) /\
  (forall e, In e (sel_pure cur next L) -> f_loadable e = true -> lookup (f_path e) (w_loaded st) = Some (f_content e)) /\
  scan cur next L st = Ok (mkOut [] [] [] st).
Proof. exact quiescent_loaded_equals_disk. Qed.
Print Assumptions C19_quiescent_loaded_equals_disk.

(** ... and after a tick the same holds whatever happened before (startup races, dropped events). *)
Theorem C19_after_tick_loaded_equals_disk :
  forall (cur next : Z) (L0 : list fent) (a b : list cevent) (Lt : list fent) (c : cstate),
  crun (c_init L0) (a ++ (ETick, Lt) :: b) = Some c ->
  existsb is_change (map fst b) = false ->
  quiescent (c_loop c) = true ->
  chain_ok cur next [] (c_hist c) ->
  let st := scans cur next w_init (c_hist c) in
  let L := c_dir c in
  NoDup (keys (w_loaded st)) /\
  (forall k, In k (keys (w_loaded st)) -> In k (map f_path (sel_pure cur next L))) /\
  (forall e, In e (sel_pure cur next L) -> f_loadable e = true -> lookup (f_path e) (w_loaded st) = Some (f_content e)) /\
  scan cur next L st = Ok (mkOut [] [] [] st).
Proof. exact tick_loaded_equals_disk. Qed.
Print Assumptions C19_after_tick_loaded_equals_disk.

(** ---- a list HELD by a running search (Model/RankedStore.v: slices are (address, length) headers into a store of
    backing arrays, so aliasing is explicit; replace = [publish_cow], a fresh array per publication; getLoaded hands
    out the current header, not a copy).  [scans_rs] = the scan/loader model with its publications going through the
    store.  A search takes its list after ANY history Ls1; the watcher goes on through ANY history Ls2 (shards
    replaced, dropped, added): the held list still reads exactly the map that was loaded after Ls1 — with
    C19_snapshot_consistent: one consistent version per repository for the whole search.  No hypothesis at all. *)
Theorem C19_held_snapshot_immutable : forall (cur next : Z) (Ls1 Ls2 : list (list fent)),
  let p1 := scans_rs cur next wrs_init Ls1 in
  let p2 := scans_rs cur next p1 Ls2 in
  fst p1 = scans cur next w_init Ls1 /\
  read (rs_store (snd p2)) (get_loaded (snd p1)) = Some (w_loaded (fst p1)).
Proof. exact held_list_immutable. Qed.
Print Assumptions C19_held_snapshot_immutable.

(** ... and every list published in the MIDDLE of a scan (after its drop, before its load; a search may start there):
    each header handed out while scanning L is one of the values of C19_snapshot_consistent and reads that value after
    any further history. *)
Theorem C19_midscan_snapshot_immutable :
  forall (cur next : Z) (Ls1 : list (list fent)) (L : list fent) (Ls2 : list (list fent)) (s : shdr) (v : list (path * N)),
  let p1 := scans_rs cur next wrs_init Ls1 in
  In (s, v) (pub_trace (snd p1) (o_snaps (scan_pure cur next L (fst p1)))) ->
  In v (o_snaps (scan_pure cur next L (scans cur next w_init Ls1))) /\
  read (rs_store (snd (scans_rs cur next p1 (L :: Ls2)))) s = Some v.
Proof. exact midscan_list_immutable. Qed.
Print Assumptions C19_midscan_snapshot_immutable.

(** The store-level statement for arbitrary publications (the end-to-end harness cases CHeld use it directly). *)
Theorem C19_published_list_immutable : forall (A : Type) (st : ranked_state A) (vs : list (list A)) (s : shdr) (x : list A),
  read (rs_store st) s = Some x -> read (rs_store (publish_all st vs)) s = Some x.
Proof. intros A st vs s x. apply held_snapshot_immutable. Qed.
Print Assumptions C19_published_list_immutable.

(** With in-place reuse of the previous list's storage ([publish_reuse]: `ranked = ranked[:0]` when the capacity
    suffices — NOT what replace does) the statement is false: a search holding [a1; b1; c1; d1] sees a2 after a was
    replaced, and [a2; c1; d1; d1] after b was dropped: b is missed and d searched twice. *)
Theorem C19_held_snapshot_immutable_inplace_reuse_refuted :
  exists (st : ranked_state N) (v : list N) (s : shdr) (x : list N),
    read (rs_store st) s = Some x /\ read (rs_store (publish_reuse st v)) s <> Some x.
Proof.
  exists (publish_cow rs_init [11; 21; 31; 41]%N), [12; 21; 31; 41]%N, reuse_demo_held, [11; 21; 31; 41]%N.
  vm_compute. split; [reflexivity|discriminate].
Qed.
Print Assumptions C19_held_snapshot_immutable_inplace_reuse_refuted.

(** ---- non-vacuity *)
Definition s (l : list N) := l.
Definition pA16 : path := [97; 95; 118; 49; 54; 46; 48; 46; 122; 111; 101; 107; 116]%N.   (* a_v16.0.zoekt *)
Definition pA17 : path := [97; 95; 118; 49; 55; 46; 48; 46; 122; 111; 101; 107; 116]%N.   (* a_v17.0.zoekt *)
Definition pA18 : path := [97; 95; 118; 49; 56; 46; 48; 46; 122; 111; 101; 107; 116]%N.   (* a_v18.0.zoekt *)
Definition pB16 : path := [98; 95; 118; 49; 54; 46; 48; 46; 122; 111; 101; 107; 116]%N.   (* b_v16.0.zoekt *)
Definition exL1 : list fent := [mkF pA16 10 1 true; mkF pB16 10 2 true; mkF (pB16 ++ suffix_meta) 12 0 false].
Definition exL2 : list fent := [mkF pA16 10 1 true; mkF pA17 20 3 true; mkF pA18 21 4 true; mkF pB16 30 5 true].
Definition exL3 : list fent := [mkF pA17 20 3 true; mkF pB16 40 0 false].

Example ex_vfp : version_from_path pA17 = Ok ([97]%N, 17%Z).
Proof. vm_compute. reflexivity. Qed.
Example ex_vfp_underscore_dot : version_from_path [120; 95; 46; 122]%N = Ok ([120; 95; 46; 122]%N, 0%Z).
Proof. vm_compute. reflexivity. Qed.

(** the history hypothesis of C19_scan_converges is satisfiable by a history with an upgrade (v16 -> v17,
    v18 ignored), a replacement with a new mtime, a sidecar, a deletion and an unloadable file *)
Ltac nodup_paths := simpl; repeat (constructor; [simpl; intuition discriminate|]); constructor.
Ltac discr_listings :=
  intros e0 e H0 H Hp Hm; vm_compute in H0; vm_compute in H;
  repeat match goal with Hx : _ \/ _ |- _ => destruct Hx as [Hx|Hx] end;
  try contradiction; subst; try discriminate Hp; try discriminate Hm; split; reflexivity.
Example ex_chain_ok : chain_ok 16 17 [] ([exL1; exL2] ++ [exL3]).
Proof.
  simpl. split; [nodup_paths|]. split; [discr_listings|].
  split; [nodup_paths|]. split; [discr_listings|].
  split; [nodup_paths|]. split; [discr_listings|exact I].
Qed.
Example ex_history :
  map (fun L => let o := scan_pure 16 17 L w_init in (length (o_load o))) [exL1] = [2] /\
  (let st1 := scans 16 17 w_init [exL1] in
   let o2 := scan_pure 16 17 exL2 st1 in
   (o_drop o2, o_load o2, map (fun sn => map snd sn) (o_snaps o2)) = ([pA16], [pA17; pB16], [[2%N]; [5%N; 3%N]])) /\
  w_loaded (scans 16 17 w_init [exL1; exL2; exL3]) = [(pB16, 5%N); (pA17, 3%N)].
Proof. vm_compute. repeat split. Qed.

(** the hypotheses of C19_no_lost_wakeup / C19_tick_repairs are satisfiable by executions with real work: two
    changes coalesced into one token, a change during a scan (second scan follows), a dropped event + tick *)
Example ex_loop_run :
  let pre := [EInitScanEnd; EWatchAdd] in
  let post := [EChange 1; EDeliver; EChange 0; EDeliver; EScanStart; EDeliver; EChange 0; EScanEnd; EDeliver; EScanStart; EScanEnd] in
  (exists s, lrun l_init (pre ++ post) = Some s /\ quiescent s = true) /\
  existsb is_change pre = false /\ existsb is_watch_add pre = true /\ existsb is_drop post = false.
Proof. vm_compute. split; [eexists; split; reflexivity|repeat split]. Qed.
Example ex_loop_tick :
  let a := [EChange 0; EInitScanEnd; EWatchAdd; EChange 0; EDrop] in
  let b := [EScanStart; EScanEnd] in
  (exists s, lrun l_init (a ++ ETick :: b) = Some s /\ quiescent s = true) /\ existsb is_change b = false /\
  scanned_after_last_change a = false.
Proof. vm_compute. split; [eexists; split; reflexivity|repeat split]. Qed.
Example ex_loop_progress_nontrivial :
  exists s, lrun l_init [EInitScanEnd; EWatchAdd; EChange 2; EDeliver] = Some s /\ quiescent s = false.
Proof. vm_compute. eexists; split; reflexivity. Qed.

(** the composed theorem's hypotheses are satisfiable: directory exL1 at start, changed to exL2 and (while the scan
    of exL2 is running) to exL3; two scans follow; the scans read exactly [exL1; exL2; exL3] (ex_chain_ok) *)
Example ex_composed_run :
  let pre : list cevent := [(EInitScanEnd, []); (EWatchAdd, [])] in
  let post : list cevent := [(EChange 0, exL2); (EDeliver, []); (EScanStart, []); (EChange 1, exL3); (EScanEnd, []);
                             (EDeliver, []); (EDeliver, []); (EScanStart, []); (EScanEnd, [])] in
  exists c, crun (c_init exL1) (pre ++ post) = Some c /\ quiescent (c_loop c) = true /\
            c_hist c = [exL1; exL2] ++ [exL3] /\ c_dir c = exL3.
Proof. vm_compute. eexists. repeat split. Qed.

(** a held list across a real history: taken after exL1 (two shards loaded), then exL2 drops a_v16, loads a_v17 and
    reloads b (publishing twice), exL3 changes nothing loadable: the held header still reads the two shards of exL1,
    while getLoaded now returns something else *)
Example ex_held_across_history :
  let p1 := scans_rs 16 17 wrs_init [exL1] in
  let p2 := scans_rs 16 17 p1 [exL2; exL3] in
  read (rs_store (snd p2)) (get_loaded (snd p1)) = Some [(pB16, 2%N); (pA16, 1%N)] /\
  read (rs_store (snd p2)) (get_loaded (snd p2)) = Some [(pB16, 5%N); (pA17, 3%N)] /\
  length (rs_store (snd p2)) = 4.
Proof. vm_compute. repeat split. Qed.
Example ex_midscan_header :
  let p1 := scans_rs 16 17 wrs_init [exL1] in
  map snd (pub_trace (snd p1) (o_snaps (scan_pure 16 17 exL2 (fst p1)))) = [[(pB16, 2%N)]; [(pB16, 5%N); (pA17, 3%N)]].
Proof. vm_compute. reflexivity. Qed.
Example ex_reuse_demo :
  let st0 := publish_cow rs_init [11; 21; 31; 41]%N in
  let st2 := publish_reuse (publish_reuse st0 [12; 21; 31; 41]%N) [12; 31; 41]%N in
  read (rs_store st2) reuse_demo_held = Some [12; 31; 41; 41]%N.
Proof. vm_compute. reflexivity. Qed.
(** the runner's CHeld case accepts a faithful run and rejects the in-place reading *)
Example ex_cheld :
  c19_ok (CHeld [(0, 1); (1, 1); (2, 1)]%N [[(0, 2); (1, 1); (2, 1)]; [(0, 2); (2, 1)]]%N [(0, 1); (1, 1); (2, 1)]%N) = true /\
  c19_ok (CHeld [(0, 1); (1, 1); (2, 1)]%N [[(0, 2); (1, 1); (2, 1)]; [(0, 2); (2, 1)]]%N [(0, 2); (2, 1); (2, 1)]%N) = false.
Proof. vm_compute. split; reflexivity. Qed.

(** ---- OWNERSHIP of results (round 3): what Search / StreamSearch return holds no view of shard memory.
    Model/ResultOwn.v; the type table [result_ty] (zoekt.SearchResult with every nested struct) and copyFiles' program
    [copy_prog] are GENERATED from the current sources (translator/resultfields -> Generated/ResultFields.v). *)
From Coq Require Import String.
From ZV Require Import Model.ResultOwn Proofs.ResultOwn Generated.ResultFields Model.C19Cases.

(** obligation on the generated tables, by computation: copyFiles consists only of statements the model understands,
    its program replaces EVERY []byte field below zoekt.SearchResult by a fresh copy (a new []byte field that copyFiles
    forgets, or a copy that lands in a loop variable, makes this false), copySlice has its expected shape, and no
    field below SearchResult.Files has a type the translator could not look into. *)
Theorem C19_copyfiles_copies_every_bytes_field :
  copy_covers result_ty copy_root copy_prog = true /\ copy_slice_recognised = true /\
  filter (has_prefix "Files"%string) (external_paths result_ty) = [].
Proof. vm_compute. repeat split. Qed.
Print Assumptions C19_copyfiles_copies_every_bytes_field.

(** A result of the shape of zoekt.SearchResult whose byte slices were all readable when the search produced it
    (shards mapped): after copyFiles every byte slice reads the same bytes under ANY later state [sh'] of the shard
    mappings — unmapped (a read would fault), overwritten, replaced by another version.  Same fields, same bytes. *)
Theorem C19_result_survives_unload : forall (sh : shards) (hp : heap) (r : result) snap,
  conforms result_ty r -> read_all sh hp r = Ok snap ->
  exists hp' r', copy_result sh hp (copied_paths copy_root copy_prog) r = Ok (hp', r') /\
                 map fst r' = map fst r /\
                 forall sh', read_all sh' hp' r' = Ok snap.
Proof. exact (result_survives_unload result_ty copy_root copy_prog (proj1 C19_copyfiles_copies_every_bytes_field)). Qed.
Print Assumptions C19_result_survives_unload.

(** copyFiles "tidied" with local pointers and a range VALUE variable for the chunk matches (the round-3 seeded
    change): `for _, cm := range f.ChunkMatches { copySlice(&cm.Content) }` copies into the loop variable. *)
Definition loopvar_prog : list stmt :=
  let sr := EVar "sr"%string in let f := EVar "f"%string in let lm := EVar "lm"%string in
  [SRangeIdx "i" (EField sr "Files") [
     SAddr "f" (EIndex (EField sr "Files") "i");
     SCopySlice (EField f "Content"); SCopySlice (EField f "Checksum");
     SRangeIdx "l" (EField f "LineMatches") [
       SAddr "lm" (EIndex (EField f "LineMatches") "l");
       SCopySlice (EField lm "Line"); SCopySlice (EField lm "Before"); SCopySlice (EField lm "After")];
     SRangeVal "_" "cm" (EField f "ChunkMatches") [SCopySlice (EField (EVar "cm") "Content")]]]%string.
(** the same tidying done right (index loop + pointer to the element): a harmless refactor *)
Definition pointer_prog : list stmt :=
  let sr := EVar "sr"%string in let f := EVar "f"%string in
  [SRangeIdx "i" (EField sr "Files") [
     SAddr "f" (EIndex (EField sr "Files") "i");
     SCopySlice (EField f "Content"); SCopySlice (EField f "Checksum");
     SRangeVal "l" "lmv" (EField f "LineMatches") [
       SCopySlice (EField (EIndex (EField f "LineMatches") "l") "Line");
       SAddr "lm" (EIndex (EField f "LineMatches") "l");
       SCopySlice (EField (EVar "lm") "Before"); SCopySlice (EField (EVar "lm") "After")];
     SRangeIdx "c" (EField f "ChunkMatches") [
       SAddr "p" (EField (EIndex (EField f "ChunkMatches") "c") "Content"); SCopySlice (EVar "p")]]]%string.

Definition ex_shard1 : list N := [110; 101; 101; 100; 108; 101; 10; 120; 121; 122]%N.
Definition ex_result : result :=
  [("Files[].Content", mkBS (RShard 1) 0 10); ("Files[].Checksum", mkBS (RShard 1) 7 3);
   ("Files[].LineMatches[].Line", mkBS (RShard 1) 0 6); ("Files[].ChunkMatches[].Content", mkBS (RShard 1) 0 7)]%string.
Definition ex_mapped : shards := fun id => if N.eqb id 1 then Some ex_shard1 else None.
Definition ex_unmapped : shards := fun _ => None.
Definition ex_overwritten : shards := fun id => if N.eqb id 1 then Some (map (fun b => N.lxor b 255) ex_shard1) else None.

(** with the loop-variable copy the statement is FALSE: ChunkMatches[].Content stays a view; reading the result after
    the shard was unmapped faults, after its memory was overwritten it shows other bytes *)
Theorem C19_result_survives_unload_loopvar_copy_refuted :
  copy_covers result_ty "sr" loopvar_prog = false /\
  a_local (run_prog "sr" loopvar_prog) = ["Files[].ChunkMatches[].Content"%string] /\
  exists (sh : shards) (hp : heap) (r : result) snap hp' r',
    conforms result_ty r /\ read_all sh hp r = Ok snap /\
    copy_result sh hp (copied_paths "sr" loopvar_prog) r = Ok (hp', r') /\
    read_all ex_unmapped hp' r' = Panic 1 /\
    exists other, read_all ex_overwritten hp' r' = Ok other /\ other <> snap.
Proof.
  split; [vm_compute; reflexivity|]. split; [vm_compute; reflexivity|].
  exists ex_mapped, [], ex_result. eexists. eexists. eexists.
  split; [apply conforms_b_ok; vm_compute; reflexivity|].
  split; [vm_compute; reflexivity|]. split; [vm_compute; reflexivity|]. split; [vm_compute; reflexivity|].
  eexists. split; [vm_compute; reflexivity|]. intro H. discriminate H.
Qed.
Print Assumptions C19_result_survives_unload_loopvar_copy_refuted.

(** non-vacuity: the hypotheses of C19_result_survives_unload hold for a result with views in four fields, and the
    copied result reads the same under unmapping and overwriting; the pointer refactor covers every field; the runner
    accepts a faithful observation and rejects a surviving view *)
Example ex_result_survives :
  conforms result_ty ex_result /\
  exists snap hp' r', read_all ex_mapped [] ex_result = Ok snap /\
    copy_result ex_mapped [] (copied_paths copy_root copy_prog) ex_result = Ok (hp', r') /\
    read_all ex_unmapped hp' r' = Ok snap /\ read_all ex_overwritten hp' r' = Ok snap /\ List.length snap = 4.
Proof.
  split; [apply conforms_b_ok; vm_compute; reflexivity|].
  eexists. eexists. eexists. split; [vm_compute; reflexivity|]. split; [vm_compute; reflexivity|].
  split; [vm_compute; reflexivity|]. split; vm_compute; reflexivity.
Qed.
Example ex_pointer_refactor_covers : copy_covers result_ty "sr" pointer_prog = true.
Proof. vm_compute. reflexivity. Qed.
Example ex_xown :
  let tb := bytes_paths result_ty in let ts := string_paths result_ty in
  let raw := ["Files[].Checksum"; "Files[].ChunkMatches[].Content"]%string in
  c19x_ok (XOwn tb ts raw [] [] []) = true /\
  c19x_ok (XOwn tb ts raw [] ["Files[].ChunkMatches[].Content"%string] []) = false /\
  c19x_ok (XOwn (tl tb) ts raw [] [] []) = false.
Proof. vm_compute. repeat split. Qed.

(** the obligation is NECESSARY: whatever the program, a view of shard memory in a field outside its copied set is still
    in the result after copying, and reading the result once the shards are unmapped faults *)
Theorem C19_uncopied_view_faults : forall (root : string) (prog : list stmt) (r : result) (sh : shards) (hp hp' : heap)
    (r' : result) (p : path) (id : N) (off len : nat),
  In (p, mkBS (RShard id) off len) r -> mem_path p (copied_paths root prog) = false ->
  copy_result sh hp (copied_paths root prog) r = Ok (hp', r') ->
  In (p, mkBS (RShard id) off len) r' /\ exists w, read_all ex_unmapped hp' r' = Panic w.
Proof. intros root prog. exact (uncopied_view_faults (copied_paths root prog)). Qed.
Print Assumptions C19_uncopied_view_faults.
Example ex_uncopied_view :
  In ("Files[].ChunkMatches[].Content"%string, mkBS (RShard 1) 0 7) ex_result /\
  mem_path "Files[].ChunkMatches[].Content" (copied_paths "sr" loopvar_prog) = false /\
  is_ok (copy_result ex_mapped [] (copied_paths "sr" loopvar_prog) ex_result) = true.
Proof. vm_compute. repeat split. right. right. right. left. reflexivity. Qed.
