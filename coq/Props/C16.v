From ZV Require Import Lib.Base Model.MergeDocs.
Theorem C16_placeholder : True. Proof. exact I. Qed.
Print Assumptions C16_placeholder.
