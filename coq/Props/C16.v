(** C16 — merging and exploding shards preserves searchable content.
    Statements only; proofs in Proofs/MergeDocsProofs.v over Model/MergeDocs.v.

    [view sh] = what searches and listings can see of a shard: for every document of a live (non-tombstoned)
    repository, in document order, the repository id and the decoded document (name, content, branch names from
    the mask, language name from the code, sub-repository path from the index, symbols, category).
    [merge] / [explode] model index/merge.go's merge / explode (documents re-encoded through addDocument and
    ShardBuilder.Add against the destination builder; shards ordered by priority; tombstoned repositories
    skipped; non-contiguous repository ids rejected).  Repositories without documents are lost by design
    (they have no entry in [view]). *)
From ZV Require Import Lib.Base Model.MergeDocs Proofs.MergeDocsProofs.
From Coq Require Import Permutation.

(** the merged shard shows exactly the documents of the inputs' live repositories, shard by shard in
    priority order, each with the same name, content, branches, language, sub-repository path, symbols *)
Theorem C16_merge_preserves :
  forall (shards : list shard) (b : shard),
    Forall wf_shard shards -> merge shards = Ok b ->
    view b = flat_map view (sort_prio shards).
Proof. intros shards b Hwf H. apply binv_view. apply merge_binv; auto. Qed.
Print Assumptions C16_merge_preserves.

(** for every input ordering: same content up to the order of the shards *)
Theorem C16_merge_preserves_any_order :
  forall (shards : list shard) (b : shard),
    Forall wf_shard shards -> merge shards = Ok b ->
    Permutation (view b) (flat_map view shards).
Proof.
  intros shards b Hwf H. rewrite (C16_merge_preserves shards b Hwf H).
  apply Permutation_flat_map. apply sort_prio_perm.
Qed.
Print Assumptions C16_merge_preserves_any_order.

(** the merged shard is again well-formed (repository ranges contiguous, masks/indices in range): it can be
    merged or exploded again *)
Theorem C16_merge_output_wf :
  forall (shards : list shard) (b : shard),
    Forall wf_shard shards -> merge shards = Ok b -> wf_shard b.
Proof. intros shards b Hwf H. eapply binv_wf. apply merge_binv; eauto. Qed.
Print Assumptions C16_merge_output_wf.

(** exploding: one shard per live repository with documents, together showing exactly the compound's content *)
Theorem C16_explode_preserves :
  forall (sh : shard) (outs : list shard),
    wf_shard sh -> explode sh = Ok outs ->
    flat_map view outs = view sh /\ Forall (fun o => length (sh_repos o) = 1%nat) outs.
Proof.
  intros sh outs Hwf H. unfold explode in H.
  destruct (explode_docs_view sh (sh_docs sh) None None [] [] outs Hwf (conj eq_refl eq_refl) (Forall_nil _) H) as [H1 H2].
  split; auto.
Qed.
Print Assumptions C16_explode_preserves.

(** explode after merge gives back the inputs' content *)
Theorem C16_explode_merge_id :
  forall (shards : list shard) (b : shard) (outs : list shard),
    Forall wf_shard shards -> merge shards = Ok b -> explode b = Ok outs ->
    flat_map view outs = flat_map view (sort_prio shards).
Proof.
  intros shards b outs Hwf Hm He.
  destruct (C16_explode_preserves b outs (C16_merge_output_wf _ _ Hwf Hm) He) as [H _].
  rewrite H. apply C16_merge_preserves; auto.
Qed.
Print Assumptions C16_explode_merge_id.

(** tombstoned repositories are dropped: everything visible after a merge belongs to a live input repository *)
Theorem C16_tombstoned_dropped :
  forall (shards : list shard) (b : shard) (id : N) (dd : ddoc),
    Forall wf_shard shards -> merge shards = Ok b -> In (id, dd) (view b) ->
    exists sh r, In sh shards /\ In r (sh_repos sh) /\ sr_tomb r = false /\ sr_id r = id.
Proof.
  intros shards b id dd Hwf Hm Hin.
  apply (Permutation_in _ (C16_merge_preserves_any_order _ _ Hwf Hm)) in Hin.
  apply in_flat_map in Hin. destruct Hin as [sh [Hsh Hin]].
  unfold view in Hin. apply in_flat_map in Hin. destruct Hin as [d [_ Hd]].
  unfold view_doc in Hd. destruct (nth_error (sh_repos sh) (sd_repo d)) as [r|] eqn:Er; [|destruct Hd].
  destruct (decode sh d); try (destruct Hd; fail).
  destruct (sr_tomb r) eqn:Et; [destruct Hd|]. destruct Hd as [E|[]]. inversion E; subst.
  exists sh, r. repeat split; auto. eapply nth_error_In; eauto.
Qed.
Print Assumptions C16_tombstoned_dropped.

(** ---- non-vacuity *)
Definition ex_r1 := {| sr_id := 1; sr_prio := 10; sr_tomb := false; sr_branches := [11; 12]; sr_subs := [0; 21] |}%N.
Definition ex_r2 := {| sr_id := 2; sr_prio := 30; sr_tomb := false; sr_branches := [12]; sr_subs := [0] |}%N.
Definition ex_r3 := {| sr_id := 3; sr_prio := 30; sr_tomb := true; sr_branches := [11]; sr_subs := [0] |}%N.
Definition ex_doc (n : N) (repo : nat) (m : list bool) (lang sub : nat) : sdoc :=
  {| sd_name := n; sd_content := (100 + n)%N; sd_repo := repo; sd_mask := m; sd_lang := lang; sd_sub := sub;
     sd_syms := [(0, 3, 7)%N]; sd_cat := 1%N |}.
Definition ex_s1 : shard := {| sh_repos := [ex_r1]; sh_langs := [41; 42]%N;
  sh_docs := [ex_doc 1 0 [true; false] 0 0; ex_doc 2 0 [true; true] 1 1] |}.
Definition ex_s2 : shard := {| sh_repos := [ex_r2; ex_r3]; sh_langs := [42]%N;
  sh_docs := [ex_doc 3 0 [true] 0 0; ex_doc 4 1 [true] 0 0] |}.

Ltac wf_tac := repeat constructor; eexists; repeat split; simpl; try reflexivity; try lia;
               repeat constructor; simpl; intuition discriminate.
Example ex_wf : Forall wf_shard [ex_s1; ex_s2].
Proof. repeat constructor; unfold wf_shard; simpl; wf_tac. Qed.
(** s2 (priority 30) comes first, its tombstoned repo 3 is dropped, languages are renumbered, all decoded
    documents are preserved *)
Example ex_merge :
  exists b, merge [ex_s1; ex_s2] = Ok b /\ map sr_id (sh_repos b) = [2; 1]%N /\ sh_langs b = [42; 41]%N /\
            map fst (view b) = [2; 1; 1]%N /\ map (fun e => dd_branches (snd e)) (view b) = [[12]; [11]; [11; 12]]%N /\
            map (fun e => dd_lang (snd e)) (view b) = [42; 41; 42]%N /\ map (fun e => dd_sub (snd e)) (view b) = [0; 0; 21]%N.
Proof. eexists. vm_compute. repeat split. Qed.
Example ex_explode :
  exists b outs, merge [ex_s1; ex_s2] = Ok b /\ explode b = Ok outs /\ length outs = 2%nat /\
                 map (fun o => map fst (view o)) outs = [[2]; [1; 1]]%N.
Proof. eexists. eexists. vm_compute. repeat split. Qed.
(** non-contiguous repository ids are rejected, as in the Go code *)
Example ex_noncontiguous :
  merge [{| sh_repos := [ex_r1; ex_r2]; sh_langs := [41]%N;
            sh_docs := [ex_doc 1 1 [true] 0 0; ex_doc 2 0 [true; false] 0 0] |}] = Err 4.
Proof. vm_compute. reflexivity. Qed.
