(** C16 — merging and exploding shards preserves searchable content.
    Statements only; proofs in Proofs/MergeDocsProofs.v over Model/MergeDocs.v.

    [view sh] = what searches and listings can see of a shard: for every document of a live (non-tombstoned)
    repository, in document order, the repository id and the decoded document (name, content, branch names from
    the mask, language name from the code, sub-repository path from the index, symbols, category).
    [merge] / [explode] model index/merge.go's merge / explode (documents re-encoded through addDocument and
    ShardBuilder.Add against the destination builder; shards ordered by priority; tombstoned repositories
    skipped; non-contiguous repository ids rejected).  Repositories without documents are lost by design
    (they have no entry in [view]). *)
From ZV Require Import Lib.Base Model.MergeDocs Proofs.MergeDocsProofs Proofs.MergeDocsTotal Proofs.MergeDocsSearch
  Proofs.MergeDocsWidth Proofs.MergeDocsWidthNec.
From Coq Require Import Permutation Sorted.

(** the merged shard shows exactly the documents of the inputs' live repositories, shard by shard in
    priority order, each with the same name, content, branches, language, sub-repository path, symbols *)
Theorem C16_merge_preserves :
  forall (shards : list shard) (b : shard),
    Forall wf_shard shards -> merge shards = Ok b ->
    view b = flat_map view (sort_prio shards).
Proof. exact merge_view. Qed.
Print Assumptions C16_merge_preserves.

(** stronger: with the whole repository record (id, priority, branch names in order, sub-repository paths) per
    document instead of the id -- [view = map id_entry viewr] *)
Theorem C16_merge_preserves_repo :
  forall (shards : list shard) (b : shard),
    Forall wf_shard shards -> merge shards = Ok b ->
    viewr b = flat_map viewr (sort_prio shards).
Proof. exact merge_viewr. Qed.
Print Assumptions C16_merge_preserves_repo.

(** for every input ordering: same content up to the order of the shards *)
Theorem C16_merge_preserves_any_order :
  forall (shards : list shard) (b : shard),
    Forall wf_shard shards -> merge shards = Ok b ->
    Permutation (view b) (flat_map view shards).
Proof.
  intros shards b Hwf H. rewrite (C16_merge_preserves shards b Hwf H).
  apply Permutation_flat_map. apply sort_prio_perm.
Qed.
Print Assumptions C16_merge_preserves_any_order.

(** the merged shard is again well-formed (repository ranges contiguous, masks/indices in range): it can be
    merged or exploded again *)
Theorem C16_merge_output_wf :
  forall (shards : list shard) (b : shard),
    Forall wf_shard shards -> merge shards = Ok b -> wf_shard b.
Proof. intros shards b Hwf H. eapply binv_wf. apply merge_binv; eauto. Qed.
Print Assumptions C16_merge_output_wf.

(** exploding: one shard per live repository with documents, together showing exactly the compound's content *)
Theorem C16_explode_preserves :
  forall (sh : shard) (outs : list shard),
    wf_shard sh -> explode sh = Ok outs ->
    flat_map view outs = view sh /\ Forall (fun o => length (sh_repos o) = 1%nat) outs.
Proof. exact explode_view. Qed.
Print Assumptions C16_explode_preserves.

Theorem C16_explode_preserves_repo :
  forall (sh : shard) (outs : list shard),
    wf_shard sh -> explode sh = Ok outs ->
    flat_map viewr outs = viewr sh /\ Forall (fun o => length (sh_repos o) = 1%nat) outs.
Proof. exact explode_viewr. Qed.
Print Assumptions C16_explode_preserves_repo.

(** explode after merge gives back the inputs' content *)
Theorem C16_explode_merge_id :
  forall (shards : list shard) (b : shard) (outs : list shard),
    Forall wf_shard shards -> merge shards = Ok b -> explode b = Ok outs ->
    flat_map view outs = flat_map view (sort_prio shards).
Proof.
  intros shards b outs Hwf Hm He.
  destruct (C16_explode_preserves b outs (C16_merge_output_wf _ _ Hwf Hm) He) as [H _].
  rewrite H. apply C16_merge_preserves; auto.
Qed.
Print Assumptions C16_explode_merge_id.

(** tombstoned repositories are dropped: everything visible after a merge belongs to a live input repository *)
Theorem C16_tombstoned_dropped :
  forall (shards : list shard) (b : shard) (id : N) (dd : ddoc),
    Forall wf_shard shards -> merge shards = Ok b -> In (id, dd) (view b) ->
    exists sh r, In sh shards /\ In r (sh_repos sh) /\ sr_tomb r = false /\ sr_id r = id.
Proof.
  intros shards b id dd Hwf Hm Hin.
  apply (Permutation_in _ (C16_merge_preserves_any_order _ _ Hwf Hm)) in Hin.
  apply in_flat_map in Hin. destruct Hin as [sh [Hsh Hin]].
  unfold view in Hin. apply in_flat_map in Hin. destruct Hin as [d [_ Hd]].
  unfold view_doc in Hd. destruct (nth_error (sh_repos sh) (sd_repo d)) as [r|] eqn:Er; [|destruct Hd].
  destruct (decode sh d); try (destruct Hd; fail).
  destruct (sr_tomb r) eqn:Et; [destruct Hd|]. destruct Hd as [E|[]]. inversion E; subst.
  exists sh, r. repeat split; auto. eapply nth_error_In; eauto.
Qed.
Print Assumptions C16_tombstoned_dropped.

(** ---- totality.  [mergeable sh] (Proofs/MergeDocsTotal.v) = what index/merge.go needs beyond [wf_shard]:
      StronglySorted le (live_ids sh (sh_docs sh))   the repo indices of the documents of live repositories never
                                                     decrease in document order (else "non-contiguous repo ids")
      Forall (br64 sh) (sh_docs sh)                  every live repository that has a document has <= 64 branches
                                                     (else setRepository fails)
    On well-formed mergeable input merge / explode return a builder: no error, no panic (decode's slice
    indexing, Add's sub-repository and branch lookups cannot fail). *)
Theorem C16_merge_total :
  forall (shards : list shard),
    shards <> [] -> Forall wf_shard shards -> Forall mergeable shards ->
    exists b, merge shards = Ok b.
Proof. exact merge_total. Qed.
Print Assumptions C16_merge_total.

Theorem C16_explode_total :
  forall (sh : shard), wf_shard sh -> mergeable sh -> exists outs, explode sh = Ok outs.
Proof. exact explode_total. Qed.
Print Assumptions C16_explode_total.

(** the extra hypothesis is necessary: whenever merge succeeds (on any input at all) every input was mergeable *)
Theorem C16_merge_ok_mergeable :
  forall (shards : list shard) (b : shard), merge shards = Ok b -> Forall mergeable shards.
Proof. exact merge_ok_mergeable. Qed.
Print Assumptions C16_merge_ok_mergeable.

Theorem C16_explode_ok_mergeable :
  forall (sh : shard) (outs : list shard), explode sh = Ok outs -> mergeable sh.
Proof. exact explode_ok_mergeable. Qed.
Print Assumptions C16_explode_ok_mergeable.

(** totality + preservation: on well-formed mergeable input the merge exists, shows exactly the inputs' content
    in priority order, and can itself be merged / exploded again *)
Theorem C16_merge_total_preserves :
  forall (shards : list shard),
    shards <> [] -> Forall wf_shard shards -> Forall mergeable shards ->
    exists b, merge shards = Ok b /\ view b = flat_map view (sort_prio shards) /\
              Permutation (view b) (flat_map view shards) /\ wf_shard b /\ mergeable b.
Proof.
  intros shards Hne Hwf Hmg. destruct (C16_merge_total shards Hne Hwf Hmg) as [b Hb]. exists b.
  split; [exact Hb|]. split; [apply C16_merge_preserves; auto|]. split; [apply C16_merge_preserves_any_order; auto|].
  split; [eapply C16_merge_output_wf; eauto|]. eapply merge_output_mergeable; eauto.
Qed.
Print Assumptions C16_merge_total_preserves.

Theorem C16_explode_total_preserves :
  forall (sh : shard), wf_shard sh -> mergeable sh ->
    exists outs, explode sh = Ok outs /\ flat_map view outs = view sh /\
                 Forall (fun o => length (sh_repos o) = 1%nat) outs.
Proof.
  intros sh Hwf Hmg. destruct (C16_explode_total sh Hwf Hmg) as [outs Ho]. exists outs.
  split; [exact Ho|]. apply C16_explode_preserves; auto.
Qed.
Print Assumptions C16_explode_total_preserves.

(** the whole round trip exists: merge, then explode, gives back the inputs' content *)
Theorem C16_merge_explode_total :
  forall (shards : list shard),
    shards <> [] -> Forall wf_shard shards -> Forall mergeable shards ->
    exists b outs, merge shards = Ok b /\ explode b = Ok outs /\
                   flat_map view outs = flat_map view (sort_prio shards).
Proof.
  intros shards Hne Hwf Hmg. destruct (merge_explode_total shards Hne Hwf Hmg) as [b [outs [Hb Ho]]].
  exists b, outs. split; [exact Hb|]. split; [exact Ho|]. eapply C16_explode_merge_id; eauto.
Qed.
Print Assumptions C16_merge_explode_total.

(** tie of the Go oracle keys merge:error / explode:error to these preconditions: the runner [c16_ok] evaluates
    [wf_shardb && mergeableb] on every input of every generated case; a case it accepts satisfies the hypotheses
    of the theorems above, and the implementation did not fail on it *)
Theorem C16_runner_accepts_only_successes :
  forall (mode : N) (inputs : list shard) (failed : bool) (outs : list oshard),
    c16_ok (mode, inputs, failed, outs) = true -> inputs <> [] ->
    Forall wf_shard inputs /\ Forall mergeable inputs /\ failed = false.
Proof. exact c16_ok_no_failure. Qed.
Print Assumptions C16_runner_accepts_only_successes.

(** ---- the code as written.  [merge] / [explode] above resolve every bit of a branch mask; addDocument walks the
    64-bit mask with a bit counter `id` of W bits ([merge_w W] / [explode_w W], Model/MergeDocs.v): bits >= W resolve
    to "".  With W >= 64 (the repaired code: uint64, [merge_impl] = [merge_w 64] is what the runner compares with the
    implementation) the walk is exact on well-formed shards, for ANY number of branches setRepository accepts: every
    theorem of this file about [merge] / [explode] is a theorem about [merge_impl] / [explode_impl]. *)
Theorem C16_walk_width_sufficient :
  forall (w : nat), (64 <= w)%nat ->
    (forall shards, Forall wf_shard shards -> merge_w w shards = merge shards) /\
    (forall sh, wf_shard sh -> explode_w w sh = explode sh).
Proof. intros w Hw. split; intros; [apply merge_w_eq|apply explode_w_eq]; auto. Qed.
Print Assumptions C16_walk_width_sufficient.

Theorem C16_impl_total_preserves :
  forall (shards : list shard),
    shards <> [] -> Forall wf_shard shards -> Forall mergeable shards ->
    exists b outs, merge_impl shards = Ok b /\ viewr b = flat_map viewr (sort_prio shards) /\
                   Permutation (view b) (flat_map view shards) /\ wf_shard b /\ mergeable b /\
                   explode_impl b = Ok outs /\ flat_map viewr outs = viewr b /\
                   Forall (fun o => length (sh_repos o) = 1%nat) outs.
Proof.
  intros shards Hne Hwf Hmg. destruct (C16_merge_total_preserves shards Hne Hwf Hmg) as [b [Hb [_ [Hp [Hwb Hmb]]]]].
  destruct (C16_explode_total b Hwb Hmb) as [outs Ho]. exists b, outs.
  rewrite (merge_impl_eq _ Hwf), (explode_impl_eq _ Hwb).
  split; [exact Hb|]. split; [apply C16_merge_preserves_repo; auto|]. split; [exact Hp|]. split; [exact Hwb|].
  split; [exact Hmb|]. split; [exact Ho|]. apply C16_explode_preserves_repo; auto.
Qed.
Print Assumptions C16_impl_total_preserves.

(** ... and 64 bits are NECESSARY: for every narrower bit counter there is a well-formed, mergeable shard (w+1 <= 64
    branches, one document on the last one) that merge and explode refuse although the code as written keeps it.
    (For w < 64 the model of the walk assumes <= 64 branches per repository, which the witness satisfies.) *)
Theorem C16_walk_width_necessary :
  forall (w : nat), (w < 64)%nat ->
    exists sh, wf_shard sh /\ mergeable sh /\ merge_w w [sh] = Err 2 /\ explode_w w sh = Err 2 /\
               (exists b, merge_impl [sh] = Ok b /\ viewr b = viewr sh).
Proof. exact walk_width_necessary. Qed.
Print Assumptions C16_walk_width_necessary.

(** The 32-bit walk the code had before the repair (`id := uint32(1)`) is NOT sufficient: a well-formed, mergeable
    shard with one repository of 33 branches and one document on the 33rd is refused by merge and by explode with
    "no branch found for " (Err 2) -- replayed on the implementation: props/C16/NOTES.md, /repo fix commit. *)
Theorem C16_walk32_refuted :
  exists sh, wf_shard sh /\ mergeable sh /\ merge_w 32 [sh] = Err 2 /\ explode_w 32 sh = Err 2 /\
             (exists b, merge_w 64 [sh] = Ok b /\ viewr b = viewr sh).
Proof. exists ex33_shard. exact walk32_refuted. Qed.
Print Assumptions C16_walk32_refuted.

(** ---- "searches return the same matches", for every document-local engine.
    [engine q sh] = the result of query q over shard sh; the hypothesis says that it is the concatenation over
    the visible documents (those of live repositories, in document order) of a per-document function of the
    repository record (id, priority, branch names in order, sub-repository paths) and the decoded document.  For indexData.Search this is what C01 proves of the search core
    ([search = spec_search = filter (live && eval q)] with [eval] reading only the document and its repository;
    C01_search_exact_regexp_free, C01_search_exact_partial) -- here it is a HYPOTHESIS about the engine, tested by
    the Go oracle's query battery, not derived from the C01 model (whose corpus type differs). *)
Theorem C16_search_preserved_merge :
  forall (Q R : Type) (doc_match : Q -> srepo * ddoc -> list R) (engine : Q -> shard -> list R),
    (forall q sh, engine q sh = flat_map (doc_match q) (viewr sh)) ->
    forall (q : Q) (shards : list shard) (b : shard),
      Forall wf_shard shards -> merge shards = Ok b ->
      engine q b = flat_map (engine q) (sort_prio shards) /\
      Permutation (engine q b) (flat_map (engine q) shards).
Proof.
  intros Q R dm engine Hloc q shards b Hwf Hm. split.
  - eapply search_preserved_merge_prio; eauto.
  - eapply search_preserved_merge; eauto.
Qed.
Print Assumptions C16_search_preserved_merge.

Theorem C16_search_preserved_explode :
  forall (Q R : Type) (doc_match : Q -> srepo * ddoc -> list R) (engine : Q -> shard -> list R),
    (forall q sh, engine q sh = flat_map (doc_match q) (viewr sh)) ->
    forall (q : Q) (sh : shard) (outs : list shard),
      wf_shard sh -> explode sh = Ok outs ->
      flat_map (engine q) outs = engine q sh.
Proof. intros Q R dm engine Hloc q sh outs Hwf He. eapply search_preserved_explode; eauto. Qed.
Print Assumptions C16_search_preserved_explode.

(** an engine that only looks at the repository id (not at the rest of the repository record) is covered too *)
Theorem C16_id_local_is_repo_local :
  forall (Q R : Type) (dm : Q -> N * ddoc -> list R) (engine : Q -> shard -> list R),
    (forall q sh, engine q sh = flat_map (dm q) (view sh)) ->
    forall q sh, engine q sh = flat_map (fun e => dm q (id_entry e)) (viewr sh).
Proof. exact id_local_repo_local. Qed.
Print Assumptions C16_id_local_is_repo_local.

(** listing: the repositories that are visible (have a document and are live), with exactly the same metadata
    record (id, priority, branch names in order, sub-repository paths) *)
Theorem C16_repos_preserved_merge :
  forall (r : srepo) (shards : list shard) (b : shard),
    Forall wf_shard shards -> merge shards = Ok b ->
    (visible_repo r b <-> exists sh, In sh shards /\ visible_repo r sh).
Proof. exact repos_preserved_merge. Qed.
Print Assumptions C16_repos_preserved_merge.

Theorem C16_repos_preserved_explode :
  forall (r : srepo) (sh : shard) (outs : list shard),
    wf_shard sh -> explode sh = Ok outs ->
    ((exists o, In o outs /\ visible_repo r o) <-> visible_repo r sh).
Proof. exact repos_preserved_explode. Qed.
Print Assumptions C16_repos_preserved_explode.

(** listing: per repository id the same number of visible documents, and the same repositories visible *)
Theorem C16_listing_preserved_merge :
  forall (id : N) (shards : list shard) (b : shard),
    Forall wf_shard shards -> merge shards = Ok b ->
    doc_count id b = list_sum (map (doc_count id) shards) /\
    (visible id b <-> exists sh, In sh shards /\ visible id sh).
Proof. exact listing_preserved_merge. Qed.
Print Assumptions C16_listing_preserved_merge.

Theorem C16_listing_preserved_explode :
  forall (id : N) (sh : shard) (outs : list shard),
    wf_shard sh -> explode sh = Ok outs ->
    list_sum (map (doc_count id) outs) = doc_count id sh /\
    ((exists o, In o outs /\ visible id o) <-> visible id sh).
Proof. exact listing_preserved_explode. Qed.
Print Assumptions C16_listing_preserved_explode.

(** ---- non-vacuity *)
Definition ex_r1 := {| sr_id := 1; sr_prio := 10; sr_tomb := false; sr_branches := [11; 12]; sr_subs := [0; 21] |}%N.
Definition ex_r2 := {| sr_id := 2; sr_prio := 30; sr_tomb := false; sr_branches := [12]; sr_subs := [0] |}%N.
Definition ex_r3 := {| sr_id := 3; sr_prio := 30; sr_tomb := true; sr_branches := [11]; sr_subs := [0] |}%N.
Definition ex_doc (n : N) (repo : nat) (m : list bool) (lang sub : nat) : sdoc :=
  {| sd_name := n; sd_content := (100 + n)%N; sd_repo := repo; sd_mask := m; sd_lang := lang; sd_sub := sub;
     sd_syms := [(0, 3, 7)%N]; sd_cat := 1%N |}.
Definition ex_s1 : shard := {| sh_repos := [ex_r1]; sh_langs := [41; 42]%N;
  sh_docs := [ex_doc 1 0 [true; false] 0 0; ex_doc 2 0 [true; true] 1 1] |}.
Definition ex_s2 : shard := {| sh_repos := [ex_r2; ex_r3]; sh_langs := [42]%N;
  sh_docs := [ex_doc 3 0 [true] 0 0; ex_doc 4 1 [true] 0 0] |}.

Ltac wf_tac := repeat constructor; eexists; repeat split; simpl; try reflexivity; try lia;
               repeat constructor; simpl; intuition discriminate.
Example ex_wf : Forall wf_shard [ex_s1; ex_s2].
Proof. repeat constructor; unfold wf_shard; simpl; wf_tac. Qed.
(** s2 (priority 30) comes first, its tombstoned repo 3 is dropped, languages are renumbered, all decoded
    documents are preserved *)
Example ex_merge :
  exists b, merge [ex_s1; ex_s2] = Ok b /\ map sr_id (sh_repos b) = [2; 1]%N /\ sh_langs b = [42; 41]%N /\
            map fst (view b) = [2; 1; 1]%N /\ map (fun e => dd_branches (snd e)) (view b) = [[12]; [11]; [11; 12]]%N /\
            map (fun e => dd_lang (snd e)) (view b) = [42; 41; 42]%N /\ map (fun e => dd_sub (snd e)) (view b) = [0; 0; 21]%N.
Proof. eexists. vm_compute. repeat split. Qed.
Example ex_explode :
  exists b outs, merge [ex_s1; ex_s2] = Ok b /\ explode b = Ok outs /\ length outs = 2%nat /\
                 map (fun o => map fst (view o)) outs = [[2]; [1; 1]]%N.
Proof. eexists. eexists. vm_compute. repeat split. Qed.
(** non-contiguous repository ids are rejected, as in the Go code *)
Example ex_noncontiguous :
  merge [{| sh_repos := [ex_r1; ex_r2]; sh_langs := [41]%N;
            sh_docs := [ex_doc 1 1 [true] 0 0; ex_doc 2 0 [true; false] 0 0] |}] = Err 4.
Proof. vm_compute. reflexivity. Qed.

(** the examples satisfy the totality hypotheses (decided by the booleans the runner also evaluates) *)
Example ex_mergeable : Forall mergeable [ex_s1; ex_s2] /\ [ex_s1; ex_s2] <> [].
Proof. split; [constructor; [|constructor; [|constructor]]; apply mergeableb_true; vm_compute; reflexivity|discriminate]. Qed.
Example ex_wfb : forallb wf_shardb [ex_s1; ex_s2] = true /\ forallb mergeableb [ex_s1; ex_s2] = true.
Proof. vm_compute. split; reflexivity. Qed.
(** the 64-branch bound is necessary: a well-formed single shard whose live repository has 65 branches is
    rejected (setRepository), by merge and by explode *)
Definition ex_r65 := {| sr_id := 9; sr_prio := 1; sr_tomb := false;
                        sr_branches := map N.of_nat (seq 1 65); sr_subs := [0] |}%N.
Definition ex_s65 : shard := {| sh_repos := [ex_r65]; sh_langs := [41]%N;
  sh_docs := [ex_doc 1 0 (true :: repeat false 64) 0 0] |}.
Example ex_65_branches :
  wf_shardb ex_s65 = true /\ mergeableb ex_s65 = false /\ merge [ex_s65] = Err 3 /\ explode ex_s65 = Err 3.
Proof. vm_compute. repeat split. Qed.
(** ... but harmless on a tombstoned repository (its documents are skipped) *)
Example ex_65_tombstoned :
  let r := {| sr_id := 9; sr_prio := 1; sr_tomb := true; sr_branches := sr_branches ex_r65; sr_subs := [0] |}%N in
  let s := {| sh_repos := [r; ex_r1]; sh_langs := [41]%N;
              sh_docs := [ex_doc 1 0 (true :: repeat false 64) 0 0; ex_doc 2 1 [true; false] 0 0] |} in
  mergeableb s = true /\ exists b, merge [s] = Ok b /\ map fst (view b) = [1]%N.
Proof. split; [vm_compute; reflexivity|]. eexists. vm_compute. split; reflexivity. Qed.
(** a concrete document-local engine: "files whose content id is c", reporting (repo id, file name) *)
Example ex_search :
  let dm := fun (c : N) (e : srepo * ddoc) =>
              if N.eqb (dd_content (snd e)) c then [(sr_id (fst e), dd_name (snd e))] else [] in
  let engine := fun c sh => flat_map (dm c) (viewr sh) in
  exists b, merge [ex_s1; ex_s2] = Ok b /\ engine 102%N b = [(1, 2)]%N /\
            flat_map (engine 102%N) [ex_s1; ex_s2] = [(1, 2)]%N /\
            doc_count 1 b = 2%nat /\ doc_count 2 b = 1%nat /\ doc_count 3 b = 0%nat /\
            map fst (viewr b) = [ex_r2; ex_r1; ex_r1].
Proof. eexists. vm_compute. repeat split. Qed.
(** 64 branches, documents on the branches 33..64: exact with the 64-bit walk *)
Example ex_64_branches :
  let r := {| sr_id := 5; sr_prio := 1; sr_tomb := false; sr_branches := map N.of_nat (seq 1 64); sr_subs := [0] |}%N in
  let s := {| sh_repos := [r]; sh_langs := [41]%N;
              sh_docs := [ex_doc 1 0 (repeat false 63 ++ [true]) 0 0; ex_doc 2 0 (repeat false 32 ++ true :: repeat false 31) 0 0] |} in
  c16_pre s = true /\ (exists b, merge_impl [s] = Ok b /\ map (fun e => dd_branches (snd e)) (view b) = [[64]; [33]]%N) /\
  merge_w 32 [s] = Err 2.
Proof. split; [vm_compute; reflexivity|]. split; [eexists; vm_compute; split; reflexivity|vm_compute; reflexivity]. Qed.
(** a section stored without symbol metadata (id 0) is copied with the empty metadata (id 1 = empty_meta) *)
Example ex_nil_meta :
  let s := {| sh_repos := [ex_r2]; sh_langs := [41]%N;
              sh_docs := [{| sd_name := 1; sd_content := 2; sd_repo := 0; sd_mask := [true]; sd_lang := 0; sd_sub := 0;
                             sd_syms := [(0, 3, 0); (4, 6, 9)]%N; sd_cat := 1%N |}] |} in
  exists b, merge_impl [s] = Ok b /\ map sd_syms (sh_docs b) = [[(0, 3, 1); (4, 6, 9)]]%N /\ view b = view s.
Proof. eexists. vm_compute. repeat split. Qed.
