(** C20 — the search scheduler bounds concurrency and never leaks slots.
    Model: Model/Sched.v (transition system following search/sched.go); proofs: Proofs/Sched.v.
    All statements quantify over arbitrary capacities [ci cb], an arbitrary number of processes (ENew events)
    and EVERY executable event list [es] (all interleavings of acquire, grant, cancel, time-slice expiry,
    yield, failure and release). *)
From ZV Require Import Lib.Base Generated.SchedConsts Model.Sched Proofs.Sched Proofs.SchedCap.

(** At any time at most capI processes hold an interactive slot and at most capB a batch slot. *)
Theorem C20_bounded_concurrency : forall (ci cb : nat) (es : list event) (s : state),
  run (init ci cb) es = Some s -> holders SI s <= ci /\ holders SB s <= cb.
Proof. exact bounded. Qed.
Print Assumptions C20_bounded_concurrency.

(** The semaphores' counters are exactly the number of processes whose `sem` variable points to them:
    no slot is held by nobody (leak) and nobody runs on a slot the semaphore does not account for. *)
Theorem C20_counter_equals_holders : forall (ci cb : nat) (es : list event) (s : state),
  run (init ci cb) es = Some s -> curI s = holders SI s /\ curB s = holders SB s.
Proof. exact counter_is_holders. Qed.
Print Assumptions C20_counter_equals_holders.

(** No schedule drives semaphore.Weighted.Release below zero ("semaphore: released more than held"). *)
Theorem C20_never_over_released : forall (ci cb : nat) (es : list event) (s : state),
  run (init ci cb) es = Some s -> panicked s = false.
Proof. exact never_over_released. Qed.
Print Assumptions C20_never_over_released.

(** Every acquired slot is released exactly once: per process and semaphore, #grants = #releases + (1 if
    currently held); at most one grant per semaphore; and a process that is not between API calls (waiting,
    failed, or after Release — whether it finished, was cancelled while waiting, or moved to batch) has
    released everything it was granted. *)
Theorem C20_release_exactly_once : forall (ci cb : nat) (es : list event) (s : state) (p : nat) (q : proc),
  run (init ci cb) es = Some s -> nth_error (procs s) p = Some q ->
  p_acqI q = p_relI q + b2n (holds SI q) /\ p_acqB q = p_relB q + b2n (holds SB q) /\
  p_acqI q <= 1 /\ p_acqB q <= 1 /\
  (p_pc q <> PRun -> p_acqI q = p_relI q /\ p_acqB q = p_relB q).
Proof. exact release_exactly_once. Qed.
Print Assumptions C20_release_exactly_once.

(** An acquisition (in Acquire or in Yield) fails only when its context is done — state form ... *)
Theorem C20_errors_only_if_ctx_done : forall (ci cb : nat) (es : list event) (s : state) (p : nat) (q : proc),
  run (init ci cb) es = Some s -> nth_error (procs s) p = Some q ->
  (0 < p_errs q -> p_ctx q = true) /\ (p_pc q = PAcqErr -> p_ctx q = true).
Proof. exact errors_only_if_ctx_done. Qed.
Print Assumptions C20_errors_only_if_ctx_done.

(** ... and history form: a failure event of p is always preceded by the cancellation of p's context. *)
Theorem C20_fail_only_after_cancel : forall (ci cb : nat) (pre : list event) (p : nat) (s : state),
  run (init ci cb) (pre ++ [EFail p]) = Some s -> In (ECancel p) pre.
Proof. exact fail_only_after_cancel. Qed.
Print Assumptions C20_fail_only_after_cancel.

(** No leak: when every process is outside the scheduler (never started, Acquire failed, or released), both
    semaphores are empty. *)
Theorem C20_no_leak : forall (ci cb : nat) (es : list event) (s : state),
  run (init ci cb) es = Some s -> (forall q, In q (procs s) -> quiet q = true) -> curI s = 0 /\ curB s = 0.
Proof. exact no_leak. Qed.
Print Assumptions C20_no_leak.

(** Trace validation is sound: a logged trace accepted by [accepts] is an execution of the transition system
    (so all of the above holds at its end, and — by [accepts_prefix] — at every logged instant). *)
Theorem C20_accepts_sound : forall (ci cb : nat) (ts : list tev),
  accepts ci cb ts = true ->
  exists es s, run (init ci cb) es = Some s /\ trun (init ci cb) ts = Some s /\
               holders SI s <= ci /\ holders SB s <= cb /\ panicked s = false.
Proof. exact accepts_sound. Qed.
Print Assumptions C20_accepts_sound.

Theorem C20_accepts_prefix : forall (ci cb : nat) (a b : list tev),
  accepts ci cb (a ++ b) = true -> accepts ci cb a = true.
Proof. exact accepts_prefix. Qed.
Print Assumptions C20_accepts_prefix.

(** The size newMultiScheduler gives the batch semaphore — the model's [batch_cap] evaluates the computation that
    translator/schedconsts reads from search/sched.go on every run (coq/Generated/SchedConsts.v) — is exactly the batch
    capacity of the property ("1/batchdiv of capacity", default 1/4, at least one slot), for EVERY capacity and divisor
    (batchdiv 0 = tunable not set).  A change of the rounding in the source makes this theorem fail; the harness's
    capacity sweep (capacities 1..40) then names the capacities at which one search too many holds a batch slot. *)
Theorem C20_batch_capacity_formula : forall capacity batchdiv : N,
  batch_cap capacity batchdiv =
  (let d := if N.eqb batchdiv 0 then 4 else batchdiv in
   if N.eqb (capacity / d) 0 then 1 else capacity / d)%N.
Proof. exact batch_cap_formula. Qed.
Print Assumptions C20_batch_capacity_formula.

(** newMultiScheduler never creates an empty batch queue. *)
Theorem C20_batch_capacity_positive : forall c d : N, (1 <= batch_cap c d)%N.
Proof. exact batch_cap_pos. Qed.
Print Assumptions C20_batch_capacity_positive.

(** ---- non-vacuity: concrete executable histories *)
Definition ex_hist : list event :=
  [ENew; ENew; ENew;
   EAcquire 0; EGrant 0;            (* 0 holds the only interactive slot *)
   EAcquire 1; ECancel 1; EFail 1;  (* 1 is cancelled while waiting *)
   EAcquire 2;                      (* 2 waits *)
   EFire 0; EYield 0;               (* 0's slice is over: releases interactive, waits for batch *)
   EGrant 2;                        (* 2 gets the interactive slot *)
   EGrant 0;                        (* 0 gets the batch slot *)
   EFire 2; EYield 2;               (* 2 wants batch too: blocks (batch is full) *)
   ECancel 2; EFail 2].             (* failed yield: 2 runs on with sem = nil *)

Example ex_hist_runs :
  match run (init 1 1) ex_hist with
  | Some s => (curI s, curB s, holders SI s, holders SB s, map p_pc (procs s), map p_errs (procs s))
  | None => (9, 9, 9, 9, [], [])
  end = (0, 1, 0, 1, [PRun; PAcqErr; PRun], [0; 1; 1]).
Proof. vm_compute. reflexivity. Qed.

(** hypotheses of C20_no_leak are satisfiable with a non-empty process list that went through every path *)
Example ex_all_quiet :
  match run (init 1 1) (ex_hist ++ [ERelease 2; ERelease 0]) with
  | Some s => forallb quiet (procs s) && (length (procs s) =? 3) && (curI s =? 0) && (curB s =? 0)
  | None => false
  end = true.
Proof. vm_compute. reflexivity. Qed.

(** hypothesis of C20_fail_only_after_cancel is satisfiable *)
Example ex_fail_runs :
  run (init 1 1) ([ENew; ENew; EAcquire 0; EGrant 0; EAcquire 1; ECancel 1] ++ [EFail 1]) <> None.
Proof. vm_compute. discriminate. Qed.

(** the transition system is not permissive: over-admission, failure without cancellation, double release
    and Yield after Release are not executable *)
Example ex_no_overadmission : run (init 1 1) [ENew; ENew; EAcquire 0; EGrant 0; EAcquire 1; EGrant 1] = None.
Proof. vm_compute. reflexivity. Qed.
Example ex_no_spurious_failure : run (init 1 1) [ENew; ENew; EAcquire 0; EGrant 0; EAcquire 1; EFail 1] = None.
Proof. vm_compute. reflexivity. Qed.
Example ex_release_is_last : run (init 1 1) [ENew; EAcquire 0; EGrant 0; ERelease 0; EYield 0] = None.
Proof. vm_compute. reflexivity. Qed.

(** the trace acceptor accepts a real-looking log and rejects logs with a leaked or over-released slot *)
Example ex_accepts :
  accepts 1 1 [TNew; TNew; TAcqCall 0; TAcqOk 0; TAcqCall 1; TYieldStart 0; TAcqOk 1; TYieldOk 0; TObs 1 1;
               TRelease 1; TRelease 0; TObs 0 0] = true.
Proof. vm_compute. reflexivity. Qed.
Example ex_rejects_leak :
  accepts 1 1 [TNew; TAcqCall 0; TAcqOk 0; TRelease 0; TObs 1 0] = false.
Proof. vm_compute. reflexivity. Qed.
Example ex_rejects_overadmission :
  accepts 1 1 [TNew; TNew; TAcqCall 0; TAcqOk 0; TAcqCall 1; TAcqOk 1] = false.
Proof. vm_compute. reflexivity. Qed.
Example ex_rejects_error_without_cancel :
  accepts 1 1 [TNew; TNew; TAcqCall 0; TAcqOk 0; TAcqCall 1; TAcqErr 1] = false.
Proof. vm_compute. reflexivity. Qed.

(** the formula theorem is about the generated computation (not a restatement of the spec): what the translator read *)
Example ex_batch_cap_values :
  map (fun c => batch_cap c 0) [1; 3; 4; 5; 7; 8; 9; 11; 12; 40]%N = [1; 1; 1; 1; 1; 2; 2; 2; 3; 10]%N /\
  map (fun c => batch_cap c 3) [1; 2; 3; 4; 5; 6; 7]%N = [1; 1; 1; 1; 1; 2; 2]%N /\
  default_batchdiv = 4%Z.
Proof. vm_compute. repeat split. Qed.
