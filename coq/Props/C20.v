From ZV Require Import Lib.Base Model.Sched.
Theorem C20_placeholder : True. Proof. exact I. Qed.
Print Assumptions C20_placeholder.
