(** C21 — match limits and cancellation only remove whole files.  Property theorems over Model/SearchLimits.v (the loop of
    index/eval.go:indexData.Search with ShardMaxMatchCount, ShardRepoMaxMatchCount and the per-iteration cancellation
    flag; TotalMaxMatchCount of search/shards.go:streamSearch) on top of the search-core model of C01. *)
From ZV Require Import Lib.Base Model.SearchCore Model.SearchLimits Proofs.SearchCoreText Proofs.SearchCoreTree
  Proofs.SearchCoreLoop Proofs.SearchCoreBuild Proofs.SearchCoreSimp Proofs.SearchCoreTop Proofs.SearchLimits.
From ZV Require Import Model.SearchDeadline Proofs.SearchDeadline.
From Coq Require Import ZifyBool.

(** 1. The candidates the FileMatch of document k is built from do not depend on which documents the loop visited or
    skipped before (i.e. not on counters, limits or the cancellation point): for any two states reachable from the
    query's tree by any sequences of prepare calls, both valid for a document k. *)
Theorem C21_file_payload_independent :
  forall (re_match : N -> list N -> bool) (tolower : N -> N) (orbit : N -> list N) (c : corpus),
  agree tolower orbit ->
  forall (t0 t1 t2 : mt) (last1 last2 : option nat) (k : nat),
  reach c t0 t1 -> reach c t0 t2 -> tvalid tolower orbit c last1 t1 -> tvalid tolower orbit c last2 t2 ->
  lt_last last1 k -> lt_last last2 k -> k < ndocs c ->
  payload tolower c k (prepare c k t1) = payload tolower c k (prepare c k t2).
Proof. intros re_match tolower orbit c Hag. exact (file_payload_independent re_match tolower orbit c Hag). Qed.
Print Assumptions C21_file_payload_independent.

(** 2. For every corpus, query, limit setting (ShardMaxMatchCount, ShardRepoMaxMatchCount), cancellation point and every
    function giving the number of matches per file: the files returned are a subsequence (same order, nothing new) of the
    files returned without limits. *)
Theorem C21_limited_subset :
  forall (re_match : N -> list N -> bool) (tolower : N -> N) (orbit : N -> list N) (c : corpus)
         (freq : bool -> bool -> tri -> N),
  agree tolower orbit ->
  (forall fn cs g, freq fn cs g = 0%N -> post orbit (ix_tris c fn) cs g = []) ->
  forall (weight : nat -> list (list nat) -> nat) (lim : limits) (cancel_at : option nat) (q : Q),
  subseq (search_limited re_match tolower orbit c freq weight lim cancel_at q) (search re_match tolower orbit c freq q).
Proof. exact search_limited_subseq. Qed.
Print Assumptions C21_limited_subset.

(** 3. Cancellation (at any iteration) and the shard limit alone return a PREFIX of the unlimited result. *)
Theorem C21_cancel_is_prefix :
  forall (re_match : N -> list N -> bool) (tolower : N -> N) (orbit : N -> list N) (c : corpus)
         (freq : bool -> bool -> tri -> N) (weight : nat -> list (list nat) -> nat)
         (lim : limits) (cancel_at : option nat) (q : Q),
  repo_max lim = 0 ->
  exists rest, search re_match tolower orbit c freq q =
               search_limited re_match tolower orbit c freq weight lim cancel_at q ++ rest.
Proof. exact search_limited_prefix. Qed.
Print Assumptions C21_cancel_is_prefix.

(** 4. With no limit set and no cancellation the limited search is the search of C01. *)
Theorem C21_no_limits_same :
  forall (re_match : N -> list N -> bool) (tolower : N -> N) (orbit : N -> list N) (c : corpus)
         (freq : bool -> bool -> tri -> N) (weight : nat -> list (list nat) -> nat) (lim : limits) (q : Q),
  shard_max lim = 0 -> repo_max lim = 0 ->
  search_limited re_match tolower orbit c freq weight lim None q = search re_match tolower orbit c freq q.
Proof. exact search_limited_unlimited. Qed.
Print Assumptions C21_no_limits_same.

(** 5. Every file returned under limits is a live document on which the query holds (C01's specification), under C01's
    hypotheses (partial in the same sense as C01_search_exact_partial: regexp obligation re_okb). *)
Theorem C21_limited_files_match_partial :
  forall (re_match : N -> list N -> bool) (tolower : N -> N) (orbit : N -> list N) (c : corpus)
         (freq : bool -> bool -> tri -> N),
  agree tolower orbit ->
  (forall fn cs g, freq fn cs g = 0%N -> post orbit (ix_tris c fn) cs g = []) ->
  forall (weight : nat -> list (list nat) -> nat) (lim : limits) (cancel_at : option nat) (q : Q),
  re_okb re_match tolower orbit c freq (expand (simp c q)) = true ->
  subseq (search_limited re_match tolower orbit c freq weight lim cancel_at q) (spec_search re_match tolower c q).
Proof.
  intros re_match tolower orbit c freq Hag Hf weight lim ca q Hre.
  rewrite <- (search_exact_checked re_match tolower orbit c freq Hag Hf q Hre). apply search_limited_subseq; assumption.
Qed.
Print Assumptions C21_limited_files_match_partial.

(** 5b. The per-repository limit alone (indexData.List uses ShardRepoMaxMatchCount = 1) keeps at least one file of every
    repository that has a file in the unlimited result, whatever the per-file match counts are. *)
Theorem C21_repo_limit_keeps_every_repo :
  forall (re_match : N -> list N -> bool) (tolower : N -> N) (orbit : N -> list N) (c : corpus)
         (freq : bool -> bool -> tri -> N),
  agree tolower orbit ->
  (forall fn cs g, freq fn cs g = 0%N -> post orbit (ix_tris c fn) cs g = []) ->
  forall (weight : nat -> list (list nat) -> nat) (lim : limits) (q : Q),
  shard_max lim = 0 -> 0 < repo_max lim ->
  forall k, In k (search re_match tolower orbit c freq q) ->
  exists k', In k' (search_limited re_match tolower orbit c freq weight lim None q) /\ repo_idx c k' = repo_idx c k.
Proof. exact search_repo_limit_keeps_repos. Qed.
Print Assumptions C21_repo_limit_keeps_every_repo.

(** 6. TotalMaxMatchCount (streamSearch): the results handed on are whole shard results -- a prefix of the arrival sequence. *)
Theorem C21_total_limit_only_drops_shards : forall (A : Type) (limit inflight : nat) (rs : list (nat * list A)) (total : nat) (left : option nat),
  exists j, total_stream A limit inflight total left rs = firstn j (map snd rs).
Proof. exact total_stream_whole. Qed.
Print Assumptions C21_total_limit_only_drops_shards.

(** 8. "A cancelled or timed-out search finishes promptly" (Model/SearchDeadline.v: abstract time; contexts = the
    instant their Done() fires; streamSearch's derived context; WHICH context the workers hand to searchOneShard is the
    explicit step [repo_wiring], tied to the code by the context a fake shard receives behind a real shardedSearcher).
    For every caller context, start instant, MaxWallTime > 0, number of workers, list of shard durations (None = a
    shard that would run for ever, e.g. one that only returns when its context is done) and EVERY assignment of shards
    to workers: every worker is done — the search has finished — no later than MaxWallTime after the start. *)
Theorem C21_timed_out_search_finishes_by_deadline :
  forall (caller : ctxd) (now mwt : N) (nworkers : nat) (ws : list (option N)) (sched : list nat),
  mwt <> 0%N ->
  Forall (fun f => exists t, f = Some t /\ (t <= now + mwt)%N)
         (pool (shard_ctx repo_wiring caller now mwt) (repeat (Some now) nworkers) ws sched).
Proof. exact timed_out_search_finishes. Qed.
Print Assumptions C21_timed_out_search_finishes_by_deadline.

(** ... and no later than the instant the caller's context fires (cancellation or the caller's own deadline),
    whatever MaxWallTime is. *)
Theorem C21_cancelled_search_finishes :
  forall (cd now mwt : N) (nworkers : nat) (ws : list (option N)) (sched : list nat),
  Forall (fun f => exists t, f = Some t /\ (t <= N.max now cd)%N)
         (pool (shard_ctx repo_wiring (Some cd) now mwt) (repeat (Some now) nworkers) ws sched).
Proof. exact cancelled_search_finishes. Qed.
Print Assumptions C21_cancelled_search_finishes.

(** If the workers handed the CALLER's context to the shard searches (the derived context reaching only proc.Yield)
    the statement would be false: a caller without deadline and one shard that waits for its context never finish. *)
Theorem C21_deadline_with_caller_wiring_refuted :
  exists (mwt : N) (ws : list (option N)),
    mwt <> 0%N /\ In None (pool (shard_ctx WCaller None 0 mwt) (repeat (Some 0%N) 2) ws [0; 1]).
Proof. exists 100%N, [Some 5%N; None]. split; [discriminate|]. vm_compute. right. left. reflexivity. Qed.
Print Assumptions C21_deadline_with_caller_wiring_refuted.

(* ------------------------------------------------------------------ non-vacuity *)
Definition alower (x : N) : N := if ((65 <=? x) && (x <=? 90))%N then (x + 32)%N else x.
Definition aorbit (x : N) : list N :=
  if ((65 <=? x) && (x <=? 90))%N then [x; (x + 32)%N]
  else if ((97 <=? x) && (x <=? 122))%N then [x; (x - 32)%N] else [x].
Definition ex_repo (nm : list N) : repo :=
  {| r_name := nm; r_id := 7; r_tomb := false; r_ftombs := []; r_branches := [[109]]%N; r_rawmask := 0 |}.
Definition ex_doc (nm ct : list N) (rp : nat) : doc := {| d_name := nm; d_content := ct; d_mask := 1; d_repo := rp; d_lang := 0; d_secs := [] |}.
(** two repositories; documents 0,1,2 in repo 0 and 3,4 in repo 1; "abc" occurs in 0,1,2,4 *)
Definition ex_corpus : corpus :=
  {| c_repos := [ex_repo [114]%N; ex_repo [115]%N];
     c_docs := [ex_doc [97]%N [97; 98; 99]%N 0; ex_doc [98]%N [120; 97; 98; 99; 97; 98; 99]%N 0; ex_doc [99]%N [97; 98; 99; 100]%N 0;
                ex_doc [100]%N [120; 121]%N 1; ex_doc [101]%N [97; 98; 99]%N 1];
     c_langs := [] |}.
Definition ex_q : Q := QSubstr [97; 98; 99]%N true false true.
Definition ex_re (_ : N) (_ : list N) : bool := false.
Definition ex_w (k : nat) (p : list (list nat)) : nat := fold_right (fun l a => length l + a) 0 p.   (* one match per candidate *)
Definition ex_run lim ca := search_limited ex_re alower aorbit ex_corpus (count_freq aorbit ex_corpus) ex_w lim ca ex_q.
Example ex_unlimited : ex_run {| shard_max := 0; repo_max := 0 |} None = [0; 1; 2; 4]. Proof. vm_compute. reflexivity. Qed.
Example ex_shardmax : ex_run {| shard_max := 2; repo_max := 0 |} None = [0; 1]. Proof. vm_compute. reflexivity. Qed.
Example ex_repomax : ex_run {| shard_max := 0; repo_max := 1 |} None = [0; 4]. Proof. vm_compute. reflexivity. Qed.
Example ex_cancel : ex_run {| shard_max := 0; repo_max := 0 |} (Some 2) = [0; 1]. Proof. vm_compute. reflexivity. Qed.
Example ex_total : total_stream nat 3 1 0 None [(2, [1; 2]); (2, [3]); (1, [4]); (5, [5])] = [[1; 2]; [3]; [4]]. Proof. vm_compute. reflexivity. Qed.
(** three workers, five shards of which two would run for ever, MaxWallTime 100 at instant 10: everything is over by 110;
    the context classes the harness observes *)
Example ex_deadline_pool :
  pool (shard_ctx repo_wiring None 10 100) (repeat (Some 10%N) 3) [Some 5; None; Some 300; None; Some 7]%N [0; 1; 2; 0; 0]
  = [Some 110; Some 110; Some 110]%N.
Proof. vm_compute. reflexivity. Qed.
Example ex_ctx_classes :
  map c21d_ok [(100, None, 2); (0, None, 0); (0, Some 50, 1); (400, Some 100, 1); (100, Some 400, 2); (100, None, 0)]%N
  = [true; true; true; true; true; false].
Proof. vm_compute. reflexivity. Qed.
