(** C18 — The sharded searcher returns the union of per-shard answers.
    Model: Model/Shards.v (selectRepoSet/doSelectRepoSet incl. the query rewrite, typeRepoSearcher.eval,
    shardedSearcher.List aggregation).  Per-shard search is the reference meaning [eval] of the query on the
    shard's documents; content atoms are arbitrary per-document predicates; shards are arbitrary lists of
    repositories (simple, compound, a repository split over several shards, unknown repository lists). *)
From ZV Require Import Lib.Base Model.Shards Proofs.Shards Proofs.ShardsBranches Proofs.ShardsMemo Generated.C18Rewrite.
Require Coq.Strings.String.
Import Coq.Strings.String.StringSyntax.
Delimit Scope string_scope with string.

(** Pre-selecting shards by the first repository-set child and rewriting that child (to Const true, or to an
    exact Branch filter) never adds or removes a file: the sharded answer is, shard by shard and in shard
    order, the answer of every loaded shard to the ORIGINAL query. *)
Theorem C18_select_sound : forall shards cs,
  sharded_search shards cs = flat_map (search_shard cs) shards.
Proof. exact select_sound. Qed.
Print Assumptions C18_select_sound.

(** the same at document level: which shards are dropped, and what the kept ones answer *)
Theorem C18_select_pointwise : forall shards cs sel cs',
  select shards cs = (sel, cs') ->
  exists keep, sel = filter keep shards /\
    (forall s, In s shards -> keep s = false ->
       forall rd d, In rd (sh_parts s) -> In d (snd rd) -> eval_top no_tr cs (fst rd) d = false) /\
    (forall s, In s shards -> keep s = true ->
       forall rd d, In rd (sh_parts s) -> In d (snd rd) -> eval_top no_tr cs' (fst rd) d = eval_top no_tr cs (fst rd) d).
Proof.
  intros shards cs sel cs' H. unfold select, select_gen in H. rewrite do_select_coded_eq in H.
  exact (do_select_spec no_tr cs [] shards sel cs' H).
Qed.
Print Assumptions C18_select_pointwise.

(** FileMatch.Branches (indexData.gatherBranches: the branches contributed by the visited branch atoms of the
    per-shard SIMPLIFIED query, or all branches of the file when there is none): selection and rewrite change
    neither the files nor the branches reported for them — (file, Branches) pairs of the sharded searcher are,
    shard by shard, those of every loaded shard answering the original query. *)
Theorem C18_select_sound_with_branches : forall shards cs,
  sharded_search_br shards cs = flat_map (search_shard_br cs) shards.
Proof. exact select_sound_br. Qed.
Print Assumptions C18_select_sound_with_branches.

(** ... they are the files of [C18_select_sound]; reported branches are branches of the file, listed in the
    repository's branch order; all of them when no branch atom contributes; only the requested one under a
    top-level exact branch filter. *)
Theorem C18_reported_branches : forall cs s r d,
  map fst (search_shard_br cs s) = search_shard cs s /\
  (forall b, In b (file_branches cs s r d) -> In b (r_branches r) /\ memN b (d_branches d) = true) /\
  (flat_map (fun c => bcontrib (simp_sh s c) r d) cs = [] ->
   file_branches cs s r d = filter (fun b => memN b (d_branches d)) (r_branches r)) /\
  (forall b b', N.eqb b HEAD = false -> In b' (file_branches [QBranchExact b] s r d) -> in_branch r d b = true -> b' = b).
Proof.
  intros cs s r d. split; [apply search_shard_br_files|]. split; [apply file_branches_sub|].
  split; [apply file_branches_all | intros b b'; apply file_branches_exact].
Qed.
Print Assumptions C18_reported_branches.

(** List goes through the same selection: it equals the per-shard listings of ALL shards for the original
    query, merged by name. *)
Theorem C18_list_sound : forall shards cs,
  sharded_list shards cs = agg_list (flat_map (list_shard cs) shards).
Proof. exact list_sound. Qed.
Print Assumptions C18_list_sound.

(** Each repository is listed once; a name is listed iff some shard lists it; Documents / Shards are the sums
    over the per-shard entries of that name. *)
Theorem C18_list_each_repo_once_stats_summed : forall shards cs,
  let per_shard := flat_map (list_shard cs) shards in
  let res := sharded_list shards cs in
  NoDup (map le_name res) /\
  (forall n, In n (map le_name res) <-> In n (map le_name per_shard)) /\
  (forall x, In x res -> le_docs x = docs_of (le_name x) per_shard /\ le_shards x = shards_of (le_name x) per_shard).
Proof. intros shards cs. cbv zeta. rewrite list_sound. apply agg_list_spec. Qed.
Print Assumptions C18_list_each_repo_once_stats_summed.

(** type:repo: replacing (type:repo c) by the set of names that the sharded List returns for c (innermost
    first, as query.Map does) has the reference meaning "the document's repository has, in some loaded shard,
    a document matching c" — for every query, every nesting depth. *)
Theorem C18_typerepo_equiv : forall shards q r d,
  eval (tr_ref (depth q) shards) q r d = eval no_tr (expand shards q) r d.
Proof. intros. apply typerepo_equiv. apply le_n. Qed.
Print Assumptions C18_typerepo_equiv.

(** The rewrite table of doSelectRepoSet, regenerated from search/shards.go on every run (Generated/C18Rewrite.v), is
    the one the model implements: [child_pred] selects shards by RepoSet / RepoIDs / Repo / Meta (one [QRepoPred]) and
    BranchesRepos; [rewrite_child] turns the former into Const true and a SINGLE-entry BranchesRepos into an EXACT
    Branch atom (fields Pattern and Exact: true) under the HEAD guard. *)
Theorem C18_rewrite_table_matches_model :
  c18_selected_kinds = ["BranchesRepos"; "Meta"; "Repo"; "RepoIDs"; "RepoSet"]%string /\
  c18_const_true_kinds = ["Meta"; "Repo"; "RepoIDs"; "RepoSet"]%string /\
  c18_branch_rewrite_fields = ["Exact"; "Pattern"]%string /\
  c18_branch_rewrite_exact = true /\ c18_single_entry_guard = true /\ c18_head_guard = true /\
  (forall p f, rewrite_child true f (QRepoPred p) = Some (QConst true)) /\
  (forall b ids f, N.eqb b HEAD = false -> rewrite_child true f (QBranchesRepos [(b, ids)]) = Some (QBranchExact b)) /\
  (forall x y l f, rewrite_child true f (QBranchesRepos (x :: y :: l)) = None).
Proof.
  repeat split; try reflexivity.
  - intros b ids f Hb. cbn. rewrite Hb. reflexivity.
  - intros [b ids] y l f. reflexivity.
Qed.
Print Assumptions C18_rewrite_table_matches_model.

(** The two loops that decide which shards are searched and whether the filter may be dropped, AS CODED: the statement
    lists are regenerated from search/shards.go on every run (Generated/C18Rewrite.v) and are the ones [has_repos] /
    [select_loop] transcribe (what [select], and so every theorem above, executes).  hasReposForPredicate looks at EVERY
    repository of the shard — any = some repository satisfies the predicate, all = every one does (no early exit at the first
    hit) —; the shard loop keeps a shard iff its repository list is unknown or any, and filteredAll holds iff every kept
    shard is known and all of its repositories satisfy the predicate.  Only then is the filter replaced. *)
Theorem C18_select_loops_as_coded :
  c18_hasrepos_loop = ["any = false"; "all = true"; "for _, repo := range repos {"; "b := pred(repo)"; "any = any || b";
                       "all = all && b"; "}"; "return any, all"]%string /\
  c18_shard_loop = ["for _, s := range shards {"; "if s.repos == nil {"; "filtered = append(filtered, s)"; "filteredAll = false";
                    "} else if any, all := hasRepos(s.repos); any {"; "filtered = append(filtered, s)";
                    "filteredAll = filteredAll && all"; "}"; "}"]%string /\
  (forall p repos, has_repos p repos = (existsb p repos, forallb p repos)) /\
  (forall p shards,
     let kept := filter (fun s => negb (sh_known s) || existsb p (sh_repos s)) shards in
     select_loop p shards = (kept, forallb (fun s => sh_known s && forallb p (sh_repos s)) kept)) /\
  (forall shards cs sel cs' s r, select shards cs = (sel, cs') -> cs' <> cs -> In s sel -> In r (sh_repos s) ->
     exists pre c rest p, cs = pre ++ c :: rest /\ child_pred c = Some p /\ p r = true).
Proof.
  split; [reflexivity|]. split; [reflexivity|]. split; [exact has_repos_spec|]. split; [exact select_loop_spec|].
  intros shards cs sel cs' s r H Hne Hs Hr. unfold select, select_gen in H. rewrite do_select_coded_eq in H.
  destruct (do_select_shape cs [] shards sel cs' H) as [E | (mid & c & c' & rest & p & E1 & E2 & Hc & Hrw & Hall)].
  - exfalso. apply Hne. cbn in E. exact E.
  - exists mid, c, rest, p. cbn in E1. split; [exact E1|]. split; [exact Hc|].
    apply (forallb_In _ _ _ r (Hall s Hs) Hr).
Qed.
Print Assumptions C18_select_loops_as_coded.

(** Sharing evaluated type:repo children inside one request (a memo keyed by [key child]; the tree has none: every atom
    lists ITS OWN child, [expand], which is what [C18_typerepo_equiv] is about) keeps the reference meaning exactly under the
    side condition that equal keys imply equal meaning of the children, e.g. an injective key ... *)
Theorem C18_typerepo_memo_sound : forall (K : Type) (keqb : K -> K -> bool) (key : Q -> K),
  (forall a b, keqb a b = true -> a = b) ->
  (forall c1 c2, key c1 = key c2 -> forall r d, eval no_tr c1 r d = eval no_tr c2 r d) ->
  forall shards q,
    (forall r d, eval no_tr (fst (expand_memo keqb key shards q [])) r d = eval (tr_ref (depth q) shards) q r d) /\
    sharded_search shards [fst (expand_memo keqb key shards q [])] = sharded_search shards [expand shards q].
Proof.
  intros K keqb key H1 H2 shards q. split.
  - intros r d. now apply typerepo_memo_sound.
  - now apply typerepo_memo_search.
Qed.
Print Assumptions C18_typerepo_memo_sound.

(** ... and not with a key that forgets the members of a repository set, as query.Q.String() does (`count:N`, `size=N`):
    in (or type:repo(repoids 7) type:repo(repoids 8)) the second atom would be answered with the first one's set. *)
Theorem C18_typerepo_memo_refuted_noninjective_key :
  exists shards q, sharded_search shards [fst (expand_memo N.eqb shape_key shards q [])] <> sharded_search shards [expand shards q].
Proof.
  exists memo_ex_shards, memo_ex_q. destruct typerepo_memo_shape_key_unsound as [E1 E2]. rewrite E1, E2. discriminate.
Qed.
Print Assumptions C18_typerepo_memo_refuted_noninjective_key.

(** The code before the repair (/repo 823fc3f): a single-entry BranchesRepos on "HEAD" was always rewritten to
    Branch{HEAD, exact}; on a repository with branches [main, HEAD] that selects other files. *)
Theorem C18_select_sound_refuted_before_fix :
  exists shards cs, sharded_search_gen false shards cs <> flat_map (search_shard cs) shards.
Proof. exact select_unfixed_unsound. Qed.
Print Assumptions C18_select_sound_refuted_before_fix.

(** ---- non-vacuity ---- *)
Definition ex_repo (n i : N) (bs : list N) : repo := {| r_name := n; r_id := i; r_branches := bs; r_meta := 0 |}.
Definition hd_shard (l : list shard) : shard := {| sh_known := true; sh_parts := [] |}.
Definition ex_shards : list shard :=
  [ {| sh_known := true; sh_parts := [ (ex_repo 10 7 [HEAD; 2%N], [ {| d_id := 100; d_branches := [HEAD] |}; {| d_id := 101; d_branches := [2%N] |} ]) ] |};
    {| sh_known := true; sh_parts := [ (ex_repo 11 8 [HEAD], [ {| d_id := 110; d_branches := [HEAD] |} ]);
                                       (ex_repo 12 9 [HEAD], [ {| d_id := 120; d_branches := [HEAD] |} ]) ] |};
    {| sh_known := true; sh_parts := [ (ex_repo 10 7 [HEAD; 2%N], [ {| d_id := 102; d_branches := [HEAD; 2%N] |} ]) ] |} ].

(** BranchesRepos{HEAD: [7]}: the compound shard (repositories 8, 9) is dropped, both shards of repository 7 are
    kept and the child becomes Branch{HEAD, exact} (HEAD is their first branch); with ids [7; 8] the compound
    shard is kept but also holds repository 9, so nothing may be rewritten and all three shards are searched
    with the original query. *)
Example C18_nonvacuous_select :
  (let '(sel, cs') := select ex_shards [QBranchesRepos [(HEAD, [7%N])]; QOther (fun _ d => negb (N.eqb (d_id d) 102))] in
   (length sel, match cs' with QBranchExact b :: _ => Some b | _ => None end)) = (2, Some HEAD) /\
  sharded_search ex_shards [QBranchesRepos [(HEAD, [7%N])]; QOther (fun _ d => negb (N.eqb (d_id d) 102))] = [100%N] /\
  (let '(sel, cs') := select ex_shards [QBranchesRepos [(HEAD, [7; 8]%N)]] in
   (length sel, match cs' with QBranchesRepos _ :: _ => true | _ => false end)) = (3, true).
Proof. vm_compute. repeat split. Qed.

Example C18_nonvacuous_list :
  map le_row (sharded_list ex_shards [QRepoPred (fun r => N.eqb (r_id r) 7)]) = [(10, 7, 3, 2)]%N /\
  map le_row (sharded_list ex_shards []) = [(10, 7, 3, 2); (11, 8, 1, 1); (12, 9, 1, 1)]%N.
Proof. vm_compute. split; reflexivity. Qed.

Example C18_nonvacuous_typerepo :
  let q := QAnd2 (QTypeRepo (QOther (fun _ d => N.eqb (d_id d) 102))) (QBranchExact 2) in
  depth q = 1 /\ sharded_search ex_shards [expand ex_shards q] = [101; 102]%N.
Proof. vm_compute. split; reflexivity. Qed.

(** branches: document 102 is on HEAD and 2.  A BranchesRepos{2: [7]} filter reports branch 2 only (also after the
    rewrite to Branch{2, exact}); without a branch atom both are reported; (or branch:2 <all repositories>) folds
    to TRUE in every shard and reports both again. *)
Example C18_nonvacuous_branches :
  sharded_search_br ex_shards [QBranchesRepos [(2, [7])]%N] = [(101, [2]); (102, [2])]%N /\
  sharded_search_br ex_shards [QOther (fun _ d => N.eqb (d_id d) 102)] = [(102, [HEAD; 2])]%N /\
  sharded_search_br ex_shards [QOr2 (QBranchExact 2) (QRepoPred (fun _ => true)); QOther (fun _ d => N.eqb (d_id d) 102)]
    = [(102, [HEAD; 2])]%N /\
  sharded_search_br ex_shards [QOr2 (QBranchExact 2) (QOther (fun _ d => N.eqb (d_id d) 100)); QRepoPred (fun r => N.eqb (r_id r) 7)]
    = [(100, [HEAD]); (101, [2]); (102, [2])]%N.
Proof. vm_compute. repeat split. Qed.

(** the loops: a compound shard whose FIRST repository is selected and a later one is not is kept but blocks the rewrite *)
Example C18_nonvacuous_loops :
  has_repos (fun r => N.eqb (r_id r) 8) (sh_repos (nth 1 ex_shards (hd_shard ex_shards))) = (true, false) /\
  (let '(sel, all) := select_loop (fun r => N.eqb (r_id r) 8) ex_shards in (length sel, all)) = (1, false) /\
  (let '(sel, cs') := select ex_shards [QRepoPred (fun r => N.eqb (r_id r) 8)] in
   (length sel, match cs' with [QRepoPred _] => true | _ => false end)) = (1, true) /\
  sharded_search ex_shards [QRepoPred (fun r => N.eqb (r_id r) 8)] = [110]%N /\
  (let '(sel, cs') := select ex_shards [QRepoPred (fun r => N.eqb (r_id r) 7)] in
   (length sel, match cs' with [QConst true] => true | _ => false end)) = (2, true).
Proof. vm_compute. repeat split. Qed.

(** memo with an injective key (here: the key of a child is its position in a fixed enumeration of two children) *)
Example C18_nonvacuous_memo :
  sharded_search memo_ex_shards [expand memo_ex_shards memo_ex_q] = [100; 110]%N /\
  sharded_search memo_ex_shards [fst (expand_memo N.eqb (fun _ => 0%N) memo_ex_shards
      (QOr2 (QTypeRepo (QRepoPred (fun r => N.eqb (r_id r) 7))) (QTypeRepo (QRepoPred (fun r => N.eqb (r_id r) 7)))) [])] = [100]%N.
Proof. vm_compute. split; reflexivity. Qed.
