(** C27 — Regexp printing and optimisation preserve the matched language.

    Level: translation validation with a PROVED checker.  regexp/syntax.Parse is not modelled; for every
    generated pattern the harness exports a0 = Parse p, a1 = Parse (RegexpString a0), a2 = OptimizeRegexp a0,
    a3 = Parse (RegexpString a2) and the run evaluates [c27_print_ok] / [c27_opt_ok] / [c27_optprint_ok] (equality of
    normal forms) by vm_compute.  The
    theorems below say that each [true] is a proof that the two expressions match exactly the same
    (text, start, end) triples — for ALL subject texts.

    Model: Model/Regex.v ([re] mirrors syntax.Regexp; [ends] = executable set of end positions, [m] = its
    declarative twin; [norm] = the normaliser), Model/RegexTV.v (the runner), Model/CaseFold.v
    (simple-fold orbits over the table generated from the Go toolchain).  NonGreedy is outside the AST. *)
From ZV Require Import Lib.Base Model.Regex Model.CaseFold Model.RegexTV
  Proofs.RegexBasics Proofs.RegexEnds Proofs.RegexNorm.

(** Equal normal forms => equal end-position sets, for every text, every start position and every
    fold-orbit function (in particular the generated Unicode one). *)
Theorem C27_norm_sound : forall orbit a b, norm orbit a = norm orbit b ->
  forall t i j, In j (ends orbit a t i) <-> In j (ends orbit b t i).
Proof.
  intros orbit a b E t i j. rewrite !ends_spec. apply norm_sound_lang; exact E.
Qed.
Print Assumptions C27_norm_sound.

(** The executable semantics is the declarative one: [ends] never runs out of fuel. *)
Theorem C27_ends_exact : forall orbit r t i j, In j (ends orbit r t i) <-> m orbit r t i j.
Proof. exact ends_spec. Qed.
Print Assumptions C27_ends_exact.

(** What a [true] of the runner means: printing + re-parsing preserved the language ... *)
Theorem C27_print_certificate : forall a0 a1 a2 a3 ss, c27_print_ok (a0, a1, a2, a3, ss) = true ->
  forall t i, (forall j, In j (ends orbit a0 t i) <-> In j (ends orbit a1 t i)) /\
              matches_at orbit a0 t i = matches_at orbit a1 t i.
Proof.
  intros a0 a1 a2 a3 ss H t i. unfold c27_print_ok, nrm in H. apply re_eqb_eq in H.
  assert (Hj : forall j, In j (ends orbit a0 t i) <-> In j (ends orbit a1 t i)) by (intros j; apply C27_norm_sound; exact H).
  split; [exact Hj|]. unfold matches_at.
  destruct (ends orbit a0 t i) as [|e es] eqn:E0, (ends orbit a1 t i) as [|e' es'] eqn:E1; try reflexivity.
  - exfalso. apply (proj2 (Hj e')). left; reflexivity.
  - exfalso. apply (proj1 (Hj e)). left; reflexivity.
Qed.
Print Assumptions C27_print_certificate.

(** ... and OptimizeRegexp (capture removal, re-parse, Simplify) preserved it. *)
Theorem C27_optimize_certificate : forall a0 a1 a2 a3 ss, c27_opt_ok (a0, a1, a2, a3, ss) = true ->
  forall t i, (forall j, In j (ends orbit a0 t i) <-> In j (ends orbit a2 t i)) /\
              matches_at orbit a0 t i = matches_at orbit a2 t i.
Proof.
  intros a0 a1 a2 a3 ss H t i. unfold c27_opt_ok, nrm in H. apply re_eqb_eq in H.
  assert (Hj : forall j, In j (ends orbit a0 t i) <-> In j (ends orbit a2 t i)) by (intros j; apply C27_norm_sound; exact H).
  split; [exact Hj|]. unfold matches_at.
  destruct (ends orbit a0 t i) as [|e es] eqn:E0, (ends orbit a2 t i) as [|e' es'] eqn:E1; try reflexivity.
  - exfalso. apply (proj2 (Hj e')). left; reflexivity.
  - exfalso. apply (proj1 (Hj e)). left; reflexivity.
Qed.
Print Assumptions C27_optimize_certificate.

(** ... and so did printing the optimised regexp and parsing it again (the form held by query.Regexp is what
    index/matchtree.go compiles and what the proto / gob encodings carry). *)
Theorem C27_optimized_print_certificate : forall a0 a1 a2 a3 ss, c27_optprint_ok (a0, a1, a2, a3, ss) = true ->
  forall t i j, In j (ends orbit a2 t i) <-> In j (ends orbit a3 t i).
Proof.
  intros a0 a1 a2 a3 ss H t i j. unfold c27_optprint_ok, nrm in H. apply re_eqb_eq in H. apply C27_norm_sound; exact H.
Qed.
Print Assumptions C27_optimized_print_certificate.

(** Instances that hold for every expression (no run needed): removing a capture, and the
    x{n,m} / x{n,} expansion performed by Simplify, never change the language. *)
Theorem C27_uncapture_sound : forall orbit r t i j,
  In j (ends orbit (RCapture r) t i) <-> In j (ends orbit (RConcat [r]) t i).
Proof.
  intros orbit r t i j. rewrite !ends_spec. simpl. split.
  - intros H; exists j; auto.
  - intros (k & H & ->); exact H.
Qed.
Print Assumptions C27_uncapture_sound.

Theorem C27_simplify_repeat_sound : forall orbit mn mx r t i j,
  In j (ends orbit (RRepeat mn mx r) t i) <-> In j (ends orbit (expand mn mx r) t i).
Proof.
  intros orbit mn mx r t i j. rewrite !ends_spec.
  rewrite (expand_sound orbit mn mx r t i j). apply m_repeat.
Qed.
Print Assumptions C27_simplify_repeat_sound.

(** Non-vacuity.  (x)|a|b|bc : after capture removal the parser merges x|a|b into one class and keeps bc;
    the checker certifies the pair ... *)
Example C27_nonvacuous_certifies :
  let a0 := RAlt [RCapture (RLit false [120]); RLit false [97]; RLit false [98]; RLit false [98; 99]]%N in
  let a2 := RAlt [RClass [(97, 98); (120, 120)]; RLit false [98; 99]]%N in
  c27_opt_ok (a0, a0, a2, a2, []) = true /\ ends orbit a0 [98; 99]%N 0 = [1; 2]%nat /\ ends orbit a2 [98; 99]%N 0 = [1; 2]%nat.
Proof. vm_compute. repeat split. Qed.
(** ... x{2,3} against Simplify's xx(x)?, a case-folded literal against the class the parser may print ... *)
Example C27_nonvacuous_repeat_fold :
  let a2 := RConcat [RLit true [107]; RLit true [107]; RQuest (RClass [(75, 75); (107, 107); (8490, 8490)])]%N in
  c27_opt_ok (RRepeat 2%nat (Some 3%nat) (RLit true [107]%N), REmpty, a2, REmpty, []) = true /\
  c27_optprint_ok (REmpty, REmpty, a2, RConcat [RLit true [107; 107]; RQuest (RLit true [107])]%N, []) = true.
Proof. vm_compute. split; reflexivity. Qed.
(** ... and refuses expressions with different languages (a+ vs a*, ^ vs \A). *)
Example C27_nonvacuous_rejects :
  c27_opt_ok (RPlus (RLit false [97]%N), REmpty, RStar (RLit false [97]%N), REmpty, []) = false /\
  c27_print_ok (RBeginLine, RBeginText, REmpty, REmpty, []) = false.
Proof. vm_compute. split; reflexivity. Qed.
