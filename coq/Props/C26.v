From ZV Require Import Lib.Base Model.Codec.
Theorem C26_placeholder : True. Proof. exact I. Qed.
Print Assumptions C26_placeholder.
