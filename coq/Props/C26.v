(** C26 — binary encodings round-trip and reject garbage safely (model: Model/Codec.v, repaired /repo).
    wf_* (Proofs/CodecRT.v) only state what every Go value satisfies: lengths/counts < 2^63 (Go int),
    repo ids < 2^32 (uint32 keys), IndexTimeUnix within int64. Lists stand for Go maps in iteration order
    (any order, duplicates allowed: the statements are list equalities, hence hold for the map views
    canon_map / canon_set as well).

    What ties which model to which code:
    - Model/Codec.v (all theorems except the two *_refuted ones) is the model of the CURRENT /repo; it is tied to it
      on every run by the correspondence (real MarshalBinary/UnmarshalBinary vs. the model under vm_compute).
    - Model/CodecOld.v (the two *_refuted theorems) is the model of stringSetDecode BEFORE fix 86d5ebb. That code no
      longer exists in /repo, so no run can compare the old model with it: the old model is tied to the old code ONLY by
      the pre-fix re-derivation recorded in props/C26/rederived/pre-fix.json (the check, run on the tree before the fix,
      reported hang / `slice bounds out of range [:-1]` / out-of-memory on exactly the input classes the *_refuted
      theorems exhibit). The *_refuted theorems therefore document the repaired defect; they are not claims about the
      current tree and nothing else in this file depends on them. *)
From ZV Require Import Lib.Base Generated.CodecConsts Model.Codec Model.CodecOld Proofs.CodecCost Proofs.CodecRT Proofs.CodecStable Proofs.CodecOld Proofs.CodecEnc.
From Coq Require Import Permutation.
Open Scope N_scope.

(** encoding/binary: Uvarint reads back what PutUvarint wrote, for every uint64, in front of any suffix *)
Theorem C26_uvarint_roundtrip : forall x rest, x < 2 ^ 64 ->
  uvarint (put_uvarint x ++ rest) = (x, Z.of_nat (length (put_uvarint x))).
Proof. exact uvarint_put. Qed.
Print Assumptions C26_uvarint_roundtrip.

(** FileNameSet: stringSetDecode (stringSetEncode set) = set, for every iteration order of the map *)
Theorem C26_stringset_roundtrip : forall l : list bytes,
  nlen l < 2 ^ 63 /\ Forall (fun s => nlen s < 2 ^ 63) l ->
  dec_set (enc_set l) = Ok l.
Proof. exact dec_set_enc. Qed.
Print Assumptions C26_stringset_roundtrip.

Corollary C26_stringset_roundtrip_set : forall l, wf_set l ->
  omap canon_set (dec_set (enc_set l)) = Ok (canon_set l).
Proof. intros l H. rewrite (dec_set_enc l H). reflexivity. Qed.
Print Assumptions C26_stringset_roundtrip_set.

(** ReposMap (version 2 writer): reposMapDecode (reposMapEncode m) = m, nil map included *)
Theorem C26_reposmap_roundtrip : forall l : list (N * rentry),
  (nlen l < 2 ^ 63 /\ N.of_nat (all_branches l) < 2 ^ 63 /\
   Forall (fun e => let '(id, (hs, it, brs)) := e in
                    id < 2 ^ 32 /\ (- two63 <= it < two63)%Z /\ nlen brs < 2 ^ 63 /\
                    Forall (fun b => nlen (fst b) < 2 ^ 63 /\ nlen (snd b) < 2 ^ 63) brs) l) ->
  dec_repos (enc_repos (Some l)) = Ok (Some l) /\ dec_repos (enc_repos None) = Ok None.
Proof. intros l H. split; [exact (dec_repos_enc l H) | exact dec_repos_enc_nil]. Qed.
Print Assumptions C26_reposmap_roundtrip.

(** version-1 encodings (no IndexTimeUnix), as written by older servers, still decode — with IndexTimeUnix = 0 *)
Theorem C26_reposmap_v1_compat : forall l : list (N * rentry), wf_repos l ->
  dec_repos (enc_repos_v1 l) = Ok (Some (map drop_time l)).
Proof. exact dec_repos_enc_v1. Qed.
Print Assumptions C26_reposmap_v1_compat.

(** BranchesRepos: for ANY bitmap serialiser/deserialiser pair (roaring WriteTo / FromBuffer) that round-trips
    on the bitmaps of the value, the framing round-trips the whole list *)
Theorem C26_branchesrepos_roundtrip : forall (T : Type) (ser : T -> bytes) (bm : bytes -> outcome T) (l : list (bytes * T)),
  (nlen l < 2 ^ 63 /\
   Forall (fun p => nlen (fst p) < 2 ^ 63 /\ nlen (ser (snd p)) < 2 ^ 63 /\ bm (ser (snd p)) = Ok (snd p)) l) ->
  dec_br bm (enc_br (map (fun p => (fst p, ser (snd p))) l)) = Ok l.
Proof. intros T ser bm l H. exact (dec_br_enc ser bm l H). Qed.
Print Assumptions C26_branchesrepos_roundtrip.

(** the ENCODERS never panic. enc_*_go (Model/Codec.v) are the checked encoders: every varint is written by
    binary.PutUvarint into the scratch buffer `var enc [cap]byte` (each buf[i] a checked index expression, Panic when
    i >= cap), with cap the constant that translator/c26consts reads from reposMapEncode / stringSetEncode /
    branchesReposEncode of the tree under test on every run (Generated/CodecConsts.v). For every value in the domain of
    the round-trip theorems (IndexTimeUnix ANY int64 — a negative one is written as uint64 >= 2^63 and needs all 10
    bytes —, ids < 2^32, counts and lengths < 2^63) they return Ok, and exactly the bytes of the pure encoders enc_* that
    the round-trip theorems speak about. The proof needs 10 <= cap for each generated capacity (checked by computation):
    it does not go through for a tree whose buffer is `[binary.MaxVarintLen32]byte`.
    Not modelled: the size pre-pass of the encoders (it pushes the same numbers through the same buffer, so it panics
    iff the write pass does) and bytes.Buffer.Grow/Write. *)
Theorem C26_encode_never_panics :
  (forall l : list bytes, wf_set l -> enc_set_go l = Ok (enc_set l)) /\
  (forall l : list (N * rentry), wf_repos l -> enc_repos_go (Some l) = Ok (enc_repos (Some l))) /\
  enc_repos_go None = Ok (enc_repos None) /\
  (forall l : list (bytes * bytes),
     nlen l < 2 ^ 63 -> Forall (fun p => nlen (fst p) < 2 ^ 63 /\ nlen (snd p) < 2 ^ 63) l -> enc_br_go l = Ok (enc_br l)).
Proof. exact enc_go_never_panics. Qed.
Print Assumptions C26_encode_never_panics.

(** encode-then-decode is total over ReposMap / FileNameSet values: the checked encoder produces bytes (no panic) and
    the decoder reads the value back *)
Theorem C26_roundtrip_checked_encoder :
  (forall l, wf_set l -> exists b, enc_set_go l = Ok b /\ dec_set b = Ok l) /\
  (forall l, wf_repos l -> exists b, enc_repos_go (Some l) = Ok b /\ dec_repos b = Ok (Some l)) /\
  (exists b, enc_repos_go None = Ok b /\ dec_repos b = Ok None).
Proof.
  split; [intros l H; exists (enc_set l); split; [exact (proj1 enc_go_never_panics l H) | exact (dec_set_enc l H)]|].
  split; [intros l H; exists (enc_repos (Some l)); split; [exact (proj1 (proj2 enc_go_never_panics) l H) | exact (dec_repos_enc l H)]|].
  exists (enc_repos None). split; [reflexivity | exact dec_repos_enc_nil].
Qed.
Print Assumptions C26_roundtrip_checked_encoder.

(** capacity 10 is necessary, not only sufficient: in ANY smaller scratch buffer PutUvarint panics on uint64(int(-1)),
    and reposMapEncode panics on the one-entry map {7: {HasSymbols, IndexTimeUnix: -1}} *)
Theorem C26_encode_capacity_needed : forall cap : nat, (cap < 10)%nat ->
  put_uvarint_chk cap (of_int (-1)) = Panic 4 /\
  is_panic (enc_repos_chk cap (Some [(7, (true, (-1)%Z, []))])) = true.
Proof. intros cap H. split; [exact (put_chk_needs_10 cap H) | exact (enc_repos_chk_small cap H)]. Qed.
Print Assumptions C26_encode_capacity_needed.

(** decoding ANY byte string never panics: every slice expression and make in the decoders is in range
    (FromBuffer is external: assumed not to panic) *)
Theorem C26_decode_total : forall b : bytes,
  is_panic (dec_set b) = false /\ is_panic (dec_repos b) = false /\
  (forall (T : Type) (bm : bytes -> outcome T), (forall blob, is_panic (bm blob) = false) -> is_panic (dec_br bm b) = false).
Proof.
  intros b. split; [exact (proj1 (dec_set_cost b)) | split; [exact (proj1 (dec_repos_cost b))|]].
  intros T bm H. exact (proj1 (dec_br_cost bm b H)).
Qed.
Print Assumptions C26_decode_total.

(** decoding ANY byte string takes at most |b|+1 reader steps and requests at most 4|b| allocation units
    (clone of the input, make hints/lengths/capacities, appends); in particular loop counts and make sizes
    read from the input are bounded by the input length *)
Theorem C26_decode_bounded : forall b : bytes,
  let n := length b in
  (steps (snd (run dec_set_m b)) <= n + 1 /\ alloc (snd (run dec_set_m b)) <= 3 * n)%nat /\
  (steps (snd (run dec_repos_m b)) <= n + 1 /\ alloc (snd (run dec_repos_m b)) <= 4 * n)%nat /\
  (forall (T : Type) (bm : bytes -> outcome T), (forall blob, is_panic (bm blob) = false) ->
     steps (snd (run (dec_br_m bm) b)) <= n + 1 /\ alloc (snd (run (dec_br_m bm) b)) <= 3 * n)%nat.
Proof.
  intros b n. split; [exact (proj2 (dec_set_cost b)) | split; [exact (proj2 (dec_repos_cost b))|]].
  intros T bm H. exact (proj2 (dec_br_cost bm b H)).
Qed.
Print Assumptions C26_decode_bounded.

(** every ACCEPTED input yields a value the codec can carry: whatever byte string (shorter than 2^63, as every Go
    slice is) a decoder accepts — canonical or not, version 1 or 2, with duplicate keys, with trailing bytes or
    without — the value it returns lies in the domain of the round-trip theorems (counts, string lengths and the total
    number of branches are bounded by the input length; ids are uint32, IndexTimeUnix is int64), so encoding it and
    decoding again gives the same value. The Go value is the set / map view (canon_set / canon_map: duplicates
    collapsed, later insertion wins) of the list the decoder inserted, and the encoder writes it in an arbitrary
    iteration order l': the statement holds for every such l' (and for the insertion list itself, see
    Proofs/CodecStable.v dec_set_stable / dec_repos_stable). For BranchesRepos (a slice, no map) the external pair has
    to satisfy, on what FromBuffer returned, that WriteTo writes a blob (< 2^63 bytes) which FromBuffer reads back as
    the same bitmap. *)
Theorem C26_accepted_values_roundtrip : forall b : bytes, nlen b < 2 ^ 63 ->
  (forall l l', dec_set b = Ok l -> Permutation l' (canon_set l) -> dec_set (enc_set l') = Ok l') /\
  (forall l l', dec_repos b = Ok (Some l) -> Permutation l' (canon_map l) ->
     dec_repos (enc_repos (Some l')) = Ok (Some l')) /\
  (dec_repos b = Ok None -> dec_repos (enc_repos None) = Ok None) /\
  (forall (T : Type) (ser : T -> bytes) (bm : bytes -> outcome T),
     (forall blob x, bm blob = Ok x -> nlen (ser x) < 2 ^ 63 /\ bm (ser x) = Ok x) ->
     forall l, dec_br bm b = Ok l -> dec_br bm (enc_br (map (fun p => (fst p, ser (snd p))) l)) = Ok l).
Proof.
  intros b Hb. split; [intros l l' H P; exact (dec_set_stable_set b l l' Hb H P)|].
  split; [intros l l' H P; exact (dec_repos_stable_map b l l' Hb H P)|].
  split; [intros _; exact dec_repos_enc_nil|].
  intros T ser bm Hs l. exact (dec_br_stable ser bm Hs b l Hb).
Qed.
Print Assumptions C26_accepted_values_roundtrip.

(** ---- the defect that was repaired (fix 86d5ebb), on the faithful model of the OLD stringSetDecode
    (Model/CodecOld.v): no linear bound exists — for every constant c below 2^59 there is an input of at most
    11 bytes on which the old decoder takes more than c*(|b|+1) steps and requests more than c*(|b|+1) map slots;
    and some input makes it panic. *)
Theorem C26_decode_bounded_refuted : forall c : N, c < 2 ^ 59 ->
  exists b : bytes, (length b <= 11)%nat
    /\ c * (nlen b + 1) < osteps (old_dec_set b) /\ c * (nlen b + 1) < oalloc (old_dec_set b).
Proof.
  intros c Hc. exists (1 :: put_uvarint (12 * c + 1)).
  assert (Hk : 12 * c + 1 < 2 ^ 63) by (change (2 ^ 59) with 576460752303423488 in Hc; change (2 ^ 63) with 9223372036854775808; lia).
  destruct (old_dec_set_unbounded (12 * c + 1) Hk) as (L & S & A & _). cbv zeta in *.
  split; [exact L|]. unfold nlen. split; nia.
Qed.
Print Assumptions C26_decode_bounded_refuted.

Theorem C26_decode_total_refuted : exists b : bytes, opanic (old_dec_set b) = true.
Proof. exists [1;1;255;255;255;255;255;255;255;255;255;1;97;98]. vm_compute. reflexivity. Qed.
Print Assumptions C26_decode_total_refuted.

(** ---- non-vacuity *)
Example C26_ex_set : dec_set (enc_set [[104;105]; []; [195;169]]) = Ok [[104;105]; []; [195;169]]
  /\ enc_set [[104;105]; []; [195;169]] = [1;3;2;104;105;0;2;195;169].
Proof. vm_compute. split; reflexivity. Qed.
Example C26_ex_set_wf : wf_set [[104;105]; []; [195;169]].
Proof. split; [vm_compute; reflexivity | repeat constructor]. Qed.
Example C26_ex_repos :
  let v := [(4294967295, (true, (-1)%Z, [([72;69;65;68], [97;98])])); (7, (false, 1700000000%Z, []))] in
  wf_repos v /\ dec_repos (enc_repos (Some v)) = Ok (Some v).
Proof.
  split; [| vm_compute; reflexivity].
  split; [vm_compute; reflexivity|]. split; [vm_compute; reflexivity|].
  constructor; [|constructor; [|constructor]].
  - split; [vm_compute; reflexivity|]. split; [split; vm_compute; [discriminate|reflexivity]|]. split; [vm_compute; reflexivity|].
    constructor; [|constructor]. split; vm_compute; reflexivity.
  - split; [vm_compute; reflexivity|]. split; [split; vm_compute; [discriminate|reflexivity]|]. split; [vm_compute; reflexivity|constructor].
Qed.
Example C26_ex_br :
  dec_br (fun blob => Ok blob) (enc_br [([97], [58;48;0;0]); ([], [])]) = Ok [([97], [58;48;0;0]); ([], [])].
Proof. vm_compute. reflexivity. Qed.
(** the hostile 10-byte input of DESIGN §6 (count 2^63-1) is rejected after 2 reader steps *)
Example C26_ex_hostile :
  let b := [1;255;255;255;255;255;255;255;255;127] in
  dec_set b = Err 1 /\ steps (snd (run dec_set_m b)) = 2%nat /\ alloc (snd (run dec_set_m b)) = 10%nat.
Proof. vm_compute. repeat split; reflexivity. Qed.
(** a string length of 2^64-1 (int -1) no longer reaches the slice expression *)
Example C26_ex_neg_len : dec_set [1;1;255;255;255;255;255;255;255;255;255;1;97;98] = Err 1.
Proof. vm_compute. reflexivity. Qed.
Example C26_ex_uvarint : uvarint (put_uvarint 18446744073709551615 ++ [7]) = (18446744073709551615, 10%Z).
Proof. vm_compute. reflexivity. Qed.
(** the old decoder on the 3-byte input 01 e8 07 (count 1000, nothing behind it): 1000 iterations over an exhausted
    buffer and NO error (the set {""} is returned) — compare C26_ex_hostile for the repaired decoder *)
Example C26_ex_old_small : osteps (old_dec_set [1;232;7]) = 1002 /\ oerr (old_dec_set [1;232;7]) = false.
Proof. vm_compute. split; reflexivity. Qed.
Example C26_ex_v1 : dec_repos (enc_repos_v1 [(7, (true, 99%Z, [([97], [98])]))]) = Ok (Some [(7, (true, 0%Z, [([97], [98])]))]).
Proof. vm_compute. reflexivity. Qed.
(** accepted but not canonical: an overlong count (81 00 = 1) and a trailing byte; a version-1 ReposMap whose two
    entries have the same id 7 (the later one wins in the Go map) — the decoded values round-trip although the inputs
    are not what the encoders write *)
Example C26_ex_accepted :
  dec_set [1;129;0;1;97;7] = Ok [[97]] /\ enc_set (canon_set [[97]]) = [1;1;1;97] /\
  dec_set (enc_set (canon_set [[97]])) = Ok [[97]] /\
  dec_repos [1;2;1;7;1;1;1;97;1;98;7;0;0;9] = Ok (Some [(7, (true, 0%Z, [([97], [98])])); (7, (false, 0%Z, []))]) /\
  canon_map [(7, (true, 0%Z, [([97], [98])])); (7, (false, 0%Z, []))] = [(7, (false, 0%Z, []))] /\
  dec_repos (enc_repos (Some [(7, (false, 0%Z, []))])) = Ok (Some [(7, (false, 0%Z, []))]).
Proof. vm_compute. repeat split; reflexivity. Qed.
(** a negative IndexTimeUnix (time.Time{}.Unix() = -62135596800 of a repository that was never indexed) needs all 10
    bytes of the scratch buffer: the checked encoder with the generated capacity writes it, the decoder reads it back;
    with the 5-byte buffer of `[binary.MaxVarintLen32]byte` the same value — and 2^35, the first timestamp with 6
    varint bytes — panics, while 2^35 - 1 still fits *)
Example C26_ex_encode_negative_time :
  let v := [(7, (true, (-62135596800)%Z, [([72;69;65;68], [99;51])]))] in
  wf_repos v /\ length (put_uvarint (of_int (-62135596800))) = 10%nat /\
  enc_repos_go (Some v) = Ok [2;1;1;7;1;128;146;184;195;152;254;255;255;255;1;1;4;72;69;65;68;2;99;51] /\
  dec_repos [2;1;1;7;1;128;146;184;195;152;254;255;255;255;1;1;4;72;69;65;68;2;99;51] = Ok (Some v) /\
  enc_repos_chk 5 (Some v) = Panic 4 /\
  enc_repos_chk 5 (Some [(7, (true, 34359738368%Z, []))]) = Panic 4 /\
  enc_repos_chk 5 (Some [(7, (true, 34359738367%Z, []))]) = Ok [2;1;0;7;1;255;255;255;255;127;0].
Proof.
  split; [|vm_compute; repeat split; reflexivity].
  split; [vm_compute; reflexivity|]. split; [vm_compute; reflexivity|].
  constructor; [|constructor].
  split; [vm_compute; reflexivity|]. split; [split; vm_compute; [discriminate|reflexivity]|]. split; [vm_compute; reflexivity|].
  constructor; [|constructor]. split; vm_compute; reflexivity.
Qed.
Example C26_ex_encode_set : enc_set_go [[104;105]; []] = Ok [1;2;2;104;105;0] /\ wf_set [[104;105]; []].
Proof. split; [vm_compute; reflexivity|]. split; [vm_compute; reflexivity | repeat constructor]. Qed.
