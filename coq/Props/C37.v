(** C37 — Symbol ranges derived from ctags are always valid.
    Model: Model/Ctags.v (tagsToSections.Convert, overlaps, newLinesIndices; ShardBuilder.Add's section test).
    Offsets are nat (Go: uint32); the statements are about |content| < 2^32, which Builder guarantees (SizeMax). *)
From ZV Require Import Lib.Base Model.Ctags Proofs.Ctags.

(** For every content and every entry list: the derived sections are sorted and pairwise non-overlapping
    (every earlier section ends before every later one starts). *)
Theorem C37_sorted_nonoverlapping : forall content tags,
  ForallOrdPairs (fun a b => s_end a <= s_start b) (map fst (convert content tags)).
Proof. exact convert_ordered. Qed.
Print Assumptions C37_sorted_nonoverlapping.

(** Each derived section lies inside the file, covers exactly the symbol's name, lies on the line the entry
    reports (between that line's start and its terminating newline / end of file) and contains no newline. *)
Theorem C37_inside_and_covers_name : forall content tags s t,
  In (s, t) (convert content tags) ->
  s_start s <= s_end s <= length content /\
  slice content (s_start s) (s_end s) = e_name t /\
  In t tags /\
  exists lo e, line_bounds (newlines_indices content) (e_line t) = Some (lo, e) /\
               lo <= s_start s /\ s_end s <= e /\
               forall p, lo <= p < e -> nth_error content p <> Some 10%N.
Proof.
  intros content tags s t Hin.
  pose proof (convert_rows content tags) as Hr. rewrite Forall_forall in Hr.
  destruct (Hr _ Hin) as (H1 & H2 & H3 & lo & e & Hlb & Hlo & He). cbn [fst snd] in *.
  split; [lia|]. split; [exact H3|]. split; [exact (convert_sub content tags (s, t) Hin)|].
  exists lo, e. repeat split; try assumption.
  intros p Hp. eapply line_bounds_no_nl; eauto.
Qed.
Print Assumptions C37_inside_and_covers_name.

(** The shard builder accepts what Convert derives (sort, overlap test, past-the-end test), for every input:
    entries that cannot be placed are dropped instead of failing the build. *)
Theorem C37_accepted_by_builder : forall content tags,
  add_accepts (length content) (map fst (convert content tags)) = true.
Proof. exact convert_accepted. Qed.
Print Assumptions C37_accepted_by_builder.

(** Non-vacuity: a concrete input producing three sections, one dropped for overlap, one for a bad line. *)
Example C37_nonvacuous :
  let content := [102;111;111;32;98;97;114;10;120;32;102;111;111]%N in   (* "foo bar\nx foo" *)
  let tags := [ {| e_line := 1; e_name := [98;97;114]%N; e_meta := 0 |};      (* bar  on line 1 *)
                {| e_line := 1; e_name := [102;111;111]%N; e_meta := 1 |};    (* foo  on line 1 *)
                {| e_line := 1; e_name := [111;111;32]%N; e_meta := 2 |};     (* "oo " overlaps foo: dropped *)
                {| e_line := 9; e_name := [120]%N; e_meta := 3 |};            (* bad line: dropped *)
                {| e_line := 2; e_name := [102;111;111]%N; e_meta := 4 |} ] in (* foo on line 2 *)
  map (fun p => (s_start (fst p), s_end (fst p), e_meta (snd p))) (convert content tags)
  = [(0, 3, 1%N); (4, 7, 0%N); (10, 13, 4%N)].
Proof. vm_compute. reflexivity. Qed.
