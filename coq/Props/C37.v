From ZV Require Import Lib.Base Model.Ctags.
Theorem placeholder : True. Proof. exact I. Qed.
Print Assumptions placeholder.
