(** C37 — Symbol ranges derived from ctags are always valid.
    Model: Model/Ctags.v (tagsToSections.Convert, overlaps, newLinesIndices; ShardBuilder.Add's section test).
    Offsets are nat (Go: uint32); the statements are about |content| < 2^32, which Builder guarantees (SizeMax). *)
From ZV Require Import Lib.Base Lib.Utf8 Model.Ctags Proofs.Ctags.

(** For every content and every entry list: the derived sections are sorted and pairwise non-overlapping
    (every earlier section ends before every later one starts). *)
Theorem C37_sorted_nonoverlapping : forall content tags,
  ForallOrdPairs (fun a b => s_end a <= s_start b) (map fst (convert content tags)).
Proof. exact convert_ordered. Qed.
Print Assumptions C37_sorted_nonoverlapping.

(** Each derived section lies inside the file, covers exactly the symbol's name, lies on the line the entry
    reports (between that line's start and its terminating newline / end of file) and contains no newline. *)
Theorem C37_inside_and_covers_name : forall content tags s t,
  In (s, t) (convert content tags) ->
  s_start s <= s_end s <= length content /\
  slice content (s_start s) (s_end s) = e_name t /\
  In t tags /\
  exists lo e, line_bounds (newlines_indices content) (e_line t) = Some (lo, e) /\
               lo <= s_start s /\ s_end s <= e /\
               forall p, lo <= p < e -> nth_error content p <> Some 10%N.
Proof.
  intros content tags s t Hin.
  pose proof (convert_rows content tags) as Hr. rewrite Forall_forall in Hr.
  destruct (Hr _ Hin) as (H1 & H2 & H3 & lo & e & Hlb & Hlo & He). cbn [fst snd] in *.
  split; [lia|]. split; [exact H3|]. split; [exact (convert_sub content tags (s, t) Hin)|].
  exists lo, e. repeat split; try assumption.
  intros p Hp. eapply line_bounds_no_nl; eauto.
Qed.
Print Assumptions C37_inside_and_covers_name.

(** The shard builder accepts what Convert derives — ShardBuilder.Add's sort, overlap test, past-the-end test AND
    newSearchableString's rune-boundary test over Go's UTF-8 decoding of the content — for every content (valid
    UTF-8 or not) and every entry list whose names are valid UTF-8: entries that cannot be placed are dropped
    instead of failing the build.
    The hypothesis on the names is the domain of the property: ctags entries reach Convert from go-ctags, which
    json.Unmarshal-s universal-ctags' output into `Name string`; encoding/json replaces invalid UTF-8 by U+FFFD, so
    every name is valid UTF-8 (see NOTES.md). Without it acceptance fails: [C37_invalid_name_refuted]. *)
Theorem C37_accepted_by_builder : forall content tags,
  Forall (fun t => valid_utf8 (e_name t) = true) tags ->
  add_accepts content (map fst (convert content tags)) = true.
Proof. exact convert_accepted. Qed.
Print Assumptions C37_accepted_by_builder.

(** Independently of the names' encoding (ALL entry lists): Add's sort / overlap / past-the-end tests pass. *)
Theorem C37_ranges_accepted_for_all_names : forall content tags,
  add_accepts_ranges (length content) (sort_secs (map fst (convert content tags))) = true.
Proof. exact convert_ranges_accepted. Qed.
Print Assumptions C37_ranges_accepted_for_all_names.

(** The reason behind the rune-boundary clause — UTF-8 self-synchronisation against Go's decoder
    (utf8.DecodeRune: a full valid rune or exactly one byte): a non-empty valid string occurring anywhere in ANY
    byte string starts and ends where the decoding loop stands. *)
Theorem C37_utf8_self_synchronisation : forall content name o,
  valid_utf8 name = true -> name <> [] ->
  firstn (length name) (skipn o content) = name ->
  In o (rune_boundaries content) /\ In (o + length name) (rune_boundaries content).
Proof.
  intros content name o Hv Hne Hocc. rewrite !rune_boundaries_spec. now apply utf8_self_sync.
Qed.
Print Assumptions C37_utf8_self_synchronisation.

(** every derived section starts and ends on a rune boundary of the content *)
Theorem C37_sections_on_rune_boundaries : forall content tags s t,
  Forall (fun t => valid_utf8 (e_name t) = true) tags ->
  In (s, t) (convert content tags) ->
  In (s_start s) (rune_boundaries content) /\ In (s_end s) (rune_boundaries content).
Proof.
  intros content tags s t Hv Hin. rewrite !rune_boundaries_spec.
  pose proof (convert_rb content tags Hv) as H. rewrite Forall_forall in H. exact (H _ Hin).
Qed.
Print Assumptions C37_sections_on_rune_boundaries.

(** Outside the domain the builder does reject: the name is the first byte of "é" (C3 A9); Convert derives the
    section [0,1) and newSearchableString reports "no rune for section boundary at byte 1". (The harness replays
    this class on the real code: model and implementation agree on the rejection.) *)
Example C37_invalid_name_refuted :
  exists content tags, add_accepts content (map fst (convert content tags)) = false /\
                       add_accepts_ranges (length content) (sort_secs (map fst (convert content tags))) = true.
Proof.
  exists [195; 169]%N, [ {| e_line := 1; e_name := [195]%N; e_meta := 0 |} ].
  vm_compute. split; reflexivity.
Qed.

(** Self-synchronisation needs the non-empty name: the empty string "occurs" at offset 1 of "é", which is not a
    boundary. (Convert places an empty name at the line start, which is a boundary: Proofs.Ctags.line_start_RB.) *)
Example C37_self_sync_empty_name_refuted :
  exists content o, valid_utf8 [] = true /\ firstn 0 (skipn o content) = [] /\ ~ In o (rune_boundaries content).
Proof.
  exists [195; 169]%N, 1. split; [reflexivity|]. split; [reflexivity|]. vm_compute. intros [H|[H|[]]]; discriminate.
Qed.

(** Non-vacuity of the hypotheses: valid multi-byte names inside a content that is NOT valid UTF-8 (stray C3 and
    FF bytes); three sections derived, all accepted, all boundaries found by the decoder. *)
Example C37_accepted_nonvacuous :
  let content := [195; 195;169; 32; 230;151;165; 255; 10; 240;159;152;128; 195;169]%N in  (* C3 "é 日" FF \n "😀é" *)
  let tags := [ {| e_line := 1; e_name := [195;169]%N; e_meta := 0 |};
                {| e_line := 1; e_name := [230;151;165]%N; e_meta := 1 |};
                {| e_line := 2; e_name := [195;169]%N; e_meta := 2 |};
                {| e_line := 2; e_name := []%N; e_meta := 3 |} ] in
  valid_utf8 content = false /\
  forallb (fun t => valid_utf8 (e_name t)) tags = true /\
  map (fun p => (s_start (fst p), s_end (fst p))) (convert content tags) = [(1, 3); (4, 7); (9, 9); (13, 15)] /\
  rune_boundaries content = [0; 1; 3; 4; 7; 8; 9; 13; 15] /\
  add_accepts content (map fst (convert content tags)) = true.
Proof. vm_compute. repeat split; reflexivity. Qed.

(** Non-vacuity: a concrete input producing three sections, one dropped for overlap, one for a bad line. *)
Example C37_nonvacuous :
  let content := [102;111;111;32;98;97;114;10;120;32;102;111;111]%N in   (* "foo bar\nx foo" *)
  let tags := [ {| e_line := 1; e_name := [98;97;114]%N; e_meta := 0 |};      (* bar  on line 1 *)
                {| e_line := 1; e_name := [102;111;111]%N; e_meta := 1 |};    (* foo  on line 1 *)
                {| e_line := 1; e_name := [111;111;32]%N; e_meta := 2 |};     (* "oo " overlaps foo: dropped *)
                {| e_line := 9; e_name := [120]%N; e_meta := 3 |};            (* bad line: dropped *)
                {| e_line := 2; e_name := [102;111;111]%N; e_meta := 4 |} ] in (* foo on line 2 *)
  map (fun p => (s_start (fst p), s_end (fst p), e_meta (snd p))) (convert content tags)
  = [(0, 3, 1%N); (4, 7, 0%N); (10, 13, 4%N)].
Proof. vm_compute. reflexivity. Qed.
