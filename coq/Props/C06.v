(** C06 - query strings mean what doc/query_syntax.md says.
    Model/QueryDoc.v: the documented grammar [dexpr]/[dquery], the printer [render], the documented meaning
    [den] (a query tree; Model/Query.v's [eval] is its reference semantics).  Model/Parser.v: the parser.
    External engines are universally quantified ([rq] regexp classification, [rx_auto], [rcompile], [lang]). *)
From ZV Require Import Lib.Base Model.Query Generated.ParserTables Model.Parser Model.QueryDoc Model.QueryDocRun.
From ZV Require Import Proofs.QueryDocTree Proofs.QueryDocParse Proofs.QuerySimplify Proofs.QueryDocSem Proofs.C06Main Proofs.DocTable.
From ZV Require Model.Regex Proofs.RegexCase.
From ZV Require Import Model.RegexCase Proofs.C06Case.
From ZV Require Import Model.RegexLit.
From ZV Require Proofs.RegexLit.
From Coq Require Import String.
Open Scope N_scope.

(** THE PROPERTY: for every well-formed abstract query q of the documented grammar (unbounded nesting, any
    number of or-clauses, negations, case:/type: directives at any position, every field and alias, quoted
    and plain values) the parser, run on the BYTES of the printed query, returns exactly the simplified
    documented meaning - for every behaviour of the external engines.
    [wf_query] (Proofs/QueryDocTree.v) asks: values acceptable to the engine they are handed to; plain
    (unquoted) values free of blanks, quotes, parentheses and backslashes; a bare plain pattern not empty,
    not starting with '-', not "or", not starting with a field prefix; a bare quoted pattern not empty and
    not a lone parenthesis; every conjunction has a non-directive member; no regex: field and no '-' in
    front of case:/type: (see the refuted theorems / the C07 repair).  [render] prints a blank after '('. *)
Theorem C06_parse_render :
  forall (rq : str -> rqres) (rx_auto rcompile : str -> bool) (lang : str -> option str) (q : dquery),
    wf_query rq rcompile q = true ->
    parse rq rx_auto rcompile lang (render q) = Ok (Simplify (den (rq_d rq) rx_auto lang q)).
Proof. exact parse_render_full. Qed.
Print Assumptions C06_parse_render.

(** THE PROPERTY AS STATED ("selects the same documents"): the parsed query, evaluated with ANY atom
    semantics (content/file-name matching, regexp engine, repository attributes - Model/Query.v's [eval],
    required only to satisfy C05's [atoms_ok]), holds of a document exactly when the document satisfies the
    documented reading [sat_query]: patterns/filters hold, '-' negates, a conjunction needs all members, a
    group needs one of its conjunctions, case: governs its group (nested groups without own case: included),
    type: and case: are not conditions. *)
Theorem C06_selects_documented_documents :
  forall (rq : str -> rqres) (rx_auto rcompile : str -> bool) (lang : str -> option str) (q : dquery),
    wf_query rq rcompile q = true ->
    exists t, parse rq rx_auto rcompile lang (render q) = Ok t /\
      forall (D : Type) (env : atoms D) (d : D), atoms_ok env ->
        eval env t d = Proofs.QueryDocSem.sat_query (rq_d rq) rx_auto lang D env d q.
Proof. exact selects_documented_documents. Qed.
Print Assumptions C06_selects_documented_documents.

(** its two halves: the byte level (tokens, quoting/escapes, parenthesis and "or" recognition) ... *)
Theorem C06_token_structure :
  forall (rq : str -> rqres) (rx_auto rcompile : str -> bool) (lang : str -> option str) (q : dquery),
    wf_query rq rcompile q = true ->
    parse rq rx_auto rcompile lang (render q) = iquery rq rx_auto rcompile lang q.
Proof. exact Proofs.QueryDocParse.parse_render_iquery. Qed.
Print Assumptions C06_token_structure.

(** ... and the expression level (atom table, '-' , case/type lifting with caseScopeQ protection,
    parseOperators' or-precedence, stripCaseScopes, Simplify) *)
Theorem C06_expression_level :
  forall (rq : str -> rqres) (rx_auto rcompile : str -> bool) (lang : str -> option str) (q : dquery),
    wf_query rq rcompile q = true ->
    iquery rq rx_auto rcompile lang q = Ok (Simplify (den (rq_d rq) rx_auto lang q)).
Proof. exact iquery_den. Qed.
Print Assumptions C06_expression_level.

(** quoting: a quoted value is read back as its unescaped contents, whatever follows it *)
Theorem C06_quoted_value_roundtrip :
  forall (v rest : str), parseStringLiteral (34 :: esc v ++ 34 :: rest) = Ok (v, (2 + List.length (esc v))%nat).
Proof. exact Proofs.QueryDocParse.psl_esc. Qed.
Print Assumptions C06_quoted_value_roundtrip.

(** an enclosing group's case: reaches exactly the nested groups that have no case: of their own
    (what parseExprList's repeated setCase passes and the caseScopeQ wrappers amount to) *)
Theorem C06_case_scope_enclosing_group :
  forall (rx_auto : str -> bool) (K k : cflavor) (has : bool) (ty : N) (members : list (list Q)),
    qmap (setCase rx_auto (flavor_text K)) (build rx_auto (flavor_text k) has ty members) =
    build rx_auto (flavor_text (if has then k else K)) has ty members.
Proof. exact build_pass. Qed.
Print Assumptions C06_case_scope_enclosing_group.

(** case:auto, the rule of the document ("if the pattern contains uppercase letters, the search will be
    case-sensitive; otherwise case-insensitive") at the level of the regexp syntax tree:
    [re_auto] = query/regexp.go LowerRegexp + Regexp.Equal as used by Regexp.setCase("auto")
    (Model/RegexCase.v), [has_upper_re] = an upper-case letter occurs as a literal rune or as a bound of a
    character-class range at ANY position of the tree - below star, plus, quest, counted repetition, capture
    groups, inside sequences and alternatives. *)
Theorem C06_lower_regexp_all_positions :
  forall r : Regex.re, re_auto r = has_upper_re r.
Proof. exact Proofs.RegexCase.re_auto_iff_upper. Qed.
Print Assumptions C06_lower_regexp_all_positions.

(** case:auto is case-sensitive exactly when the pattern has an upper-case letter - for literal patterns
    (bytes of the pattern) AND for proper regexps (every position of the syntax tree [ast] of the regexp, the
    parser deciding with the model of LowerRegexp); sym: forwards to its pattern; case:yes / case:no are
    sensitive / insensitive. *)
Theorem C06_case_auto_iff_upper :
  forall (ast : str -> Regex.re) (k : cflavor),
    (forall (p : str) (cs f c : bool),
        setCase (auto_of_ast ast) (flavor_text k) (QSubstring p cs f c) =
        QSubstring p (match k with CYes => true | CNo => false | CAuto => existsb is_upper p end) f c) /\
    (forall (r : rx) (cs f c : bool),
        setCase (auto_of_ast ast) (flavor_text k) (QRegexp r cs f c) =
        QRegexp r (match k with CYes => true | CNo => false | CAuto => has_upper_re (ast (rx_src r)) end) f c) /\
    (forall e : Q, setCase (auto_of_ast ast) (flavor_text k) (QSymbol e) =
                   QSymbol (setCase (auto_of_ast ast) (flavor_text k) e)).
Proof. exact case_flavours_all_atoms. Qed.
Print Assumptions C06_case_auto_iff_upper.

(** THE PROPERTY with the auto-case engines made concrete: the parser decides with the model of LowerRegexp
    on the regexp's syntax tree, the documented meaning with the documented rule on the same tree - two
    different functions; [ast] (regexp/syntax's parser) stays external. *)
Theorem C06_parse_render_regexp_case :
  forall (rq : str -> rqres) (ast : str -> Regex.re) (rcompile : str -> bool) (lang : str -> option str) (q : dquery),
    wf_query rq rcompile q = true ->
    parse rq (auto_of_ast ast) rcompile lang (render q) =
    Ok (Simplify (den (rq_d rq) (upper_of_ast ast) lang q)).
Proof. exact parse_render_ast. Qed.
Print Assumptions C06_parse_render_regexp_case.

Theorem C06_selects_documented_documents_regexp_case :
  forall (rq : str -> rqres) (ast : str -> Regex.re) (rcompile : str -> bool) (lang : str -> option str) (q : dquery),
    wf_query rq rcompile q = true ->
    exists t, parse rq (auto_of_ast ast) rcompile lang (render q) = Ok t /\
      forall (D : Type) (env : atoms D) (d : D), atoms_ok env ->
        eval env t d = Proofs.QueryDocSem.sat_query (rq_d rq) (upper_of_ast ast) lang D env d q.
Proof. exact selects_documented_documents_ast. Qed.
Print Assumptions C06_selects_documented_documents_regexp_case.

(** the Coq reading uses exactly the fields, aliases and value sets of the document: [doc_fields], [doc_types],
    [doc_booleans], [doc_cases] are regenerated from doc/query_syntax.md (field table, EBNF summary) on every run *)
Theorem C06_reading_covers_documented_table : doc_check = true.
Proof. exact doc_table_agrees. Qed.
Print Assumptions C06_reading_covers_documented_table.

(** ---- where the implementation deviates from the document (known findings, not repaired) *)
(** [lit_rq] [ex_parse] [ex_den] [ex_wf]: concrete engines (every text a literal) - Proofs/C06Main.v *)

(** grouping = "(" query ")" in the document, but "(f:x)" - a group without a blank inside - is one regexp
    token for nextToken: the documented query "(f:x) y" does not restrict file names *)
Theorem C06_compact_group_refuted :
  exists q : dquery, ex_wf q = true /\
    ex_parse (render q) = Ok (Simplify (ex_den q)) /\          (* printed "( f:x) y": as documented *)
    ex_parse (render_compact q) <> Ok (Simplify (ex_den q)).   (* printed "(f:x) y": not *)
Proof. exact compact_group_refuted. Qed.
Print Assumptions C06_compact_group_refuted.

(** "regex: - Matches content using a regular expression", but regex:a is parsed exactly like the bare
    pattern a (content OR file name) *)
Theorem C06_regex_field_refuted :
  exists q : dquery, ex_parse (render q) = ex_parse (dbs "a") /\ ex_parse (render q) <> Ok (Simplify (ex_den q)).
Proof. exact regex_field_refuted. Qed.
Print Assumptions C06_regex_field_refuted.

(** case:auto and negated classes (known finding auto-case-upper-only-in-negated-class): regexp/syntax hands
    the parser the COMPLEMENTED class, e.g. [^A-Z] as the ranges 0-'@', '['-0x10FFFF; no bound is an
    upper-case letter, so at the level of the syntax tree - where LowerRegexp and the theorems above work -
    such a pattern has no upper-case letter although its text has.  The deviation from the document is between
    pattern text and tree (regexp/syntax's parser is external to the model); the harness observes it. *)
Theorem C06_negated_class_tree_has_no_upper :
  re_auto (Regex.RConcat [Regex.RLit false [120]; Regex.RClass [(0, 64); (91, 1114111)]]) = false /\
  re_auto (Regex.RConcat [Regex.RLit false [120]; Regex.RClass [(65, 90)]]) = true.
Proof. split; vm_compute; reflexivity. Qed.
Print Assumptions C06_negated_class_tree_has_no_upper.

(** ---- "patterns without regex operators behave as literals" (round 3): RegexpQuery's literal detection on the
    optimized syntax tree ([rq_shape_of], Model/RegexLit.v; the trees are dumped from the implementation and the
    runner checks the Substring/Regexp decision and the Substring's pattern bytes against them).
    A Substring atom is produced only for a tree whose matches - in the regexp semantics [Regex.m] of
    Model/Regex.v, for every simple-fold orbit - are exactly the occurrences of the pattern's runes as written. *)
Theorem C06_literal_detection_sound :
  forall (orbit : N -> list N) (r : Regex.re) (rs : list N), rq_shape_of r = ShLit rs ->
    forall (t : list N) (i j : nat), Regex.m orbit r t i j <-> occurs_at rs t i /\ j = (i + List.length rs)%nat.
Proof. exact Proofs.RegexLit.literal_detection_sound. Qed.
Print Assumptions C06_literal_detection_sound.

(** every literal without FoldCase becomes a Substring of its runes; a fold-case literal ([fF], (?i:foo)) stays
    a regexp since /repo efa35e5 *)
Theorem C06_literal_detection_complete :
  forall rs : list N, rq_shape_of (Regex.RLit false rs) = ShLit rs /\ rq_shape_of (Regex.RLit true rs) = ShRx.
Proof. intros rs. split; reflexivity. Qed.
Print Assumptions C06_literal_detection_complete.

(** the decision before the repair (r.Op == OpLiteral alone) made [fF] - tree: the fold-case literal F - the
    Substring "F"; the pattern matches "f", the Substring does not (repaired defect; oracle replay "[mM]") *)
Theorem C06_old_literal_detection_refuted :
  forall orbit : N -> list N, In 102 (orbit 70) ->
    exists (r : Regex.re) (rs t : list N), rq_shape_old r = ShLit rs /\ Regex.m orbit r t 0 1 /\ ~ occurs_at rs t 0.
Proof. exact Proofs.RegexLit.old_literal_detection_refuted. Qed.
Print Assumptions C06_old_literal_detection_refuted.

(** case:auto and fold-case literals (known finding auto-case-fold-flag-group-without-upper): regexp/syntax
    spells a fold-case literal with the UPPER-case rune, and LowerRegexp counts it like any other literal.  The
    trees of (?i:hel)lo and [hH][eE][lL]lo are the same tree; it has an upper-case letter, so both are searched
    case-sensitively - the text of the first has none.  As for negated classes the deviation is between pattern
    text and tree. *)
Theorem C06_fold_group_tree_has_upper :
  (forall f rs, re_auto (Regex.RLit f rs) = existsb upper_rune rs) /\
  re_auto (Regex.RConcat [Regex.RLit true [72; 69; 76]; Regex.RLit false [108; 111]]) = true /\
  has_upper_re (Regex.RConcat [Regex.RLit true [72; 69; 76]; Regex.RLit false [108; 111]]) = true.
Proof. split; [exact Proofs.RegexLit.auto_fold_literal | exact Proofs.RegexLit.fold_group_tree_has_upper]. Qed.
Print Assumptions C06_fold_group_tree_has_upper.

(** ---- non-vacuity: well-formed queries exist, and on them the full statement holds by computation *)
Definition ex_q1 : dquery :=   (* a ( Foo or -f:"x y" case:yes) or type:repo r:z c:B *)
  [[DText (WPlain (dbs "a"));
    DGroup [[DText (WPlain (dbs "Foo"))]; [DNeg (DField FFile true (WQuoted (dbs "x y"))); DCase CYes]]];
   [DType false TRepo; DField FRepo true (WPlain (dbs "z")); DField FContent true (WPlain (dbs "B"))]].
Example ex_q1_wf : ex_wf ex_q1 = true. Proof. vm_compute. reflexivity. Qed.
Example ex_q1_render : render ex_q1 = dbs "a ( Foo or -f:""x y"" case:yes) or type:repo r:z c:B". Proof. vm_compute. reflexivity. Qed.
Example ex_q1_full : ex_parse (render ex_q1) = Ok (Simplify (ex_den ex_q1)). Proof. vm_compute. reflexivity. Qed.
Example ex_q1_tree : iquery lit_rq (fun _ => false) (fun _ => true) (fun _ => None) ex_q1 = ex_parse (render ex_q1).
Proof. vm_compute. reflexivity. Qed.
Example ex_q1_meaning : ex_den ex_q1 =
  QOr [QAnd [QType 2 (QOr [QAnd [QSubstring (dbs "a") false false false;
                                 QOr [QAnd [QSubstring (dbs "Foo") true false false];
                                      QAnd [QNot (QSubstring (dbs "x y") true true false)]]];
                           QAnd [QRepo (dbs "z"); QSubstring (dbs "B") true false true]])]].
Proof. vm_compute. reflexivity. Qed.
(** inner case: protects, outer case: reaches unprotected groups *)
Definition ex_q2 : dquery :=
  [[DCase CNo; DGroup [[DText (WPlain (dbs "Ab")); DCase CYes]]; DGroup [[DText (WPlain (dbs "Cd"))]]]].
Example ex_q2_full : ex_wf ex_q2 = true /\ ex_parse (render ex_q2) = Ok (Simplify (ex_den ex_q2)) /\
  Simplify (ex_den ex_q2) = QAnd [QSubstring (dbs "Ab") true false false; QSubstring (dbs "Cd") false false false].
Proof. repeat split; vm_compute; reflexivity. Qed.

(** a toy atom semantics (documents = byte strings, literals match by case-sensitive containment) for which
    the document-level theorem is exercised: "a -b" selects "xa" and not "ab" *)
(** [toy] and [toy_ok]: Proofs/C06Main.v *)
Definition ex_q3 : dquery := [[DText (WPlain (dbs "a")); DNeg (DText (WPlain (dbs "b")))]].
Example ex_q3_docs : ex_wf ex_q3 = true /\
  Proofs.QueryDocSem.sat_query (rq_d lit_rq) (fun _ => false) (fun _ => None) str toy (dbs "xa") ex_q3 = true /\
  Proofs.QueryDocSem.sat_query (rq_d lit_rq) (fun _ => false) (fun _ => None) str toy (dbs "ab") ex_q3 = false /\
  (exists t, ex_parse (render ex_q3) = Ok t /\ eval toy t (dbs "xa") = true /\ eval toy t (dbs "ab") = false).
Proof.
  split; [vm_compute; reflexivity|]. split; [vm_compute; reflexivity|]. split; [vm_compute; reflexivity|].
  eexists. split; [vm_compute; reflexivity|]. split; vm_compute; reflexivity.
Qed.

(** regexp atoms under case:auto: upper-case letters only below '+' make the atom case-sensitive, a regexp
    without upper-case letters is insensitive, an enclosing case:no overrides
    ([rx_rq] [rx_ast] [rx_parse] [rx_den] [rx_wf]: Proofs/C06Case.v) *)
Example ex_upper_below_plus : has_upper_re ex_re1 = true /\ re_auto ex_re1 = true /\ re_auto ex_re2 = false /\
  has_upper_re (Regex.RAlt [Regex.RCapture (Regex.RRepeat 0%nat (Some 3%nat) (Regex.RQuest (Regex.RLit true [71; 101; 116]))); Regex.RAny]) = true.
Proof. repeat split; vm_compute; reflexivity. Qed.
Definition ex_q4 : dquery :=   (* [A-Z]+_id -x[a-z]*y ( case:no [A-Z]+_id) *)
  [[DText (WPlain (dbs "[A-Z]+_id")); DNeg (DText (WPlain (dbs "x[a-z]*y")));
    DGroup [[DCase CNo; DText (WPlain (dbs "[A-Z]+_id"))]]]].
Example ex_q4_full : rx_wf ex_q4 = true /\ rx_parse (render ex_q4) = Ok (Simplify (rx_den ex_q4)) /\
  Simplify (rx_den ex_q4) = QAnd [QRegexp ex_rx1 true false false; QNot (QRegexp ex_rx2 false false false);
                                  QRegexp ex_rx1 false false false].
Proof. repeat split; vm_compute; reflexivity. Qed.

(** literal detection: "hello" is a Substring matching exactly its occurrence, hel{2}o (optimized tree: a
    concatenation) and [hH] (a fold-case literal) are regexps; with the toy orbit h~H the fold literal matches "h" *)
Example ex_literal_detection :
  rq_shape_of (Regex.RLit false [104; 101; 108; 108; 111]) = ShLit [104; 101; 108; 108; 111] /\
  shape_pattern (rq_shape_of (Regex.RLit false [233])) = Some [195; 169] /\
  rq_shape_of (Regex.RConcat [Regex.RLit false [104; 101]; Regex.RLit false [108]; Regex.RLit false [108]; Regex.RLit false [111]]) = ShRx /\
  rq_shape_of (Regex.RLit true [72]) = ShRx /\
  occurs_at [108; 108] [104; 101; 108; 108; 111] 2 /\
  Regex.m (fun _ => []) (Regex.RLit false [108; 108]) [104; 101; 108; 108; 111] 2 4 /\
  In 102 ((fun c => if c =? 70 then [102] else []) 70).
Proof. repeat split; try (vm_compute; reflexivity); try (vm_compute; tauto). apply (Proofs.RegexLit.literal_detection_sound (fun _ => []) (Regex.RLit false [108; 108]) [108; 108] eq_refl). split; reflexivity. Qed.
