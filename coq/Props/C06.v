From ZV Require Import Lib.Base Model.Query Model.Parser Model.QueryDoc Model.QueryDocRun.
Theorem C06_placeholder : True. Proof. exact I. Qed.
Print Assumptions C06_placeholder.
