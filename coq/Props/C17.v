From ZV Require Import Lib.Base Model.Tombstone.
Theorem C17_placeholder : True. Proof. exact I. Qed.
Print Assumptions C17_placeholder.
