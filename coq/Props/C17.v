(** C17 — tombstoned repositories and paths stay hidden; set/unset is idempotent, isolated, survives
    reload, is undone by its inverse, and a reported success has taken effect.
    Model: Model/Tombstone.v (set_tombstone = index/tombstones.go:setTombstone after the repair
    `fix: setTombstone: return the error when renaming the sidecar fails`; effective/load =
    parseMetadata's sidecar precedence; search/list_repos/simplify = indexData.Search / List /
    simplifyMultiRepo + query.Simplify's constant folding).  Proofs: Proofs/TombstoneProofs.v. *)
From ZV Require Import Lib.Base Model.Tombstone Proofs.TombstoneProofs Proofs.TombstoneLimit.

(** Search returns EXACTLY the documents of alive repositories, at non-tombstoned paths, that satisfy
    the query as written — for every query (any boolean combination of arbitrary predicates on
    repository names and documents); simplifyMultiRepo/constant folding never change that. *)
Theorem C17_search_exact : forall v q i r d,
  In (i, r, d) (search v q) <->
  exists k, i = N.of_nat k /\ nth_error (v_docs v) k = Some d /\
            visible (v_repos v) d = Some r /\ eval q r d = true.
Proof. exact search_spec. Qed.
Print Assumptions C17_search_exact.

Theorem C17_hidden_in_search : forall v q i r d,
  In (i, r, d) (search v q) ->
  nth_error (v_repos v) (d_repo d) = Some r /\ r_tomb r = false /\ memN (d_file d) (r_ftombs r) = false.
Proof. exact hidden_in_search. Qed.
Print Assumptions C17_hidden_in_search.

(** ... under EVERY SearchOptions.ShardRepoMaxMatchCount [lim] and whatever number of matches [wt] each file match
    contributes: the limited document loop ([search_lim]: guard order repository tombstone, file tombstone, limit
    skip; lastRepoID / repoMatchCount bookkeeping) only returns documents the unlimited search returns — tombstoned
    repositories and paths stay hidden — and with lim = 0 it IS the unlimited search. *)
Theorem C17_hidden_in_search_every_limit : forall v q lim wt i r d,
  In (i, r, d) (search_lim v q lim wt) ->
  In (i, r, d) (search v q) /\
  nth_error (v_repos v) (d_repo d) = Some r /\ r_tomb r = false /\ memN (d_file d) (r_ftombs r) = false.
Proof.
  intros v q lim wt i r d H. apply search_lim_sub in H. split; [exact H|]. exact (hidden_in_search v q i r d H).
Qed.
Print Assumptions C17_hidden_in_search_every_limit.

Theorem C17_search_limit_zero_is_search : forall v q wt, search_lim v q 0 wt = search v q.
Proof. exact search_lim_zero. Qed.
Print Assumptions C17_search_limit_zero_is_search.

Theorem C17_hidden_in_list : forall v q r,
  In r (list_repos v q) ->
  In r (v_repos v) /\ r_tomb r = false /\
  (simplify (v_repos v) q = QConst true \/
   exists i r' d, In (i, r', d) (search v q) /\ r_name r' = r_name r).
Proof. exact list_spec. Qed.
Print Assumptions C17_hidden_in_list.

(** and conversely: every alive repository is listed when the query folds to TRUE or one of its visible
    documents matches — tombstones hide nothing else *)
Theorem C17_list_complete : forall v q r,
  In r (v_repos v) -> r_tomb r = false ->
  (simplify (v_repos v) q = QConst true \/
   exists i r' d, In (i, r', d) (search v q) /\ r_name r' = r_name r) ->
  In r (list_repos v q).
Proof. exact list_complete. Qed.
Print Assumptions C17_list_complete.

(** success => effective, under every fault; and after a reload the repository is hidden from every query *)
Theorem C17_success_effective : forall f id b ft f',
  set_tombstone f id b ft = (f', Ok tt) ->
  exists rs', effective f' = Some rs' /\ forall r, In r rs' -> r_id r = id -> r_tomb r = b.
Proof. exact success_effective. Qed.
Print Assumptions C17_success_effective.

Theorem C17_set_survives_reload_and_hides : forall f id ft f' v,
  set_tombstone f id true ft = (f', Ok tt) -> load f' = Some v ->
  forall q, (forall i r d, In (i, r, d) (search v q) -> r_id r <> id) /\
            (forall r, In r (list_repos v q) -> r_id r <> id).
Proof. exact set_hides. Qed.
Print Assumptions C17_set_survives_reload_and_hides.

(** what was wrong before the repair: a failing rename was reported as success *)
Theorem C17_success_effective_before_fix_refuted :
  exists f id b ft f', set_tombstone_before_fix f id b ft = (f', Ok tt) /\
    exists rs' r, effective f' = Some rs' /\ In r rs' /\ r_id r = id /\ r_tomb r <> b.
Proof. exact success_effective_before_fix_refuted. Qed.
Print Assumptions C17_success_effective_before_fix_refuted.

Theorem C17_error_changes_nothing : forall f id b ft f' e,
  set_tombstone f id b ft = (f', Err e) -> f' = f.
Proof. exact error_unchanged. Qed.
Print Assumptions C17_error_changes_nothing.

Theorem C17_set_isolated : forall f id b ft f' rs,
  set_tombstone f id b ft = (f', Ok tt) -> effective f = Some rs ->
  exists rs', effective f' = Some rs' /\ length rs' = length rs /\
    forall i r, nth_error rs i = Some r ->
      exists r', nth_error rs' i = Some r' /\
        r_id r' = r_id r /\ r_name r' = r_name r /\ r_ftombs r' = r_ftombs r /\ r_meta r' = r_meta r /\ r_other r' = r_other r /\
        (r_id r <> id -> r' = r) /\ (r_id r = id -> r_tomb r' = b).
Proof. exact set_isolated. Qed.
Print Assumptions C17_set_isolated.

(** "affects only that repository" at the level of RESULTS (the clause a red-team change to simplifyMultiRepo
    violated): after a successful Set/UnsetTombstone(id) and a reload, for EVERY query (repo-level atoms are
    arbitrary predicates on id, name and metadata) the search results belonging to every other repository are
    identical ... *)
Theorem C17_other_repositories_search_unchanged : forall f id b ft f' v v',
  set_tombstone f id b ft = (f', Ok tt) -> load f = Some v -> load f' = Some v' ->
  forall q i r d, r_id r <> id ->
    (In (i, r, d) (search v' q) <-> In (i, r, d) (search v q)).
Proof. exact search_isolated. Qed.
Print Assumptions C17_other_repositories_search_unchanged.

(** ... and so is the listing of every other repository that has at least one visible document and does not
    share its name with the repository operated on *)
Theorem C17_other_repositories_list_unchanged : forall f id b ft f' v v',
  set_tombstone f id b ft = (f', Ok tt) -> load f = Some v -> load f' = Some v' ->
  forall q r, r_id r <> id ->
    (exists k d, nth_error (v_docs v) k = Some d /\ visible (v_repos v) d = Some r) ->
    (forall r', In r' (v_repos v) -> r_name r' = r_name r -> r_id r' <> id) ->
    (In r (list_repos v' q) <-> In r (list_repos v q)).
Proof. exact list_isolated. Qed.
Print Assumptions C17_other_repositories_list_unchanged.

(** the hypothesis "has a visible document" cannot be dropped: FINDING (known-findings key
    others-results-changed:list:repo-without-visible-documents) — List(RepoSet{r1}) on a shard {r1 (no
    documents), r2} is empty, after SetTombstone(r2) it lists r1. *)
Theorem C17_other_repositories_list_unchanged_without_documents_refuted :
  exists (f : fs) (id : N) (f' : fs) (v v' : view) (q : query) (r : repo),
    set_tombstone f id true NoFault = (f', Ok tt) /\ load f = Some v /\ load f' = Some v' /\ wf f /\
    r_id r <> id /\ NoDup (map r_name (v_repos v)) /\
    ~ In r (list_repos v q) /\ In r (list_repos v' q).
Proof. exact list_isolated_without_documents_refuted. Qed.
Print Assumptions C17_other_repositories_list_unchanged_without_documents_refuted.

Theorem C17_documents_and_temp_files_untouched : forall f id b ft,
  fs_shard (fst (set_tombstone f id b ft)) = fs_shard f /\
  fs_tmps (fst (set_tombstone f id b ft)) = fs_tmps f /\
  is_panic (snd (set_tombstone f id b ft)) = false.
Proof. intros. split; [apply shard_untouched|split; [apply no_temp_left|apply never_panics]]. Qed.
Print Assumptions C17_documents_and_temp_files_untouched.

Theorem C17_set_idempotent : forall f id b f1 f2,
  set_tombstone f id b NoFault = (f1, Ok tt) ->
  set_tombstone f1 id b NoFault = (f2, Ok tt) -> f2 = f1.
Proof. exact set_idempotent. Qed.
Print Assumptions C17_set_idempotent.

(** unset after set (b = false) / set after unset (b = true) restores the metadata and hence every
    search and list result, provided all repositories with that id had flag b before *)
Theorem C17_inverse_restores : forall f id b rs f1 f2,
  effective f = Some rs ->
  (forall r, In r rs -> r_id r = id -> r_tomb r = b) ->
  set_tombstone f id (negb b) NoFault = (f1, Ok tt) ->
  set_tombstone f1 id b NoFault = (f2, Ok tt) ->
  effective f2 = effective f /\ load f2 = load f.
Proof. exact inverse_restores. Qed.
Print Assumptions C17_inverse_restores.

(** histories with arbitrary fault sequences: the metadata after the history is the fold of exactly
    the operations that reported success; the documents and the temp-file count never change *)
Theorem C17_history : forall ops f rs,
  effective f = Some rs ->
  effective (fst (run_hist f ops)) = Some (fold_left apply_ok ops rs) /\
  snd (run_hist f ops) = map reports ops /\
  fs_shard (fst (run_hist f ops)) = fs_shard f /\
  fs_tmps (fst (run_hist f ops)) = fs_tmps f.
Proof. exact history_effect. Qed.
Print Assumptions C17_history.

Theorem C17_wf_preserved : forall f id b ft, wf f -> wf (fst (set_tombstone f id b ft)).
Proof. exact wf_preserved. Qed.
Print Assumptions C17_wf_preserved.

(** ---- non-vacuity: a compound shard with three repositories, a file tombstone, a sidecar-less start *)
Definition ex_sh := mkShard [mkRepo 1 1 false [] [(0%N, 1%N)] 10; mkRepo 2 2 false [5%N] [] 20; mkRepo 3 3 false [] [] 30]
                            [mkDoc 0 3 [0%N]; mkDoc 1 5 [0%N]; mkDoc 1 4 [0%N; 1%N]; mkDoc 2 3 [2%N]].
Definition ex_fs := mkFs (Some ex_sh) None 0.
Definition ex_q := QAnd (QDoc (fun d => memN 0 (d_words d))) (QNot (QRepo (fun k => N.eqb (k_name k) 9))).

Example ex_wf : wf ex_fs.
Proof. unfold wf, ex_fs; simpl. split; [repeat constructor|exact I]. Qed.
(* before: docs 0 and 2 are found (doc 1 is a tombstoned path); both repositories are listed *)
Example ex_search_before :
  option_map (fun v => map (fun x => fst (fst x)) (search v ex_q)) (load ex_fs) = Some [0%N; 2%N].
Proof. vm_compute. reflexivity. Qed.
Example ex_list_before :
  option_map (fun v => map r_id (list_repos v ex_q)) (load ex_fs) = Some [1%N; 2%N].
Proof. vm_compute. reflexivity. Qed.
(* set 2, reload: only doc 0 / repo 1; the operation reported success *)
Example ex_set : snd (set_tombstone ex_fs 2 true NoFault) = Ok tt.
Proof. reflexivity. Qed.
Example ex_search_after :
  option_map (fun v => map (fun x => fst (fst x)) (search v ex_q)) (load (fst (set_tombstone ex_fs 2 true NoFault))) = Some [0%N].
Proof. vm_compute. reflexivity. Qed.
Example ex_list_after :
  option_map (fun v => map r_id (list_repos v (QConst true))) (load (fst (set_tombstone ex_fs 2 true NoFault))) = Some [1%N; 3%N].
Proof. vm_compute. reflexivity. Qed.
(* isolation of results: RepoIDs{1,2}; repositories 1 and 2 match, 3 does not; tombstoning 2 keeps 3 out and 1's results *)
Definition ex_q12 := QRepo (fun k => memN (k_id k) [1%N; 2%N]).
Example ex_isolated_before :
  option_map (fun v => (map (fun x => fst (fst x)) (search v ex_q12), map r_id (list_repos v ex_q12))) (load ex_fs)
  = Some ([0%N; 2%N], [1%N; 2%N]).
Proof. vm_compute. reflexivity. Qed.
Example ex_isolated_after :
  option_map (fun v => (map (fun x => fst (fst x)) (search v ex_q12), map r_id (list_repos v ex_q12)))
             (load (fst (set_tombstone ex_fs 2 true NoFault)))
  = Some ([0%N], [1%N]).
Proof. vm_compute. reflexivity. Qed.
(* hypotheses of C17_inverse_restores / C17_set_idempotent are satisfiable *)
Example ex_inverse :
  exists f1 f2, set_tombstone ex_fs 2 (negb false) NoFault = (f1, Ok tt) /\ set_tombstone f1 2 false NoFault = (f2, Ok tt)
                /\ load f2 = load ex_fs.
Proof. eexists. eexists. split; [reflexivity|]. split; reflexivity. Qed.
(* faults: rename failure and create failure report errors and change nothing *)
Example ex_rename_fails : set_tombstone ex_fs 2 true RenameFails = (ex_fs, Err 3).
Proof. reflexivity. Qed.
Example ex_history :
  snd (run_hist ex_fs [(2%N, true, RenameFails); (1%N, true, NoFault); (2%N, true, CreateTempFails)]) = [Err 3; Ok tt; Err 2]
  /\ option_map (map r_tomb) (effective (fst (run_hist ex_fs [(2%N, true, RenameFails); (1%N, true, NoFault); (2%N, true, CreateTempFails)]))) = Some [true; false; false].
Proof. split; reflexivity. Qed.
(* limits: a shard [repo 1: docs 0 1 2][repo 2 tombstoned: doc 3][repo 3: doc 4 at a tombstoned path, doc 5]; every document matches;
   limit 1 returns the first document of repository 1 and the first VISIBLE document of repository 3, limit 2 two of repository 1 *)
Definition ex_lim_view := mkView [mkRepo 1 1 false [] [] 10; mkRepo 2 2 true [] [] 20; mkRepo 3 3 false [7%N] [] 30]
                                 [mkDoc 0 3 []; mkDoc 0 4 []; mkDoc 0 5 []; mkDoc 1 3 []; mkDoc 2 7 []; mkDoc 2 8 []].
Example ex_limited :
  map (fun x => fst (fst x)) (search_lim ex_lim_view (QConst true) 1 (fun _ => 1%N)) = [0%N; 5%N] /\
  map (fun x => fst (fst x)) (search_lim ex_lim_view (QConst true) 2 (fun _ => 1%N)) = [0%N; 1%N; 5%N] /\
  map (fun x => fst (fst x)) (search_lim ex_lim_view (QConst true) 2 (fun _ => 2%N)) = [0%N; 5%N] /\
  map (fun x => fst (fst x)) (search ex_lim_view (QConst true)) = [0%N; 1%N; 2%N; 5%N].
Proof. vm_compute. repeat split. Qed.
