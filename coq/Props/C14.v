(** C14 — Git indexing captures exactly the indexed branch trees.
    Models: Model/GitWalk.v (CollectFiles / handleEntry merging, document creation on both blob-reading paths),
    Model/Catfile.v (catfileReader.Next / Read over the response stream, contentSlab.alloc).
    Proofs: Proofs/GitWalk.v, Proofs/Catfile.v, Proofs/GitPaths.v.
    Trusted boundary: go-git's object store (a tree = the forest of its entries; the walk itself IS modelled: walk_forest =
    RepoWalker.walkTree; tw_step = go-git's TreeWalker used before the repairs), the cat-file output
    format, bufio (any hand-over amount >= 1 per Read), the glob matchers (verdict functions, universally
    quantified), index.Builder's round trip. Submodule recursion is not configured (Options.Submodules = false). *)
From ZV Require Import Lib.Base Model.IgnoreFile Model.DirWalk Model.Catfile Model.GitWalk Proofs.DirWalk Proofs.Catfile Proofs.GitWalk Proofs.GitPaths Proofs.GitTreeWalk.

(** The tree walk of CollectFiles (RepoWalker.walkTree, the own recursion over tree.Entries of the repaired code) hands
    handleEntry EVERY path of the branch tree exactly as the recursive listing gives them (= `git ls-tree -r -t`: a directory
    before its content, tree order) — for all trees with at most maxTreeDepth+1 = 1025 levels, ALL entry names.  Hashes are
    unconstrained annotations of the tree: the same tree object at several paths, nested duplicates, identical blobs everywhere,
    even all hashes equal make no difference (the walk keeps no memory of objects it has seen). *)
Theorem C14_walk_all_paths : forall root,
  forest_height root <= S max_tree_depth -> tree_entries root = Ok (forest_paths [] root).
Proof. exact tree_entries_all_paths. Qed.
Print Assumptions C14_walk_all_paths.

Theorem C14_walk_visits_every_path : forall root p m h,
  forest_height root <= S max_tree_depth ->
  path_in [] root p m h ->
  exists es, tree_entries root = Ok es /\ In {| ge_path := p; ge_mode := m; ge_id := h |} es.
Proof. exact tree_walk_visits_every_path. Qed.
Print Assumptions C14_walk_visits_every_path.

(** Whatever the depth: the walk either hands over every path or fails (the error CollectFiles returns) — never a partial listing. *)
Theorem C14_walk_never_partial : forall root es, tree_entries root = Ok es -> es = forest_paths [] root.
Proof. intros root es H. exact (walk_forest_never_partial root 0 [] es H). Qed.
Print Assumptions C14_walk_never_partial.

(** The walker used before the repairs (go-git's TreeWalker with the caller's seen map), for ANY seen set: exactly the entries
    whose own hash and whose ancestors' hashes are not in the set (an entry with a hash in the set is dropped with everything
    below it, wherever it occurs) — complete only because the set stayed empty, and only on names go-git accepts. *)
Theorem C14_gogit_walker_with_seen_set : forall root seen,
  forest_names_ok root -> forest_height root <= S max_tree_depth ->
  tw_run (walk_fuel root) (tw_init root seen) = Ok (forest_visits seen [] root).
Proof. exact tree_walk_seen. Qed.
Print Assumptions C14_gogit_walker_with_seen_set.

(** REFUTED BEFORE THE REPAIR 39be1f9 (finding rejected-entry-name), for trees git accepts but go-git's walker does not: a name
    with a control character (here "Icon\r" and the directory "a\tb") is legal in git (no '/', fsck --strict silent);
    TreeWalker.Next returned ErrInvalidPath with an empty name, CollectFiles only tested for io.EOF: the file was handed over with
    the EMPTY path and the directory was not descended into.  The current walk lists the same tree completely. *)
Definition c14_rejected_witness : gforest :=
  GCons [73;99;111;110;13]%N (GNode GRegular 1%N GNil)
   (GCons [97;9;98]%N (GNode GDir 2%N (GCons [102]%N (GNode GRegular 3%N GNil) GNil))
     (GCons [122]%N (GNode GRegular 4%N GNil) GNil)).
Theorem C14_walk_all_paths_refuted_before_fix :
  forest_names_ok c14_rejected_witness /\ forest_height c14_rejected_witness <= S max_tree_depth /\
  path_in [] c14_rejected_witness [97;9;98;47;102]%N GRegular 3%N /\
  tree_entries_before_fix c14_rejected_witness =
    Ok [ {| ge_path := []; ge_mode := GRegular; ge_id := 1%N |}; {| ge_path := []; ge_mode := GDir; ge_id := 2%N |};
         {| ge_path := [122]%N; ge_mode := GRegular; ge_id := 4%N |} ] /\
  tree_entries c14_rejected_witness = Ok (forest_paths [] c14_rejected_witness) /\
  length (forest_paths [] c14_rejected_witness) = 4.
Proof.
  split; [|split; [|split; [|split; [|split]]]].
  - cbn. unfold no_slash. cbn. intuition discriminate.
  - vm_compute. repeat constructor.
  - apply PiNext. apply PiBelow. apply PiHere.
  - vm_compute. reflexivity.
  - vm_compute. reflexivity.
  - vm_compute. reflexivity.
Qed.
Print Assumptions C14_walk_all_paths_refuted_before_fix.

(** REFUTED BEFORE THE REPAIR 8664339 (finding deep-tree-hang): with 1025 nested directories TreeWalker.Next reported
    ErrMaxTreeDepth on every call and never io.EOF — the loop of CollectFiles did not end (Err 1 of [tw_run]).  Now such a tree
    is refused with an error (Err 1 of [walk_forest]); 1024 nested directories are walked, before and after. *)
Fixpoint c14_deep (n : nat) : gforest :=
  match n with 0 => GCons [102]%N (GNode GRegular 1%N GNil) GNil | S k => GCons [100]%N (GNode GDir 2%N (c14_deep k)) GNil end.
Theorem C14_walk_terminates_refuted_before_fix :
  forest_names_ok (c14_deep 1025) /\ forest_valid (c14_deep 1025) /\
  tree_entries_before_fix (c14_deep 1025) = Err 1 /\ is_ok (tree_entries_before_fix (c14_deep 1024)) = true /\
  tree_entries (c14_deep 1025) = Err 1 /\ is_ok (tree_entries (c14_deep 1024)) = true.
Proof.
  assert (forall n, forest_names_ok (c14_deep n)) as Hn.
  { induction n as [|n IH]; cbn; unfold no_slash; cbn; intuition discriminate. }
  assert (forall n, forest_valid (c14_deep n)) as Hv.
  { induction n as [|n IH]; cbn; intuition. }
  split; [apply Hn|split; [apply Hv|repeat split; vm_compute; reflexivity]].
Qed.
Print Assumptions C14_walk_terminates_refuted_before_fix.

(** One entry per distinct (path, blob) ... *)
Theorem C14_collect_one_per_key : forall bs, NoDup (map fst (collect bs)).
Proof. exact collect_nodup. Qed.
Print Assumptions C14_collect_one_per_key.

(** ... and its branch list is exactly the list of occurrences of the pair as a regular / executable / symlink
    entry that the ignore file of that branch's tree does not match, in branch order (all branch lists, all
    trees, all ignore verdict functions). *)
Theorem C14_collect_spec : forall bs k brs,
  In (k, brs) (collect bs) <-> brs = occs k bs /\ brs <> [].
Proof. exact collect_spec. Qed.
Print Assumptions C14_collect_spec.

(** In a repository (a path occurs at most once per tree) the branch list is the list of the branches whose
    tree has the pair: no branch twice, none missing. *)
Theorem C14_collect_branches_exact : forall bs k brs,
  Forall (fun b => NoDup (map ge_path (gb_entries b))) bs ->
  In (k, brs) (collect bs) -> brs = map gb_name (filter (branch_has k) bs).
Proof. exact collect_branches_exact. Qed.
Print Assumptions C14_collect_branches_exact.

(** No document for a path excluded by the ignore file, for a tree, or for a submodule link: a pair that only
    occurs with non-file modes is not collected ... *)
Theorem C14_no_submodule_docs : forall bs path id,
  (forall b e, In b bs -> In e (gb_entries b) -> ge_path e = path -> ge_id e = id -> is_file_mode (ge_mode e) = false) ->
  ~ In (path, id) (map fst (collect bs)).
Proof. exact no_submodule_docs. Qed.
Print Assumptions C14_no_submodule_docs.

(** ... and every branch listed for a collected pair has a file-mode entry for it that its ignore file does not match. *)
Theorem C14_collect_sources : forall bs k brs,
  In (k, brs) (collect bs) ->
  forall br, In br brs ->
  exists b e, In b bs /\ gb_name b = br /\ In e (gb_entries b) /\ is_file_mode (ge_mode e) = true /\
              gb_ignored b (ge_path e) = false /\ (ge_path e, ge_id e) = k.
Proof. exact collect_sources. Qed.
Print Assumptions C14_collect_sources.

(** Name, branch list and content of a document: the content is the blob seen through Builder.Add's skip rules
    ([builder_view], characterised by C15_builder_view_cases below: the blob itself when it is text of >= 3 bytes or empty and not
    too large; otherwise the explanation marker), a LargeFiles match lifting the size limit. *)
Theorem C14_doc_content : forall size_max large_ok blobs path id brs c,
  lookup_blob id blobs = Some c ->
  let d := doc_gogit size_max large_ok blobs ((path, id), brs) in
  gd_name d = path /\ gd_branches d = brs /\
  gd_content d = builder_view (if large_ok path then length c else size_max) c.
Proof. exact doc_gogit_content. Qed.
Print Assumptions C14_doc_content.

Theorem C14_content_is_blob_or_skip_reason : forall size_max c,
  (size_max < length c -> builder_view size_max c = marker_too_large) /\
  (length c <= size_max -> c = [] -> builder_view size_max c = []) /\
  (length c <= size_max -> 1 <= length c < 3 -> builder_view size_max c = marker_too_small) /\
  (length c <= size_max -> 3 <= length c -> In 0%N c -> builder_view size_max c = marker_binary) /\
  (length c <= size_max -> 3 <= length c -> ~ In 0%N c -> builder_view size_max c = c).
Proof. exact builder_view_cases. Qed.
Print Assumptions C14_content_is_blob_or_skip_reason.

(** The cat-file reader, on every well-formed response stream and EVERY plan of Next / Read(len) calls with
    every chunking of the pipe (hand-over amounts >= 1), behaves as the abstract machine [abs_run] that keeps
    "the undelivered rest of the current blob" and "the responses not yet announced" ... *)
Theorem C14_catfile_stream_refines : forall rs ops,
  Forall wf_resp rs -> wf_ops ops -> cf_run (cf_init (encode rs)) ops = abs_run (None, rs) ops.
Proof. exact catfile_stream_refines. Qed.
Print Assumptions C14_catfile_stream_refines.

(** ... hence, in client terms: the i-th Next announces the i-th response (size / missing / excluded), the bytes
    read between it and the following Next are a prefix of that blob, the whole blob once a Read reported EOF
    (full reads, partial reads and skips interleaved arbitrarily), and after the last response Next reports EOF. *)
Theorem C14_catfile_delivers_blob_bytes : forall rs ops,
  Forall wf_resp rs -> wf_ops ops -> segs_ok rs (segs (cf_run (cf_init (encode rs)) ops) None).
Proof. exact catfile_delivers. Qed.
Print Assumptions C14_catfile_delivers_blob_bytes.

(** io.ReadFull right after Next returns the blob and leaves the reader at the next header. *)
Theorem C14_read_full_whole_blob : forall fuel u rs avail acc,
  (forall i, 1 <= avail i) -> u <> [] -> length u <= fuel ->
  read_full (conc (Some u, rs)) (length u) avail fuel acc = (conc (None, rs), Some (acc ++ u)).
Proof. exact read_full_spec. Qed.
Print Assumptions C14_read_full_whole_blob.

(** The go-git and the cat-file reading paths produce the same documents (same skip decisions), when every
    collected blob is in the object store: for every SizeMax, LargeFiles verdict, branch list, pipe chunking. *)
Theorem C14_paths_agree : forall size_max large_ok blobs avail bs,
  (forall i, 1 <= avail i) ->
  (forall f, In f (collect bs) -> present blobs f) ->
  (forall id c, lookup_blob id blobs = Some c -> (Z.of_nat (length c) <= max_int)%Z) ->
  docs_catfile size_max large_ok blobs avail bs = Ok (docs_gogit size_max large_ok blobs bs).
Proof. exact paths_agree. Qed.
Print Assumptions C14_paths_agree.

(** Slab slices never alias: the regions handed out by any allocation sequence are pairwise disjoint, shared ones
    lie inside the slab, and each has exactly the requested length (= its capacity: 3-index slice). *)
Theorem C14_slab_disjoint : forall cap ns,
  ForallOrdPairs disjoint (slab_run (slab_new cap) ns) /\
  Forall (fun r => rg_shared r = true -> rg_off r + rg_len r <= cap) (slab_run (slab_new cap) ns) /\
  map rg_len (slab_run (slab_new cap) ns) = ns.
Proof. intros cap ns. destruct (slab_disjoint cap ns) as [H1 H2]. split; [exact H1|]. split; [exact H2|apply slab_run_lengths]. Qed.
Print Assumptions C14_slab_disjoint.

(** ---------- non-vacuity *)

(* main: a.go(1) b.go(2) sub(gitlink) docs/x(1, ignored on main) ; dev: a.go(1) b.go(3) docs/x(1) *)
Example C14_collect_nonvacuous :
  let e p m i := {| ge_path := p; ge_mode := m; ge_id := i |} in
  let a := [97;46;103;111]%N in let b := [98;46;103;111]%N in let sub := [115;117;98]%N in let dx := [100;111;99;115;47;120]%N in
  let main := {| gb_name := [109]%N; gb_entries := [e a GRegular 1%N; e b GExec 2%N; e [100;111;99;115]%N GDir 9%N; e dx GRegular 1%N; e sub GSubmodule 7%N];
                 gb_ignored := fun p => bytes_eqb p dx |} in
  let dev := {| gb_name := [100]%N; gb_entries := [e a GSymlink 1%N; e b GRegular 3%N; e dx GRegular 1%N]; gb_ignored := fun _ => false |} in
  collect [main; dev] = [ ((a, 1%N), [[109]%N; [100]%N]); ((b, 2%N), [[109]%N]); ((b, 3%N), [[100]%N]); ((dx, 1%N), [[100]%N]) ]
  /\ Forall (fun b => NoDup (map ge_path (gb_entries b))) [main; dev].
Proof.
  split; [vm_compute; reflexivity|].
  repeat constructor; cbn; intuition discriminate.
Qed.

(* lib/x and vendor/x are the SAME tree object (hash 7, same forest), a third copy below pkg/vendor (itself the same tree object as vendor, hash 9); blob 1 at six paths *)
Example C14_walk_nonvacuous :
  let f := GCons [97;46;103;111]%N (GNode GRegular 1%N GNil) (GCons [115]%N (GNode GDir 8%N (GCons [98]%N (GNode GExec 1%N GNil) GNil)) GNil) in
  let x := GNode GDir 7%N f in
  let root := GCons [108;105;98]%N (GNode GDir 5%N (GCons [120]%N x GNil))
              (GCons [112;107;103]%N (GNode GDir 6%N (GCons [118;101;110;100;111;114]%N (GNode GDir 9%N (GCons [120]%N x GNil)) GNil))
              (GCons [118;101;110;100;111;114]%N (GNode GDir 9%N (GCons [120]%N x GNil)) GNil)) in
  forest_height root <= S max_tree_depth /\
  match tree_entries root with Ok es => length es = 16 /\ length (filter (fun e => N.eqb (ge_id e) 7) es) = 3 | _ => False end /\
  (* a walker that skips hashes it was told about (go-git's, had the caller put the hash of every directory it was handed into
     the seen set) loses the copies: *)
  match tw_run (walk_fuel root) (tw_init root [7%N]) with Ok es => length es = 4 | _ => False end.
Proof.
  split; [|split].
  - vm_compute. repeat constructor.
  - vm_compute. split; reflexivity.
  - vm_compute. reflexivity.
Qed.

(* the ignore file is looked up in each branch's own tree and read with ParseIgnoreFile's syntax (Model/IgnoreFile.v):
   main has .sourcegraph/ignore = "# c\ndocs/\n" (blob 5), dev has none; glob engine here: prefix match on "docs/" *)
Example C14_ignore_per_tree_nonvacuous :
  let e p m i := {| ge_path := p; ge_mode := m; ge_id := i |} in
  let dx := [100;111;99;115;47;120]%N in
  let es := [e ignore_path GRegular 5%N; e [97]%N GRegular 1%N; e dx GRegular 2%N] in
  let blobs := [(5%N, [35;32;99;10;100;111;99;115;47;10]%N); (1%N, [97;97;97]%N); (2%N, [98;98;98]%N)] in
  let glob := fun (pat path : bytes) => bytes_eqb pat [100;111;99;115;47;42;42]%N && prefixb [100;111;99;115;47]%N path in
  let main := gbranch_of glob blobs [109]%N es in
  let dev := gbranch_of glob blobs [100]%N [e [97]%N GRegular 1%N; e dx GRegular 2%N] in
  map (fun f => (fst (fst f), snd f)) (collect [main; dev])
  = [ (ignore_path, [[109]%N]); ([97]%N, [[109]%N; [100]%N]); (dx, [[100]%N]) ].
Proof. vm_compute. reflexivity. Qed.

(* stream "1 blob 3\nabc\n2 missing\n3 blob 0\n\n": read 2 bytes, skip the rest, hit the missing entry, read past the empty blob *)
Example C14_catfile_nonvacuous :
  let rs := [ RPresent [49]%N s_blob [51]%N [97;98;99]%N; RMissing [50]%N; RPresent [51]%N s_blob [48]%N [] ] in
  let ops := [ONext; ORead 2 5; ONext; ORead 4 1; ONext; ORead 4 4; ONext] in
  Forall wf_resp rs /\ wf_ops ops /\
  cf_run (cf_init (encode rs)) ops =
    [OutNext (NEntry 3); OutRead [97;98]%N RNil; OutNext NMissing; OutRead [] REOF; OutNext (NEntry 0); OutRead [] REOF; OutNext NEOF].
Proof.
  split; [|split; [|vm_compute; reflexivity]].
  - repeat constructor; cbn; try discriminate; try (intro H; cbn in H; intuition discriminate); try reflexivity.
  - repeat constructor.
Qed.

Example C14_paths_agree_nonvacuous :
  let e p m i := {| ge_path := p; ge_mode := m; ge_id := i |} in
  let main := {| gb_name := [109]%N; gb_entries := [e [97]%N GRegular 1%N; e [98]%N GExec 2%N; e [99]%N GRegular 3%N]; gb_ignored := fun _ => false |} in
  let blobs := [(1%N, [104;101;108;108;111]%N); (2%N, []); (3%N, [120;120;120;120;120;120;120;120]%N)] in
  docs_catfile 6 (fun _ => false) blobs (fun _ => 2) [main] = Ok (docs_gogit 6 (fun _ => false) blobs [main])
  /\ map gd_content (docs_gogit 6 (fun _ => false) blobs [main]) = [[104;101;108;108;111]%N; []; marker_too_large].
Proof. vm_compute. split; reflexivity. Qed.

Example C14_slab_nonvacuous :
  map (fun r => (rg_buf r, rg_off r, rg_len r)) (slab_run (slab_new 10) [4; 4; 4; 20; 0; 10])
  = [(0, 0, 4); (0, 4, 4); (1, 0, 4); (2, 0, 20); (1, 4, 0); (3, 0, 10)].
Proof. vm_compute. reflexivity. Qed.
