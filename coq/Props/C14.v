(** C14 — Git indexing captures exactly the indexed branch trees. (first version) *)
From ZV Require Import Lib.Base Model.DirWalk Model.Catfile Model.GitWalk.

Theorem C14_handle_entry_skips_non_files : forall ig br fs e,
  is_file_mode (ge_mode e) = false -> handle_entry ig br fs e = fs.
Proof. intros ig br fs e H. unfold handle_entry. rewrite H. reflexivity. Qed.
Print Assumptions C14_handle_entry_skips_non_files.
