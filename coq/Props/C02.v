From ZV Require Import Lib.Base Model.Lines Model.Ranges.
(* first version: pipeline bring-up; the theorems follow *)
Theorem C02_placeholder_bringup : gather 3 [] = [{| c_fn := true; c_off := 0; c_sz := 3 |}].
Proof. reflexivity. Qed.
Print Assumptions C02_placeholder_bringup.
