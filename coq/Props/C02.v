(** C02 — reported match ranges are real, ordered and complete.
    Model: coq/Model/Ranges.v (gatherMatches, rune-offset sampling / makeRuneOffsetMap / lookup / findOffset)
    and coq/Model/Lines.v (candidates, sortByOffsetSlice.Less, breakMatchesOnNewlines).
    WHICH candidates an atom produces (all occurrences / engine matches, each matching at its position)
    is the subject of C01; here it appears as the hypothesis on the candidate list. *)
From ZV Require Import Lib.Base Lib.GoSearch Lib.RuneCount Model.Lines Model.Ranges
  Proofs.RuneCountProofs Proofs.LinesMatch Proofs.LinesChunk Proofs.LinesBreakCover Proofs.RangesLineMode Proofs.RangesGather Proofs.RangesOffsets Proofs.RangesFind Proofs.RangesBoundary Proofs.RangesWord Generated.RangesConsts Generated.RangesWordBytes.
From ZV Require Lib.Utf8.
From Coq Require Import Sorting.Sorted Sorting.Permutation.

(** gatherMatches on any non-empty candidate list (any mix of atoms, file-name and content candidates):
    every kept range is a candidate (gather_sub); the result is ordered by sortByOffsetSlice
    (gather_sorted: file-name ranges first, then by offset); ranges of the same class never overlap
    (gather_nonoverlap); and nothing is dropped without reason: every dropped candidate starts inside
    a kept range of its class that sorts before it (completeness) *)
Theorem C02_gather_spec : forall nl cands, cands <> [] ->
  let out := gather nl cands in
  incl out cands /\ StronglySorted le_key out /\ StronglySorted class_disjoint out /\
  (forall c, In c cands -> In c out \/ exists k, In k out /\ covers k c /\ le_key k c).
Proof. exact gather_spec. Qed.
Print Assumptions C02_gather_spec.

(** "prefer longer candidates if starting at same position" (sortByOffsetSlice.Less): a kept range is the longest
    candidate of its class starting at its offset — e.g. or(foo, foobar) reports foobar *)
Theorem C02_gather_prefers_longer : forall nl cands k c, cands <> [] ->
  In k (gather nl cands) -> In c cands -> c_fn c = c_fn k -> c_off c = c_off k -> c_sz c <= c_sz k.
Proof. exact gather_prefers_longer. Qed.
Print Assumptions C02_gather_prefers_longer.

(** no text atom contributed: exactly one synthetic range, the whole file name *)
Theorem C02_gather_no_candidates : forall nl, gather nl [] = [{| c_fn := true; c_off := 0; c_sz := nl |}].
Proof. exact gather_empty. Qed.
Print Assumptions C02_gather_no_candidates.

(** ranges in bounds: gatherMatches never invents or moves a range *)
Theorem C02_ranges_in_bounds : forall nl cands bound, cands <> [] ->
  Forall (fun m => c_end m <= bound) cands -> Forall (fun m => c_end m <= bound) (gather nl cands).
Proof.
  intros nl cands bound Hne H. destruct (gather_spec nl cands Hne) as [Hi _].
  rewrite Forall_forall in *. intros x Hx. apply H. apply Hi. exact Hx.
Qed.
Print Assumptions C02_ranges_in_bounds.

(** the output of gatherMatches satisfies the hypotheses of the C03 theorems (sorted by Less; content
    ranges sorted and pairwise disjoint) *)
Theorem C02_gather_feeds_fill : forall nl cands,
  is_sorted_by cand_less (gather nl cands) = true /\ disjoint_sorted (filter is_content (gather nl cands)).
Proof. exact gather_content_disjoint. Qed.
Print Assumptions C02_gather_feeds_fill.

(** single content substring: if the atom's candidates are all occurrences (C01), the reported ranges
    are exactly the successive leftmost non-overlapping occurrences — what the scanning loop
    `i := Index(content[from:], pat); from += i + len` yields.  [mt] abstracts the match test at a
    position (exact bytes, or case folding with its own byte length); only mt l = Some n -> n >= 1 is used *)
Theorem C02_substr_ranges_leftmost : forall mt, (forall l n, mt l = Some n -> 1 <= n) ->
  forall nl content, all_occ mt content 0 <> [] ->
  gather nl (all_occ mt content 0) = scan mt content 0 0.
Proof. exact substr_ranges_leftmost. Qed.
Print Assumptions C02_substr_ranges_leftmost.

Theorem C02_substr_no_occurrence : forall mt nl content, all_occ mt content 0 = [] ->
  scan mt content 0 0 = [] /\ gather nl (all_occ mt content 0) = [{| c_fn := true; c_off := 0; c_sz := nl |}].
Proof. exact substr_no_occurrence. Qed.
Print Assumptions C02_substr_no_occurrence.

(** single regexp: the engine's matches (strictly increasing, non-overlapping, empty ones included) are
    reported unchanged, so in chunk mode the ranges cover exactly the bytes of the non-empty matches *)
Theorem C02_regexp_ranges_are_engine_matches : forall nl ms, ms <> [] -> engine_matches ms -> gather nl ms = ms.
Proof. exact regexp_matches_kept. Qed.
Print Assumptions C02_regexp_ranges_are_engine_matches.

(** THE WORD FAST PATH (wordMatchTree.matches: a case-sensitive \bLIT\b is evaluated without the regexp engine, on the bytes
    of the document).  [word_offsets w data] = the scan loop of the code (Model/Ranges.v: bytes.Index from the resume offset,
    both ends must be word/non-word transitions, resume BEHIND an accepted occurrence and one byte past the start of a
    rejected one).  [successive w data pos l] = the regexp engine's FindAllIndex semantics for \bLIT\b: l are the successive
    leftmost matches, each searched from the end of the previous one; a match at o = LIT occurs at o and both o and
    o + |LIT| are ASCII word boundaries.  The loop yields exactly that list — in particular DIRECTLY ADJACENT occurrences
    (x.get.get for \b\.get\b: a literal whose first and last byte are of different classes) are all reported. *)
Theorem C02_word_fastpath_is_regexp : forall w data l, w <> [] ->
  (successive w data 0 l <-> l = word_offsets w data).
Proof. exact word_fastpath_is_regexp. Qed.
Print Assumptions C02_word_fastpath_is_regexp.

(** ... and gatherMatches reports the word atom's candidates unchanged: the ranges of the query \bLIT\b are exactly the
    engine's successive matches [o, o + |LIT|), all inside the document (chunk mode: with C02_chunk_mode_ranges) *)
Theorem C02_word_ranges_are_regexp_matches : forall nl w data, w <> [] -> word_offsets w data <> [] ->
  gather nl (word_cands false w data) = word_cands false w data /\
  map c_off (word_cands false w data) = word_offsets w data /\
  Forall (fun m => c_sz m = length w /\ c_fn m = false /\ c_end m <= length data) (word_cands false w data) /\
  successive w data 0 (word_offsets w data).
Proof. exact word_ranges_are_regexp_matches. Qed.
Print Assumptions C02_word_ranges_are_regexp_matches.

(** ... line mode end to end (model level): the LineFragments cover exactly the bytes of the successive matches minus newlines *)
Theorem C02_word_line_mode : forall nl data name ctx w, (0 <= ctx)%Z -> w <> [] -> word_offsets w data <> [] ->
  exists res, fill_matches (newlines_of data) data name ctx (gather nl (word_cands false w data)) = Ok res /\
    Forall (lm_ok data ctx) res /\
    (forall p, frag_covered res p <->
       ((exists o, In o (word_offsets w data) /\ o <= p < o + length w) /\ nth_error data p <> Some 10%N)).
Proof. exact word_line_mode. Qed.
Print Assumptions C02_word_line_mode.

(** ... the same for a FILE-NAME query (wordMatchTree{fileName: true} scans the name): the candidates of either class pass
    gatherMatches unchanged *)
Theorem C02_word_ranges_any_class : forall fn nl w data, w <> [] -> word_offsets w data <> [] ->
  gather nl (word_cands fn w data) = word_cands fn w data.
Proof. exact word_ranges_any_class. Qed.
Print Assumptions C02_word_ranges_any_class.

(** the word characters of the model are those of the code: [word_bytes] (Generated/RangesWordBytes.v) is the table of bits.go
    characterClass, regenerated on every run by evaluating it on all 256 byte values of the tree under test *)
Theorem C02_word_class_table : forall c, (c < 256)%N -> is_word_byte c = existsb (N.eqb c) word_bytes.
Proof. exact word_class_table. Qed.
Print Assumptions C02_word_class_table.

(** the resume offset matters: resuming at relEndOffset + 1 after an accepted occurrence (round-3 red-team change, "the
    byte after an accepted occurrence is on the far side of a word boundary") is NOT the regexp semantics *)
Theorem C02_word_resume_plus1_refuted : exists w data, w <> [] /\
  ~ successive w data 0 (word_scan_skip1 w data 0 (S (length data))).
Proof. exact word_resume_plus1_refuted. Qed.
Print Assumptions C02_word_resume_plus1_refuted.

(** line mode, FULL: breakMatchesOnNewlines succeeds on in-bounds disjoint candidates; every piece is a non-empty
    newline-free part of its candidate (same class), order and disjointness are kept; and the pieces cover EXACTLY the
    bytes of the candidates minus the newline bytes: a byte position lies in a piece iff it lies in a candidate and
    does not hold '\n' ([covered l p] = some range of l contains p).  With C02_regexp_ranges_are_engine_matches:
    in line mode the reported ranges cover exactly the bytes of the engine's non-empty matches, newlines excluded. *)
Theorem C02_break_newlines : forall c ms,
  Forall (fun m => c_end m <= length c) ms -> disjoint_sorted ms ->
  exists b, break_matches c ms = Ok b /\
    Forall (fun x => piece_ok c x /\ exists m, In m ms /\ in_range (c_off m) (c_end m) x /\ c_fn x = c_fn m) b /\
    disjoint_sorted b /\
    (forall p, covered b p <-> (covered ms p /\ nth_error c p <> Some 10%N)).
Proof. exact break_matches_full. Qed.
Print Assumptions C02_break_newlines.

(** the coverage clause alone needs no order/disjointness: any in-bounds candidate list *)
Theorem C02_break_newlines_cover_any : forall c ms b,
  Forall (fun m => c_end m <= length c) ms -> break_matches c ms = Ok b ->
  forall p, covered b p <-> (covered ms p /\ nth_error c p <> Some 10%N).
Proof. exact break_matches_cover. Qed.
Print Assumptions C02_break_newlines_cover_any.

(** LINE MODE END TO END (model level): gatherMatches followed by fillMatches (= breakMatchesOnNewlines +
    fillContentMatches) on ANY in-bounds candidate list with a content range: succeeds, every LineMatch satisfies the
    C03 invariant [lm_ok], and the reported fragments cover exactly the bytes of the kept content ranges minus newline
    bytes ([frag_covered res p] = p lies in a LineFragment of a LineMatch of res) *)
Theorem C02_line_mode_cover : forall nl c name ctx cands, (0 <= ctx)%Z ->
  Forall (fun m => c_end m <= length c) cands ->
  filter is_content (gather nl cands) <> [] ->
  exists res, fill_matches (newlines_of c) c name ctx (gather nl cands) = Ok res /\
    Forall (lm_ok c ctx) res /\
    (forall p, frag_covered res p <->
               (covered (filter is_content (gather nl cands)) p /\ nth_error c p <> Some 10%N)).
Proof. exact line_mode_cover. Qed.
Print Assumptions C02_line_mode_cover.

(** ... for a single regexp: the fragments cover exactly the bytes of the engine's matches, newline bytes excluded —
    the last clause of the property, with "ms = the engine's matches" (C01) as the hypothesis *)
Theorem C02_regexp_line_mode : forall nl c name ctx ms, (0 <= ctx)%Z ->
  ms <> [] -> engine_matches ms -> Forall (fun m => c_end m <= length c) ms ->
  exists res, fill_matches (newlines_of c) c name ctx (gather nl ms) = Ok res /\
    Forall (lm_ok c ctx) res /\
    (forall p, frag_covered res p <-> (covered ms p /\ nth_error c p <> Some 10%N)).
Proof. exact regexp_line_mode. Qed.
Print Assumptions C02_regexp_line_mode.

(** CHUNK MODE END TO END (model level): gatherMatches followed by fillChunkMatches.  Under the hypothesis of the C03
    chunk theorem (kept content ranges in bounds, on rune boundaries of their lines: [chunk_cand_ok]) the Ranges of the
    reported chunks are, in order, exactly the kept content ranges — byte offsets c_off/c_end with C03's line numbers
    and rune columns ([range_spec]); nothing is split, dropped or added; with C02_regexp_ranges_are_engine_matches: for a
    single regexp the chunk ranges are exactly the engine's matches *)
Theorem C02_chunk_mode_ranges : forall nl c name ctx cands, (0 <= ctx)%Z ->
  filter is_content (gather nl cands) <> [] ->
  Forall (chunk_cand_ok c) (filter is_content (gather nl cands)) ->
  exists res, fill_chunk_matches (newlines_of c) c name ctx (gather nl cands) = Ok res /\
    flat_map cm_ranges res = map (range_spec c) (filter is_content (gather nl cands)) /\
    Forall (fun cm => cm_fn cm = false) res.
Proof. exact chunk_mode_ranges. Qed.
Print Assumptions C02_chunk_mode_ranges.

(** RUNE -> BYTE TRANSLATION, FULL: for every corpus [pre ++ doc :: post] indexed by one builder (the builder's sampling
    in newSearchableString, one sample per runeOffsetFrequency runes of the corpus-global rune index, each document
    decoded on its own), the table compressed by makeRuneOffsetMap, runeOffsetMap.lookup with Go's binary search and the
    repaired findOffset (restart at the document start, read window of utf8.UTFMax*runeOffsetFrequency bytes clipped
    to the document, utf8.DecodeRune loop; file-name variant on the in-memory blob): for EVERY rune offset r inside
    the document (every candidate start is one: a trigram starts there), every byte tail behind the content section and
    valid or invalid UTF-8 alike, findOffset returns the r-th rune boundary of Go's decoding of the document
    (Lib/Utf8.v: [rune_boundaries] = the positions of the loop "DecodeRune, advance by its width"), i.e. the byte
    length of the first r runes.  With the PlainASCII shortcut when the documents are ASCII.
    The frequency and the window factor are the constants regenerated from the source (Generated/RangesConsts.v):
    with the former factor 3 this proof does not go through (and see [C02_find_offset_window3_refuted]). *)
Theorem C02_rune_to_byte : forall (filename : bool) plain pre doc post tail r,
  (plain = true -> forallb (fun b => (b <? 128)%N) doc = true) ->
  r < Utf8.rune_count doc ->
  find_offset_corpus rune_offset_frequency (if filename then @None nat else content_window) plain
    (pre ++ doc :: post) tail (length pre) r
  = Ok (nth r (Utf8.rune_boundaries doc) 0).
Proof. exact find_offset_repo. Qed.
Print Assumptions C02_rune_to_byte.

(** ... which is a rune boundary inside the document: match ranges start where Go's decoder stands *)
Theorem C02_rune_to_byte_is_boundary : forall (filename : bool) plain pre doc post tail r,
  (plain = true -> forallb (fun b => (b <? 128)%N) doc = true) ->
  r < Utf8.rune_count doc ->
  exists b, find_offset_corpus rune_offset_frequency (if filename then @None nat else content_window) plain
              (pre ++ doc :: post) tail (length pre) r = Ok b /\ Utf8.RB doc b /\ b < length doc.
Proof. exact find_offset_repo_boundary. Qed.
Print Assumptions C02_rune_to_byte_is_boundary.

(** link to C03: seen from the start of its line, every offset findOffset produces is a [boundary] of the line's decoding —
    the START half of the hypothesis [cand_bnd] of C03_chunk_matches / C03_column_cache_correct (the END half, start +
    byteMatchSz of a verified match, is C01's matchContent) *)
Theorem C02_match_starts_meet_column_hypothesis : forall (filename : bool) plain pre doc post tail r,
  (plain = true -> forallb (fun b => (b <? 128)%N) doc = true) ->
  r < Utf8.rune_count doc ->
  exists b, find_offset_corpus rune_offset_frequency (if filename then @None nat else content_window) plain
              (pre ++ doc :: post) tail (length pre) r = Ok b /\
    let nls := newlines_of doc in
    boundary (skipn (line_start nls (at_offset nls b)) doc) (b - line_start nls (at_offset nls b)).
Proof. exact find_offset_start_cand_bnd. Qed.
Print Assumptions C02_match_starts_meet_column_hypothesis.

(** table part on its own, for EVERY list of samples (not only those a builder produces) and every compression:
    lookup(makeRuneOffsetMap(samples), k*freq + left) = (samples[k], left), including offsets exactly on
    multiples of the frequency (left = 0) — with Go's binary search. *)
Theorem C02_rune_to_byte_table : forall offs k left,
  k < length offs -> left < rune_offset_frequency ->
  lookup rune_offset_frequency (make_map rune_offset_frequency offs) (k * rune_offset_frequency + left)
  = (nth k offs 0, left).
Proof. intros. apply lookup_make_map; auto. unfold rune_offset_frequency. lia. Qed.
Print Assumptions C02_rune_to_byte_table.

(** the read window of findOffset must hold utf8.UTFMax bytes per rune: with the former factor 3 the
    faithful model returns a wrong offset (76 four-byte runes, then one more rune) — the defect fixed
    by /repo commit 9f2ff25 *)
Definition wide_doc : list N := concat (repeat [240; 159; 152; 128]%N 76) ++ [110; 101]%N.
Theorem C02_find_offset_window3_refuted :
  find_offset_corpus 100 (Some (3 * 100)) false [wide_doc] (repeat 0%N 400) 0 76
  <> Ok (runes_bytes wide_doc 76).
Proof. vm_compute. discriminate. Qed.
Print Assumptions C02_find_offset_window3_refuted.

(** ---- non-vacuity / sanity on concrete inputs *)
Example ex_window_now_ok :
  find_offset_corpus rune_offset_frequency content_window false [wide_doc] (repeat 0%N 400) 0 76
  = Ok (runes_bytes wide_doc 76).
Proof. vm_compute. reflexivity. Qed.

(* a corpus whose first document ends in a truncated lead byte and whose second starts with a
   continuation byte: every rune offset of both documents translates correctly (fix 0521217) *)
Definition ex_docs : list (list N) := [repeat 120%N 100 ++ [201]%N; [169; 32; 110; 101; 101]%N].
Example ex_cross_document :
  forallb (fun r => match find_offset_corpus rune_offset_frequency content_window false ex_docs (repeat 0%N 400) 1 r with
                    | Ok b => b =? runes_bytes (nth 1 ex_docs []) r | _ => false end) (seq 0 6) = true.
Proof. vm_compute. reflexivity. Qed.

(* non-vacuity of C02_rune_to_byte: the hypotheses hold for the second document of ex_docs and r = 0..4 (the stray
   continuation byte 0xA9 is a rune of width 1); wide_doc: 76 four-byte runes, boundaries 0,4,..,304, then 305 *)
Example ex_rune_to_byte_hyps :
  Utf8.rune_count (nth 1 ex_docs []) = 5 /\
  map (fun r => nth r (Utf8.rune_boundaries (nth 1 ex_docs [])) 0) (seq 0 5) = [0; 1; 2; 3; 4] /\
  Utf8.rune_count wide_doc = 78 /\ map (fun r => nth r (Utf8.rune_boundaries wide_doc) 0) [1; 76; 77] = [4; 304; 305].
Proof. vm_compute. repeat split; reflexivity. Qed.

(* the hypothesis r < rune_count doc is needed at one place only: the END of the LAST document when the corpus holds a
   multiple of runeOffsetFrequency runes (no sample exists for that rune index; lookup extrapolates 1 byte per rune).
   Not reachable from Search: findOffset is only called with candidate START offsets (a trigram starts there, so
   r + 3 <= rune count).  100 x U+00E9: findOffset(100) = 100, the boundary is 200. *)
Definition corpus_end_doc : list N := concat (repeat [195; 169]%N 100).
Example ex_corpus_end_outside_domain :
  find_offset_corpus rune_offset_frequency content_window false [corpus_end_doc] (repeat 0%N 400) 0 100 = Ok 100 /\
  nth 100 (Utf8.rune_boundaries corpus_end_doc) 0 = 200 /\ Utf8.rune_count corpus_end_doc = 100.
Proof. vm_compute. repeat split; reflexivity. Qed.

Definition ex_cands : list cand :=
  [ {| c_fn := false; c_off := 4; c_sz := 3 |}; {| c_fn := false; c_off := 2; c_sz := 3 |};
    {| c_fn := true; c_off := 1; c_sz := 2 |}; {| c_fn := false; c_off := 2; c_sz := 5 |};
    {| c_fn := false; c_off := 7; c_sz := 1 |} ].
Example ex_gather : gather 9 ex_cands =
  [ {| c_fn := true; c_off := 1; c_sz := 2 |}; {| c_fn := false; c_off := 2; c_sz := 5 |};
    {| c_fn := false; c_off := 7; c_sz := 1 |} ].
Proof. reflexivity. Qed.

(* "ab\n\ncd" with the candidate [1,6): pieces [1,2) and [4,6) — bytes 1,4,5 covered, the newlines 2,3 not *)
Example ex_break :
  break_matches [97; 98; 10; 10; 99; 100; 101]%N [ {| c_fn := false; c_off := 1; c_sz := 5 |} ]
  = Ok [ {| c_fn := false; c_off := 1; c_sz := 1 |}; {| c_fn := false; c_off := 4; c_sz := 2 |} ].
Proof. reflexivity. Qed.

(* engine matches "b\n\ncd" [1,6) and "e" [6,7) of "ab\n\ncde": fragments [1,2) (line 1), [4,6) and [6,7) (line 3) *)
Example ex_regexp_line_mode :
  let c := [97; 98; 10; 10; 99; 100; 101]%N in
  let ms := [ {| c_fn := false; c_off := 1; c_sz := 5 |}; {| c_fn := false; c_off := 6; c_sz := 1 |} ] in
  engine_matches ms /\
  option_map (map (fun lm => (lm_num lm, map frag_cand (lm_frags lm))))
    (match fill_matches (newlines_of c) c [102]%N 0%Z (gather 1 ms) with Ok r => Some r | _ => None end)
  = Some [ (1%Z, [(1, 1)]); (3%Z, [(4, 2); (6, 1)]) ].
Proof. split; [split; repeat constructor; simpl; lia | vm_compute; reflexivity]. Qed.

(* chunk mode: "ab\ncd", candidates "b" [1,2), "b\nc" [1,4) and "d" [4,5): kept [1,4) and [4,5), both on rune boundaries *)
Example ex_chunk_mode :
  let c := [97; 98; 10; 99; 100]%N in
  let cands := [ {| c_fn := false; c_off := 1; c_sz := 1 |}; {| c_fn := false; c_off := 1; c_sz := 3 |};
                 {| c_fn := false; c_off := 4; c_sz := 1 |} ] in
  filter is_content (gather 1 cands) = [ {| c_fn := false; c_off := 1; c_sz := 3 |}; {| c_fn := false; c_off := 4; c_sz := 1 |} ] /\
  Forall (chunk_cand_ok c) (filter is_content (gather 1 cands)) /\
  option_map (flat_map (fun cm => map (fun r => (l_off (fst r), l_off (snd r))) (cm_ranges cm)))
    (match fill_chunk_matches (newlines_of c) c [102]%N 0%Z (gather 1 cands) with Ok r => Some r | _ => None end)
  = Some [(1, 4); (4, 5)].
Proof.
  cbv zeta. split; [reflexivity|]. split; [|vm_compute; reflexivity].
  assert (B : forall b0 r k k', k' = rune_width b0 r + k -> boundary (skipn (rune_width b0 r - 1) r) k -> boundary (b0 :: r) k')
    by (intros; subst; now constructor).
  repeat constructor; simpl; try lia;
    repeat first [ apply bd_zero | apply (B _ _ 0); [reflexivity|simpl] | apply (B _ _ 1); [reflexivity|simpl] ].
Qed.

(* "aa" in "aaaaa": occurrences at 0,1,2,3; leftmost non-overlapping = 0,2 *)
Example ex_leftmost :
  let p := [97; 97]%N in let c := [97; 97; 97; 97; 97]%N in
  all_occ (mt_exact p) c 0 <> [] /\ map c_off (scan (mt_exact p) c 0 0) = [0; 2] /\
  map c_off (all_occ (mt_exact p) c 0) = [0; 1; 2; 3].
Proof. simpl. repeat split; discriminate || reflexivity. Qed.

Example ex_engine : engine_matches [ {| c_fn := false; c_off := 0; c_sz := 0 |}; {| c_fn := false; c_off := 1; c_sz := 2 |} ].
Proof. split; repeat constructor; simpl; lia. Qed.

Example ex_table : make_map 100 [0; 100; 205; 305; 410] = [(200, 205); (400, 410)].
Proof. reflexivity. Qed.

(* \b\.get\b on "x.get.get": two directly adjacent matches at 1 and 5; \bget\b on "get.get_ get": 0 and 9 ("get_" rejected);
   \ba a\b on "xa a a": the match at 3 overlaps the rejected occurrence at 1 (fix 260937d); \b-foo\b on "-foo a-foo":
   only the second (fix d7a2c44: a text start before a non-word byte is no boundary) *)
Example ex_word_adjacent :
  word_offsets [46; 103; 101; 116]%N [120; 46; 103; 101; 116; 46; 103; 101; 116]%N = [1; 5] /\
  word_offsets [103; 101; 116]%N [103; 101; 116; 46; 103; 101; 116; 95; 32; 103; 101; 116]%N = [0; 9] /\
  word_offsets [97; 32; 97]%N [120; 97; 32; 97; 32; 97]%N = [3] /\
  word_offsets [45; 102; 111; 111]%N [45; 102; 111; 111; 32; 97; 45; 102; 111; 111]%N = [6] /\
  word_scan_skip1 [46; 103; 101; 116]%N [120; 46; 103; 101; 116; 46; 103; 101; 116]%N 0 10 = [1].
Proof. vm_compute. repeat split; reflexivity. Qed.

(* file-name class: \bgo\b in the name "a.go go": 2 and 5; the class table: '_' (95) and 'z' (122) are word bytes, 0xE9 and '-' are not *)
Example ex_word_filename : gather 7 (word_cands true [103; 111]%N [97; 46; 103; 111; 32; 103; 111]%N)
  = [ {| c_fn := true; c_off := 2; c_sz := 2 |}; {| c_fn := true; c_off := 5; c_sz := 2 |} ] /\
  map is_word_byte [95; 122; 233; 45]%N = [true; true; false; false].
Proof. vm_compute. split; reflexivity. Qed.
