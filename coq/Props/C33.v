(** C33 — zoekt-local-sync previews are side-effect free and faithful.  Model: Model/LocalSync.v. *)
From ZV Require Import Lib.Base Model.LocalSync Proofs.LocalSync.

(** Without -f neither sync nor remove performs any file-system mutation, for every world, index state and
    command: no shard removal, no build, and also no MkdirAll of the index directory and no lock file. *)
Theorem C33_dry_no_ops : forall tree w c inv, r_ops (run Dry tree w c inv) = [].
Proof. exact dry_no_ops. Qed.
Print Assumptions C33_dry_no_ops.
