(** C33 — zoekt-local-sync previews are side-effect free and faithful.
    Model: Model/LocalSync.v (runSync, runRemove and everything below them that decides what happens to the
    index directory; every file-system mutation is an [op], every printed line a [line]).
    [run m tree w c inv]: the command [c] (sync over roots / remove with selectors) in mode [m] on the world
    [tree] (directory tree), [w] (what a build of each repository would record) and the index [inv]. *)
From ZV Require Import Lib.Base Model.LocalSync Model.LocalSyncSinks Generated.LocalSyncSinks Proofs.LocalSync Proofs.LocalSyncConv Proofs.LocalSyncMore Proofs.LocalSyncIdem.

(** Without -f neither sync nor remove performs any file-system mutation, for every world, every index state
    (including unreadable shards) and every command: no shard removal, no build, and also no MkdirAll of the
    index directory and no lock file. *)
Theorem C33_dry_no_ops : forall tree w c inv, r_ops (run Dry tree w c inv) = [].
Proof. exact dry_no_ops. Qed.
Print Assumptions C33_dry_no_ops.

(** What the preview announces is exactly what the same command with -f performs on the same state, for sync
    and remove, every world, index and root set / selector list: the shard files of the "Would remove" lines
    are the files removed (same order), the names of the "Would index" lines are the repositories built (same
    order), the repositories reported "Up to date" are the same in both runs, and the preview fails iff the
    forced run fails (same error class). *)
Theorem C33_announce_faithful : forall tree w c inv,
  let d := run Dry tree w c inv in
  let f := run Force tree w c inv in
  announced_removals (r_out d) = performed_removals (r_ops f) /\
  announced_indexing (r_out d) = performed_indexing (r_ops f) /\
  announced_up_to_date (r_out d) = announced_up_to_date (r_out f) /\
  r_status d = r_status f.
Proof. exact announce_faithful. Qed.
Print Assumptions C33_announce_faithful.

(** The same, spelled out for the [remove] sub-command alone (an instance of [C33_announce_faithful]: [run] on
    [CRemove sels] is [run_remove], which looks at neither the directory tree nor the world): the shard files of the
    "Would remove" lines of `zoekt-local-sync remove SEL...` are exactly the files `remove -f SEL...` removes, in the
    same order; neither mode indexes anything; and the preview fails iff the forced run fails, with the same error
    class (unreadable inventory, selector not found, selector ambiguous) — for every index and every selector list. *)
Theorem C33_remove_announce_faithful : forall sels inv,
  let d := run_remove Dry sels inv in
  let f := run_remove Force sels inv in
  r_ops d = [] /\
  announced_removals (r_out d) = performed_removals (r_ops f) /\
  announced_indexing (r_out d) = [] /\ performed_indexing (r_ops f) = [] /\
  r_status d = r_status f.
Proof. exact remove_announce_faithful. Qed.
Print Assumptions C33_remove_announce_faithful.

(** A repository the sync preview reports "Up to date" has its first shard in the index, and the forced run on
    the same state leaves that shard alone (neither pruned nor rebuilt): the index entry read afterwards is the
    one that was there. *)
Theorem C33_up_to_date_untouched : forall tree w roots inv n,
  In n (announced_up_to_date (r_out (run_sync Dry tree w roots inv))) ->
  find_file (n, 0) inv <> None /\
  find_file (n, 0) (apply_ops inv (r_ops (run_sync Force tree w roots inv))) = find_file (n, 0) inv.
Proof. exact up_to_date_untouched. Qed.
Print Assumptions C33_up_to_date_untouched.

(** preview, -f, preview on the same state (sync).  [wf inv]: the index directory looks like zoekt's builders leave
    it (Proofs/LocalSyncConv.v; true of every state reachable by the tool, C34_wf_on_every_history).  The first
    preview leaves the state alone ([inv0 = inv]); if the forced run then succeeds, the second preview announces NO
    removal and NO indexing, reports every discovered repository "Up to date" (its exact output: one such line per
    repository in discovery order, then the closing hint), succeeds — and a second forced run would perform no shard
    operation.  (No hypothesis on the discovered repositories: since fix 94727cf discovery rejects two repositories
    whose sources differ only by a final ".git" component, Proofs/LocalSyncDup.v discover_ok_distinct_sources;
    before it, roots x and x/.git with a nested x/.git/.git made sync -f remove and re-index ".git" forever.) *)
Theorem C33_sync_idempotent : forall tree w roots inv,
  wf inv ->
  let inv0 := apply_ops inv (r_ops (run_sync Dry tree w roots inv)) in
  let f := run_sync Force tree w roots inv0 in
  r_status f = 0%N ->
  let inv' := apply_ops inv0 (r_ops f) in
  let d2 := run_sync Dry tree w roots inv' in
  inv0 = inv /\
  exists specs, discover tree roots = Ok specs /\
  announced_removals (r_out d2) = [] /\ announced_indexing (r_out d2) = [] /\
  announced_up_to_date (r_out d2) = map sp_name specs /\ r_status d2 = 0%N /\
  r_out d2 = map utd_line specs ++ [LPassF] /\
  shard_ops (r_ops (run_sync Force tree w roots inv')) = [].
Proof. exact sync_idempotent_full. Qed.
Print Assumptions C33_sync_idempotent.

(** The same whatever the status of the forced run, as long as discovery and the inventory succeed (the forced run
    may end with E_INDEX because some discovered repository cannot be opened / has no HEAD — it continues with the
    others): the second preview announces no removal and no indexing, reports exactly the indexable repositories
    "Up to date", performs no operation, and ends with the forced run's status (it fails again for the same
    repositories). *)
Theorem C33_sync_idempotent_any_status : forall tree w roots inv specs,
  wf inv -> discover tree roots = Ok specs -> existsb sh_bad inv = false ->
  let f := run_sync Force tree w roots inv in
  let d2 := run_sync Dry tree w roots (apply_ops inv (r_ops f)) in
  announced_removals (r_out d2) = [] /\ announced_indexing (r_out d2) = [] /\
  announced_up_to_date (r_out d2) = map sp_name (filter (indexable w) specs) /\
  r_status d2 = r_status f /\ r_ops d2 = [].
Proof. exact sync_idempotent_any_status_full. Qed.
Print Assumptions C33_sync_idempotent_any_status.

(** remove; remove -f; remove: whatever the second preview still announces (selectors that now match another
    record) is a file that is still in the index and was not among the removals the forced run performed —
    nothing is announced twice. *)
Theorem C33_remove_second_preview : forall sels inv,
  NoDup (map sh_file inv) -> r_status (run_remove Force sels inv) = 0%N ->
  let f := run_remove Force sels inv in
  let inv' := apply_ops inv (r_ops f) in
  forall x, In x (announced_removals (r_out (run_remove Dry sels inv'))) ->
    In x (map sh_file inv') /\ ~ In x (performed_removals (r_ops f)).
Proof. exact remove_second_preview. Qed.
Print Assumptions C33_remove_second_preview.

(** The preview as it was before the repair (fix 06cdaac in /repo: IndexGitRepo(DryRun) evaluated on the
    unpruned index) was NOT faithful: a repository moved from one root to another with an unchanged name is
    announced "Up to date" while the same preview announces the removal of its shard and -f re-indexes it. *)
Theorem C33_announce_faithful_refuted_before_fix : exists tree w roots inv n,
  NoDup (map sh_file inv) /\
  In n (announced_up_to_date (run_sync_dry_prefix tree w roots inv)) /\
  In (n, 0) (announced_removals (run_sync_dry_prefix tree w roots inv)) /\
  In n (performed_indexing (r_ops (run_sync Force tree w roots inv))).
Proof.
  exists moved_tree, moved_world, moved_roots, moved_inv, moved_name.
  exact announce_faithful_refuted_before_fix_w.
Qed.
Print Assumptions C33_announce_faithful_refuted_before_fix.

(** Non-vacuity: on the moved-repository state the repaired preview announces one removal and one indexing and
    the forced run performs exactly those (two shard operations after the lock). *)
Example C33_nonvacuous_sync :
  let d := run Dry moved_tree moved_world (CSync moved_roots) moved_inv in
  let f := run Force moved_tree moved_world (CSync moved_roots) moved_inv in
  announced_removals (r_out d) = [(moved_name, 0)] /\ announced_indexing (r_out d) = [moved_name] /\
  r_ops f = [OpMkdirAll; OpLockFile; OpRemoveShard (moved_name, 0); OpBuild moved_name moved_src_new 7] /\
  r_status f = 0%N.
Proof. vm_compute. repeat split; reflexivity. Qed.

(** Non-vacuity (remove): selecting by name announces and performs the removal of that repository's shard;
    an unknown selector fails in both modes without any removal. *)
Example C33_nonvacuous_remove :
  announced_removals (r_out (run Dry moved_tree moved_world (CRemove [moved_name]) moved_inv)) = [(moved_name, 0)] /\
  performed_removals (r_ops (run Force moved_tree moved_world (CRemove [moved_src_old]) moved_inv)) = [(moved_name, 0)] /\
  r_status (run Dry moved_tree moved_world (CRemove [[120]%N]) moved_inv) = E_NOT_FOUND /\
  shard_ops (r_ops (run Force moved_tree moved_world (CRemove [[120]%N]) moved_inv)) = [].
Proof. vm_compute. repeat split; reflexivity. Qed.

(** Non-vacuity (idempotence): on the moved-repository state all hypotheses of [C33_sync_idempotent] hold; the forced
    run removes one shard and builds one, and the second preview prints one "Up to date" line and the hint. *)
Example C33_nonvacuous_idempotent :
  wf moved_inv /\
  (exists specs, discover moved_tree moved_roots = Ok specs /\ length specs = 1) /\
  r_status (run_sync Force moved_tree moved_world moved_roots moved_inv) = 0%N /\
  r_out (run_sync Dry moved_tree moved_world moved_roots
           (apply_ops moved_inv (r_ops (run_sync Force moved_tree moved_world moved_roots moved_inv))))
    = [LUpToDate moved_name moved_src_new; LPassF].
Proof.
  split; [exact moved_inv_wf|]. split.
  - eexists. split; [vm_compute; reflexivity|reflexivity].
  - vm_compute. split; reflexivity.
Qed.

(** Non-vacuity (idempotence with a failing repository): r1/a can be indexed, r1/b cannot (no HEAD); from the empty
    index the forced run builds "a" and ends with E_INDEX; the second preview reports "a" up to date, announces
    nothing, and ends with E_INDEX again. *)
Example C33_nonvacuous_idempotent_any_status :
  let tree := NDir [ ([114;49]%N, NDir [ ([97]%N, NDir [ (dot_git, NDir []) ]); ([98]%N, NDir [ (dot_git, NDir []) ]) ]) ] in
  let w := [ ([47;114;49;47;97]%N, Some 5%N); ([47;114;49;47;98]%N, None) ] in
  let roots := [ [[114;49]%N] ] in
  let f := run_sync Force tree w roots [] in
  (exists specs, discover tree roots = Ok specs /\ map (indexable w) specs = [true; false]) /\
  r_status f = E_INDEX /\ performed_indexing (r_ops f) = [[97]%N] /\
  r_out (run_sync Dry tree w roots (apply_ops [] (r_ops f))) = [LUpToDate [97]%N [47;114;49;47;97]%N] /\
  r_status (run_sync Dry tree w roots (apply_ops [] (r_ops f))) = E_INDEX.
Proof.
  cbv zeta. split.
  - eexists. split; vm_compute; reflexivity.
  - vm_compute. repeat split; reflexivity.
Qed.

(** Non-vacuity (remove twice): the selector "/r/q" first matches the record NAMED "/r/q" (by name); after its
    removal the same selector matches, by source, the record "z" whose source is /r/q: the second preview announces
    z's shard — still in the index, not removed by the first forced run. *)
Example C33_nonvacuous_remove_second_preview :
  let q := [47;114;47;113]%N in
  let inv := [ mkShard (q, 0) q [47;114;47;97]%N 1 false; mkShard ([122]%N, 0) [122]%N q 2 false ] in
  let f := run_remove Force [q] inv in
  NoDup (map sh_file inv) /\ r_status f = 0%N /\ performed_removals (r_ops f) = [(q, 0)] /\
  announced_removals (r_out (run_remove Dry [q] (apply_ops inv (r_ops f)))) = [([122]%N, 0)].
Proof.
  cbv zeta. split; [repeat constructor; cbn; intuition discriminate|]. vm_compute. repeat split; reflexivity.
Qed.

(** The op alphabet is complete for the checked tree: the file-system-mutating calls of cmd/zoekt-local-sync, the
    calls that reach them with their force/dry-run guards, and indexGitRepo's DryRun gate, regenerated from the
    sources by go/ast on every run (Generated/LocalSyncSinks.v), are exactly those the model was written from
    (Model/LocalSyncSinks.v: MkdirAll + lock file behind `force`, os.Remove behind `!dryRun`, IndexGitRepo with
    DryRun: !force and no building call before the gate). *)
Example C33_sinks_as_modelled :
  ls_sinks = expected_sinks /\ ls_sink_calls = expected_sink_calls /\ ls_gate = expected_gate.
Proof. repeat split; reflexivity. Qed.
