(** C33 — zoekt-local-sync previews are side-effect free and faithful.
    Model: Model/LocalSync.v (runSync, runRemove and everything below them that decides what happens to the
    index directory; every file-system mutation is an [op], every printed line a [line]).
    [run m tree w c inv]: the command [c] (sync over roots / remove with selectors) in mode [m] on the world
    [tree] (directory tree), [w] (what a build of each repository would record) and the index [inv]. *)
From ZV Require Import Lib.Base Model.LocalSync Proofs.LocalSync Proofs.LocalSyncConv Proofs.LocalSyncMore.

(** Without -f neither sync nor remove performs any file-system mutation, for every world, every index state
    (including unreadable shards) and every command: no shard removal, no build, and also no MkdirAll of the
    index directory and no lock file. *)
Theorem C33_dry_no_ops : forall tree w c inv, r_ops (run Dry tree w c inv) = [].
Proof. exact dry_no_ops. Qed.
Print Assumptions C33_dry_no_ops.

(** What the preview announces is exactly what the same command with -f performs on the same state, for sync
    and remove, every world, index and root set / selector list: the shard files of the "Would remove" lines
    are the files removed (same order), the names of the "Would index" lines are the repositories built (same
    order), the repositories reported "Up to date" are the same in both runs, and the preview fails iff the
    forced run fails (same error class). *)
Theorem C33_announce_faithful : forall tree w c inv,
  let d := run Dry tree w c inv in
  let f := run Force tree w c inv in
  announced_removals (r_out d) = performed_removals (r_ops f) /\
  announced_indexing (r_out d) = performed_indexing (r_ops f) /\
  announced_up_to_date (r_out d) = announced_up_to_date (r_out f) /\
  r_status d = r_status f.
Proof. exact announce_faithful. Qed.
Print Assumptions C33_announce_faithful.

(** A repository the sync preview reports "Up to date" has its first shard in the index, and the forced run on
    the same state leaves that shard alone (neither pruned nor rebuilt): the index entry read afterwards is the
    one that was there. *)
Theorem C33_up_to_date_untouched : forall tree w roots inv n,
  In n (announced_up_to_date (r_out (run_sync Dry tree w roots inv))) ->
  find_file (n, 0) inv <> None /\
  find_file (n, 0) (apply_ops inv (r_ops (run_sync Force tree w roots inv))) = find_file (n, 0) inv.
Proof. exact up_to_date_untouched. Qed.
Print Assumptions C33_up_to_date_untouched.

(** The preview as it was before the repair (fix 06cdaac in /repo: IndexGitRepo(DryRun) evaluated on the
    unpruned index) was NOT faithful: a repository moved from one root to another with an unchanged name is
    announced "Up to date" while the same preview announces the removal of its shard and -f re-indexes it. *)
Theorem C33_announce_faithful_refuted_before_fix : exists tree w roots inv n,
  NoDup (map sh_file inv) /\
  In n (announced_up_to_date (run_sync_dry_prefix tree w roots inv)) /\
  In (n, 0) (announced_removals (run_sync_dry_prefix tree w roots inv)) /\
  In n (performed_indexing (r_ops (run_sync Force tree w roots inv))).
Proof.
  exists moved_tree, moved_world, moved_roots, moved_inv, moved_name.
  exact announce_faithful_refuted_before_fix_w.
Qed.
Print Assumptions C33_announce_faithful_refuted_before_fix.

(** Non-vacuity: on the moved-repository state the repaired preview announces one removal and one indexing and
    the forced run performs exactly those (two shard operations after the lock). *)
Example C33_nonvacuous_sync :
  let d := run Dry moved_tree moved_world (CSync moved_roots) moved_inv in
  let f := run Force moved_tree moved_world (CSync moved_roots) moved_inv in
  announced_removals (r_out d) = [(moved_name, 0)] /\ announced_indexing (r_out d) = [moved_name] /\
  r_ops f = [OpMkdirAll; OpLockFile; OpRemoveShard (moved_name, 0); OpBuild moved_name moved_src_new 7] /\
  r_status f = 0%N.
Proof. vm_compute. repeat split; reflexivity. Qed.

(** Non-vacuity (remove): selecting by name announces and performs the removal of that repository's shard;
    an unknown selector fails in both modes without any removal. *)
Example C33_nonvacuous_remove :
  announced_removals (r_out (run Dry moved_tree moved_world (CRemove [moved_name]) moved_inv)) = [(moved_name, 0)] /\
  performed_removals (r_ops (run Force moved_tree moved_world (CRemove [moved_src_old]) moved_inv)) = [(moved_name, 0)] /\
  r_status (run Dry moved_tree moved_world (CRemove [[120]%N]) moved_inv) = E_NOT_FOUND /\
  shard_ops (r_ops (run Force moved_tree moved_world (CRemove [[120]%N]) moved_inv)) = [].
Proof. vm_compute. repeat split; reflexivity. Qed.
