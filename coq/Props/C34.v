(** C34 — zoekt-local-sync makes the index match the discovered repositories.
    Model: Model/LocalSync.v.  [wf inv] (Proofs/LocalSyncConv.v) says the index directory looks like zoekt's
    builders leave it: distinct file names, file "<n>_v16.<k>.zoekt" holds repository <n>, the shards of one
    name come from one build (same source and fingerprint) and are numbered 0..m-1.  The empty index is
    well-formed and every run of the command (either mode, either sub-command, failing or not) keeps it so
    ([C34_wf_on_every_history]); so the convergence theorem applies to every state reachable by the tool. *)
From ZV Require Import Lib.Base Model.LocalSync Proofs.LocalSync Proofs.LocalSyncConv Proofs.LocalSyncMore Proofs.LocalSyncPartial Proofs.LocalSyncDup.
From Coq Require Import Permutation.

(** If discovery fails — two discovered repositories would get the same name (E_DUP_NAME), one repository is
    reached through two roots (E_DUP_SOURCE), or a root is missing / not a directory / repeated (E_ROOT) — the
    command stops before any shard operation, in both modes: the index is unchanged, nothing is printed.
    (With -f the directory lock was taken before: MkdirAll + lock file are the only ops.) *)
Theorem C34_duplicate_fails_before_any_op : forall m tree w roots inv e,
  discover tree roots = Err e ->
  shard_ops (r_ops (run_sync m tree w roots inv)) = [] /\
  apply_ops inv (r_ops (run_sync m tree w roots inv)) = inv /\
  r_out (run_sync m tree w roots inv) = [] /\ r_status (run_sync m tree w roots inv) = e.
Proof. exact discovery_error_no_shard_ops. Qed.
Print Assumptions C34_duplicate_fails_before_any_op.

(** discoverRoot's walk, specified by recursion on the reported relative path [q] ([b] = bare?): a directory that
    is a repository ([repo_kind]: a ".git" directory or regular file, or a name ending in ".git" with an "objects"
    directory) is reported itself and NOTHING below it is (fs.SkipDir); below any other directory exactly the
    reports of its children are reported, each with the child's name in front; files and special files report
    nothing.  The repository's name is then its relative path ([spec_of]: "/"-joined [q], Base(root) for [q] = [],
    ".git" trimmed when bare) and its source is root/[q]. *)
Theorem C34_discover_spec : forall e ch q b,
  In (q, b) (walk e [] (NDir ch)) <->
  match repo_kind e ch with
  | Some b' => q = [] /\ b = b'
  | None => exists nm c q', q = nm :: q' /\ In (nm, c) ch /\ In (q', b) (walk nm [] c)
  end.
Proof. exact walk_spec. Qed.
Print Assumptions C34_discover_spec.

(** The same in closed form, for trees whose directories have distinct entry names ([uniq_names]; true of any real
    directory): the directory at relative path [q] is reported with kind [b] iff it is a repository of that kind
    and no directory strictly above it (from the root down) is a repository — the outermost repository wins,
    nested repositories are never reported. *)
Theorem C34_discover_closed_form : forall q n e b, uniq_names n ->
  In (q, b) (walk e [] n) <->
  kind_at e n q = Some b /\ forall p, proper_prefix p q -> kind_at e n p = None.
Proof. exact walk_closed. Qed.
Print Assumptions C34_discover_closed_form.

(** Discovered names are pairwise distinct whenever discovery succeeds. *)
Theorem C34_discovered_names_distinct : forall tree roots specs,
  discover tree roots = Ok specs -> NoDup (map sp_name specs).
Proof. exact discover_nodup. Qed.
Print Assumptions C34_discovered_names_distinct.

(** The same, said about what the walks report rather than about the result: [raw_discovered tree roots] is the
    concatenation, in argument order, of what discoverRoot reports under each root.  Successful discovery returns all
    of it (a permutation: nothing dropped or merged) and ALL its names and ALL its sources — as planPrune keys them:
    [normalize_source], a final ".git" component dropped, so a working tree and its own git directory are ONE source
    (repair /repo `fix: zoekt-local-sync: a repository and its own .git directory are one source`) — are pairwise distinct:
    two repositories found under the SAME root are compared exactly like two found under different roots (the
    seen-maps are threaded per entry, not per root). *)
Theorem C34_discovered_all_and_distinct : forall tree roots specs,
  discover tree roots = Ok specs ->
  Permutation (raw_discovered tree roots) specs /\
  NoDup (map sp_name (raw_discovered tree roots)) /\
  NoDup (map (fun s => normalize_source (sp_source s)) (raw_discovered tree roots)).
Proof. exact discover_ok_all_distinct. Qed.
Print Assumptions C34_discovered_all_and_distinct.

(** "If two discovered repositories would get the same name the command fails before changing the index", for ANY
    two positions [s1], [s2] of the concatenated reports (inside one root's report or in two roots' reports): discovery
    is an error, and in both modes no shard operation is performed, the index is unchanged, nothing is printed. *)
Theorem C34_any_name_collision_fails_before_any_op : forall tree roots l1 s1 l2 s2 l3,
  raw_discovered tree roots = l1 ++ s1 :: l2 ++ s2 :: l3 ->
  sp_name s1 = sp_name s2 ->
  exists e, discover tree roots = Err e /\ (e = E_DUP_NAME \/ e = E_DUP_SOURCE \/ e = E_ROOT) /\
    forall m w inv,
      shard_ops (r_ops (run_sync m tree w roots inv)) = [] /\
      apply_ops inv (r_ops (run_sync m tree w roots inv)) = inv /\
      r_out (run_sync m tree w roots inv) = [] /\ r_status (run_sync m tree w roots inv) = e.
Proof. exact any_name_collision_fails. Qed.
Print Assumptions C34_any_name_collision_fails_before_any_op.

(** the discovered sources are pairwise distinct under the key planPrune uses (hence as paths too) *)
Theorem C34_discovered_sources_distinct : forall tree roots specs,
  discover tree roots = Ok specs ->
  NoDup (map (fun s => normalize_source (sp_source s)) specs) /\ NoDup (map sp_source specs).
Proof. intros tree roots specs H. split; [exact (discover_ok_distinct_sources _ _ _ H)|exact (discover_ok_distinct_raw_sources _ _ _ H)]. Qed.
Print Assumptions C34_discovered_sources_distinct.

(** One directory reached through two (overlapping) roots, or a working tree and its own git directory: same. *)
Theorem C34_any_source_collision_fails : forall tree roots l1 s1 l2 s2 l3,
  raw_discovered tree roots = l1 ++ s1 :: l2 ++ s2 :: l3 ->
  normalize_source (sp_source s1) = normalize_source (sp_source s2) ->
  exists e, discover tree roots = Err e /\ (e = E_DUP_NAME \/ e = E_DUP_SOURCE \/ e = E_ROOT).
Proof. exact any_source_collision_fails. Qed.
Print Assumptions C34_any_source_collision_fails.

(** The naming rule makes a bare repository "<q>/<x>.git" and a working tree "<q>/<x>" namesakes, whatever the
    roots: ".git" is trimmed from the bare one's relative path. *)
Theorem C34_bare_twin_same_name : forall root root' (q : list str) (x : str),
  sp_name (spec_of root (q ++ [x ++ dot_git], true)) = sp_name (spec_of root' (q ++ [x], false)).
Proof. exact bare_twin_same_name. Qed.
Print Assumptions C34_bare_twin_same_name.

(** Hence: if the walk of ONE root reports a working tree "<q>/<x>" and a bare "<q>/<x>.git" (in either order, at any
    depth [q], whatever else is found and whichever roots come before or after), sync fails before any shard
    operation in both modes. *)
Theorem C34_same_root_twins_fail_before_any_op : forall tree before root after n q x l1 h1 l2 h2 l3,
  lookup tree root = Some n ->
  walk (last root []) [] n = l1 ++ h1 :: l2 ++ h2 :: l3 ->
  (h1 = (q ++ [x], false) /\ h2 = (q ++ [x ++ dot_git], true)) \/
  (h1 = (q ++ [x ++ dot_git], true) /\ h2 = (q ++ [x], false)) ->
  exists e, discover tree (before ++ root :: after) = Err e /\ (e = E_DUP_NAME \/ e = E_DUP_SOURCE \/ e = E_ROOT) /\
    forall m w inv,
      shard_ops (r_ops (run_sync m tree w (before ++ root :: after) inv)) = [] /\
      apply_ops inv (r_ops (run_sync m tree w (before ++ root :: after) inv)) = inv /\
      r_out (run_sync m tree w (before ++ root :: after) inv) = [] /\
      r_status (run_sync m tree w (before ++ root :: after) inv) = e.
Proof. exact same_root_twins_fail. Qed.
Print Assumptions C34_same_root_twins_fail_before_any_op.

(** No discovered repository has the empty name (since the repair `fix: zoekt-local-sync: discovery rejects a
    repository whose name would be empty`, /repo 9bcd963: a root directory called ".git" that is a bare repository —
    "<checkout>/.git" given as a root — used to be discovered as "", which index.NewBuilder rejects, but only with -f and
    only after the checkout's shard had been pruned as "now named \"\""); such a root now makes discovery fail like any
    other bad root: E_ROOT, no shard operation ([C34_duplicate_fails_before_any_op]). *)
Theorem C34_discovered_names_nonempty : forall tree roots specs,
  discover tree roots = Ok specs -> forall s, In s specs -> sp_name s <> [].
Proof. exact discover_ok_named. Qed.
Print Assumptions C34_discovered_names_nonempty.

Example C34_nonvacuous_nameless_root :
  let tree := NDir [ ([114;49]%N, NDir [ ([97]%N, NDir [ (dot_git, NDir [ (objects_s, NDir []) ]) ]) ]) ] in
  discover tree [ [[114;49]%N] ] = Ok [ mkSpec [97]%N [47;114;49;47;97]%N ] /\
  discover tree [ [[114;49]%N]; [[114;49]%N; [97]%N; dot_git] ] = Err E_ROOT /\
  r_ops (run_sync Force tree ex_world [ [[114;49]%N; [97]%N; dot_git] ] ex_inv) = [OpMkdirAll; OpLockFile].
Proof. vm_compute. repeat split; reflexivity. Qed.

(** Convergence: if sync -f succeeds on a well-formed index, then afterwards (a) every discovered repository
    has its first shard, (b) EVERY shard in the index belongs to a discovered repository: it carries that
    repository's name (= its path relative to its root, see [spec_of]), sits in that name's file, points at its
    source, is readable and is up to date (its fingerprint is the one a build of the repository records now) —
    nothing else is left; (c) the index is still well-formed (in particular: one file per (name, number), so
    exactly one repository per name). *)
Theorem C34_converges : forall tree w roots inv,
  wf inv -> r_status (run_sync Force tree w roots inv) = 0%N ->
  exists specs, discover tree roots = Ok specs /\
    let inv' := apply_ops inv (r_ops (run_sync Force tree w roots inv)) in
    wf inv' /\
    (forall s, In s specs -> has_file (sp_name s, 0) inv' = true) /\
    (forall sh, In sh inv' -> exists s, In s specs /\
        sh_repo sh = sp_name s /\ fst (sh_file sh) = sp_name s /\
        normalize_source (sh_source sh) = normalize_source (sp_source s) /\
        fp_of w (sp_source s) = Some (sh_fp sh) /\ sh_bad sh = false).
Proof. exact sync_force_converges. Qed.
Print Assumptions C34_converges.

(** "Exactly one": after a successful sync -f on a well-formed index the repository names in the index (one per
    first shard "<n>_v16.00000.zoekt") are a permutation of the discovered names, and every shard file belongs
    to one of them and holds the repository its file name says. *)
Theorem C34_exactly_one_repository_per_spec : forall tree w roots inv,
  wf inv -> r_status (run_sync Force tree w roots inv) = 0%N ->
  exists specs, discover tree roots = Ok specs /\
    let inv' := apply_ops inv (r_ops (run_sync Force tree w roots inv)) in
    Permutation (map sp_name specs) (map (fun sh => fst (sh_file sh)) (first_shards inv')) /\
    (forall sh, In sh inv' -> In (fst (sh_file sh)) (map sp_name specs) /\ sh_repo sh = fst (sh_file sh)).
Proof. exact sync_force_exactly_one. Qed.
Print Assumptions C34_exactly_one_repository_per_spec.

(** Partial failure: whatever the final status, once discovery and the inventory succeed, sync -f leaves a
    well-formed index in which every shard belongs to a discovered repository (nothing foreign survives) and every
    discovered repository that can be indexed has its first shard and only up-to-date shards — also when
    IndexGitRepo failed for other repositories (status E_INDEX). *)
Theorem C34_converges_despite_index_failures : forall tree w roots inv specs,
  wf inv -> discover tree roots = Ok specs -> existsb sh_bad inv = false ->
  let inv' := apply_ops inv (r_ops (run_sync Force tree w roots inv)) in
  wf inv' /\
  (forall sh, In sh inv' -> exists s, In s specs /\ sh_repo sh = sp_name s /\
       normalize_source (sh_source sh) = normalize_source (sp_source s) /\ sh_bad sh = false) /\
  (forall s fp, In s specs -> fp_of w (sp_source s) = Some fp ->
       has_file (sp_name s, 0) inv' = true /\ forall sh, In sh inv' -> sh_repo sh = sp_name s -> sh_fp sh = fp).
Proof. exact sync_force_partial. Qed.
Print Assumptions C34_converges_despite_index_failures.

(** All histories: starting from the empty index, any sequence of sync / remove runs (preview or forced,
    succeeding or failing, over arbitrary worlds) leaves a well-formed index, so [C34_converges] applies. *)
Theorem C34_wf_on_every_history : forall inv, reachable inv -> wf inv.
Proof. exact reachable_wf. Qed.
Print Assumptions C34_wf_on_every_history.

(** remove -f: if it succeeds, every selector picked exactly one record (the one with that name, or — when no
    record has that name — the one with that non-empty normalised source), and the index afterwards is the
    index before minus exactly the shards of the selected records; the removals performed are those shards'
    files (the .meta sidecar goes with the shard: one op). *)
Theorem C34_remove_exact : forall sels inv,
  NoDup (map sh_file inv) ->
  r_status (run_remove Force sels inv) = 0%N ->
  exists sel,
    Forall2 (fun s k => In k (records inv) /\
       ((fst k = s /\ forall k', In k' (records inv) -> fst k' = s -> k' = k) \/
        ((forall k', In k' (records inv) -> fst k' <> s) /\ snd k <> [] /\ snd k = normalize_source s /\
         forall k', In k' (records inv) -> snd k' = normalize_source s -> k' = k))) sels sel /\
    apply_ops inv (r_ops (run_remove Force sels inv)) = filter (fun sh => negb (selected_by sel sh)) inv /\
    performed_removals (r_ops (run_remove Force sels inv)) = map sh_file (filter (selected_by sel) inv).
Proof.
  intros sels inv Hnd Hst. destruct (remove_force_exact sels inv Hnd Hst) as (sel & Hsel & _ & Hfin & Hperf).
  exists sel. split; [|split; assumption].
  apply select_records_spec in Hsel. clear Hst Hfin Hperf.
  induction Hsel as [|s k sels' sel' H1 _ IH]; constructor; [|exact IH].
  apply select_one_spec. exact H1.
Qed.
Print Assumptions C34_remove_exact.

(** Non-vacuity: a well-formed index with a stale two-shard repository "a" and a foreign repository "z"; the
    world has a work tree r1/a and a bare repository r1/t/b.git.  sync -f succeeds, removes z, rebuilds a (both
    old shards go) and builds "t/b"; the result is exactly the two discovered repositories. *)
Example C34_nonvacuous :
  wf ex_inv /\
  discover ex_tree ex_roots = Ok [ mkSpec [97]%N ex_src_a; mkSpec [116;47;98]%N ex_src_b ] /\
  r_status (run_sync Force ex_tree ex_world ex_roots ex_inv) = 0%N /\
  apply_ops ex_inv (r_ops (run_sync Force ex_tree ex_world ex_roots ex_inv)) =
    [ mkShard ([97]%N, 0) [97]%N ex_src_a 5 false; mkShard ([116;47;98]%N, 0) [116;47;98]%N ex_src_b 6 false ].
Proof. split; [exact ex_inv_wf|]. vm_compute. repeat split; reflexivity. Qed.

(** Non-vacuity (fail before change): the same name under two roots. *)
Example C34_nonvacuous_duplicate :
  let tree := NDir [ ([114;49]%N, NDir [ ([97]%N, NDir [ (dot_git, NDir []) ]) ]);
                     ([114;50]%N, NDir [ ([97]%N, NDir [ (dot_git, NFile) ]) ]) ] in
  discover tree [ [[114;49]%N]; [[114;50]%N] ] = Err E_DUP_NAME /\
  r_ops (run_sync Force tree ex_world [ [[114;49]%N]; [[114;50]%N] ] ex_inv) = [OpMkdirAll; OpLockFile].
Proof. vm_compute. split; reflexivity. Qed.

(** Non-vacuity (collision INSIDE one root): r1/team/proj (working tree) next to r1/team/proj.git (bare), plus an
    unrelated r1/solo; a second, clean root r2.  Both are reported by the walk of r1, both are named "team/proj":
    E_DUP_NAME and only the lock ops; the near-misses proj.git.git (named "team/proj.git") and proj2 are accepted. *)
Definition ex_proj : str := [112;114;111;106]%N.            (* "proj" *)
Definition ex_team : str := [116;101;97;109]%N.             (* "team" *)
Definition ex_twin_tree (second : str) : node :=
  NDir [ ([114;49]%N, NDir [ ([115;111;108;111]%N, NDir [ (dot_git, NDir []) ]);
                             (ex_team, NDir [ (ex_proj, NDir [ (dot_git, NDir []) ]);
                                              (second, NDir [ (objects_s, NDir []) ]) ]) ]);
         ([114;50]%N, NDir [ ([122]%N, NDir [ (dot_git, NFile) ]) ]) ].
Example C34_nonvacuous_duplicate_same_root :
  let tree := ex_twin_tree (ex_proj ++ dot_git) in
  let roots := [ [[114;49]%N]; [[114;50]%N] ] in
  map sp_name (raw_discovered tree roots) =
    [ [115;111;108;111]%N; ex_team ++ [47]%N ++ ex_proj; ex_team ++ [47]%N ++ ex_proj; [122]%N ] /\
  discover tree roots = Err E_DUP_NAME /\
  discover tree [ [[114;49]%N] ] = Err E_DUP_NAME /\
  r_ops (run_sync Force tree ex_world roots ex_inv) = [OpMkdirAll; OpLockFile] /\
  (exists specs, discover (ex_twin_tree (ex_proj ++ dot_git ++ dot_git)) roots = Ok specs /\ length specs = 4) /\
  (exists specs, discover (ex_twin_tree (ex_proj ++ [50]%N ++ dot_git)) roots = Ok specs /\ length specs = 4).
Proof. vm_compute. repeat split; try reflexivity; eexists; split; reflexivity. Qed.

(** Non-vacuity (one source, two roots): r1/a is a working tree whose git directory r1/a/.git is itself a working
    tree (it contains a .git entry); roots r1 and r1/a/.git report "a" <- /r1/a and ".git" <- /r1/a/.git, which planPrune
    keys alike (/r1/a): E_DUP_SOURCE, only the lock ops.  (Before the repair both were accepted and every run pruned
    and rebuilt the shard of ".git": `sync -f` never converged.) *)
Example C34_nonvacuous_git_dir_is_same_source :
  let tree := NDir [ ([114;49]%N, NDir [ ([97]%N, NDir [ (dot_git, NDir [ (dot_git, NDir []); (objects_s, NDir []) ]) ]) ]) ] in
  let roots := [ [[114;49]%N]; [[114;49]%N; [97]%N; dot_git] ] in
  map sp_source (raw_discovered tree roots) = [ [47;114;49;47;97]%N; [47;114;49;47;97;47;46;103;105;116]%N ] /\
  map (fun s => normalize_source (sp_source s)) (raw_discovered tree roots) = [ [47;114;49;47;97]%N; [47;114;49;47;97]%N ] /\
  discover tree roots = Err E_DUP_SOURCE /\
  r_ops (run_sync Force tree ex_world roots ex_inv) = [OpMkdirAll; OpLockFile].
Proof. vm_compute. repeat split; reflexivity. Qed.

(** Non-vacuity (remove): selecting "a" by name removes both of its shards and nothing else. *)
Example C34_nonvacuous_remove :
  r_status (run_remove Force [[97]%N] ex_inv) = 0%N /\
  apply_ops ex_inv (r_ops (run_remove Force [[97]%N] ex_inv)) = [ mkShard ([122]%N, 0) [122]%N [47;120]%N 9 false ].
Proof. vm_compute. split; reflexivity. Qed.
