(** C12 — placeholder while the pipeline is brought up *)
From ZV Require Import Lib.Base Model.FsOps Model.FinishOps.
