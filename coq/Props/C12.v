(** C12 — A killed indexer leaves the old or the new index, never a mix.
    Model: Model/FsOps.v (index directory, loader's view) + Model/FinishOps.v (the file-system program of one build:
    temp files, Finish's rename loop in ANY order, the toDelete loop in ANY order, SetTombstone, failures of
    individual operations, Finish's result).  Proofs: Proofs/FinishOps.v.

    A run is  w ++ finish_ops b ro dl rf df tf :
      w   phase W, ANY list of operations on temp names (parallel shard builders, partial/failed writes, clean-up);
      ro  the order in which the rename loop visits the artifact map (a permutation of [artifacts b]);
      dl  the order in which the delete loop visits toDelete (a permutation of [todel_after b ro rf]);
      rf/df/tf  which renames / removals / steps of SetTombstone fail.
    A crash (kill -9) after k operations leaves  apply_ops (firstn k run) (fs0 b);  [visible] is what a searcher
    loading the directory sees.  [ff_run] = fault-free run whose phase W produced every temp file completely;
    [f_run] = the same with failing renames [rf] (the delete loop then visits what is left in toDelete).
    [finish_ops] = the current code: when a rename failed the toDelete loop is skipped (repair of this round);
    [finish_ops_before_fix] = without that skip. *)
From ZV Require Import Lib.Base Model.FsOps Model.FinishOps Proofs.FinishOps Proofs.FinishFaults Proofs.FinishOrphan Generated.FinishSites.
From Coq Require Import Permutation.

(** (1) Everything written before the rename loop is invisible: whatever phase W does (including partial writes and
    failures) and wherever it is killed, a searcher sees exactly the old index — in particular never a truncated shard. *)
Theorem C12_kill_while_writing_shows_old : forall b w rest k,
  forallb tmp_only w = true -> k <= length w ->
  view_eq (visible (apply_ops (firstn k (w ++ rest)) (fs0 b))) (view_old b).
Proof. exact before_install_old. Qed.
Print Assumptions C12_kill_while_writing_shows_old.

(** (2) Single-artifact installs (one new shard replacing at most one old shard without sidecar, non-delta) are atomic:
    at EVERY crash point the view is the old or the new index. *)
Theorem C12_atomic_single : forall b w ro dl k,
  single_artifact b -> ff_run b w ro dl ->
  view_eq (visible (state_at b w ro dl k)) (view_old b) \/ view_eq (visible (state_at b w ro dl k)) (view_new b).
Proof. exact atomic_single. Qed.
Print Assumptions C12_atomic_single.

(** (3) Every build (any number of old/new shards, delta sidecars, compound shard), every rename/delete order, every
    crash point: no file under a name the loader reads is ever partially written ... *)
Theorem C12_no_truncated_visible : forall b w ro dl k x,
  ff_run b w ro dl -> is_tmp x = false -> state_at b w ro dl k x <> Some Partial.
Proof. exact no_partial_any. Qed.
Print Assumptions C12_no_truncated_visible.

(** ... and a repository that was indexed before is never missing: its shard 0 exists or it is still alive in its
    compound shard. *)
Theorem C12_repo_never_missing : forall b w ro dl k,
  build_wf b -> ff_run b w ro dl -> (0 < b_nold b \/ b_comp b = true) -> served (state_at b w ro dl k).
Proof. exact never_missing_any. Qed.
Print Assumptions C12_repo_never_missing.

(** (3') The same two facts for prefixes of runs WITH failing operations: every build, every order, EVERY combination of
    failing renames / removals / SetTombstone steps (not just a single fault), every crash prefix [k] of the faulty run.
    No partially written file is visible (with or without the skip of the delete loop) ... *)
Theorem C12_no_truncated_visible_under_faults : forall skip b w ro dl rf df tf k x,
  f_run b w ro dl rf -> is_tmp x = false -> fstate_at skip b w ro dl rf df tf k x <> Some Partial.
Proof. exact no_partial_faults. Qed.
Print Assumptions C12_no_truncated_visible_under_faults.

(** ... and (current code: a failed rename makes Finish return before the toDelete loop) the repository is never missing. *)
Theorem C12_repo_never_missing_under_faults : forall b w ro dl rf df tf k,
  build_wf b -> f_run b w ro dl rf -> (0 < b_nold b \/ b_comp b = true) ->
  served (fstate_at true b w ro dl rf df tf k).
Proof. exact never_missing_faults. Qed.
Print Assumptions C12_repo_never_missing_under_faults.

(** Before the repair (no skip) this was FALSE: one old shard, rebuilt as one shard, the rename of the new shard fails;
    `continue` leaves the old shard's name in toDelete, the delete loop removes it: the repository is gone (Finish
    reports the error, but nothing serves the repository until the next successful run). *)
Theorem C12_repo_never_missing_under_faults_before_fix_refuted : exists b w ro dl rf df tf k,
  build_wf b /\ f_run b w ro dl rf /\ (0 < b_nold b \/ b_comp b = true) /\
  ~ served (fstate_at false b w ro dl rf df tf k).
Proof.
  exists (mkBuild false 1 [] 1 false false false), (write_phase (mkBuild false 1 [] 1 false false false)),
         [Shard (SReg 0)], [Shard (SReg 0)], (fun x => name_eqb x (Shard (SReg 0))), nofault, TNone, 6.
  split; [split; intro; cbn; (lia || discriminate)|]. split; [|split; [left; cbn; lia|]].
  - constructor; [reflexivity | | apply Permutation_refl | apply Permutation_refl].
    intros a [<-|[]]. reflexivity.
  - intros [Hs|[Hs _]]; apply Hs; vm_compute; reflexivity.
Qed.
Print Assumptions C12_repo_never_missing_under_faults_before_fix_refuted.

(** the same with the repository in a compound shard (ShardMerging): rename fails, SetTombstone succeeds *)
Theorem C12_repo_never_missing_under_faults_before_fix_refuted_compound : exists b w ro dl rf df tf k,
  build_wf b /\ f_run b w ro dl rf /\ b_comp b = true /\
  ~ served (fstate_at false b w ro dl rf df tf k).
Proof.
  exists (mkBuild false 0 [] 1 true false true), (write_phase (mkBuild false 0 [] 1 true false true)),
         [Shard (SReg 0)], [Shard SComp], (fun x => name_eqb x (Shard (SReg 0))), nofault, TNone, 8.
  split; [split; intro; cbn; (lia || discriminate)|]. split; [|split; [reflexivity|]].
  - constructor; [reflexivity | | apply Permutation_refl | apply Permutation_refl].
    intros a [<-|[]]. reflexivity.
  - intros [Hs|[_ Hs]]; apply Hs; vm_compute; reflexivity.
Qed.
Print Assumptions C12_repo_never_missing_under_faults_before_fix_refuted_compound.

(** the fault-free theorems (3) are the instance rf = df = nofault, tf = TNone *)
Lemma C12_fault_free_is_an_instance : forall skip b w ro dl k,
  ff_run b w ro dl -> f_run b w ro dl nofault /\ fstate_at skip b w ro dl nofault nofault TNone k = state_at b w ro dl k.
Proof.
  intros skip b w ro dl k H. split; [apply ff_run_f_run; exact H|].
  unfold fstate_at, state_at. rewrite frun_ops_ff. reflexivity.
Qed.

(** (4) Deletions come after renames: in every run (any faults) each removal / tombstoning of an old file happens
    after every install rename. *)
Theorem C12_deletes_after_renames : forall b ro dl rf df tf i j o1 o2,
  (forall a, In a ro -> In a (artifacts b)) ->
  nth_error (finish_ops b ro dl rf df tf) i = Some o1 -> is_removal o1 = true ->
  nth_error (finish_ops b ro dl rf df tf) j = Some o2 -> is_install_rename o2 = true ->
  j < i.
Proof. exact deletes_after_renames. Qed.
Print Assumptions C12_deletes_after_renames.

(** (4') With the orphan removal phase in front: the only removals that precede an install rename are those of the orphan
    phase itself (sidecars without shard, which no loader reads). *)
Theorem C12_deletes_after_renames_with_orphans : forall b po pf ro dl rf df tf i j o1 o2,
  (forall a, In a ro -> In a (artifacts b)) ->
  nth_error (finish_ops_o b po pf ro dl rf df tf) i = Some o1 -> is_removal o1 = true ->
  nth_error (finish_ops_o b po pf ro dl rf df tf) j = Some o2 -> is_install_rename o2 = true ->
  j < i \/ In o1 (orphan_ops po pf).
Proof. exact deletes_after_renames_orphans. Qed.
Print Assumptions C12_deletes_after_renames_with_orphans.

(** (5) A mix can only be observed strictly inside the install window: killed at or before the first rename the view
    is the old index, after the last operation it is the new one. *)
Theorem C12_mix_only_inside_install_window : forall b w ro dl k,
  build_wf b -> ff_run b w ro dl ->
  (k <= length w -> view_eq (visible (state_at b w ro dl k)) (view_old b)) /\
  (length (run_ops b w ro dl) <= k -> view_eq (visible (state_at b w ro dl k)) (view_new b)).
Proof.
  intros b w ro dl k Hwf H. split; intro Hk.
  - unfold state_at, run_ops. apply before_install_old; [apply (ff_w _ _ _ _ H) | exact Hk].
  - unfold state_at. rewrite firstn_all2 by exact Hk. apply complete_run_new; assumption.
Qed.
Print Assumptions C12_mix_only_inside_install_window.

(** (6) A run that reports success has installed the complete new index — for every build, every order and EVERY
    combination of failing renames / removals / SetTombstone steps (current code: `if err != nil { b.buildError = err }`). *)
Theorem C12_success_complete : forall b w ro dl rf df tf,
  build_wf b -> forallb tmp_only w = true -> tmps_ready b (apply_ops w (fs0 b)) ->
  Permutation ro (artifacts b) -> Permutation dl (todel_after b ro rf) ->
  finish_err b ro dl rf df tf = false ->
  view_eq (visible (apply_ops (w ++ finish_ops b ro dl rf df tf) (fs0 b))) (view_new b).
Proof. exact success_complete. Qed.
Print Assumptions C12_success_complete.

(** ... which was false before the repair d380a28 (`b.buildError = err` after SetTombstone overwrote an earlier error):
    repository alive in a compound shard, the rename of its new shard fails, SetTombstone succeeds => success reported,
    the repository is tombstoned and its new shard is missing. *)
Theorem C12_success_complete_before_fix_refuted : exists b w ro dl rf df tf,
  build_wf b /\ forallb tmp_only w = true /\ tmps_ready b (apply_ops w (fs0 b)) /\
  Permutation ro (artifacts b) /\ Permutation dl (todel_after b ro rf) /\
  finish_err_before_fix b ro dl rf df tf = false /\
  ~ view_eq (visible (apply_ops (w ++ finish_ops_before_fix b ro dl rf df tf) (fs0 b))) (view_new b).
Proof.
  exists (mkBuild false 0 [] 1 true false true), (write_phase (mkBuild false 0 [] 1 true false true)),
         [Shard (SReg 0)], [Shard SComp], (fun x => name_eqb x (Shard (SReg 0))), nofault, TNone.
  repeat split.
  - intro. cbn. lia.
  - intro H. discriminate.
  - intros a [<-|[]]. reflexivity.
  - apply Permutation_refl.
  - apply Permutation_refl.
  - intro H. specialize (H (SReg 0)). vm_compute in H. discriminate.
Qed.
Print Assumptions C12_success_complete_before_fix_refuted.

(** (6') Orphan sidecars.  A run killed between removing a shard and removing its ".meta" (the toDelete loop visits a map;
    zoekt-merge-index and the indexserver's cleanup remove shard and sidecar one after the other too) leaves a sidecar
    WITHOUT shard.  Nothing reads it — but a later build that writes a shard under that name had it adopted for good: the
    run reported success and its new shard was served through the stale sidecar (file tombstones hiding new documents,
    old branch versions).  [fs0o b orph] = the directory with such sidecars at the slots [orph].  Before the repair
    (`fix: Builder.Finish removes a left-over .meta ...`): *)
Theorem C12_orphan_sidecar_adopted_before_fix_refuted : exists b orph w ro dl,
  build_wf b /\ forallb tmp_only w = true /\ tmps_ready b (apply_ops w (fs0 b)) /\
  Permutation ro (artifacts b) /\ Permutation dl (todel_after b ro nofault) /\
  finish_err b ro dl nofault nofault TNone = false /\
  view_eq (visible (fs0o b orph)) (view_old b) /\
  ~ view_eq (visible (apply_ops (w ++ finish_ops_o_before_fix b ro dl nofault nofault TNone) (fs0o b orph))) (view_new b).
Proof.
  exists (mkBuild false 1 [] 2 false false false), [1], (write_phase (mkBuild false 1 [] 2 false false false)),
         [Shard (SReg 0); Shard (SReg 1)], [].
  repeat split.
  - intro. cbn. lia.
  - intro H. discriminate.
  - intros a Ha. cbn in Ha. repeat (destruct Ha as [<-|Ha]; [reflexivity|]). contradiction.
  - apply Permutation_refl.
  - apply Permutation_refl.
  - apply visible_fs0o.
  - intro H. specialize (H (SReg 1)). vm_compute in H. discriminate.
Qed.
Print Assumptions C12_orphan_sidecar_adopted_before_fix_refuted.

(** Current code: before the rename loop Finish removes the sidecar at every new shard's name where no shard exists
    ([orphan_ops po pf]: in any order [po], removals may fail [pf]).  A kill anywhere up to the end of that phase (any
    failures) still shows the old index ... *)
Theorem C12_orphan_removal_invisible : forall b orph w po pf rest k,
  forallb tmp_only w = true -> (forall n, In n po -> b_nold b <= n) -> k <= length w + length po ->
  view_eq (visible (apply_ops (firstn k (w ++ orphan_ops po pf ++ rest)) (fs0o b orph))) (view_old b).
Proof. exact orphan_prefix_old. Qed.
Print Assumptions C12_orphan_removal_invisible.

(** ... and from the end of that phase on, every crash state of the run is pointwise the crash state of the same run
    started in the directory WITHOUT orphans — so (3)-(7), stated for [fs0 b], hold for directories with orphan sidecars
    at new shards' names (orphans elsewhere are never read and never touched) ... *)
Theorem C12_orphan_run_transfer : forall b orph w po rest k,
  forallb tmp_only w = true -> (forall n, In n po -> b_nold b <= n) -> (forall n, In n orph -> b_nold b <= n -> In n po) ->
  length w + length po <= k ->
  forall x, apply_ops (firstn k (w ++ orphan_ops po nofaultn ++ rest)) (fs0o b orph) x =
            apply_ops (firstn (k - length po) (w ++ rest)) (fs0 b) x.
Proof. exact orphan_transfer. Qed.
Print Assumptions C12_orphan_run_transfer.

(** ... in particular: success reported => the complete new index, under every fault combination, with orphans *)
Theorem C12_success_complete_with_orphans : forall b orph w po pf ro dl rf df tf,
  build_wf b -> forallb tmp_only w = true -> tmps_ready b (apply_ops w (fs0 b)) -> po_ok b orph po ->
  Permutation ro (artifacts b) -> Permutation dl (todel_after b ro rf) ->
  finish_err_o b po pf ro dl rf df tf = false ->
  view_eq (visible (apply_ops (w ++ finish_ops_o b po pf ro dl rf df tf) (fs0o b orph))) (view_new b).
Proof. exact success_complete_orphans. Qed.
Print Assumptions C12_success_complete_with_orphans.

(** (7) The full statement "at every crash point old or new" is FALSE as soon as a build installs more than one
    artifact — inherent in renaming N files one by one (known finding, keyed by the rename-loop window). *)
Definition atomic_everywhere (b : build) : Prop := forall w ro dl k,
  ff_run b w ro dl ->
  view_eq (visible (state_at b w ro dl k)) (view_old b) \/ view_eq (visible (state_at b w ro dl k)) (view_new b).

(** two shards rebuilt as two shards, killed after the first rename: new shard 0 next to old shard 1 *)
Theorem C12_atomic_multi_refuted : exists b, build_wf b /\ ~ atomic_everywhere b.
Proof.
  exists (mkBuild false 2 [] 2 false false false). split; [split; intro; cbn; (lia || discriminate)|].
  intro Hat. specialize (Hat (write_phase (mkBuild false 2 [] 2 false false false)) [Shard (SReg 0); Shard (SReg 1)] [] 9).
  destruct Hat as [Hv|Hv].
  - constructor; [reflexivity | | apply Permutation_refl | apply Permutation_refl].
    intros a Ha. cbn in Ha. repeat (destruct Ha as [<-|Ha]; [reflexivity|]). contradiction.
  - specialize (Hv (SReg 0)). vm_compute in Hv. discriminate.
  - specialize (Hv (SReg 1)). vm_compute in Hv. discriminate.
Qed.
Print Assumptions C12_atomic_multi_refuted.

(** delta build over one shard, killed between the rename of the new shard and the rename of the old shard's sidecar:
    the changed file is visible in both versions *)
Theorem C12_atomic_delta_refuted : exists b, build_wf b /\ b_delta b = true /\ ~ atomic_everywhere b.
Proof.
  assert (H : exists b, build_wf b /\ ~ atomic_everywhere b /\ b_delta b = true).
  { cut (exists b, (build_wf b /\ ~ atomic_everywhere b) /\ b_delta b = true); [intros (b & (A & B) & C); eauto|].
    exists (mkBuild true 1 [] 1 false false false). split; [|reflexivity].
    split; [split; intro; cbn; (lia || discriminate)|].
    intro Hat. specialize (Hat (write_phase (mkBuild true 1 [] 1 false false false)) [Shard (SReg 1); Meta (SReg 0)] [] 8).
    destruct Hat as [Hv|Hv].
    - constructor; [reflexivity | | apply Permutation_refl | apply Permutation_refl].
      intros a Ha. cbn in Ha. repeat (destruct Ha as [<-|Ha]; [reflexivity|]). contradiction.
    - specialize (Hv (SReg 1)). vm_compute in Hv. discriminate.
    - specialize (Hv (SReg 0)). vm_compute in Hv. discriminate. }
  destruct H as (b & A & B & C). exists b. auto.
Qed.
Print Assumptions C12_atomic_delta_refuted.

(** ONE new shard over ONE old shard that carries a sidecar (left by a delta build or a metadata update): killed after
    the rename and before the stale sidecar is removed, the NEW shard is read through the OLD sidecar (stale file
    tombstones and branch versions) — the delete-loop window. *)
Theorem C12_atomic_stale_sidecar_refuted : exists b, build_wf b /\ b_nnew b = 1 /\ b_nold b = 1 /\ ~ atomic_everywhere b.
Proof.
  exists (mkBuild false 1 [0] 1 false false false). split; [split; intro; cbn; (lia || discriminate)|]. split; [reflexivity|]. split; [reflexivity|].
  intro Hat. specialize (Hat (write_phase (mkBuild false 1 [0] 1 false false false)) [Shard (SReg 0)] [Meta (SReg 0)] 5).
  destruct Hat as [Hv|Hv].
  - constructor; [reflexivity | | apply Permutation_refl | apply Permutation_refl].
    intros a Ha. cbn in Ha. repeat (destruct Ha as [<-|Ha]; [reflexivity|]). contradiction.
  - specialize (Hv (SReg 0)). vm_compute in Hv. discriminate.
  - specialize (Hv (SReg 0)). vm_compute in Hv. discriminate.
Qed.
Print Assumptions C12_atomic_stale_sidecar_refuted.

(** (7') Would a different treatment of the stale sidecar shrink that window?  NO.  Variant A removes the stale sidecar
    of every name about to be overwritten BEFORE the rename loop: killed between that removal and the rename, the OLD
    shard is served WITHOUT its sidecar (file tombstones / branch versions of later delta builds and metadata updates
    are lost: superseded documents reappear) — one mixed crash point instead of one mixed crash point.  Variant B
    installs a fresh sidecar with every new shard: two renames per shard, i.e. the rename-loop window of (7) in either
    order.  (Variants are defined in Proofs/FinishFaults.v; neither is what /repo does.) *)
Theorem C12_variant_sidecars_first_refuted :
  let b := mkBuild false 1 [0] 1 false false false in
  exists k, let f := apply_ops (firstn k (variant_a_ops b (write_phase b) [Shard (SReg 0)] [Meta (SReg 0)])) (fs0 b) in
    ~ view_eq (visible f) (view_old b) /\ ~ view_eq (visible f) (view_new b).
Proof.
  cbv zeta. exists 5. split; intro Hv; specialize (Hv (SReg 0)); vm_compute in Hv; discriminate.
Qed.
Print Assumptions C12_variant_sidecars_first_refuted.

Theorem C12_variant_fresh_sidecars_refuted :
  let b := mkBuild false 1 [0] 1 false false false in
  exists k, let f := apply_ops (firstn k (variant_b_ops b (write_phase b) [Shard (SReg 0)] [Meta (SReg 0)])) (fs0 b) in
    ~ view_eq (visible f) (view_old b) /\ ~ view_eq (visible f) (view_new b).
Proof.
  cbv zeta. exists 8. split; intro Hv; specialize (Hv (SReg 0)); vm_compute in Hv; discriminate.
Qed.
Print Assumptions C12_variant_fresh_sidecars_refuted.

(** and in each variant the number of crash points whose view is neither the old index nor the program's own final
    state is not smaller than in the current program (single shard with a stale sidecar: exactly one in all three) *)
Definition mixedb (b : build) (ops : list xop) (f : fs) : bool :=
  negb (rows_eqb (view_codes (view_bound b) f) (view_codes (view_bound b) (fs0 b))) &&
  negb (rows_eqb (view_codes (view_bound b) f) (view_codes (view_bound b) (apply_ops ops (fs0 b)))).
Definition mixed_points (b : build) (ops : list xop) : nat :=
  length (filter (fun k => mixedb b ops (apply_ops (firstn k ops) (fs0 b))) (seq 0 (S (length ops)))).
Example C12_variants_do_not_shrink_the_window :
  let b1 := mkBuild false 1 [0] 1 false false false in      (* 1 shard with stale sidecar -> 1 shard *)
  let b2 := mkBuild false 2 [0; 1] 2 false false false in   (* 2 shards with stale sidecars -> 2 shards *)
  let cur b := run_ops b (write_phase b) (artifacts b) (todel_after b (artifacts b) nofault) in
  let va b := variant_a_ops b (write_phase b) (artifacts b) (todel_after b (artifacts b) nofault) in
  let vb b := variant_b_ops b (write_phase b) (artifacts b) (todel_after b (artifacts b) nofault) in
  (mixed_points b1 (cur b1), mixed_points b1 (va b1), mixed_points b1 (vb b1)) = (1, 1, 1) /\
  (mixed_points b2 (cur b2), mixed_points b2 (va b2), mixed_points b2 (vb b2)) = (3, 3, 3).
Proof. cbv zeta. split; vm_compute; reflexivity. Qed.

(** (8) Tie to the source: the order of the file-system call sites (and of the guarded assignments to b.buildError) that
    translator/finishops extracts from index/builder.go and index/tombstones.go is the one the model encodes.
    Moving the delete loop before the rename loop, adding a mutation, or dropping the error guard breaks this. *)
Theorem C12_finish_sites_match_model : finish_sites = expected_sites.
Proof. vm_compute. reflexivity. Qed.
Print Assumptions C12_finish_sites_match_model.

(** (9) The hypotheses of the prefix theorems are satisfiable for EVERY build: the sequential program (Parallelism = 1:
    writeShard per new shard, then one JsonMarshalRepoMetaTemp per old shard for delta builds), renames and deletes in
    list order, is a fault-free run. *)
Theorem C12_sequential_build_is_a_run : forall b,
  ff_run b (write_phase b) (artifacts b) (todel_after b (artifacts b) nofault).
Proof. exact sequential_build_is_ff_run. Qed.
Print Assumptions C12_sequential_build_is_a_run.

(** ---- non-vacuity: concrete fault-free runs satisfying the hypotheses *)
Ltac perm_conc :=
  vm_compute; apply NoDup_Permutation;
  [ repeat constructor; cbn; intuition discriminate
  | repeat constructor; cbn; intuition discriminate
  | intro x; cbn; intuition ].
Ltac ready_conc := let a := fresh "a" in let Ha := fresh "Ha" in
  intros a Ha; cbn in Ha; repeat (destruct Ha as [<-|Ha]; [reflexivity|]); contradiction.

Example C12_nonvacuous_full_over_delta :   (* 3 old shards, two with sidecars, rebuilt as 2 shards; renames and deletes in "random" order *)
  let b := mkBuild false 3 [0; 2] 2 false false false in
  build_wf b /\
  ff_run b (write_phase b) [Shard (SReg 1); Shard (SReg 0)] [Meta (SReg 2); Shard (SReg 2); Meta (SReg 0)] /\
  view_codes 5 (state_at b (write_phase b) [Shard (SReg 1); Shard (SReg 0)] [Meta (SReg 2); Shard (SReg 2); Meta (SReg 0)] 11)
    = [(1, 2, 1); (2, 2, 0); (3, 1, 0)]%N   (* renames done, one stale file removed: new 0 under OLD sidecar, new 1, old 2 *) /\
  view_codes 5 (apply_ops (run_ops b (write_phase b) [Shard (SReg 1); Shard (SReg 0)] [Meta (SReg 2); Shard (SReg 2); Meta (SReg 0)]) (fs0 b))
    = [(1, 2, 0); (2, 2, 0)]%N.
Proof.
  cbv zeta. split; [split; intro; cbn; (lia || discriminate)|]. split; [|split; vm_compute; reflexivity].
  constructor; [reflexivity | ready_conc | perm_conc | perm_conc].
Qed.

Example C12_nonvacuous_delta :
  let b := mkBuild true 2 [1] 1 false false false in
  build_wf b /\ ff_run b (write_phase b) [Meta (SReg 1); Shard (SReg 2); Meta (SReg 0)] [] /\
  view_codes 4 (apply_ops (run_ops b (write_phase b) [Meta (SReg 1); Shard (SReg 2); Meta (SReg 0)] []) (fs0 b))
    = [(1, 1, 2); (2, 1, 2); (3, 2, 0)]%N.
Proof.
  cbv zeta. split; [split; intro; cbn; (lia || discriminate)|]. split; [|vm_compute; reflexivity].
  constructor; [reflexivity | ready_conc | perm_conc | apply Permutation_refl].
Qed.

Example C12_nonvacuous_compound_with_faults :   (* success_complete's hypotheses with a failing run: error reported *)
  let b := mkBuild false 0 [] 2 true true true in
  build_wf b /\ ff_run b (write_phase b) [Shard (SReg 1); Shard (SReg 0)] [Meta SComp; Shard SComp] /\
  finish_err b [Shard (SReg 1); Shard (SReg 0)] [Meta SComp; Shard SComp] (fun x => name_eqb x (Shard (SReg 0))) nofault TNone = true /\
  finish_err b [Shard (SReg 1); Shard (SReg 0)] [Meta SComp; Shard SComp] nofault nofault TNone = false /\
  view_codes 3 (apply_ops (run_ops b (write_phase b) [Shard (SReg 1); Shard (SReg 0)] [Meta SComp; Shard SComp]) (fs0 b))
    = [(0, 1, 2); (1, 2, 0); (2, 2, 0)]%N.
Proof.
  cbv zeta. split; [split; intro; cbn; (lia || discriminate)|]. split; [|repeat split; vm_compute; reflexivity].
  constructor; [reflexivity | ready_conc | perm_conc | perm_conc].
Qed.

Example C12_nonvacuous_faulty_run :   (* 2 old shards (one with sidecar) rebuilt as 2 shards; the rename of shard 1 fails *)
  let b := mkBuild false 2 [1] 2 false false false in
  let rf := fun x => name_eqb x (Shard (SReg 1)) in
  build_wf b /\ f_run b (write_phase b) [Shard (SReg 1); Shard (SReg 0)] [Meta (SReg 1); Shard (SReg 1)] rf /\
  (* current code: the delete loop is skipped, old shard 1 (with its sidecar) stays next to new shard 0; error reported *)
  view_codes 4 (fstate_at true b (write_phase b) [Shard (SReg 1); Shard (SReg 0)] [Meta (SReg 1); Shard (SReg 1)] rf nofault TNone 100)
    = [(1, 2, 0); (2, 1, 1)]%N /\
  finish_err b [Shard (SReg 1); Shard (SReg 0)] [Meta (SReg 1); Shard (SReg 1)] rf nofault TNone = true /\
  (* before the repair: old shard 1 was removed although its replacement was never installed *)
  view_codes 4 (fstate_at false b (write_phase b) [Shard (SReg 1); Shard (SReg 0)] [Meta (SReg 1); Shard (SReg 1)] rf nofault TNone 100)
    = [(1, 2, 0)]%N.
Proof.
  cbv zeta. split; [split; intro; cbn; (lia || discriminate)|]. split; [|repeat split; vm_compute; reflexivity].
  constructor; [reflexivity | ready_conc | perm_conc | perm_conc].
Qed.

Example C12_nonvacuous_orphans :   (* one old shard rebuilt as three; orphan sidecars wait at slots 1 and 2 *)
  let b := mkBuild false 1 [] 3 false false false in
  let ro := [Shard (SReg 2); Shard (SReg 0); Shard (SReg 1)] in
  build_wf b /\ po_ok b [1; 2] [2; 1] /\ Permutation ro (artifacts b) /\
  finish_err_o b [2; 1] nofaultn ro [] nofault nofault TNone = false /\
  view_codes 5 (fs0o b [1; 2]) = [(1, 1, 0)]%N /\
  view_codes 5 (apply_ops (write_phase b ++ finish_ops_o b [2; 1] nofaultn ro [] nofault nofault TNone) (fs0o b [1; 2]))
    = [(1, 2, 0); (2, 2, 0); (3, 2, 0)]%N /\
  (* without the removal phase shards 1 and 2 come up under the stale sidecars *)
  view_codes 5 (apply_ops (write_phase b ++ finish_ops_o_before_fix b ro [] nofault nofault TNone) (fs0o b [1; 2]))
    = [(1, 2, 0); (2, 2, 1); (3, 2, 1)]%N.
Proof.
  cbv zeta. split; [split; intro; cbn; (lia || discriminate)|].
  split; [split; intros n Hn; cbn in *; intuition lia|].
  split; [perm_conc|]. repeat split; vm_compute; reflexivity.
Qed.
