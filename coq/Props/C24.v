(** C24 - wire conversion is lossless and the gRPC service is total.
    Model: Model/Wire.v (generic interpreter of classified conversions) + Generated/ProtoFields.v
    (tables regenerated from api_proto.go / query_proto.go by translator/protofields on every run). *)
From ZV Require Import Lib.Base Lib.WireTypes Model.Wire Model.WireGen Proofs.Wire Proofs.WireGen Generated.ProtoFields.
From Coq Require Import String.

(** GENERIC: any environment (set of conversion tables + Q cases) that passes the boolean check
    [env_ok] round-trips every value of the domain of every invertible conversion pair. *)
Theorem C24_roundtrip_generic : forall E, env_ok E = true ->
  forall v ct cf, inv_ok E ct cf = true -> dom_b E ct cf v = true ->
  exists w, apply E ct v = Ok w /\ apply E cf w = Ok v.
Proof. intros E HE v ct cf. exact (roundtrip_all E HE v ct cf). Qed.
Print Assumptions C24_roundtrip_generic.

(** The tables generated from the current sources pass the check, for every regexp oracle. *)
Theorem C24_generated_tables_ok : forall rn, env_ok (gen_env rn) = true /\ from_safe (gen_env rn) = true.
Proof. intros rn. split; [apply gen_env_ok|apply gen_from_safe]. Qed.
Print Assumptions C24_generated_tables_ok.

(** Search options, search results, repository listings and all their parts: every struct type with a
    ToProto/FromProto pair survives the round trip for ALL values of its domain, except for the
    named exclusions (c24_exclusions), which come back as their zero value. *)
Theorem C24_record_roundtrip : forall rn n t fs,
  lookup n pf_tables = Some t ->
  dom_b (gen_env rn) (CRec true false n) (CRec false false n) (VR fs) = true ->
  exists w, apply (gen_env rn) (CRec true false n) (VR fs) = Ok w /\
            apply (gen_env rn) (CRec false false n) w
            = Ok (VR (mask_excl (excl_of (gen_env rn) n) (t_from t) fs)).
Proof. exact gen_record_roundtrip. Qed.
Print Assumptions C24_record_roundtrip.

(** The Go fields that FromProto does not read from the message are exactly the three named ones. *)
Theorem C24_exclusions_exact :
  flat_map (fun nt => map (fun r => (fst nt, r_dst r))
                          (filter (fun r => match r_src r with None => true | Some _ => false end) (t_from (snd nt))))
           pf_tables
  = [("zoekt.SearchOptions", "SpanContext"); ("zoekt.SearchResult", "RepoURLs"); ("zoekt.SearchResult", "LineFragments")]%string.
Proof. exact gen_unmapped_fields. Qed.
Print Assumptions C24_exclusions_exact.

(** Unset sub-messages are INSIDE the model: XFromProto(nil) of a function that reads its message only
    through the generated getters is XFromProto of the message with every field unset (getters answer
    the zero value on a nil receiver) - a value, or an error (query nodes without child), never a
    stand-in.  The entries are compared with the real functions called with nil (WNilFrom cases), and
    C24_handlers_total below covers them ([from_safe]: no entry is a panic). *)
Theorem C24_unset_message_is_empty_message : forall rn n t,
  lookup n pf_tables = Some t -> t_from_nilsafe t = true ->
  apply (gen_env rn) (CRec false false n) VNil
  = apply (gen_env rn) (CRec false false n) (zero_rec (t_to t)).
Proof. exact gen_nil_is_unset. Qed.
Print Assumptions C24_unset_message_is_empty_message.

(** Query trees of every node kind: QFromProto (QToProto q) = q. *)
Theorem C24_query_roundtrip : forall rn q,
  dom_b (gen_env rn) CQTo CQFrom q = true ->
  exists w, apply (gen_env rn) CQTo q = Ok w /\ apply (gen_env rn) CQFrom w = Ok q.
Proof. exact gen_query_roundtrip. Qed.
Print Assumptions C24_query_roundtrip.

(** ... and "every node kind" is checked against the source: each type of package query that
    implements query.Q has a QToProto case or is a named exclusion (parse-time-only kinds). *)
Theorem C24_qkinds_covered : qkinds_covered = true.
Proof. exact gen_qkinds_covered. Qed.
Print Assumptions C24_qkinds_covered.

(** The gRPC handlers - request decoding, the call of the searcher AND the encoding of its result
    (res.ToProto()) - answer every wire-decoded request, with any subset of fields set, without
    panicking, for every searcher that does not panic when it is given non-nil options and whose
    results are values of the result type's round-trip domain. *)
Theorem C24_handlers_total : forall rn search stream list,
  (forall q o w, o <> VNil -> search q o <> Panic w) ->
  (forall q o w, o <> VNil -> stream q o <> Panic w) ->
  (forall q o w, list q o <> Panic w) ->
  (forall q o r, search q o = Ok r -> res_dom (gen_env rn) "zoekt.SearchResult" r = true) ->
  (forall q o evs, stream q o = Ok (VL evs) -> forallb (res_dom (gen_env rn) "zoekt.SearchResult") evs = true) ->
  (forall q o r, list q o = Ok r -> res_dom (gen_env rn) "zoekt.RepoList" r = true) ->
  forall h req, wire_wf req = true ->
  forall w, handle (gen_env rn) search stream list handler_defaults_nil_opts h req <> Panic w.
Proof. exact gen_handlers_total. Qed.
Print Assumptions C24_handlers_total.

(** End to end: the message Search / List answers with decodes, on the client, to exactly what the
    searcher returned (the named exclusions RepoURLs / LineFragments reset). *)
Theorem C24_search_response_lossless : forall rn search,
  (forall q o w, o <> VNil -> search q o <> Panic w) ->
  (forall q o r, search q o = Ok r -> res_dom (gen_env rn) "zoekt.SearchResult" r = true) ->
  forall req resp, wire_wf req = true ->
  handle_search (gen_env rn) search handler_defaults_nil_opts req = Ok resp ->
  exists q o r, search q o = Ok r /\
    dec_result (gen_env rn) "zoekt.SearchResult" resp = Ok (res_back (gen_env rn) "zoekt.SearchResult" r).
Proof. exact gen_search_response_lossless. Qed.
Print Assumptions C24_search_response_lossless.

Theorem C24_list_response_lossless : forall rn list,
  (forall q o r, list q o = Ok r -> res_dom (gen_env rn) "zoekt.RepoList" r = true) ->
  forall req resp, wire_wf req = true ->
  handle_list (gen_env rn) list req = Ok resp ->
  exists q o r, list q o = Ok r /\
    dec_result (gen_env rn) "zoekt.RepoList" resp = Ok (res_back (gen_env rn) "zoekt.RepoList" r).
Proof. exact gen_list_response_lossless. Qed.
Print Assumptions C24_list_response_lossless.

(** the statement C24_handlers_total was false before the repairs 5dbbb25 and fe94a82 (kept as a record) *)
Theorem C24_handlers_total_refuted_before_repair :
  (exists req, wire_wf req = true /\
     handle (pre_repair_env (fun s => Some s)) ok_streamer ok_stream ok_lister false 0 req = Panic P_NIL) /\
  (exists req, wire_wf req = true /\
     handle (gen_env (fun s => Some s)) ok_streamer ok_stream ok_lister false 0 req = Panic P_NIL).
Proof.
  split.
  - exists (VR [("Query"%string, VNil); ("Opts"%string, VNil)]). split; [reflexivity|exact pre_repair_unset_query_panics].
  - exists (VR [("Query"%string, VQ "Q_Const" (VB true)); ("Opts"%string, VNil)]). split; [reflexivity|exact pre_repair_nil_opts_panics].
Qed.
Print Assumptions C24_handlers_total_refuted_before_repair.

(* ---------------------------------------------------------------- non-vacuity *)

Definition ex_rn (s : list N) : option (list N) := Some s.

Definition ex_opts : list (string * val) :=
  [("EstimateDocCount", VB false); ("Whole", VB true); ("ShardMaxMatchCount", VZ 100);
   ("TotalMaxMatchCount", VZ (-1)); ("ShardRepoMaxMatchCount", VZ 9223372036854775807);
   ("MaxWallTime", VZ (-1500000001)); ("FlushWallTime", VZ 250000000); ("MaxDocDisplayCount", VZ 10);
   ("MaxMatchDisplayCount", VZ 0); ("NumContextLines", VZ 3); ("ChunkMatches", VB true);
   ("UseBM25Scoring", VB true); ("Trace", VB false); ("DebugScore", VB true);
   ("SpanContext", VM [(VS [116%N], VS [120%N])])]%string.

(** a SearchOptions value with a negative duration and a set SpanContext is in the domain, and the
    SpanContext (only) is reset by the round trip *)
Example C24_ex_opts_in_domain :
  dom_b (gen_env ex_rn) (CRec true false "zoekt.SearchOptions") (CRec false false "zoekt.SearchOptions") (VR ex_opts) = true.
Proof. vm_compute. reflexivity. Qed.
Example C24_ex_opts_roundtrip :
  (do w <- apply (gen_env ex_rn) (CRec true false "zoekt.SearchOptions") (VR ex_opts);
   apply (gen_env ex_rn) (CRec false false "zoekt.SearchOptions") w)
  = Ok (VR (firstn 14 ex_opts ++ [("SpanContext"%string, VM [])])).
Proof. vm_compute. reflexivity. Qed.

(** every generated zoekt table has a value in its domain (the zero value of the Go struct); the
    query node tables with nil children / nil regexps in their zero value are inhabited by ex_query *)
Example C24_ex_all_tables_inhabited :
  forallb (fun nt => negb (String.prefix "zoekt." (fst nt)) || dom_b (gen_env ex_rn) (CRec true false (fst nt)) (CRec false false (fst nt))
                           (zero_rec (t_from (snd nt)))) pf_tables = true.
Proof. vm_compute. reflexivity. Qed.

Definition ex_query : val :=
  VQ "query.And" (VR [("Children", VL [
     VQ "query.Not" (VR [("Child", VQ "query.Substring" (VR [("Pattern", VS [102;111;111]%N); ("CaseSensitive", VB true); ("FileName", VB false); ("Content", VB true)]))]);
     VQ "query.Type" (VR [("Child", VQ "query.Const" (VR [("Value", VB true)])); ("Type", VZ 2)]);
     VQ "query.RawConfig" (VZ 37);
     VQ "query.FileNameSet" (VR [("Set", VL [VS [97]%N; VS [98]%N])]);
     VQ "query.Boost" (VR [("Child", VQ "query.Regexp" (VR [("Regexp", VS [97;46;42]%N); ("FileName", VB false); ("Content", VB false); ("CaseSensitive", VB false)])); ("Boost", VZ 4609434218613702656)])])])%string.

Example C24_ex_query_in_domain : dom_b (gen_env ex_rn) CQTo CQFrom ex_query = true.
Proof. vm_compute. reflexivity. Qed.

(** a Type node with an unnamed kind value is outside the domain, and indeed does not come back *)
Example C24_ex_query_outside_domain :
  let q := VQ "query.Type" (VR [("Child", VQ "query.Const" (VR [("Value", VB true)])); ("Type", VZ 7)])%string in
  dom_b (gen_env ex_rn) CQTo CQFrom q = false /\
  (do w <- apply (gen_env ex_rn) CQTo q; apply (gen_env ex_rn) CQFrom w) <> Ok q.
Proof. split; [vm_compute; reflexivity|vm_compute; discriminate]. Qed.

(** requests with unset query / childless Not / unset options are wire-well-formed and are answered *)
Example C24_ex_unset_query_is_an_error :
  handle (gen_env ex_rn) ok_streamer ok_stream ok_lister handler_defaults_nil_opts 0
         (VR [("Query", VNil); ("Opts", VNil)])%string = Err ERR_INVALID_ARGUMENT.
Proof. vm_compute. reflexivity. Qed.
Example C24_ex_childless_not_is_an_error :
  handle (gen_env ex_rn) ok_streamer ok_stream ok_lister handler_defaults_nil_opts 1
         (VR [("Request", VR [("Query", VQ "Q_Not" (VR [("Child", VNil)])); ("Opts", VNil)])])%string
  = Err ERR_INVALID_ARGUMENT.
Proof. vm_compute. reflexivity. Qed.
Example C24_ex_nil_opts_is_answered :
  handle (gen_env ex_rn) ok_streamer ok_stream ok_lister handler_defaults_nil_opts 0
         (VR [("Query", VQ "Q_Const" (VB true)); ("Opts", VNil)])%string = Ok VNil.
Proof. vm_compute. reflexivity. Qed.

(** the response side is not vacuous: a searcher returning a result with one file match and set
    RepoURLs satisfies the hypotheses, the handler answers with the encoded message, and that
    message decodes to the result with RepoURLs reset; a List handler whose searcher returned nil
    (outside the domain: RepoList.ToProto has no nil guard) would crash *)
Definition ex_file : val :=
  match lookup "zoekt.FileMatch" pf_tables with
  | Some t => VR (map (fun r => if String.eqb (r_dst r) "FileName" then (r_dst r, VS [102;46;103;111]%N) else (r_dst r, r_zero r)) (t_from t))
  | None => VNil
  end.
Definition ex_result : val :=
  match lookup "zoekt.SearchResult" pf_tables with
  | Some t => VR (map (fun r => if String.eqb (r_dst r) "Files" then (r_dst r, VL [ex_file])
                                else if String.eqb (r_dst r) "RepoURLs" then (r_dst r, VM [(VS [114%N], VS [117%N])])
                                else (r_dst r, r_zero r)) (t_from t))
  | None => VNil
  end.
Example C24_ex_result_in_domain : res_dom (gen_env ex_rn) "zoekt.SearchResult" ex_result = true.
Proof. vm_compute. reflexivity. Qed.
Example C24_ex_response_decodes_back :
  exists resp, handle (gen_env ex_rn) (fun _ _ => Ok ex_result) ok_stream ok_lister handler_defaults_nil_opts 0
                      (VR [("Query", VQ "Q_Const" (VB true)); ("Opts", VNil)])%string = Ok resp /\
               resp <> VNil /\
               dec_result (gen_env ex_rn) "zoekt.SearchResult" resp = Ok (res_back (gen_env ex_rn) "zoekt.SearchResult" ex_result) /\
               res_back (gen_env ex_rn) "zoekt.SearchResult" ex_result <> ex_result.
Proof. eexists. split; [vm_compute; reflexivity|]. split; [discriminate|]. split; [vm_compute; reflexivity|vm_compute; discriminate]. Qed.
Example C24_ex_nil_repolist_crashes :
  res_dom (gen_env ex_rn) "zoekt.RepoList" VNil = false /\
  handle (gen_env ex_rn) ok_streamer ok_stream (fun _ _ => Ok VNil) handler_defaults_nil_opts 2
         (VR [("Query", VQ "Q_Const" (VB true)); ("Opts", VNil)])%string = Panic P_NIL.
Proof. split; vm_compute; reflexivity. Qed.

(** unset sub-messages: IndexMetadataFromProto(nil).IndexTime is the Unix epoch (AsTime of a nil
    timestamp), not the zero time.Time; a ChunkMatch without ContentStart gets the zero Location; a
    Not node without child is an error; a guarded function returns nil *)
Example C24_ex_nil_index_metadata :
  exists fs, nil_from (gen_env ex_rn) "zoekt.IndexMetadata" = Ok (VR fs) /\
             lookup "IndexTime" fs = Some (VTime 0 0) /\
             lookup "IndexTime" (match zero_rec (t_from pf_zoekt_IndexMetadata) with VR z => z | _ => [] end)
             = Some (VTime (-62135596800) 0).
Proof. eexists. split; [vm_compute; reflexivity|]. split; vm_compute; reflexivity. Qed.
Example C24_ex_unset_content_start :
  let m := VR [("Content", VS [120%N]); ("ContentStart", VNil); ("FileName", VB true); ("Ranges", VL []);
               ("SymbolInfo", VL []); ("Score", VZ 0); ("DebugScore", VS []); ("BestLineMatch", VZ 7)]%string in
  exists fs, apply (gen_env ex_rn) (CRec false false "zoekt.ChunkMatch") m = Ok (VR fs) /\
             lookup "ContentStart" fs = Some (VR [("ByteOffset", VZ 0); ("LineNumber", VZ 0); ("Column", VZ 0)])%string.
Proof. eexists. split; vm_compute; reflexivity. Qed.
Example C24_ex_nil_not_is_an_error_and_guarded_is_nil :
  nil_from (gen_env ex_rn) "query.Not" = Err ERR_QUERY /\
  nil_from (gen_env ex_rn) "zoekt.RepoListEntry" = Ok VNil /\
  t_from_nilsafe pf_zoekt_IndexMetadata = true.
Proof. repeat split; vm_compute; reflexivity. Qed.
