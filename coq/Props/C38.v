(** C38 — Incremental indexing skips only up-to-date repositories.

    Model: Model/Incremental.v (Options.GetHash/HashOptions, Options.IndexState, IncrementalSkipIndexing,
    Repository.MergeMutable, the repository record a build stores). The hash program [hash_prog] (every write of
    GetHash into the hasher: field, format, if-guard, and HOW the value is written), [options_fields],
    [read_versions], [int_defaults] are GENERATED from the checked tree on every run
    (Generated/HashFields.v, translator/hashfields).

    What GetHash hashes is modelled as the ORDERED list of its write tokens (format + values; a slice such as
    LargeFiles element by element in slice order — its order is significant: Options.IgnoreSizeMax lets the LAST matching
    pattern win; a map such as LanguageMap entry by entry in key order — a Go map has no order, [VMap] keeps it sorted).
    The hash of that token list is abstract: [H]; every theorem that needs it assumes [H] injective (SHA-1
    collision-freeness + unambiguous concatenation of the formatted writes) — an explicit hypothesis, not an axiom.
    That equal token lists force equal effective values of every hashed field is PROVED (Proofs/Incremental.v:
    get_hash_eq_fields) for any program passing the boolean check [prog_ok], which is evaluated on the generated
    program below ([hash_prog_ok]): it fails as soon as a write is not of a recognised value-preserving form
    (e.g. a sorted / de-duplicated / lower-cased copy of a list is hashed, or a map is ranged in random order).

    [eff o f] below is the value of option [f] as the builder uses it: TrigramMax 0 means the SetDefaults default. *)
From ZV Require Import Lib.Base Model.HashProg Model.Incremental Proofs.Incremental Generated.HashFields.
From ZV Require Import Model.HashBytes Proofs.HashBytes Proofs.HashBytesProg.
From Coq Require Import String.
Open Scope string_scope.

(** ---- Specification: which fields of index.Options change WHAT gets written into the index (justification:
    the place in /repo where the field decides about indexed content).
      SizeMax           Builder.Add: `len(doc.Content) > b.opts.SizeMax && !allowLargeFile` => SkipReasonTooLarge, content dropped
      TrigramMax        Builder.Add: docChecker.Check(doc.Content, b.opts.TrigramMax, ..) => SkipReasonTooManyTrigrams, content dropped
      LargeFiles        Options.IgnoreSizeMax(name): exempts matching paths from both limits above
      DisableCTags      Builder.buildShard: parseSymbols only if !DisableCTags; newShardBuilder: HasSymbols
      CTagsPath         NewBuilder: ctags.NewParserBinMap(CTagsPath, ..) — the universal-ctags binary producing the symbols
      ScipCTagsPath     NewBuilder: ctags.NewParserBinMap(.., ScipCTagsPath, ..) — the scip-ctags binary producing the symbols
      CTagsMustSucceed  buildShard: a ctags failure aborts the build instead of writing a shard without symbols
      LanguageMap       parseSymbols: languageMap[language] selects no / universal / scip ctags per document *)
Definition content_affecting : list string :=
  ["SizeMax"; "TrigramMax"; "LargeFiles"; "DisableCTags"; "CTagsPath"; "ScipCTagsPath"; "CTagsMustSucceed"; "LanguageMap"].

(** ... and which do not:
      IndexDir, ShardPrefixOverride   where the index is looked up / written (a change is a different index: state missing)
      Parallelism, ShardMax           how documents are split over shards and built; results do not depend on it (property C10)
      RepositoryDescription           compared field by field by IndexState (branches, MergeMutable) — modelled as [desc]
      SubRepositories                 derived by the caller from the branch versions (gitindex: submodules of the indexed commits)
      IsDelta, changedOrRemovedFiles  build mode of THIS run (delta builds re-check hash and branches in Finish)
      ShardMerging                    how Finish retires old compound shards (tombstone instead of delete)
      HeapProfileTriggerBytes         debugging aid *)
Definition not_content_affecting : list string :=
  ["IndexDir"; "ShardPrefixOverride"; "Parallelism"; "ShardMax"; "RepositoryDescription"; "SubRepositories";
   "IsDelta"; "changedOrRemovedFiles"; "ShardMerging"; "HeapProfileTriggerBytes"].

(** Every field of the CURRENT struct index.Options is classified (a newly added field breaks this until it is
    classified here — and, if content-affecting, C38_skip_sound below until it is hashed). *)
Theorem C38_every_option_classified :
  forall f, In f options_fields -> In f content_affecting \/ In f not_content_affecting.
Proof.
  intros f Hf. apply in_app_or.
  assert (incl options_fields (content_affecting ++ not_content_affecting)) as Hi
    by (apply forallb_existsb_incl; vm_compute; reflexivity).
  exact (Hi f Hf).
Qed.
Print Assumptions C38_every_option_classified.

Lemma content_affecting_hashed : incl content_affecting hashed_fields.
Proof. apply forallb_existsb_incl. vm_compute. reflexivity. Qed.

(** The generated hash program writes every field in a recognised, value-preserving form (no FUnknown / GUnknown,
    no unrecognised statement in GetHash), the "off" values of every guard are one effective value, and the writes
    of different items cannot be confused. *)
Lemma hash_prog_ok : prog_ok normed_fields int_defaults hash_prog hash_prog_unrecognised = true.
Proof. vm_compute. reflexivity. Qed.

Section WithHash.
  Variable hashT : Type.
  Variable heqb : hashT -> hashT -> bool.
  Hypothesis heqb_spec : forall a b, heqb a b = true <-> a = b.
  Variable H : list token -> hashT.
  Hypothesis H_inj : forall a b, H a = H b -> a = b.

  Definition get_hash' := get_hash hashT H hash_prog.
  Definition eff (o : opts) (f : string) : option val := option_map (norm normed_fields int_defaults f) (Incremental.get o f).
  Definition state (o2 : opts) (d : disk hashT) (desc : repo hashT) : istate :=
    index_state_with hashT heqb read_versions (get_hash' o2) d desc.
  (** every live record of the requested name in the shard was written by a build with options [o1] *)
  Definition built_with' repos desc o1 := built_with hashT H hash_prog repos desc o1.

  Lemma skip_sound o1 o2 fmt feat repos desc :
    built_with' repos desc o1 ->
    state o2 (DShard fmt feat repos) desc = SEqual \/ state o2 (DShard fmt feat repos) desc = SMeta ->
    forall f, In f content_affecting -> eff o1 f = eff o2 f.
  Proof.
    intros Hb Hs f Hf.
    exact (no_reindex_sound hashT heqb heqb_spec H H_inj read_versions normed_fields int_defaults hash_prog
             hash_prog_unrecognised hash_prog_ok o1 o2 fmt feat repos desc Hb Hs f (content_affecting_hashed f Hf)).
  Qed.
End WithHash.

(** (1) SOUNDNESS OF SKIPPING. If IndexState answers "equal" (IncrementalSkipIndexing: skip) — or "meta-mismatch"
    (metadata rewritten, no re-index) — for requested options [o2], against an index whose records for that
    repository were written by a build with options [o1], then every content-affecting option has the same
    effective value in [o1] and [o2]. For ALL option sets, descriptions and shard contents. *)
Theorem C38_skip_sound :
  forall (hashT : Type) (heqb : hashT -> hashT -> bool) (H : list token -> hashT),
    (forall a b, heqb a b = true <-> a = b) -> (forall a b, H a = H b -> a = b) ->
  forall o1 o2 fmt feat repos desc,
    built_with' hashT H repos desc o1 ->
    state hashT heqb H o2 (DShard fmt feat repos) desc = SEqual \/ state hashT heqb H o2 (DShard fmt feat repos) desc = SMeta ->
    forall f, In f content_affecting -> eff o1 f = eff o2 f.
Proof. intros hashT heqb H Hs Hi. exact (skip_sound hashT heqb Hs H Hi). Qed.
Print Assumptions C38_skip_sound.

(** (2) Contrapositive, as the property states it: changing any content-affecting option causes a re-index
    (the state is neither equal nor meta-mismatch). *)
Theorem C38_changed_option_reindexes :
  forall (hashT : Type) (heqb : hashT -> hashT -> bool) (H : list token -> hashT),
    (forall a b, heqb a b = true <-> a = b) -> (forall a b, H a = H b -> a = b) ->
  forall o1 o2 fmt feat repos desc f,
    built_with' hashT H repos desc o1 -> In f content_affecting -> eff o1 f <> eff o2 f ->
    state hashT heqb H o2 (DShard fmt feat repos) desc <> SEqual /\ state hashT heqb H o2 (DShard fmt feat repos) desc <> SMeta.
Proof.
  intros hashT heqb H Hs Hi o1 o2 fmt feat repos desc f Hb Hf Hne.
  exact (hashed_change_reindexes hashT heqb Hs H Hi read_versions normed_fields int_defaults hash_prog
           hash_prog_unrecognised hash_prog_ok o1 o2 fmt feat repos desc f Hb (content_affecting_hashed f Hf) Hne).
Qed.
Print Assumptions C38_changed_option_reindexes.

(** (3) Changing the branches (set, order, any version, nil vs empty) causes a re-index, whatever the hash. *)
Theorem C38_changed_branches_reindex :
  forall (hashT : Type) (heqb : hashT -> hashT -> bool), (forall a b, heqb a b = true <-> a = b) ->
  forall h fmt feat repos desc r,
    found hashT repos desc = Some r -> r_branches r <> r_branches desc ->
    index_state_with hashT heqb read_versions h (DShard fmt feat repos) desc <> SEqual /\
    index_state_with hashT heqb read_versions h (DShard fmt feat repos) desc <> SMeta.
Proof. intros hashT heqb Hs h fmt feat repos desc r. exact (state_branches_changed hashT heqb Hs read_versions h fmt feat repos desc r). Qed.
Print Assumptions C38_changed_branches_reindex.

(** (4) What "equal"/"meta-mismatch" guarantee about the index on disk: a readable shard of a supported version pair,
    containing a live record of the requested name with the requested hash, the same ID, name and branches
    (names AND versions, in order); for "equal" also every mutable field already as requested. *)
Theorem C38_no_reindex_means_same_branches_versions :
  forall (hashT : Type) (heqb : hashT -> hashT -> bool), (forall a b, heqb a b = true <-> a = b) ->
  forall h d desc,
    let s := index_state_with hashT heqb read_versions h d desc in
    s = SEqual \/ s = SMeta ->
    exists fmt feat repos r,
      d = DShard fmt feat repos /\ version_mismatch read_versions fmt feat = false /\ found hashT repos desc = Some r /\
      r_hash r = h /\ immutable_agree r desc /\ (s = SEqual -> mutable_agree r desc).
Proof. intros hashT heqb Hs h d desc. exact (state_no_reindex_inv hashT heqb Hs read_versions h d desc). Qed.
Print Assumptions C38_no_reindex_means_same_branches_versions.

(** (5) Metadata-only changes are applied without a re-index: same hash, ID, name and branches => the state is
    equal or meta-mismatch, and it is equal exactly when no mutable field (URL, templates, RawConfig entries
    other than name/id) differs. *)
Theorem C38_metadata_only_no_reindex :
  forall (hashT : Type) (heqb : hashT -> hashT -> bool), (forall a b, heqb a b = true <-> a = b) ->
  forall h fmt feat repos desc r,
    version_mismatch read_versions fmt feat = false -> found hashT repos desc = Some r ->
    r_hash r = h -> immutable_agree r desc ->
    let s := index_state_with hashT heqb read_versions h (DShard fmt feat repos) desc in
    (s = SEqual \/ s = SMeta) /\ (s = SEqual <-> mutable_agree r desc).
Proof. intros hashT heqb Hs h fmt feat repos desc r. exact (state_metadata_only hashT heqb Hs read_versions h fmt feat repos desc r). Qed.
Print Assumptions C38_metadata_only_no_reindex.

(** (6) The reduction is tight: an option that does NOT reach the hash is not protected — for any two values there
    are option sets differing exactly there for which a fresh index (current format/feature version) is "equal".
    (This is how TrigramMax / ScipCTagsPath / LanguageMap were skipped before the fix of /repo.) *)
Theorem C38_unhashed_option_not_protected :
  forall (hashT : Type) (heqb : hashT -> hashT -> bool) (H : list token -> hashT),
    (forall a b, heqb a b = true <-> a = b) ->
  forall f v1 v2, ~ In f hashed_fields -> v1 <> v2 ->
    exists o1 o2 desc, Incremental.get o1 f = Some v1 /\ Incremental.get o2 f = Some v2 /\
      state hashT heqb H o2 (build_disk hashT H hash_prog index_format_version feature_version o1 desc) desc = SEqual.
Proof.
  intros hashT heqb H Hs f v1 v2 Hn Hne.
  apply (unhashed_field_not_protected hashT heqb Hs H read_versions hash_prog f v1 v2); auto.
Qed.
Print Assumptions C38_unhashed_option_not_protected.

(** (7) LIST-VALUED OPTIONS: "equal"/"meta-mismatch" imply the LargeFiles pattern LISTS are equal — same patterns in the
    same order (the order decides which pattern wins in IgnoreSizeMax) — and the LanguageMap maps are equal. *)
Theorem C38_skip_sound_lists :
  forall (hashT : Type) (heqb : hashT -> hashT -> bool) (H : list token -> hashT),
    (forall a b, heqb a b = true <-> a = b) -> (forall a b, H a = H b -> a = b) ->
  forall o1 o2 fmt feat repos desc,
    built_with' hashT H repos desc o1 ->
    state hashT heqb H o2 (DShard fmt feat repos) desc = SEqual \/ state hashT heqb H o2 (DShard fmt feat repos) desc = SMeta ->
    Incremental.get o1 "LargeFiles" = Incremental.get o2 "LargeFiles" /\
    Incremental.get o1 "LanguageMap" = Incremental.get o2 "LanguageMap".
Proof.
  intros hashT heqb H Hs Hi o1 o2 fmt feat repos desc Hb Hst.
  pose proof (skip_sound hashT heqb Hs H Hi o1 o2 fmt feat repos desc Hb Hst) as Hf.
  assert (forall f o, in_strs f normed_fields = false -> eff o f = Incremental.get o f) as Hid.
  { intros f o Hn. unfold eff. destruct (Incremental.get o f) as [v|]; [|reflexivity]. simpl.
    rewrite norm_not_normed by exact Hn. reflexivity. }
  split.
  - rewrite <- !(Hid "LargeFiles") by (vm_compute; reflexivity). apply Hf. vm_compute. tauto.
  - rewrite <- !(Hid "LanguageMap") by (vm_compute; reflexivity). apply Hf. vm_compute. tauto.
Qed.
Print Assumptions C38_skip_sound_lists.

(** (8) DOWN TO THE BYTES. The hash is SHA-1 of the bytes GetHash writes: [sha (render_all qbody tokens)], where
    [render_all] renders the generated write tokens as fmt.Appendf does (raw, %t, %d, %q of a string and of a []string,
    literal text of the format strings; Model/HashBytes.v). The concatenated encoding itself is PROVED injective
    (Proofs/HashBytes.v: enc_inj — it starts with an unterminated raw string, so the proof determines every component
    from the right end), for the program generated from the checked tree (Proofs/HashBytesProg.v: hash_bytes_enc).
    Remaining hypotheses: SHA-1 is collision-free, and two facts about strconv.Quote (its output is a double quote, a body
    [qbody s], a double quote): it is injective, and a double quote inside the body is always preceded by a backslash.
    "_partial": strconv.Quote itself is not modelled, and option sets are the typed records [hopts] (every hashed
    field present with its Go type), not arbitrary association lists. *)
Theorem C38_skip_sound_bytes_partial :
  forall (hashT : Type) (heqb : hashT -> hashT -> bool) (sha : option bytes -> hashT) (qbody : str -> bytes),
    (forall a b, heqb a b = true <-> a = b) ->
    (forall a b, sha a = sha b -> a = b) ->
    (forall a b, qbody a = qbody b -> a = b) ->
    (forall s pre post, qbody s = (pre ++ 34%N :: post)%list -> exists pre', pre = (pre' ++ [92%N])%list) ->
  forall r1 r2 fmt feat repos desc,
    built_with' hashT (fun ts => sha (render_all qbody ts)) repos desc (to_opts r1) ->
    state hashT heqb (fun ts => sha (render_all qbody ts)) (to_opts r2) (DShard fmt feat repos) desc = SEqual \/
    state hashT heqb (fun ts => sha (render_all qbody ts)) (to_opts r2) (DShard fmt feat repos) desc = SMeta ->
    forall f, In f content_affecting -> eff (to_opts r1) f = eff (to_opts r2) f.
Proof.
  intros hashT heqb sha qbody Hs Hsha Hqi Hqe r1 r2 fmt feat repos desc Hb Hst f Hf.
  destruct (state_no_reindex_inv hashT heqb Hs read_versions _ _ _ Hst)
    as (f1 & f2 & rs & r & Hd & _ & Hfd & Hh & _ & _).
  inversion Hd. subst rs f1 f2. destruct (found_some _ _ _ _ Hfd) as (Hin & _ & Hn).
  rewrite (Hb r Hin Hn) in Hh. unfold get_hash', Incremental.get_hash in Hh. apply Hsha in Hh.
  apply (hash_bytes_inj qbody Hqi Hqe) in Hh.
  exact (get_hash_eq_fields (list token) (fun x => x) (fun a b E => E) normed_fields int_defaults hash_prog
           hash_prog_unrecognised hash_prog_ok (to_opts r1) (to_opts r2) Hh f (content_affecting_hashed f Hf)).
Qed.
Print Assumptions C38_skip_sound_bytes_partial.

(** ---- Non-vacuity. Concrete hash: the token list itself (H = identity, injective). *)
Definition xH := fun l : list token => l.
Definition xstate := state (list token) id_hash_eqb xH.
Definition xdesc (ver url : str) : repo (list token) :=
  mkRepo 7%N [114]%N (Some [([72]%N, ver)]) None url [] [] [] [] false.
Definition xopts_l (tm : Z) (scip : str) (lf : list str) : opts :=
  [("SizeMax", VInt 1000); ("TrigramMax", VInt tm); ("LargeFiles", VStrs lf); ("DisableCTags", VBool false);
   ("CTagsPath", VStr [99]%N); ("ScipCTagsPath", VStr scip); ("CTagsMustSucceed", VBool false); ("LanguageMap", VMap [])].
Definition xopts (tm : Z) (scip : str) : opts := xopts_l tm scip [].
Definition xdisk (o : opts) (ver url : str) :=
  build_disk (list token) xH hash_prog index_format_version feature_version o (xdesc ver url).

(* the hypotheses of C38_skip_sound are satisfiable with the state really "equal": same options, TrigramMax 0 = default *)
Example C38_nonvacuous_equal :
  xstate (xopts 0 []) (xdisk (xopts 20000 []) [49]%N []) (xdesc [49]%N []) = SEqual
  /\ built_with' (list token) xH [build_record (list token) xH hash_prog (xopts 20000 []) (xdesc [49]%N [])] (xdesc [49]%N []) (xopts 20000 []).
Proof. split; [vm_compute; reflexivity|]. intros r [<-|[]] _. reflexivity. Qed.
(* changed TrigramMax / ScipCTagsPath: option-mismatch; changed branch version: content-mismatch; changed URL: meta-mismatch *)
Example C38_nonvacuous_states :
  xstate (xopts 50 []) (xdisk (xopts 20000 []) [49]%N []) (xdesc [49]%N []) = SOption /\
  xstate (xopts 20000 [115]%N) (xdisk (xopts 20000 []) [49]%N []) (xdesc [49]%N []) = SOption /\
  xstate (xopts 20000 []) (xdisk (xopts 20000 []) [49]%N []) (xdesc [50]%N []) = SContent /\
  xstate (xopts 20000 []) (xdisk (xopts 20000 []) [49]%N []) (xdesc [49]%N [104]%N) = SMeta /\
  eff (xopts 50 []) "TrigramMax" <> eff (xopts 20000 []) "TrigramMax" /\
  eff (xopts 0 []) "TrigramMax" = eff (xopts 20000 []) "TrigramMax".
Proof. vm_compute. repeat split; try reflexivity. discriminate. Qed.
(* the ORDER of LargeFiles is hashed: the same two patterns ("a", "!a") in the other order are an option-mismatch,
   in the same order "equal" *)
Example C38_nonvacuous_largefiles_order :
  xstate (xopts_l 20000 [] [[33; 97]; [97]]%N) (xdisk (xopts_l 20000 [] [[97]; [33; 97]]%N) [49]%N []) (xdesc [49]%N []) = SOption /\
  xstate (xopts_l 20000 [] [[97]; [33; 97]]%N) (xdisk (xopts_l 20000 [] [[97]; [33; 97]]%N) [49]%N []) (xdesc [49]%N []) = SEqual.
Proof. vm_compute. split; reflexivity. Qed.
(* (6) is not vacuous: there are fields outside the hash (e.g. Parallelism) *)
Example C38_nonvacuous_unhashed : ~ In "Parallelism" hashed_fields /\ In "Parallelism" options_fields.
Proof. split; [|vm_compute; tauto]. vm_compute. intros Hin. repeat (destruct Hin as [Hin|Hin]; [discriminate Hin|]). exact Hin. Qed.

(* (8) is not vacuous: a quoting function satisfying both hypotheses exists (every byte doubled after a backslash —
   not Go's, but it shows the hypotheses are consistent), and the rendered bytes of a concrete option record are as Go
   prints them: CTagsPath "ct", true, 1000, ["a" "b"], false, trigramMax=50, scipCTagsPath="s", languageMap="go":3 *)
Definition xqbody (s : str) : bytes := flat_map (fun c => [92%N; c]) s.
Example C38_nonvacuous_quote_hyps :
  (forall a b, xqbody a = xqbody b -> a = b) /\
  (forall s pre post, xqbody s = (pre ++ 34%N :: post)%list -> exists pre', pre = (pre' ++ [92%N])%list).
Proof.
  split.
  - intros a. induction a as [|x a IH]; intros [|y b] E; simpl in E; try discriminate; [reflexivity|].
    injection E as Hx E. f_equal; auto.
  - intros s. induction s as [|x s IH]; intros pre post E; simpl in E.
    + destruct pre; discriminate E.
    + destruct pre as [|p0 [|p1 pre]]; simpl in E.
      * discriminate E.
      * injection E as E0 E1. subst p0. exists []. reflexivity.
      * injection E as E0 E1 E. subst p0 p1. destruct (IH _ _ E) as [pre' ->]. exists (92%N :: x :: pre'). reflexivity.
Qed.
Example C38_nonvacuous_bytes :
  hash_bytes (fun s => s) hash_prog
    (to_opts (mkHopts [99; 116]%N true 1000 [[97]; [98]]%N false 50 [115]%N [([103; 111]%N, 3%N)])) =
  Some (bytes_of_string "cttrue1000[""a"" ""b""]falsetrigramMax=50scipCTagsPath=""s""languageMap=""go"":3").
Proof. vm_compute. reflexivity. Qed.
